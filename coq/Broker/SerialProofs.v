(* Broker/SerialProofs.v — freshness of broker-side call serials over whole histories.

   The broker routes an owner's CallFunctionReply by the broker-side serial alone
   (broker.rs call_function_reply: function_calls.entry(req.serial)), so "a duplicate or late
   reply is never delivered" rests on the allocator SerialMap::insert not handing the serial of
   a completed call to a later call.  Broker/Model.v models the allocator ([sm_probe],
   [sm_choice], [pick_serial]); Broker/SerialAlloc.v has its local properties.  Here:

   - [step_alloc]: a step changes [next] and adds a key to [calls] only by an allocation, i.e.
     in the step that handles a call request reaching function_calls.insert ([allocates]);
   - [allocs]: the allocations of a history (serial, number of probes), [advanced] their total
     number of probes = how often [next] was advanced;
   - [serial_fresh]: while [next] has been advanced at most 2^32 times in total, the serials
     handed out along a legal history from [init] are pairwise distinct;
   - [duplicate_never_delivered_run]: hence once the call with broker serial b is forgotten, a
     CallFunctionReply b from anyone at any later point of such a history does nothing;
   - [resetting_allocator_reuses]: an allocator that restarts from 0 whenever no call is pending
     (seeded defect C02-b) hands serial 0 to two successive calls. *)
From stdpp Require Import gmap list.
From RecordUpdate Require Import RecordSet.
Import RecordSetNotations.
From Aldrin Require Import gen.BrokerConsts Broker.Model Broker.Run Broker.OutKinds Broker.EventProofs
  Broker.CallProofs Broker.CallInvProofs Broker.Inv Broker.InvProofsStep Broker.SerialAlloc Props.C11_lemmas.
From Coq Require Import Lia ZifyBool ZifyNat ZifyN.
Local Open Scope N_scope.
Ltac Zify.zify_post_hook ::= Z.div_mod_to_equations.

(* ---------------------------------------------------------------- which steps allocate *)
(* call_function_impl reaches function_calls.insert iff the caller is connected, the service
   cookie is known and the service's object has an owner (the three early exits before it) *)
Definition reaches_insert (s : state) (c : conn) (sc : uuid) : bool :=
  match conns s !! c, svc_by_cookie s sc with
  | Some _, Some (k, _) => bool_decide (is_Some (owner_of_svc s k))
  | _, _ => false
  end.

(* the event is a call request that is handled by call_function_impl up to the insert:
   CallFunction always, CallFunction2 from a connection of version >= MIN_CALL_FUNCTION2 *)
Definition allocates (s : state) (e : event) : bool :=
  match e with
  | Message c (CallFunction _ sc _ _) => reaches_insert s c sc
  | Message c (CallFunction2 _ sc _ _ _) =>
      match conns s !! c with
      | Some cs => negb (cs_ver cs <? MIN_CALL_FUNCTION2) && reaches_insert s c sc
      | None => false
      end
  | _ => false
  end.

(* the allocations of a history in order: (serial handed out, number of iterations of the loop
   of SerialMap::insert = number of times [next] was advanced) *)
Fixpoint allocs (s : state) (h : list input) : list (N * N) :=
  match h with
  | [] => []
  | i :: rest =>
      (if allocates s (i_ev i)
       then match sm_choice s with Some (b, _) => [(b, sm_advance s)] | None => [] end
       else []) ++
      match step s (i_ev i) (i_fresh i) (i_bserial i) with
      | Done (s', _) | Fail (s', _) => allocs s' rest
      | Panic _ => []
      end
  end.
Definition serials (s : state) (h : list input) : list N := (allocs s h).*1.
Definition advanced (s : state) (h : list input) : N := foldr (fun p a => p.2 + a) 0 (allocs s h).

(* ---------------------------------------------------------------- the frame: next and dom calls *)
Definition NX (n : N) (D : N -> Prop) (m : M) : Prop :=
  next (ms m) = n /\ forall b, is_Some (calls (ms m) !! b) -> D b.

Lemma NX_delete n D m b1 m' :
  next (ms m') = next (ms m) -> calls (ms m') = delete b1 (calls (ms m)) -> NX n D m -> NX n D m'.
Proof.
  intros Hn Hs [H1 H2]. split; [congruence|]. intros b. rewrite Hs. intros Hb. apply H2.
  apply lookup_delete_is_Some in Hb. tauto.
Qed.

Lemma NX_abort n D m b1 cl1 cl2 m' :
  calls (ms m) !! b1 = Some cl1 -> next (ms m') = next (ms m) ->
  calls (ms m') = <[b1 := cl2]> (calls (ms m)) -> NX n D m -> NX n D m'.
Proof.
  intros Hc Hn Hs [H1 H2]. split; [congruence|]. intros b. rewrite Hs. intros Hb. apply H2.
  apply lookup_insert_is_Some in Hb as [<-|[_ Hb]]; eauto.
Qed.

Ltac leaf_nx :=
  idtac;
  first
    [ match goal with H : NX ?n ?D ?m |- NX ?n ?D _ => exact H end
    | match goal with |- NX ?n ?D (set mo _ ?x) => change (NX n D x); leaf_nx end
    | match goal with |- NX ?n ?D (push_remove ?x _ _) => change (NX n D x); leaf_nx end
    | match goal with |- NX ?n ?D (set _ _ ?x) => eapply (NX_abort n D x); [eassumption|reflexivity|reflexivity|leaf_nx] end
    | match goal with |- NX ?n ?D (set _ _ ?x) => eapply (NX_delete n D x); [reflexivity|reflexivity|leaf_nx] end
    | match goal with |- ?P (set _ _ ?x) => change (P x) end ].

Section NXTraversal.
  Context (n : N) (D : N -> Prop).
  Local Notation P := (NX n D).

  Lemma remove_end_nx m c e : P m -> oprop P (remove_end m c e).
  Proof. intros H. unfold remove_end. repeat prop_step leaf_nx. Qed.
  Lemma remove_service_nx m c : P m -> oprop P (remove_service m c).
  Proof. intros H. unfold remove_service. repeat prop_step leaf_nx. Qed.
  Lemma remove_object_nx m c : P m -> oprop P (remove_object m c).
  Proof.
    intros H. unfold remove_object.
    repeat first [ match goal with |- oprop _ (remove_service _ _) => apply remove_service_nx end
                 | prop_step leaf_nx ]; assumption.
  Qed.
  Lemma remove_listener_nx m c : P m -> P (remove_listener m c).
  Proof. intros H. unfold remove_listener. destruct (listeners (ms m) !! c); exact H. Qed.
  Lemma bus_nx m ev : P m -> oprop P (bus m ev).
  Proof. intros H. unfold bus. repeat prop_step leaf_nx. Qed.
  Lemma abort_call_nx m b1 callee : P m -> oprop P (abort_call m b1 callee).
  Proof. intros H. unfold abort_call. repeat prop_step leaf_nx. Qed.

  Lemma shutdown_conn_nx m c sd : P m -> oprop P (shutdown_conn m c sd).
  Proof.
    intros H. unfold shutdown_conn. destruct (conns (ms m) !! c) as [cs|] eqn:Hc; [|exact H].
    set (m1 := if sd && cs_alive cs then _ else _).
    assert (H1 : P m1) by (subst m1; destruct (sd && cs_alive cs); exact H).
    clearbody m1.
    repeat first
      [ match goal with
        | |- oprop _ (remove_object _ _) => apply remove_object_nx
        | |- oprop _ (remove_end _ _ _) => apply remove_end_nx
        | |- NX _ _ (remove_listener _ _) => apply remove_listener_nx
        end
      | prop_step leaf_nx ]; assumption.
  Qed.

  Lemma settle_one_nx m r : P m -> settle_one m = Some r -> oprop P r.
  Proof.
    intros H. unfold settle_one.
    repeat match goal with
           | |- match ?l with [] => _ | _ :: _ => _ end = Some _ -> _ => destruct l as [|? ?]
           | |- (let '(_, _) := ?p in _) = Some _ -> _ => destruct p
           end; try discriminate; intros [= <-];
      repeat first
        [ match goal with
          | |- oprop _ (shutdown_conn _ _ _) => apply shutdown_conn_nx
          | |- oprop _ (abort_call _ _ _) => apply abort_call_nx
          | |- oprop _ (bus _ _) => apply bus_nx
          end
        | prop_step leaf_nx ]; try exact H.
  Qed.
End NXTraversal.

Ltac hn_step :=
  first
    [ match goal with
      | |- oprop _ (remove_object _ _) => apply remove_object_nx
      | |- oprop _ (remove_service _ _) => apply remove_service_nx
      | |- oprop _ (remove_end _ _ _) => apply remove_end_nx
      | |- NX _ _ (remove_listener _ _) => apply remove_listener_nx
      end
    | prop_step leaf_nx ].

(* every handler other than the two call requests leaves [next] alone and adds no call *)
Lemma handle_nx n D m c x f bs :
  (match x with CallFunction _ _ _ _ | CallFunction2 _ _ _ _ _ => False | _ => True end) ->
  NX n D m -> oprop (NX n D) (handle m c x f bs).
Proof.
  intros Hx H. unfold handle. destruct (conns (ms m) !! c) as [cs|] eqn:Hc; [|exact H].
  destruct x; try contradiction; clear Hx;
    unfold gate, ver_of, create_service_impl; cbv zeta beta; try (rewrite Hc; cbn [fmap option_fmap option_map]);
    try (solve [repeat hn_step; try assumption]).
  match goal with |- context [chans (ms m) !! ?k] => destruct (chans (ms m) !! k) as [ch|] end;
    [|repeat hn_step; assumption].
  match goal with |- context [chan_claim ch c ?e] => destruct (chan_claim ch c e) as [r|ch' other r|site] end;
    [repeat hn_step; assumption| |exact I].
  match goal with |- context [send ?mm c ?x None] => destruct (send mm c x None) as [m2|m2|] eqn:Es end; [| |exact I].
  - apply send_Done in Es as [-> _]. repeat hn_step; assumption.
  - apply send_Fail in Es as [-> _]. apply oprop_refail. repeat hn_step; assumption.
Qed.

(* a call request that does not reach the insert *)
Lemma call_impl_nx_no n D m c serial sc fn fver v bs :
  reaches_insert (ms m) c sc = false -> NX n D m -> oprop (NX n D) (call_impl m c serial sc fn fver v bs).
Proof.
  intros Hr H. unfold call_impl, reaches_insert in *.
  destruct (svc_by_cookie (ms m) sc) as [[k sv]|]; [|apply oprop_send; exact H].
  destruct (conns (ms m) !! c) as [cs|] eqn:Hc.
  - destruct (owner_of_svc (ms m) k) as [callee|]; [|exact I].
    rewrite bool_decide_eq_true_2 in Hr by eauto. discriminate.
  - destruct (owner_of_svc (ms m) k) as [callee|]; [exact H|exact I].
Qed.

(* a call request that reaches it: [next] becomes what the allocator says, and the only new key
   of [calls] is the allocated serial — on every path (duplicate caller serial: the record is
   not stored at all; dead callee: it is stored) *)
Lemma call_impl_nx_alloc D m c serial sc fn fver v bs b nxt :
  reaches_insert (ms m) c sc = true -> pick_serial (ms m) bs = Some (b, nxt) -> NX (next (ms m)) D m ->
  oprop (NX nxt (fun x => D x \/ x = b)) (call_impl m c serial sc fn fver v bs).
Proof.
  intros Hr Hp [_ H]. unfold call_impl, reaches_insert in *.
  destruct (conns (ms m) !! c) as [cs|] eqn:Hc; [|discriminate].
  destruct (svc_by_cookie (ms m) sc) as [[k sv]|]; [|discriminate].
  destruct (owner_of_svc (ms m) k) as [callee|]; [|exact I].
  rewrite Hp.
  destruct (bool_decide (is_Some (cs_calls cs !! serial))).
  { split; [reflexivity|]. intros x Hx. left. apply H. exact Hx. }
  cbn [ms set]. destruct (svcs _ !! k) as [sv'|]; [|exact I].
  destruct (conns _ !! callee) as [ccs|]; [|exact I].
  match goal with |- context [send_or_remove ?mm _ _ _] => assert (H1 : NX nxt (fun x => D x \/ x = b) mm) end.
  { split; [reflexivity|]. intros x Hx. cbn in Hx. apply lookup_insert_is_Some in Hx as [<-|[_ Hx]]; auto. }
  destruct (MIN_CALL_FUNCTION2_OUT <=? cs_ver ccs); apply oprop_send_or_remove; exact H1.
Qed.

(* ---------------------------------------------------------------- one step *)
(* no invariant and no legality needed: an allocating step that is Done has got a serial from
   [pick_serial]; [next] is then the allocator's and the only new broker serial is that one; a
   step that does not allocate leaves [next] alone and adds no broker serial *)
Theorem step_alloc s e f bs s' o :
  step s e f bs = Done (s', o) ->
  if allocates s e
  then exists b nxt, pick_serial s bs = Some (b, nxt) /\ next s' = nxt /\
         forall x, is_Some (calls s' !! x) -> is_Some (calls s !! x) \/ x = b
  else next s' = next s /\ forall x, is_Some (calls s' !! x) -> is_Some (calls s !! x).
Proof.
  intros Hstep. apply step_Done in Hstep as (m & m' & Hh & Hs & -> & _).
  set (D0 := fun x => is_Some (calls s !! x)).
  assert (Hinit : NX (next s) D0 (m_init s)) by (split; [reflexivity|]; intros x Hx; exact Hx).
  assert (Hlift : forall n D, NX n D m -> NX n D m').
  { intros n D Hm. pose proof (settle_lift (NX n D) (settle_one_nx n D) (fuel_for m) m Hm) as Hsp.
    destruct Hs as [Hs|Hs]; rewrite Hs in Hsp; exact Hsp. }
  assert (Hquiet : allocates s e = false -> NX (next s) D0 m ->
                   if allocates s e then exists b nxt, pick_serial s bs = Some (b, nxt) /\ next (ms m') = nxt /\
                        forall x, is_Some (calls (ms m') !! x) -> is_Some (calls s !! x) \/ x = b
                   else next (ms m') = next s /\ forall x, is_Some (calls (ms m') !! x) -> is_Some (calls s !! x)).
  { intros -> Hm. apply Hlift in Hm as [H1 H2]. split; [exact H1|exact H2]. }
  destruct e as [c ver|c|c x| | |c|c]; cbn [step_handler] in Hh; fold (m_init s) in Hh.
  - apply Hquiet; [reflexivity|]. destruct (conns s !! c); [discriminate|]. injection Hh as <-. exact Hinit.
  - apply Hquiet; [reflexivity|]. injection Hh as <-. exact Hinit.
  - (* a message *)
    assert (Hfail : forall n D m1, NX n D m1 -> NX n D (push_remove m1 c false)) by (intros n D m1 H1; exact H1).
    assert (Hcase : (match x with CallFunction _ _ _ _ | CallFunction2 _ _ _ _ _ => True | _ => False end) \/
                    (match x with CallFunction _ _ _ _ | CallFunction2 _ _ _ _ _ => False | _ => True end))
      by (destruct x; auto).
    destruct Hcase as [Hcall|Hother].
    2:{ apply Hquiet; [destruct x; try reflexivity; contradiction|].
        pose proof (handle_nx (next s) D0 (m_init s) c x f bs Hother Hinit) as Hp.
        destruct (handle (m_init s) c x f bs) as [m1|m1|]; try discriminate; injection Hh as <-; exact Hp. }
    (* the two call requests: reduce both to call_impl *)
    assert (Hgen : forall serial sc fn fver v,
      handle (m_init s) c x f bs = call_impl (m_init s) c serial sc fn fver v bs ->
      allocates s (Message c x) = reaches_insert s c sc ->
      if allocates s (Message c x) then exists b nxt, pick_serial s bs = Some (b, nxt) /\ next (ms m') = nxt /\
           forall x, is_Some (calls (ms m') !! x) -> is_Some (calls s !! x) \/ x = b
      else next (ms m') = next s /\ forall x, is_Some (calls (ms m') !! x) -> is_Some (calls s !! x)).
    { intros serial sc fn fver v Hhd Hal. rewrite Hhd in Hh.
      destruct (reaches_insert s c sc) eqn:Hr.
      - rewrite Hal. destruct (pick_serial s bs) as [[b nxt]|] eqn:Hp.
        + pose proof (call_impl_nx_alloc D0 (m_init s) c serial sc fn fver v bs b nxt Hr Hp Hinit) as Hq.
          exists b, nxt. split; [reflexivity|].
          assert (Hm : NX nxt (fun x => D0 x \/ x = b) m)
            by (destruct (call_impl (m_init s) c serial sc fn fver v bs) as [m1|m1|]; try discriminate;
                injection Hh as <-; exact Hq).
          apply Hlift in Hm as [H1 H2]. split; [exact H1|exact H2].
        + exfalso. unfold call_impl, reaches_insert in *. cbn [ms m_init] in *.
          destruct (conns s !! c) as [cs|]; [|discriminate].
          destruct (svc_by_cookie s sc) as [[k sv]|]; [|discriminate].
          destruct (owner_of_svc s k) as [callee|]; [|discriminate]. rewrite Hp in Hh. discriminate.
      - apply Hquiet; [exact Hal|].
        pose proof (call_impl_nx_no (next s) D0 (m_init s) c serial sc fn fver v bs Hr Hinit) as Hq.
        destruct (call_impl (m_init s) c serial sc fn fver v bs) as [m1|m1|]; try discriminate;
          injection Hh as <-; exact Hq. }
    destruct x; try contradiction; clear Hcall.
    + (* CallFunction *)
      destruct (conns s !! c) as [cs|] eqn:Hc.
      * eapply Hgen; [unfold handle; cbn [ms m_init]; rewrite Hc; reflexivity|reflexivity].
      * apply Hquiet; [cbn; unfold reaches_insert; rewrite Hc; reflexivity|].
        unfold handle in Hh. cbn [ms m_init] in Hh. rewrite Hc in Hh. injection Hh as <-. exact Hinit.
    + (* CallFunction2: the version gate *)
      destruct (conns s !! c) as [cs|] eqn:Hc.
      * destruct (cs_ver cs <? MIN_CALL_FUNCTION2) eqn:Hv.
        -- apply Hquiet; [cbn; rewrite Hc, Hv; reflexivity|].
           unfold handle, gate, ver_of in Hh. cbn [ms m_init] in Hh. rewrite Hc in Hh.
           cbn [fmap option_fmap option_map] in Hh. rewrite Hv in Hh. injection Hh as <-. exact Hinit.
        -- eapply Hgen.
           ++ unfold handle, gate, ver_of. cbn [ms m_init]. rewrite Hc. cbn [fmap option_fmap option_map].
              rewrite Hv. reflexivity.
           ++ cbn. rewrite Hc, Hv. reflexivity.
      * apply Hquiet; [cbn; rewrite Hc; reflexivity|].
        unfold handle in Hh. cbn [ms m_init] in Hh. rewrite Hc in Hh. injection Hh as <-. exact Hinit.
  - apply Hquiet; [reflexivity|]. injection Hh as <-.
    change (NX (next s) D0 (foldr (fun (p : conn * cstate) (m : M) => push_remove m p.1 true) (m_init s) (map_to_list (conns s)))).
    apply (prop_foldr (NX (next s) D0)); [|exact Hinit]. intros x a Hx. exact Hx.
  - apply Hquiet; [reflexivity|]. injection Hh as <-. exact Hinit.
  - apply Hquiet; [reflexivity|]. injection Hh as <-. exact Hinit.
  - apply Hquiet; [reflexivity|]. injection Hh as <-. destruct (conns s !! c) as [cs|]; exact Hinit.
Qed.

(* ---------------------------------------------------------------- histories *)
Lemma run_app h1 : forall s s1 os1 h2 s2 os2,
  run s h1 = Done (s1, os1) -> run s1 h2 = Done (s2, os2) -> run s (h1 ++ h2) = Done (s2, os1 ++ os2).
Proof.
  induction h1 as [|i h1 IH]; intros s s1 os1 h2 s2 os2 H1 H2.
  - cbn in H1. injection H1 as <- <-. exact H2.
  - apply run_cons in H1 as (s' & o & os' & Hst & Hr & ->). cbn [app run]. rewrite Hst.
    rewrite (IH _ _ _ _ _ _ Hr H2). reflexivity.
Qed.

Lemma allocs_app h1 : forall s s1 os1 h2,
  run s h1 = Done (s1, os1) -> allocs s (h1 ++ h2) = allocs s h1 ++ allocs s1 h2.
Proof.
  induction h1 as [|i h1 IH]; intros s s1 os1 h2 H1.
  - cbn in H1. injection H1 as <- _. reflexivity.
  - apply run_cons in H1 as (s' & o & os' & Hst & Hr & ->). cbn [app allocs]. rewrite Hst.
    rewrite (IH _ _ _ h2 Hr). rewrite app_assoc. reflexivity.
Qed.

Lemma serials_app h1 s s1 os1 h2 :
  run s h1 = Done (s1, os1) -> serials s (h1 ++ h2) = serials s h1 ++ serials s1 h2.
Proof. intros H. unfold serials. rewrite (allocs_app h1 s s1 os1 h2 H). apply fmap_app. Qed.

Lemma legal_run_app h1 : forall s s1 os1 h2,
  legal_run s (h1 ++ h2) -> run s h1 = Done (s1, os1) -> legal_run s h1 /\ legal_run s1 h2.
Proof.
  induction h1 as [|i h1 IH]; intros s s1 os1 h2 Hl H1.
  - cbn in H1. injection H1 as <- _. split; [exact I|exact Hl].
  - apply run_cons in H1 as (s' & o & os' & Hst & Hr & ->). destruct Hl as [Hi Hrest].
    destruct (IH _ _ _ _ (Hrest _ _ Hst) Hr) as [L1 L2]. split; [|exact L2].
    split; [exact Hi|]. intros s'' o'' Hst'. rewrite Hst in Hst'. injection Hst' as <- <-. exact L1.
Qed.

(* one legal step from an [Inv] state, in terms of [allocs]: what is allocated, how far [next]
   moves, which broker serials can be new *)
Lemma alloc_step s i s' o rest :
  Inv s -> legal s i -> step s (i_ev i) (i_fresh i) (i_bserial i) = Done (s', o) ->
  (exists b (k : nat),
     allocs s (i :: rest) = (b, N.of_nat k + 1) :: allocs s' rest /\
     b = sm_at (next s) k /\ next s' = sm_at (next s) (S k) /\ calls s !! b = None /\
     forall x, is_Some (calls s' !! x) -> is_Some (calls s !! x) \/ x = b) \/
  (allocs s (i :: rest) = allocs s' rest /\ next s' = next s /\
   forall x, is_Some (calls s' !! x) -> is_Some (calls s !! x)).
Proof.
  intros HI Hl Hst. pose proof (step_alloc _ _ _ _ _ _ Hst) as Ha. cbn [allocs]. rewrite Hst.
  destruct (allocates s (i_ev i)).
  - left. destruct Ha as (b & nxt & Hp & Hn & Hk). apply pick_serial_Some in Hp as [Hc _].
    destruct (sm_choice_Some s b nxt (proj1 (iv_cb _ _ _ _ _ HI)) Hc) as (Hv & _ & _ & _ & k & _ & Hb & _ & Hadv).
    exists b, k. rewrite Hc, Hadv. split; [reflexivity|]. split; [exact Hb|]. split; [|split; [exact Hv|exact Hk]].
    rewrite Hn. unfold sm_choice in Hc. apply sm_probe_Some in Hc as (k' & _ & _ & Hb' & _ & -> & Hp');
      [|exact (proj1 (iv_cb _ _ _ _ _ HI))].
    unfold sm_advance in Hadv. rewrite Hp' in Hadv. f_equal. lia.
  - right. destruct Ha as [Hn Hk]. split; [reflexivity|]. split; [exact Hn|exact Hk].
Qed.

(* where the serials of a history lie, counted in probes from the start, and where [next] ends *)
Lemma allocs_shape h : forall s s' os,
  Inv s -> legal_run s h -> run s h = Done (s', os) ->
  next s' = (next s + advanced s h) mod 4294967296 /\
  forall x, x ∈ serials s h -> exists d, 1 <= d <= advanced s h /\ x = (next s + d - 1) mod 4294967296.
Proof.
  induction h as [|i rest IH]; intros s s' os HI Hl Hrun.
  - cbn in Hrun. injection Hrun as <- _. pose proof (proj1 (iv_cb _ _ _ _ _ HI)) as Hn. split.
    + unfold advanced. cbn. lia.
    + intros x Hx. apply elem_of_nil in Hx. contradiction.
  - apply run_cons in Hrun as (s1 & o & os' & Hst & Hr & ->). destruct Hl as [Hi Hrest].
    pose proof (inv_step s i s1 o HI Hi Hst) as HI1.
    destruct (IH s1 s' os' HI1 (Hrest _ _ Hst) Hr) as [IHn IHx].
    destruct (alloc_step s i s1 o rest HI Hi Hst) as [(b & k & Ha & Hb & Hn & _)|(Ha & Hn & _)].
    + assert (advanced s (i :: rest) = N.of_nat k + 1 + advanced s1 rest) as Hadv
        by (unfold advanced; rewrite Ha; reflexivity).
      unfold sm_at in Hb, Hn. split.
      * rewrite IHn, Hn, Hadv. lia.
      * intros x Hx. unfold serials in Hx. rewrite Ha, fmap_cons in Hx. apply elem_of_cons in Hx as [->|Hx].
        -- exists (N.of_nat k + 1). split; [lia|]. cbn [fst]. rewrite Hb. f_equal. lia.
        -- destruct (IHx x Hx) as (d & Hd & ->). exists (N.of_nat k + 1 + d). split; [lia|]. rewrite Hn. lia.
    + assert (advanced s (i :: rest) = advanced s1 rest) as Hadv by (unfold advanced; rewrite Ha; reflexivity).
      unfold serials. rewrite Ha, Hadv, <- Hn. split; [exact IHn|exact IHx].
Qed.

Lemma serials_nodup h : forall s s' os,
  Inv s -> legal_run s h -> run s h = Done (s', os) -> advanced s h <= 4294967296 -> NoDup (serials s h).
Proof.
  induction h as [|i rest IH]; intros s s' os HI Hl Hrun Hadv; [apply NoDup_nil_2|].
  apply run_cons in Hrun as (s1 & o & os' & Hst & Hr & ->). destruct Hl as [Hi Hrest].
  pose proof (inv_step s i s1 o HI Hi Hst) as HI1.
  destruct (alloc_step s i s1 o rest HI Hi Hst) as [(b & k & Ha & Hb & Hn & _)|(Ha & Hn & _)].
  - assert (advanced s (i :: rest) = N.of_nat k + 1 + advanced s1 rest) as Hadv'
      by (unfold advanced; rewrite Ha; reflexivity).
    unfold serials. rewrite Ha, fmap_cons. cbn [fst]. apply NoDup_cons. split.
    + intros Hin. destruct (allocs_shape rest s1 s' os' HI1 (Hrest _ _ Hst) Hr) as [_ Hx].
      destruct (Hx b Hin) as (d & Hd & Hbd). unfold sm_at in Hb, Hn. rewrite Hn in Hbd. lia.
    + apply (IH s1 s' os' HI1 (Hrest _ _ Hst) Hr). lia.
  - assert (advanced s (i :: rest) = advanced s1 rest) as Hadv' by (unfold advanced; rewrite Ha; reflexivity).
    unfold serials. rewrite Ha. apply (IH s1 s' os' HI1 (Hrest _ _ Hst) Hr). lia.
Qed.

(* (b) freshness over time *)
Theorem serial_fresh h s' os :
  legal_run init h -> run init h = Done (s', os) -> advanced init h <= 4294967296 ->
  NoDup (serials init h).
Proof. intros Hl Hr Ha. exact (serials_nodup h init s' os inv_init Hl Hr Ha). Qed.

(* the same, split at any point: what was handed out before is not handed out again *)
Theorem serial_not_reused h1 h2 s1 os1 s2 os2 b :
  legal_run init (h1 ++ h2) -> run init h1 = Done (s1, os1) -> run s1 h2 = Done (s2, os2) ->
  advanced init (h1 ++ h2) <= 4294967296 -> b ∈ serials init h1 -> b ∉ serials s1 h2.
Proof.
  intros Hl H1 H2 Ha Hb Hb'.
  pose proof (serial_fresh (h1 ++ h2) s2 (os1 ++ os2) Hl (run_app _ _ _ _ _ _ _ H1 H2) Ha) as Hnd.
  rewrite (serials_app h1 init s1 os1 h2 H1) in Hnd. apply NoDup_app in Hnd as (_ & Hd & _).
  exact (Hd b Hb Hb').
Qed.

(* a broker serial that is not live and is not handed out stays not live (any history) *)
Lemma run_keeps_vacant h : forall s s' os b,
  run s h = Done (s', os) -> calls s !! b = None -> b ∉ serials s h -> calls s' !! b = None.
Proof.
  induction h as [|i rest IH]; intros s s' os b Hrun Hv Hnot.
  - cbn in Hrun. injection Hrun as <- _. exact Hv.
  - apply run_cons in Hrun as (s1 & o & os' & Hst & Hr & ->).
    pose proof (step_alloc _ _ _ _ _ _ Hst) as Ha. unfold serials in Hnot. cbn [allocs] in Hnot. rewrite Hst in Hnot.
    assert (forall x : option call, ~ is_Some x -> x = None) as Hnone by (intros [x|] Hx; [exfalso; eauto|reflexivity]).
    destruct (allocates s (i_ev i)).
    + destruct Ha as (b0 & nxt & Hp & _ & Hk). apply pick_serial_Some in Hp as [Hc _]. rewrite Hc in Hnot.
      cbn in Hnot. apply not_elem_of_cons in Hnot as [Hne Hnot].
      apply (IH s1 s' os' b Hr); [|exact Hnot]. apply Hnone. intros Hs. apply Hk in Hs as [Hs| ->]; [|done].
      rewrite Hv in Hs. destruct Hs; discriminate.
    + destruct Ha as [_ Hk]. apply (IH s1 s' os' b Hr); [|exact Hnot]. apply Hnone. intros Hs. apply Hk in Hs.
      rewrite Hv in Hs. destruct Hs; discriminate.
Qed.

(* a CallFunctionReply for a broker serial that is not live does nothing, whoever sends it *)
Lemma reply_unknown_dropped s c b r f bs :
  calls s !! b = None -> step s (Message c (CallFunctionReply b r)) f bs = Done (s, []).
Proof.
  intros Hv. destruct (conns s !! c) as [cs|] eqn:Hc; [eapply reply_dropped; eauto|].
  assert (H : handle (m_init s) c (CallFunctionReply b r) f bs = Done (m_init s))
    by (unfold handle; cbn [ms m_init]; rewrite Hc; reflexivity).
  apply step_message_idle in H; [exact H|reflexivity].
Qed.

(* (c) the history-level statement: once the call with broker serial b has been answered or
   otherwise forgotten, a CallFunctionReply b from anyone at any later point does nothing *)
Theorem duplicate_never_delivered_run h1 h2 s1 os1 s2 os2 b c r f bs :
  legal_run init (h1 ++ h2) -> run init h1 = Done (s1, os1) -> run s1 h2 = Done (s2, os2) ->
  advanced init (h1 ++ h2) <= 4294967296 ->
  b ∈ serials init h1 -> calls s1 !! b = None ->
  step s2 (Message c (CallFunctionReply b r)) f bs = Done (s2, []).
Proof.
  intros Hl H1 H2 Ha Hb Hv. apply reply_unknown_dropped.
  apply (run_keeps_vacant h2 s1 s2 os2 b H2 Hv).
  exact (serial_not_reused h1 h2 s1 os1 s2 os2 b Hl H1 H2 Ha Hb).
Qed.

(* (a) what the allocator chooses in a reachable state *)
Theorem serial_vacant s :
  reachable s -> N.of_nat (size (calls s)) < 4294967296 ->
  exists b nxt, sm_choice s = Some (b, nxt) /\ calls s !! b = None /\ b < 4294967296 /\
    nxt = (b + 1) mod 4294967296 /\
    (exists k : nat, b = (next s + N.of_nat k) mod 4294967296 /\
       forall i, (i < k)%nat -> is_Some (calls s !! ((next s + N.of_nat i) mod 4294967296))) /\
    forall bs, bs = None \/ bs = Some b -> pick_serial s bs = Some (b, nxt).
Proof.
  intros Hr Hsz. pose proof (proj1 (iv_cb _ _ _ _ _ (reachable_inv s Hr))) as Hn.
  destruct (sm_choice_is_Some s Hn Hsz) as [[b nxt] Hc].
  destruct (sm_choice_Some s b nxt Hn Hc) as (Hv & Hb & Hnx & _ & k & _ & Hk & Hocc & _).
  exists b, nxt. split; [exact Hc|]. split; [exact Hv|]. split; [exact Hb|]. split; [exact Hnx|].
  split; [exists k; split; [exact Hk|exact Hocc]|]. intros bs Hbs. apply pick_serial_Some. auto.
Qed.
