(* Broker/FuelProofs.v — the explicit fuel bound of the work loop: [settle (fuel_for m) m] is Done
   for every [MI] machine, hence the fuel site [Panic 0] of the model is unreachable.

   Potential:  pot m = |w_remove_conns| + ends + (3 + |conns|) * (nq + load)   where
     nq    = total length of the nine other work queues,
     load  = |objs| + |svcs| + |calls| + Σ_svc (|s_events| + |s_all| + |s_subs| + Σ_ev |set|)
             + Σ_conn |cs_calls|     (everything a connection removal can turn into work items),
     ends  = number of channel ends that are not Closed (every removal a cascade queues closes one).
   A non-removal item is popped (nq - 1) and queues at most |conns| + 2 removals; a removal of a
   connected connection is popped, lowers |conns|, and moves weight from load to nq and from ends
   to w_remove_conns; a removal of an unknown connection is just popped.  So every iteration of
   the loop lowers [pot] by at least one. *)
From stdpp Require Import gmap list.
From RecordUpdate Require Import RecordSet.
Import RecordSetNotations.
From Aldrin Require Import gen.BrokerConsts Broker.Model Broker.Run Broker.Wp Broker.Inv
  Broker.InvProofsBase Broker.InvProofsSettle Broker.InvProofsHandle3 Broker.InvProofsStep Broker.InvProofsTerm.
From Coq Require Import Lia Arith.
Local Open Scope N_scope.

(* the potential: [fuel_for] is one more *)
Definition pot (m : M) : nat :=
  (length (w_remove_conns (mw m)) + state_ends (ms m)
   + (3 + size (conns (ms m))) * (work_len (mw m) + state_load (ms m)))%nat.
Lemma fuel_for_pot m : fuel_for m = S (pot m).
Proof. reflexivity. Qed.

(* ---------------------------------------------------------------- sums over maps *)
Section msum.
  Context `{Countable K} {A : Type} (f : A → nat).
  Implicit Types m : gmap K A.

  Lemma msum_empty : msum f (∅ : gmap K A) = 0%nat.
  Proof. unfold msum. apply map_fold_empty. Qed.

  Lemma msum_insert_None m k v : m !! k = None → msum f (<[k := v]> m) = (f v + msum f m)%nat.
  Proof.
    intros Hk. unfold msum.
    apply (map_fold_insert_L (fun (_ : K) (v : A) (acc : nat) => (f v + acc)%nat)); [|done]. intros. lia.
  Qed.

  Lemma msum_delete m k v : m !! k = Some v → msum f m = (f v + msum f (delete k m))%nat.
  Proof.
    intros Hk. rewrite <- (insert_delete m k v Hk) at 1. apply msum_insert_None, lookup_delete.
  Qed.

  Lemma msum_insert_Some m k v v' :
    m !! k = Some v → (msum f (<[k := v']> m) + f v = msum f m + f v')%nat.
  Proof.
    intros Hk. rewrite (msum_delete m k v Hk). rewrite <- (insert_delete_insert m).
    rewrite msum_insert_None by apply lookup_delete. lia.
  Qed.

  Lemma msum_delete_le m k : (msum f (delete k m) ≤ msum f m)%nat.
  Proof.
    destruct (m !! k) as [v|] eqn:Hk; [rewrite (msum_delete m k v Hk); lia|].
    by rewrite delete_notin.
  Qed.
End msum.

Lemma msum_fmap_le `{Countable K} {A} (f : A → nat) (g : A → A) (m : gmap K A) :
  (∀ v, f (g v) ≤ f v)%nat → (msum f (g <$> m) ≤ msum f m)%nat.
Proof.
  intros Hg. induction m as [|k v m Hk IH] using map_ind; [by rewrite fmap_empty|].
  rewrite fmap_insert, !msum_insert_None by (by rewrite ?lookup_fmap, ?Hk). specialize (Hg v). lia.
Qed.

(* the union of the event sets is no larger than the sum of their sizes *)
Lemma size_union_fold (ev : gmap N (gset conn)) :
  (size (map_fold (fun _ set acc => set ∪ acc) (∅ : gset conn) ev) ≤ msum size ev)%nat.
Proof.
  unfold msum.
  apply (map_fold_ind (fun (r : gset conn) (m : gmap N (gset conn)) =>
           (size r ≤ map_fold (fun _ v acc => (size v + acc)%nat) 0%nat m)%nat)).
  - by rewrite map_fold_empty, size_empty.
  - intros i x m r Hi IH.
    rewrite (map_fold_insert_L (fun (_ : N) (v : gset conn) (acc : nat) => (size v + acc)%nat)); [|intros; lia|done].
    rewrite size_union_alt. pose proof (subseteq_size (r ∖ x) r ltac:(set_solver)). lia.
Qed.

Lemma elem_of_List_filter {A} (P : A → bool) (l : list A) x : x ∈ List.filter P l ↔ x ∈ l ∧ P x = true.
Proof. rewrite !elem_of_list_In. apply filter_In. Qed.

Lemma NoDup_fst_filter {A B} (P : A * B → bool) (l : list (A * B)) :
  NoDup (l.*1) → NoDup ((List.filter P l).*1).
Proof.
  induction l as [|x l IH]; [done|]. rewrite fmap_cons, NoDup_cons. intros [Hx Hl].
  cbn [List.filter]. destruct (P x); [|auto]. rewrite fmap_cons. apply NoDup_cons. split; [|auto].
  intros Hin. apply Hx. apply elem_of_list_fmap in Hin as (y & -> & Hy).
  apply elem_of_List_filter in Hy as [Hy _]. apply elem_of_list_fmap. eauto.
Qed.

Lemma NoDup_length_le (l : list conn) (X : gset conn) :
  NoDup l → (∀ x, x ∈ l → x ∈ X) → (length l ≤ size X)%nat.
Proof.
  intros Hn Hs. rewrite <- (size_list_to_set (C := gset conn) l Hn). apply subseteq_size.
  intros x Hx. apply Hs. by apply elem_of_list_to_set in Hx.
Qed.

(* ---------------------------------------------------------------- the three quantities *)
Global Arguments msum : simpl never.
Definition load (m : M) : nat := (work_len (mw m) + state_load (ms m))%nat.
Definition rml (m : M) : nat := (length (w_remove_conns (mw m)) + state_ends (ms m))%nat.
Definition nc (m : M) : nat := size (conns (ms m)).
Definition Bd (a b n : nat) (m : M) : Prop := (load m ≤ a ∧ rml m ≤ b ∧ nc m ≤ n)%nat.

Definition anyF : M → Prop := fun _ => True.

Ltac bd := unfold Bd, load, rml, nc, work_len, state_load, state_ends, push_remove in *; cbn in *.

Lemma Bd_le a b n m m' :
  (load m' ≤ load m)%nat → (rml m' ≤ rml m)%nat → (nc m' ≤ nc m)%nat → Bd a b n m → Bd a b n m'.
Proof. unfold Bd. lia. Qed.

Lemma send_or_remove_Bd a b n (PF : M → Prop) m c x f :
  (load m ≤ a)%nat → (S (rml m) ≤ b)%nat → (nc m ≤ n)%nat → res (Bd a b n) PF (send_or_remove m c x f).
Proof. intros H1 H2 H3. apply send_or_remove_res; intros; bd; lia. Qed.

Lemma remove_listener_Bd a b n m k : Bd a b n m → Bd a b n (remove_listener m k).
Proof. unfold remove_listener. destruct (listeners (ms m) !! k); [|done]. apply Bd_le; bd; lia. Qed.

(* ---------------------------------------------------------------- remove_end *)
Lemma chan_close_notify ch e ch' o :
  chan_close ch e = CloseNotify ch' o → S (chan_weight ch') = chan_weight ch.
Proof.
  unfold chan_close, chan_weight.
  destruct e, (ch_s ch) eqn:E1, (ch_r ch) eqn:E2; intros [= <- <-]; cbn; rewrite ?E1, ?E2; done.
Qed.

Lemma remove_end_Bd a b n m k e : Bd a b n m → res (Bd a b n) anyF (remove_end m k e).
Proof.
  intros (Hl & Hr & Hn). unfold remove_end. destruct (chans (ms m) !! k) as [ch|] eqn:Ek; [|done].
  cbv zeta. pose proof (msum_delete chan_weight _ _ _ Ek) as Hd.
  destruct (chan_close ch e) as [|ch' o|site] eqn:Ec; [| |done].
  - bd. lia.
  - apply chan_close_notify in Ec. pose proof (msum_insert_Some chan_weight _ k ch ch' Ek) as Hi.
    destruct (has _ o).
    + apply send_or_remove_Bd; bd; lia.
    + bd. lia.
Qed.

(* ---------------------------------------------------------------- remove_service *)
Lemma push_svcd_spec cookie l m :
  let m' := foldr (fun c m => if has m c then m <| mw; w_svc_destroyed ::= cons (c, cookie) |> else m) m l in
  ms m' = ms m ∧ w_remove_conns (mw m') = w_remove_conns (mw m) ∧
  (work_len (mw m') ≤ work_len (mw m) + length l)%nat.
Proof.
  induction l as [|x l IH]; cbn [foldr length]; [split_and!; [done..|lia]|].
  destruct IH as (I1 & I2 & I3). cbv zeta.
  match goal with |- context [has ?a x] => set (m'' := a) in * end.
  destruct (has m'' x); [|split_and!; [done..|lia]].
  unfold work_len in *. cbn. split_and!; [done..|lia].
Qed.

Lemma size_targets (sv : svc) :
  (size (s_subs sv ∪ map_fold (fun _ set acc => set ∪ acc) (∅ : gset conn) (s_events sv)) ≤ svc_weight sv)%nat.
Proof.
  unfold svc_weight. rewrite size_union_alt. pose proof (size_union_fold (s_events sv)).
  match goal with |- context [size (?x ∖ ?y)] => pose proof (subseteq_size (x ∖ y) x ltac:(set_solver)) end.
  lia.
Qed.

Lemma remove_service_Bd a b n m cookie : Bd a b n m → res (Bd a b n) anyF (remove_service m cookie).
Proof.
  intros (Hl & Hr & Hn). unfold remove_service.
  destruct (svc_by_cookie (ms m) cookie) as [[k s]|] eqn:E; [|done].
  apply svc_by_cookie_Some in E as [Ek _]. cbv zeta.
  pose proof (msum_delete svc_weight _ _ _ Ek) as Hd. pose proof (size_delete_Some _ _ _ Ek) as Hs.
  eapply res_bind with (QD := Bd (a - svc_weight s) b n).
  - apply foldO_res.
    + intros m' x _ (Hl' & Hr' & Hn'). destruct (calls (ms m') !! x) as [cl|] eqn:Ex; [|done].
      pose proof (size_delete_Some _ _ _ Ex) as Hsx. cbv zeta. cbn [res].
      destruct (c_aborted cl); bd; lia.
    + bd. lia.
  - intros m2 (Hl2 & Hr2 & Hn2). cbv zeta. cbn [res].
    match goal with |- Bd _ _ _ (set _ _ (foldr ?f m2 ?l)) =>
      destruct (push_svcd_spec cookie l m2) as (P1 & P2 & P3) end.
    pose proof (size_targets s) as Ht.
    match type of P3 with context [length (elements ?X)] => change (length (elements X)) with (size X) in P3 end.
    cbv zeta in P1, P2, P3.
    unfold Bd, load, rml, nc in *. cbn. rewrite P1, P2. bd. lia.
Qed.

(* ---------------------------------------------------------------- remove_object *)
Lemma remove_object_Bd a b n m cookie : Bd a b n m → res (Bd a b n) anyF (remove_object m cookie).
Proof.
  intros (Hl & Hr & Hn). unfold remove_object.
  destruct (obj_by_cookie (ms m) cookie) as [[u o]|] eqn:E; [|done].
  apply obj_by_cookie_Some in E as [Eu _]. cbv zeta.
  pose proof (size_delete_Some _ _ _ Eu) as Hs.
  eapply res_bind with (QD := Bd a b n).
  - apply foldO_res; [intros; by apply remove_service_Bd|]. bd. lia.
  - intros m2 H2. cbn [res]. revert H2. apply Bd_le; bd; lia.
Qed.

(* ---------------------------------------------------------------- shutdown_conn, phase by phase *)
Lemma foldl_ix {A} (I : list A → M → Prop) (f : M → A → M) l m :
  (∀ m x r, I (x :: r) m → I r (f m x)) → I l m → I [] (foldl f m l).
Proof. intros Hf. revert m. induction l as [|x l IH]; intros m Hm; cbn; [done|]. apply IH. by apply Hf. Qed.

(* event subscriptions of [c] at service [k]: every event key still to be visited is present *)
Lemma sc_ev_Bd a b n c m k : Bd a b n m → res (Bd a b n) anyF (sc_ev c m k).
Proof.
  intros H. unfold sc_ev. destruct (svcs (ms m) !! k) as [s|] eqn:Ek; [|done].
  destruct (owner_of_svc (ms m) k) as [owner|]; [|done]. cbv zeta. cbn [res].
  match goal with |- Bd _ _ _ (foldl _ m ?l) => set (evs := l) end.
  apply (foldl_ix (fun r m' => Bd a b n m' ∧ NoDup r ∧
           ∀ e, e ∈ r → ∃ s', svcs (ms m') !! k = Some s' ∧ is_Some (s_events s' !! e))).
  - intros m' e r ((Hl & Hr & Hn) & Hnd & Hin). apply NoDup_cons in Hnd as [Hne Hnd].
    destruct (Hin e ltac:(left)) as (s' & Es' & [set0 Ee]).
    pose proof (msum_insert_Some svc_weight _ k s' (s' <| s_events ::= delete e |>) Es') as Hi1.
    pose proof (msum_delete size _ _ _ Ee) as Hd. pose proof (size_delete_Some _ _ _ Ee) as Hs.
    pose proof (size_insert_Some _ k _ (s' <| s_events ::= delete e |>) Es') as Hz1.
    unfold sc_ev_inner. rewrite Es'. cbv zeta. rewrite Ee. cbn [default].
    match goal with |- context [if ?bb then _ else _] => destruct bb end.
    + split; [|split; [done|]].
      * assert (S (svc_weight (s' <| s_events ::= delete e |>)) ≤ svc_weight s')%nat as Hw
          by (unfold svc_weight; cbn; lia).
        bd. lia.
      * intros e' He'. destruct (Hin e' ltac:(by right)) as (s'' & Es'' & Hs'').
        rewrite Es' in Es''. inversion Es''; subst s''. eexists. split; [cbn; apply lookup_insert|].
        cbn. rewrite lookup_delete_ne; [done|]. intros ->. done.
    + pose proof (msum_insert_Some svc_weight _ k s' (s' <| s_events ::= <[e := set0 ∖ {[c]}]> |>) Es') as Hi2.
      pose proof (msum_insert_Some size _ e set0 (set0 ∖ {[c]}) Ee) as Hi3.
      pose proof (size_insert_Some _ e _ (set0 ∖ {[c]}) Ee) as Hz2.
      pose proof (size_insert_Some _ k _ (s' <| s_events ::= <[e := set0 ∖ {[c]}]> |>) Es') as Hz3.
      pose proof (subseteq_size (set0 ∖ {[c]}) set0 ltac:(set_solver)) as Hsub.
      split; [|split; [done|]].
      * assert (svc_weight (s' <| s_events ::= <[e := set0 ∖ {[c]}]> |>) ≤ svc_weight s')%nat as Hw
          by (unfold svc_weight; cbn; lia).
        bd. lia.
      * intros e' He'. destruct (Hin e' ltac:(by right)) as (s'' & Es'' & Hs'').
        rewrite Es' in Es''. inversion Es''; subst s''. eexists. split; [cbn; apply lookup_insert|].
        cbn. rewrite lookup_insert_ne; [done|]. intros ->. done.
  - split; [done|]. split.
    + subst evs. apply NoDup_fst_filter, NoDup_fst_map_to_list.
    + intros e He. exists s. split; [done|]. subst evs.
      apply elem_of_list_fmap in He as ([e' set] & -> & He). apply elem_of_List_filter in He as [He _].
      apply elem_of_map_to_list in He. cbn. eauto.
Qed.

Lemma sc_all_Bd a b n c m k : Bd a b n m → res (Bd a b n) anyF (sc_all c m k).
Proof.
  intros (Hl & Hr & Hn). unfold sc_all. destruct (svcs (ms m) !! k) as [s|] eqn:Ek; [|done].
  destruct (owner_of_svc (ms m) k) as [owner|]; [|done].
  destruct (bool_decide_reflect (c ∈ s_all s)) as [Hc|Hc]; [|done]. cbv zeta. cbn [res].
  pose proof (msum_insert_Some svc_weight _ k s (s <| s_all := s_all s ∖ {[c]} |>) Ek) as Hi.
  pose proof (size_insert_Some _ k _ (s <| s_all := s_all s ∖ {[c]} |>) Ek) as Hz.
  pose proof (size_difference (s_all s) {[c]} ltac:(set_solver)) as Hd. rewrite size_singleton in Hd.
  assert (size (s_all s) ≠ 0%nat) as Hne.
  { intros Hz0. apply size_empty_inv in Hz0. set_solver. }
  assert (S (svc_weight (s <| s_all := s_all s ∖ {[c]} |>)) ≤ svc_weight s)%nat as Hw
    by (unfold svc_weight; cbn; lia).
  destruct (bool_decide _); bd; lia.
Qed.

Lemma sc_subs_Bd a b n c m : Bd a b n m → Bd a b n (m <| ms ::= sc_subs c |>).
Proof.
  apply Bd_le; [|bd; lia..]. unfold sc_subs.
  pose proof (msum_fmap_le svc_weight (fun s => s <| s_subs ::= fun x => x ∖ {[c]} |>) (svcs (ms m))) as Hf.
  pose proof (map_size_fmap (fun s => s <| s_subs ::= fun x => x ∖ {[c]} |>) (svcs (ms m))) as Hz.
  bd. rewrite Hz. enough (msum svc_weight ((λ s : svc, s <| s_subs ::= λ x : gset conn, x ∖ {[c]} |>) <$> svcs (ms m)) ≤ msum svc_weight (svcs (ms m)))%nat by lia.
  apply Hf. intros v. unfold svc_weight. cbn.
  pose proof (subseteq_size (s_subs v ∖ {[c]}) (s_subs v) ltac:(set_solver)). lia.
Qed.

Lemma sc_end_Bd a b n c e m k : Bd a b n m → res (Bd a b n) anyF (sc_end c e m k).
Proof.
  intros H. unfold sc_end. destruct (chans (ms m) !! k) as [ch|]; [|done].
  destruct (match e with ESender => _ | EReceiver => _ end); try done.
  destruct (bool_decide _); [by apply remove_end_Bd|done].
Qed.

Lemma sc_aborts_spec cs m :
  ms (sc_aborts cs m) = ms m ∧ w_remove_conns (mw (sc_aborts cs m)) = w_remove_conns (mw m) ∧
  work_len (mw (sc_aborts cs m)) = (work_len (mw m) + size (cs_calls cs))%nat.
Proof.
  unfold sc_aborts. change (size (cs_calls cs)) with (length (map_to_list (cs_calls cs))).
  induction (map_to_list (cs_calls cs)) as [|x l IH]; cbn [foldr length]; [split_and!; [done..|lia]|].
  destruct IH as (I1 & I2 & I3). unfold work_len in *. cbn. split_and!; [done..|lia].
Qed.

(* removing a connected connection: popped beforehand, the three quantities do not grow and the
   number of connections drops *)
Lemma shutdown_conn_Bd m c sd cs :
  conns (ms m) !! c = Some cs →
  res (Bd (load m) (rml m) (nc m - 1)) anyF (shutdown_conn m c sd).
Proof.
  intros Ec. rewrite shutdown_conn_eq, Ec. cbv zeta.
  pose proof (msum_delete (fun cs => size (cs_calls cs)) _ _ _ Ec) as Hd.
  pose proof (size_delete_Some _ _ _ Ec) as Hs.
  set (X := size (cs_calls cs)) in *.
  set (B := Bd (load m - X) (rml m) (nc m - 1)).
  match goal with |- res _ _ (foldO _ _ (foldl _ ?x _) >>> _) => set (m1 := x) end.
  assert (B m1) as H1. { subst m1 B. destruct (sd && cs_alive cs); bd; lia. }
  clearbody m1.
  match goal with |- res _ _ (foldO _ _ ?x >>> _) => set (m2 := x) end.
  assert (B m2) as H2.
  { subst m2. apply (foldl_inv B); [intros; by apply remove_listener_Bd|exact H1]. }
  clearbody m2.
  eapply res_bind with (QD := B); [apply foldO_res; [intros; by apply remove_object_Bd|exact H2]|].
  intros m3 H3. eapply res_bind with (QD := B); [apply foldO_res; [intros; by apply sc_ev_Bd|exact H3]|].
  intros m4 H4. eapply res_bind with (QD := B); [apply foldO_res; [intros; by apply sc_all_Bd|exact H4]|].
  intros m5 H5. eapply res_bind with (QD := B);
    [apply foldO_res; [intros; by apply sc_end_Bd|by apply sc_subs_Bd]|].
  intros m7 H7. eapply res_bind with (QD := B); [apply foldO_res; [intros; by apply sc_end_Bd|exact H7]|].
  intros m8 (Hl8 & Hr8 & Hn8). cbn [res].
  destruct (sc_aborts_spec cs m8) as (A1 & A2 & A3). fold X in A3.
  unfold Bd, load, rml, nc in *. cbn. rewrite A1, A2, A3.
  assert (X ≤ work_len (mw m) + state_load (ms m))%nat by (unfold state_load; lia).
  unfold state_load, state_ends in *. cbn. lia.
Qed.

(* ---------------------------------------------------------------- the other work items *)
(* each queues at most |conns| + 2 connection removals and nothing else *)
Definition item_bound (mp : M) : M → Prop := Bd (load mp) (rml mp + nc mp + 2) (nc mp).

Lemma notify_item_bound m c x : res (item_bound m) anyF (notify_item m c x).
Proof.
  unfold notify_item, item_bound. destruct (has m c); [apply send_or_remove_Bd; lia|].
  unfold Bd. cbn. lia.
Qed.

Lemma rm_call_item_bound m serial c result : res (item_bound m) anyF (rm_call_item m serial c result).
Proof.
  unfold rm_call_item, item_bound. destruct (conns (ms m) !! c) as [cs|] eqn:Ec; [|unfold Bd; cbn; lia].
  destruct (cs_calls cs !! serial) as [p|] eqn:Ep; [|done]. cbv zeta.
  pose proof (msum_insert_Some (fun cs => size (cs_calls cs)) _ c cs (cs <| cs_calls ::= delete serial |>) Ec) as Hi.
  pose proof (size_insert_Some _ c _ (cs <| cs_calls ::= delete serial |>) Ec) as Hz.
  pose proof (size_delete_Some _ _ _ Ep) as Hs. cbn in Hi.
  apply send_or_remove_Bd; bd; lia.
Qed.

Lemma NoDup_List_filter {A} (P : A → bool) (l : list A) : NoDup l → NoDup (List.filter P l).
Proof.
  induction l as [|x l IH]; [done|]. rewrite NoDup_cons. intros [Hx Hl]. cbn [List.filter].
  destruct (P x); [|auto]. apply NoDup_cons. split; [|auto]. rewrite elem_of_List_filter. tauto.
Qed.

Lemma filter_dom_length (Cn : gmap conn cstate) (l : list conn) :
  NoDup l → (length (List.filter (fun c => bool_decide (is_Some (Cn !! c))) l) ≤ size Cn)%nat.
Proof.
  intros Hn. rewrite <- size_dom. apply NoDup_length_le; [by apply NoDup_List_filter|].
  intros x Hx. apply elem_of_List_filter in Hx as [_ Hx]. apply bool_decide_eq_true in Hx. by apply elem_of_dom.
Qed.

Lemma bus_bound m ev : res (item_bound m) anyF (bus m ev).
Proof.
  unfold bus. match goal with |- res _ _ (foldO ?f (elements ?X) m) => set (T := X) end.
  set (P := fun c : conn => bool_decide (is_Some (conns (ms m) !! c))).
  eapply res_mono; [| |done].
  1: apply (foldO_res_ix (fun r m' => ms m' = ms m ∧ work_len (mw m') = work_len (mw m) ∧
        (length (w_remove_conns (mw m')) + length (List.filter P r) ≤
         length (w_remove_conns (mw m)) + length (List.filter P (elements T)))%nat) anyF).
  - intros m' x r (I1 & I2 & I3). cbn [List.filter] in I3. unfold has. rewrite I1. fold (P x).
    destruct (P x); [|done]. cbn [length] in I3.
    apply send_or_remove_res; intros; unfold push_remove; cbn; (split; [done|]); (split; [done|]); lia.
  - done.
  - cbn beta. intros m' (I1 & I2 & I3). cbn [List.filter length] in I3.
    pose proof (filter_dom_length (conns (ms m)) (elements T) (NoDup_elements T)) as Hf. fold P in Hf.
    unfold item_bound, Bd, load, rml, nc. rewrite I1, I2. lia.
Qed.

Lemma abort_call_bound m b callee : res (item_bound m) anyF (abort_call m b callee).
Proof.
  unfold abort_call, item_bound. destruct (calls (ms m) !! b) as [cl|] eqn:Eb; [|unfold Bd; cbn; lia].
  destruct (c_aborted cl); [unfold Bd; cbn; lia|]. cbv zeta.
  pose proof (size_insert_Some _ b _ (cl <| c_aborted := true |>) Eb) as Hz.
  eapply res_bind with (QD := Bd (load m) (rml m + 1) (nc m)).
  - destruct (conns _ !! callee) as [cc|]; [|bd; lia].
    destruct (_ <=? _); [apply send_or_remove_Bd; bd; lia|bd; lia].
  - intros m2 (Hl & Hr & Hn). destruct (conns (ms m2) !! c_caller cl) as [cs|] eqn:Ec; [|cbn [res]; unfold Bd; lia].
    destruct (cs_calls cs !! c_serial cl) as [p|] eqn:Ep; [|done]. cbv zeta.
    pose proof (msum_insert_Some (fun cs => size (cs_calls cs)) _ (c_caller cl) cs
                  (cs <| cs_calls ::= delete (c_serial cl) |>) Ec) as Hi.
    pose proof (size_insert_Some _ (c_caller cl) _ (cs <| cs_calls ::= delete (c_serial cl) |>) Ec) as Hz2.
    pose proof (size_delete_Some _ _ _ Ep) as Hs. cbn in Hi.
    apply send_or_remove_Bd; bd; lia.
Qed.

(* ---------------------------------------------------------------- every iteration lowers [pot] *)
Lemma pot_eq m : pot m = (rml m + (3 + nc m) * load m)%nat.
Proof. reflexivity. Qed.

Lemma pop_item_pot m mp r :
  ms mp = ms m → w_remove_conns (mw mp) = w_remove_conns (mw m) → S (work_len (mw mp)) = work_len (mw m) →
  res (item_bound mp) anyF r → res (fun m' => pot m' < pot m)%nat anyF r.
Proof.
  intros Hs Hq Hw Hr. eapply res_mono; [exact Hr| |done]. intros m' (Hl & Hr' & Hn).
  rewrite !pot_eq. unfold load, rml, nc in *. rewrite Hs, Hq in *.
  set (L := (work_len (mw m) + state_load (ms m))%nat) in *.
  set (N := size (conns (ms m))) in *.
  assert (work_len (mw m') + state_load (ms m') ≤ L - 1)%nat as Hl2 by lia.
  assert (1 ≤ L)%nat as HL by lia.
  pose proof (Nat.mul_le_mono (3 + size (conns (ms m'))) (3 + N) _ _ ltac:(lia) Hl2) as Hm.
  replace ((3 + N) * (L - 1))%nat with ((3 + N) * L - (3 + N))%nat in Hm by nia.
  assert (3 + N ≤ (3 + N) * L)%nat by nia. lia.
Qed.

Lemma settle_one_pot m :
  match settle_one m with Some r => res (fun m' => pot m' < pot m)%nat anyF r | None => True end.
Proof.
  unfold settle_one.
  destruct (w_remove_conns (mw m)) as [|[c sd] q] eqn:E1.
  2:{ set (mp := m <| mw; w_remove_conns := q |>).
      assert (load mp = load m ∧ S (rml mp) = rml m ∧ nc mp = nc m) as (P1 & P2 & P3).
      { unfold load, rml, nc, work_len. subst mp. cbn. rewrite E1. cbn. lia. }
      destruct (conns (ms m) !! c) as [cs|] eqn:Ec.
      - eapply res_mono; [apply (shutdown_conn_Bd mp c sd cs Ec)| |done].
        intros m' (Hl & Hr & Hn). rewrite !pot_eq.
        assert (nc m ≠ 0)%nat as Hnz.
        { unfold nc. intros Hz. apply map_size_empty_inv in Hz. rewrite Hz in Ec. by rewrite lookup_empty in Ec. }
        pose proof (Nat.mul_le_mono (3 + nc m') (3 + nc m) _ _ ltac:(lia) Hl) as Hm. lia.
      - rewrite shutdown_conn_eq. change (conns (ms mp) !! c) with (conns (ms m) !! c). rewrite Ec.
        cbn [res]. rewrite !pot_eq. lia. }
  destruct (w_unsub_ev (mw m)) as [|[[c s] e] q] eqn:E2.
  2:{ eapply pop_item_pot; [..|apply (notify_item_bound _ c (UnsubscribeEvent s e))]; [done|done|].
      unfold work_len. cbn. rewrite E2. cbn. lia. }
  destruct (w_unsub_all (mw m)) as [|[c s] q] eqn:E3.
  2:{ eapply pop_item_pot; [..|apply (notify_item_bound _ c (UnsubscribeAllEvents None s))]; [done|done|].
      unfold work_len. cbn. rewrite E3. cbn. lia. }
  destruct (w_svc_destroyed (mw m)) as [|[c s] q] eqn:E4.
  2:{ eapply pop_item_pot; [..|apply (notify_item_bound _ c (ServiceDestroyed s))]; [done|done|].
      unfold work_len. cbn. rewrite E4. cbn. lia. }
  destruct (w_rm_call (mw m)) as [|[[serial c] result] q] eqn:E5.
  2:{ eapply pop_item_pot; [..|apply (rm_call_item_bound _ serial c result)]; [done|done|].
      unfold work_len. cbn. rewrite E5. cbn. lia. }
  destruct (w_create_obj (mw m)) as [|[u c] q] eqn:E6.
  2:{ eapply pop_item_pot; [..|apply bus_bound]; [done|done|]. unfold work_len. cbn. rewrite E6. cbn. lia. }
  destruct (w_create_svc (mw m)) as [|[[[ou oc] su] sc] q] eqn:E7.
  2:{ eapply pop_item_pot; [..|apply bus_bound]; [done|done|]. unfold work_len. cbn. rewrite E7. cbn. lia. }
  destruct (w_destroy_svc (mw m)) as [|[[[ou oc] su] sc] q] eqn:E8.
  2:{ eapply pop_item_pot; [..|apply bus_bound]; [done|done|]. unfold work_len. cbn. rewrite E8. cbn. lia. }
  destruct (w_destroy_obj (mw m)) as [|[u c] q] eqn:E9.
  2:{ eapply pop_item_pot; [..|apply bus_bound]; [done|done|]. unfold work_len. cbn. rewrite E9. cbn. lia. }
  destruct (w_abort (mw m)) as [|[b callee] q] eqn:E10; [done|].
  eapply pop_item_pot; [..|apply abort_call_bound]; [done|done|]. unfold work_len. cbn. rewrite E10. cbn. lia.
Qed.

(* ---------------------------------------------------------------- the bound *)
(* with at least [pot m] units of fuel the loop neither runs out of fuel nor (from an [MI]
   machine) hits a panic site *)
Theorem settle_fuel_enough : ∀ fuel m, MI m → (pot m ≤ fuel)%nat → ∃ m', settle fuel m = Done m'.
Proof.
  induction fuel as [|fuel IH]; intros m H Hp; rewrite settle_unfold;
    pose proof (settle_one_spec m H) as Hs; pose proof (settle_one_pot m) as Hd;
    (destruct (settle_one m) as [r|]; [|by eexists]);
    destruct Hs as (m1 & -> & H1 & _); cbn in Hd; [lia|].
  apply IH; [exact H1|lia].
Qed.

Theorem settle_fuel_for m : MI m → ∃ m', settle (fuel_for m) m = Done m'.
Proof. intros H. apply settle_fuel_enough; [exact H|]. rewrite fuel_for_pot. lia. Qed.

(* ---------------------------------------------------------------- a step is total *)
(* every legal step from an [Inv] state is Done, in an [Inv] state: the fuel site is unreachable *)
Theorem step_total s e fresh bserial :
  Inv s → fresh ∉ cookies_in_use s → bserial_ok s bserial → event_ok s e →
  ∃ s' o, step s e fresh bserial = Done (s', o) ∧ Inv s'.
Proof.
  intros H Hf Hb He. pose proof (step_spec s e fresh bserial H Hf Hb He) as Hsp.
  rewrite step_step_fuel in *. unfold step_fuel in *.
  destruct (handler_good s e fresh bserial H Hf Hb He) as (m & Hh & Hr). rewrite Hh in *.
  destruct (settle_fuel_for m Hr) as (m' & Hs). rewrite Hs in *. eauto.
Qed.

Corollary step_not_out_of_fuel s e fresh bserial :
  Inv s → fresh ∉ cookies_in_use s → bserial_ok s bserial → event_ok s e →
  step s e fresh bserial ≠ Panic 0.
Proof. intros H Hf Hb He Hp. destruct (step_total s e fresh bserial H Hf Hb He) as (s' & o & Hs & _). congruence. Qed.
