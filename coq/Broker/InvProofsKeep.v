(* Broker/InvProofsKeep.v — objects of other connections: a handler run for connection [c] keeps
   every object that [c] does not own (only DestroyObject by the owner removes an object in a
   handler).  A traversal of the handlers, no invariant needed. *)
From stdpp Require Import gmap list.
From RecordUpdate Require Import RecordSet.
Import RecordSetNotations.
From Aldrin Require Import gen.BrokerConsts Broker.Model Broker.Run Broker.Inv Broker.InvProofsBase
  Broker.InvProofsAlive.
Local Open Scope N_scope.

Section Keep.
  Context (u : uuid) (o : obj).
  Definition keeps_obj (m : M) : Prop := objs (ms m) !! u = Some o.
  Local Notation P := keeps_obj.

  Lemma send_keeps m c' x from : P m → opr P (send m c' x from).
  Proof. intros H. unfold send. destruct (conns (ms m) !! c'); [|done]. destruct (cs_alive _); exact H. Qed.
  Lemma send_or_remove_keeps m c' x from : P m → opr P (send_or_remove m c' x from).
  Proof.
    intros H. unfold send_or_remove, send. destruct (conns (ms m) !! c'); [|done]. destruct (cs_alive _); exact H.
  Qed.
  Lemma send_ignore_keeps m c' x from : P m → opr P (send_ignore m c' x from).
  Proof. intros H. unfold send_ignore, send. destruct (conns (ms m) !! c'); [|done]. destruct (cs_alive _); exact H. Qed.

  Ltac leaf :=
    first
      [ assumption
      | match goal with H : keeps_obj ?m |- keeps_obj _ => exact H end ].

  Ltac step1 :=
    match goal with
    | |- opr _ (Panic _) => exact I
    | |- opr _ (Done _) => cbn [opr]
    | |- opr _ (Fail _) => cbn [opr]
    | |- opr _ (_ >>> _) => apply opr_bind; [|intros ? ?]
    | |- opr _ (foldO _ _ _) => apply opr_foldO; [intros ? ? ?; cbv beta|]
    | |- opr _ (send_or_remove _ _ _ _) => apply send_or_remove_keeps
    | |- opr _ (send_ignore _ _ _ _) => apply send_ignore_keeps
    | |- opr _ (send _ _ _ _) => apply send_keeps
    | |- opr _ (let _ := _ in _) => cbv zeta
    | |- opr _ (match ?x with _ => _ end) => destruct x eqn:?
    | |- opr _ (if ?x then _ else _) => destruct x eqn:?
    | |- ?Q (foldl ?f ?m ?l) => apply (pr_foldl Q f l m); [intros ? ? ?; cbv beta|]
    | |- ?Q (foldr ?f ?m ?l) => apply (pr_foldr Q f l m); [intros ? ? ?; cbv beta|]
    | |- keeps_obj (match ?x with _ => _ end) => destruct x eqn:?
    | |- keeps_obj (if ?x then _ else _) => destruct x eqn:?
    | |- keeps_obj (let _ := _ in _) => cbv zeta
    | |- keeps_obj (set _ _ ?x) => change (keeps_obj x)
    | |- _ => leaf
    end.

  Lemma remove_listener_keeps m k : P m → P (remove_listener m k).
  Proof. intros H. unfold remove_listener. destruct (listeners (ms m) !! k); exact H. Qed.
  Lemma remove_end_keeps m k e : P m → opr P (remove_end m k e).
  Proof. intros H. unfold remove_end. repeat step1. Qed.
  Lemma remove_service_keeps m k : P m → opr P (remove_service m k).
  Proof. intros H. unfold remove_service. repeat step1. Qed.

  (* removing another object *)
  Lemma remove_object_keeps m k :
    P m → (∀ u' o', obj_by_cookie (ms m) k = Some (u', o') → u' ≠ u) → opr P (remove_object m k).
  Proof.
    intros H Hne. unfold remove_object. destruct (obj_by_cookie (ms m) k) as [[u' o']|] eqn:E; [|exact H].
    specialize (Hne _ _ eq_refl). cbv zeta.
    match goal with |- opr _ (foldO _ _ ?a >>> _) => assert (P a) as H1 end.
    { unfold keeps_obj in *. cbn. by rewrite lookup_delete_ne. }
    match goal with |- opr _ (foldO _ _ ?a >>> _) => generalize dependent a; intros m1 H1 end.
    repeat first [ match goal with |- opr _ (remove_service _ _) => apply remove_service_keeps end | step1 ].
  Qed.

  Lemma create_service_impl_keeps m c' serial oc u' i fresh : P m → opr P (create_service_impl m c' serial oc u' i fresh).
  Proof. intros H. unfold create_service_impl. repeat step1. Qed.
  Lemma call_impl_keeps m c' serial sc fn ver v bserial : P m → opr P (call_impl m c' serial sc fn ver v bserial).
  Proof. intros H. unfold call_impl. repeat step1. Qed.
  Lemma gate_keeps m c' minv k : P m → (∀ m, P m → opr P (k m)) → opr P (gate m c' minv k).
  Proof. intros H Hk. unfold gate. destruct (ver_of m c'); [|exact H]. destruct (_ <? _); [exact H|by apply Hk]. Qed.

  Lemma claim_tail_keeps m1 c' reply other msg :
    P m1 →
    opr P (match send m1 c' reply None with
           | Panic s => Panic s
           | Done m2 => send_or_remove m2 other msg None
           | Fail m2 =>
               match send_or_remove m2 other msg None with
               | Done m3 => Fail m3
               | x => x
               end
           end).
  Proof.
    intros H. pose proof (send_keeps m1 c' reply None H) as Hs.
    destruct (send m1 c' reply None) as [m2|m2|]; cbn in Hs; [by apply send_or_remove_keeps| |done].
    pose proof (send_or_remove_keeps m2 other msg None Hs) as Hs2.
    destruct (send_or_remove m2 other msg None); done.
  Qed.

  (* the handlers, for a sender that does not own the object *)
  Lemma handle_keeps m c' x fresh bserial : P m → o_owner o ≠ c' → opr P (handle m c' x fresh bserial).
  Proof.
    intros H Hown. unfold handle. destruct (conns (ms m) !! c') as [cs|] eqn:Hc; [|exact H].
    cbv zeta. destruct x;
    try (repeat first
      [ match goal with
        | |- opr _ (match send _ _ _ _ with _ => _ end) => apply claim_tail_keeps
        | |- opr _ (gate _ _ _ _) => apply gate_keeps; [|intros ? ?]
        | |- opr _ (create_service_impl _ _ _ _ _ _ _) => apply create_service_impl_keeps
        | |- opr _ (call_impl _ _ _ _ _ _ _ _) => apply call_impl_keeps
        | |- opr _ (remove_service _ _) => apply remove_service_keeps
        | |- opr _ (remove_end _ _ _) => apply remove_end_keeps
        | |- keeps_obj (remove_listener _ _) => apply remove_listener_keeps
        end
      | step1 ]; fail).
    - (* CreateObject: the handler inserts only at a key that is not live *)
      destruct (bool_decide_reflect (is_Some (objs (ms m) !! u0))) as [|Hn]; [by apply send_keeps|].
      unfold send. rewrite Hc. destruct (cs_alive cs); cbn; [|exact H].
      unfold keeps_obj in *. cbn. rewrite lookup_insert_ne; [done|]. intros ->. apply Hn. eauto.
    - (* DestroyObject: only the owner's request removes the object *)
      destruct (obj_by_cookie (ms m) c) as [[u' o']|] eqn:E; [|by apply send_keeps].
      destruct (bool_decide_reflect (o_owner o' = c')) as [Ho'|Ho']; cbn [negb]; [|by apply send_keeps].
      unfold send. rewrite Hc. destruct (cs_alive cs); cbn [andThen]; [|exact H].
      apply remove_object_keeps; [exact H|]. cbn [ms set]. cbn. intros u1 o1 E1.
      rewrite E in E1. inversion E1; subst u1 o1. intros ->.
      apply obj_by_cookie_Some in E as [E _]. unfold keeps_obj in H. rewrite H in E. inversion E; subst. done.
  Qed.
End Keep.
