(* Codec/Amplify.v — the decoded tree is never larger than the input that was consumed: every
   node of the value (and every byte of string/bytes payload) is paid for by at least one input
   byte.  This is the model-level form of C07's allocation bound: a decoder whose output is
   bounded by its input cannot be made to build a structure out of an attacker-supplied length
   field alone. *)
From Aldrin Require Import Codec.Base Codec.BaseProofs Codec.Value Codec.De Codec.DeProofs gen.Consts.
From Coq Require Import ZifyBool ZifyNat ZifyN.
Open Scope N_scope.
Arguments N.add : simpl never.
Arguments N.sub : simpl never.
Arguments N.mul : simpl never.
Arguments N.ltb : simpl never.
Arguments N.leb : simpl never.
Arguments N.eqb : simpl never.

Definition key_size (k : keyv) : nat := match k with KeyZ _ => 1%nat | KeyB l => Nat.max 1 (length l) end.

(* nodes + payload bytes *)
Fixpoint vsize (v : Value) : nat :=
  match v with
  | VNone | VBool _ | VInt _ _ => 1
  | VSome x | VEnum _ x => S (vsize x)
  | VFixed _ bs | VString bs | VBytes bs => S (length bs)
  | VVec l => S (fold_right (fun x m => vsize x + m) 0 l)
  | VMap _ l => S (fold_right (fun p m => key_size (fst p) + vsize (snd p) + m) 0 l)
  | VSet _ l => S (fold_right (fun k m => key_size k + m) 0 l)
  | VStruct l => S (fold_right (fun p m => S (vsize (snd p)) + m) 0 l)
  end%nat.

(* [w] pays for what it returns: size of the result + rest <= input *)
Definition pays {A} (size : A -> nat) (w : list N -> result (A * list N)) : Prop :=
  forall b x r, w b = Ok (x, r) -> (size x + length r <= length b)%nat.

Lemma take_pays n b x r : take n b = Ok (x, r) -> (length x + length r = length b)%nat.
Proof. intros H. apply take_ok in H as [-> _]. rewrite app_length. lia. Qed.

Lemma get_key_pays utf8 k : pays key_size (get_key utf8 k).
Proof.
  intros b v r. destruct k as [i| |]; cbn [get_key].
  - destruct (get_int i b) as [[z r']|] eqn:E; cbn [bind]; [|discriminate].
    intros H; inversion H; subst. apply get_int_consumes in E. cbn [key_size]. lia.
  - destruct (get_varint 4 b) as [[n r1]|] eqn:E; cbn [bind]; [|discriminate].
    destruct (take n r1) as [[s r2]|] eqn:E2; cbn [bind]; [|discriminate].
    destruct (_ || _); [|discriminate]. intros H; inversion H; subst.
    apply get_varint_consumes in E. apply take_pays in E2. cbn [key_size]. lia.
  - destruct (take 16 b) as [[s r']|] eqn:E; cbn [bind]; [|discriminate].
    intros H; inversion H; subst. pose proof (take_pays _ _ _ _ E). apply take_ok in E as [_ E].
    unfold lenN in E. cbn [key_size]. lia.
Qed.

Lemma loop1_pays {A} (size : A -> nat) (elem : list N -> result (A * list N)) :
  pays size elem -> forall n cnt,
  pays (fun xs => fold_right (fun x m => size x + m) 0 xs)%nat (loop1 elem n cnt).
Proof.
  intros He. induction n as [|n IH]; intros cnt b xs r; cbn [loop1]; destruct (cnt =? 0);
    try (intros H; inversion H; subst; cbn; lia); try discriminate.
  destruct (elem b) as [[x r1]|] eqn:E; cbn [bind]; [|discriminate].
  destruct (loop1 elem n (cnt - 1) r1) as [[ys r2]|] eqn:E2; cbn [bind]; [|discriminate].
  intros H; inversion H; subst. apply He in E. apply IH in E2. cbn [fold_right] in *. lia.
Qed.

Lemma loop2_pays {A} (size : A -> nat) (elem : list N -> result (A * list N)) :
  pays size elem -> forall n,
  pays (fun xs => fold_right (fun x m => size x + m) 0 xs)%nat (loop2 elem n).
Proof.
  intros He. induction n as [|n IH]; intros b xs r; cbn [loop2]; [discriminate|].
  destruct b as [|k b]; [discriminate|]. destruct (kind_of_byte k) as [[]|]; try discriminate.
  - intros H; inversion H; subst. cbn. lia.
  - destruct (elem b) as [[x r1]|] eqn:E; cbn [bind]; [|discriminate].
    destruct (loop2 elem n r1) as [[ys r2]|] eqn:E2; cbn [bind]; [|discriminate].
    intros H; inversion H; subst. apply He in E. apply IH in E2. cbn [fold_right length] in *. lia.
Qed.

Lemma bytes2_loop_pays short : forall n len, pays (@length N) (bytes2_loop short n len).
Proof.
  induction n as [|n IH]; intros len b bs r; cbn [bytes2_loop]; destruct (len =? 0);
    try (intros H; inversion H; subst; cbn; lia); try discriminate.
  destruct (take len b) as [[c r0]|] eqn:E; try discriminate.
  destruct (get_varint 4 r0) as [[len' r1]|] eqn:E1; cbn [bind]; [|discriminate].
  destruct (bytes2_loop short n len' r1) as [[bs' r2]|] eqn:E2; cbn [bind]; [|discriminate].
  intros H; inversion H; subst. apply take_pays in E. apply get_varint_consumes in E1. apply IH in E2.
  rewrite app_length. lia.
Qed.

(* last-wins de-duplication never grows the total *)
Section Dedup.
  Context {K V : Type} (eqb : K -> K -> bool) (sz : K * V -> nat).
  Definition total (l : list (K * V)) : nat := fold_right (fun p m => sz p + m)%nat 0%nat l.

  Lemma total_app a b : total (a ++ b) = (total a + total b)%nat.
  Proof. unfold total. induction a as [|x a IH]; cbn [app fold_right]; [reflexivity|]. rewrite IH. lia. Qed.

  Lemma total_filter f l : (total (List.filter f l) <= total l)%nat.
  Proof. unfold total. induction l as [|x l IH]; cbn [List.filter fold_right]; [lia|]. destruct (f x); cbn [fold_right]; lia. Qed.

  Lemma total_cons p l : total (p :: l) = (sz p + total l)%nat.
  Proof. reflexivity. Qed.

  Lemma dedup_assoc_le (l acc : list (K * V)) :
    (total (fold_left (fun a p => assoc_insert eqb (fst p) (snd p) a) l acc) <= total acc + total l)%nat.
  Proof.
    revert acc. induction l as [|p l IH]; intros acc; cbn [fold_left].
    - rewrite (total_app acc []) || idtac. unfold total at 3. cbn [fold_right]. lia.
    - eapply Nat.le_trans; [apply IH|]. rewrite total_cons. unfold assoc_insert. rewrite total_app.
      pose proof (total_filter (fun q => negb (eqb (fst p) (fst q))) acc) as Hf.
      rewrite total_cons. change (total []) with 0%nat. destruct p as [k v]. cbn [fst snd] in *. lia.
  Qed.
End Dedup.

Lemma dedup_map_le l :
  (fold_right (fun p m => key_size (fst p) + vsize (snd p) + m) 0 (dedup_map l) <=
   fold_right (fun p m => key_size (fst p) + vsize (snd p) + m) 0 l)%nat.
Proof.
  pose proof (dedup_assoc_le key_eqb (fun p : keyv * Value => key_size (fst p) + vsize (snd p))%nat l []) as H.
  unfold total in H. cbn [fold_right] in H. exact H.
Qed.

Lemma dedup_struct_le l :
  (fold_right (fun p m => S (vsize (snd p)) + m) 0 (dedup_struct l) <=
   fold_right (fun p m => S (vsize (snd p)) + m) 0 l)%nat.
Proof.
  pose proof (dedup_assoc_le N.eqb (fun p : N * Value => S (vsize (snd p)))%nat l []) as H.
  unfold total in H. cbn [fold_right] in H. exact H.
Qed.

Lemma dedup_set_le l :
  (fold_right (fun k m => key_size k + m) 0 (dedup_set l) <= fold_right (fun k m => key_size k + m) 0 l)%nat.
Proof.
  unfold dedup_set.
  assert (forall l acc, (fold_right (fun k m => key_size k + m) 0
            (fold_left (fun a k => set_insert k a) l acc) <=
          fold_right (fun k m => key_size k + m) 0 acc + fold_right (fun k m => key_size k + m) 0 l)%nat) as G.
  { clear. induction l as [|k l IH]; intros acc; cbn [fold_left fold_right]; [lia|].
    eapply Nat.le_trans; [apply IH|]. unfold set_insert, list_insert.
    assert (forall a b, fold_right (fun k m => key_size k + m) 0 (a ++ b) =
                        fold_right (fun k m => key_size k + m) 0 a + fold_right (fun k m => key_size k + m) 0 b)%nat as Happ.
    { induction a as [|x a IHa]; intros b; cbn [app fold_right]; [reflexivity|]. rewrite IHa. lia. }
    rewrite Happ. cbn [fold_right].
    assert (forall f a, fold_right (fun k m => key_size k + m) 0 (List.filter f a) <=
                        fold_right (fun k m => key_size k + m) 0 a)%nat as Hf.
    { intros f a. induction a as [|x a IHa]; cbn [List.filter fold_right]; [lia|]. destruct (f x); cbn [fold_right]; lia. }
    pose proof (Hf (fun x => negb (key_eqb k x)) acc). lia. }
  specialize (G l []). cbn in G. exact G.
Qed.

Lemma map_elem_pays utf8 kk rec :
  pays vsize rec -> pays (fun p : keyv * Value => key_size (fst p) + vsize (snd p))%nat (map_elem utf8 kk rec).
Proof.
  intros Hr b [k v] r. unfold map_elem.
  destruct (get_key utf8 kk b) as [[key r1]|] eqn:E; cbn [bind]; [|discriminate].
  destruct (rec r1) as [[v' r2]|] eqn:E2; cbn [bind]; [|discriminate].
  intros H; inversion H; subst. apply get_key_pays in E. apply Hr in E2. cbn. lia.
Qed.

Lemma field_elem_pays rec :
  pays vsize rec -> pays (fun p : N * Value => S (vsize (snd p))) (field_elem rec).
Proof.
  intros Hr b [k v] r. unfold field_elem.
  destruct (get_varint 4 b) as [[id r1]|] eqn:E; cbn [bind]; [|discriminate].
  destruct (rec r1) as [[v' r2]|] eqn:E2; cbn [bind]; [|discriminate].
  intros H; inversion H; subst. apply get_varint_consumes in E. apply Hr in E2. cbn. lia.
Qed.

Lemma de_body_pays utf8 (rec : walker Value) n :
  (forall d, pays vsize (rec d)) -> forall d, pays vsize (de_body utf8 rec n d).
Proof.
  intros Hr d b v r. unfold de_body, de_kind. destruct (_ <? _)%nat; [discriminate|].
  destruct b as [|k b]; [discriminate|]. destruct (kind_of_byte k) as [kd|]; [|discriminate].
  cbn [length].
  destruct kd as [| | |i|f| |e|e|e kk|e kk|e|].
  - intros H; inversion H; subst. cbn. lia.
  - destruct (rec (S d) b) as [[x r']|] eqn:E; cbn [bind]; [|discriminate].
    intros H; inversion H; subst. apply Hr in E. cbn. lia.
  - destruct b; [discriminate|]. intros H; inversion H; subst. cbn. lia.
  - destruct (get_int i b) as [[z r']|] eqn:E; cbn [bind]; [|discriminate].
    intros H; inversion H; subst. apply get_int_consumes in E. cbn. lia.
  - destruct (take _ b) as [[bs r']|] eqn:E; cbn [bind]; [|discriminate].
    intros H; inversion H; subst. apply take_pays in E. cbn. lia.
  - destruct (get_varint 4 b) as [[len r1]|] eqn:E; cbn [bind]; [|discriminate].
    destruct (take len r1) as [[s r2]|] eqn:E2; cbn [bind]; [|discriminate].
    destruct (_ || _); [|discriminate]. intros H; inversion H; subst.
    apply get_varint_consumes in E. apply take_pays in E2. cbn. lia.
  - destruct e.
    + destruct (get_varint 4 b) as [[cnt r1]|] eqn:E; cbn [bind]; [|discriminate].
      destruct (loop1 _ n cnt r1) as [[xs r2]|] eqn:E2; cbn [bind]; [|discriminate].
      intros H; inversion H; subst. apply get_varint_consumes in E.
      apply (loop1_pays vsize) in E2; [|apply Hr]. cbn [vsize]. lia.
    + destruct (loop2 _ n b) as [[xs r2]|] eqn:E2; cbn [bind]; [|discriminate].
      intros H; inversion H; subst. apply (loop2_pays vsize) in E2; [|apply Hr]. cbn [vsize]. lia.
  - destruct e.
    + destruct (get_varint 4 b) as [[cnt r1]|] eqn:E; cbn [bind]; [|discriminate].
      destruct (take cnt r1) as [[bs r2]|] eqn:E2; [|discriminate].
      intros H; inversion H; subst. apply get_varint_consumes in E. apply take_pays in E2. cbn. lia.
    + destruct (get_varint 4 b) as [[len r1]|] eqn:E; cbn [bind]; [|discriminate].
      destruct (bytes2_loop _ n len r1) as [[bs r2]|] eqn:E2; cbn [bind]; [|discriminate].
      intros H; inversion H; subst. apply get_varint_consumes in E. apply bytes2_loop_pays in E2. cbn. lia.
  - destruct e.
    + destruct (get_varint 4 b) as [[cnt r1]|] eqn:E; cbn [bind]; [|discriminate].
      destruct (loop1 _ n cnt r1) as [[xs r2]|] eqn:E2; cbn [bind]; [|discriminate].
      intros H; inversion H; subst. apply get_varint_consumes in E.
      apply (loop1_pays (fun p : keyv * Value => key_size (fst p) + vsize (snd p))%nat) in E2;
        [|apply map_elem_pays, Hr].
      pose proof (dedup_map_le xs). cbn [vsize]. lia.
    + destruct (loop2 _ n b) as [[xs r2]|] eqn:E2; cbn [bind]; [|discriminate].
      intros H; inversion H; subst.
      apply (loop2_pays (fun p : keyv * Value => key_size (fst p) + vsize (snd p))%nat) in E2;
        [|apply map_elem_pays, Hr].
      pose proof (dedup_map_le xs). cbn [vsize]. lia.
  - destruct e.
    + destruct (get_varint 4 b) as [[cnt r1]|] eqn:E; cbn [bind]; [|discriminate].
      destruct (loop1 _ n cnt r1) as [[xs r2]|] eqn:E2; cbn [bind]; [|discriminate].
      intros H; inversion H; subst. apply get_varint_consumes in E.
      apply (loop1_pays key_size) in E2; [|apply get_key_pays].
      pose proof (dedup_set_le xs). cbn [vsize]. lia.
    + destruct (loop2 _ n b) as [[xs r2]|] eqn:E2; cbn [bind]; [|discriminate].
      intros H; inversion H; subst. apply (loop2_pays key_size) in E2; [|apply get_key_pays].
      pose proof (dedup_set_le xs). cbn [vsize]. lia.
  - destruct e.
    + destruct (get_varint 4 b) as [[cnt r1]|] eqn:E; cbn [bind]; [|discriminate].
      destruct (loop1 _ n cnt r1) as [[xs r2]|] eqn:E2; cbn [bind]; [|discriminate].
      intros H; inversion H; subst. apply get_varint_consumes in E.
      apply (loop1_pays (fun p : N * Value => S (vsize (snd p)))) in E2; [|apply field_elem_pays, Hr].
      pose proof (dedup_struct_le xs). cbn [vsize]. lia.
    + destruct (loop2 _ n b) as [[xs r2]|] eqn:E2; cbn [bind]; [|discriminate].
      intros H; inversion H; subst.
      apply (loop2_pays (fun p : N * Value => S (vsize (snd p)))) in E2; [|apply field_elem_pays, Hr].
      pose proof (dedup_struct_le xs). cbn [vsize]. lia.
  - destruct (get_varint 4 b) as [[id r1]|] eqn:E; cbn [bind]; [|discriminate].
    destruct (rec (S d) r1) as [[x r2]|] eqn:E2; cbn [bind]; [|discriminate].
    intros H; inversion H; subst. apply get_varint_consumes in E. apply Hr in E2. cbn. lia.
Qed.

Theorem de_pays utf8 : forall f d, pays vsize (de utf8 f d).
Proof.
  induction f as [|f IH]; intros d; [intros b v r; discriminate|].
  cbn [de]. apply de_body_pays. exact IH.
Qed.

Corollary no_amplification utf8 b v r :
  de_value utf8 b = Ok (v, r) -> (vsize v + length r <= length b)%nat.
Proof. unfold de_value. apply de_pays. Qed.
