(* Codec/SkipProofs.v — the skip walker simulates the decoder-without-UTF-8-validation step for
   step (same acceptance, same remaining input, fuel exhausted at the same points), and the
   validating decoder accepts a subset of what the non-validating one accepts (C07). *)
From Aldrin Require Import Codec.Base Codec.BaseProofs Codec.Value Codec.De Codec.Skip
  Codec.DeProofs gen.Consts.
From Coq Require Import ZifyBool ZifyNat ZifyN.
Open Scope N_scope.
Arguments N.add : simpl never.
Arguments N.sub : simpl never.
Arguments N.mul : simpl never.
Arguments N.ltb : simpl never.
Arguments N.leb : simpl never.
Arguments N.eqb : simpl never.

(* the tie that the defect of DESIGN §5 item 9 broke: each varint key is skipped with the width
   it is decoded with (the widths come from the source through gen/Consts.v) *)
Lemma key_skip_width_ok i : key_skip_width i = int_width i.
Proof. destruct i; reflexivity. Qed.

Definition sim {A} (x : result (list N)) (y : result (A * list N)) : Prop :=
  match x, y with
  | Ok r, Ok (_, r') => r = r'
  | Err e, Err e' => e = Fuel <-> e' = Fuel
  | _, _ => False
  end.

Lemma sim_bind {A B} (e : result (list N)) (e' : result (A * list N)) k (k' : A * list N -> result (B * list N)) :
  sim e e' -> (forall a r, sim (k r) (k' (a, r))) -> sim (bind e k) (bind e' k').
Proof.
  destruct e as [r|er], e' as [[a r']|er']; cbn [sim bind]; try tauto.
  intros -> H. apply H.
Qed.

Lemma sim_bind_same {X A} (e : result X) k (k' : X -> result (A * list N)) :
  (forall x, sim (k x) (k' x)) -> sim (bind e k) (bind e k').
Proof. destruct e as [x|er]; cbn [bind sim]; [auto|tauto]. Qed.

Lemma sim_map {A B} (x : result (list N)) (y : result (A * list N)) (g : A -> B) :
  sim x y -> sim x ('(v, r') <- y ;; Ok (g v, r')).
Proof. destruct x as [r|er], y as [[a r']|er']; cbn [sim bind]; tauto. Qed.

Lemma sim_drop_take {A} n b (g : list N -> A) :
  sim (drop n b) ('(bs, r) <- take n b ;; Ok (g bs, r)).
Proof. unfold drop. destruct (take n b) as [[bs r]|e]; cbn [bind sim]; tauto. Qed.

Lemma drop1 b : drop 1 b = match b with [] => Err Eoi | _ :: r => Ok r end.
Proof.
  unfold drop. rewrite take_spec. destruct b as [|x b].
  - reflexivity.
  - rewrite lenN_cons. destruct (N.leb_spec 1 (1 + lenN b)); [reflexivity|lia].
Qed.

Lemma sim_skip_varint W b : sim (skip_varint W b) (get_varint W b).
Proof.
  destruct b as [|x b]; cbn [skip_varint get_varint sim]; [tauto|].
  destruct (_ <? x); cbn [sim]; [|reflexivity].
  destruct (take _ b) as [[bs r]|e]; cbn [bind sim]; tauto.
Qed.

Lemma sim_skip_int i b :
  sim (match i with U8 | I8 => drop 1 b | _ => skip_varint (int_width i) b end) (get_int i b).
Proof.
  destruct i; cbn [get_int]; try (rewrite drop1; destruct b; cbn [sim]; tauto);
    apply sim_map, sim_skip_varint.
Qed.

Lemma sim_skip_key k b : sim (skip_key k b) (get_key false k b).
Proof.
  destruct k as [i| |]; cbn [skip_key get_key].
  - pose proof (sim_skip_int i b) as H.
    destruct i; try (apply sim_map; exact H); rewrite key_skip_width_ok; apply sim_map; exact H.
  - apply sim_bind_same. intros [n r]. cbn [negb orb]. apply (sim_drop_take n r KeyB).
  - apply (sim_drop_take 16 b KeyB).
Qed.

Definition sim_w {A} (w : list N -> result (list N)) (w' : list N -> result (A * list N)) :=
  forall b, sim (w b) (w' b).

Lemma sloop1_sim {A} (elem : list N -> result (list N)) (elem' : list N -> result (A * list N)) :
  sim_w elem elem' -> forall n cnt b, sim (sloop1 elem n cnt b) (loop1 elem' n cnt b).
Proof.
  intros He. induction n as [|n IH]; intros cnt b; cbn [sloop1 loop1]; destruct (cnt =? 0); cbn [sim]; try tauto.
  apply sim_bind; [apply He|]. intros x r. apply sim_map, IH.
Qed.

Lemma sloop2_sim {A} (elem : list N -> result (list N)) (elem' : list N -> result (A * list N)) :
  sim_w elem elem' -> forall n b, sim (sloop2 elem n b) (loop2 elem' n b).
Proof.
  intros He. induction n as [|n IH]; intros b; cbn [sloop2 loop2 sim]; [tauto|].
  destruct b as [|k r]; cbn [sim]; [split; discriminate|].
  destruct (kind_of_byte k) as [[]|]; cbn [sim]; try (split; discriminate); try reflexivity.
  apply sim_bind; [apply He|]. intros x r1. apply sim_map, IH.
Qed.

Lemma sbytes2_sim : forall n len b, sim (sbytes2_loop n len b) (bytes2_loop Invalid n len b).
Proof.
  induction n as [|n IH]; intros len b; cbn [sbytes2_loop bytes2_loop]; destruct (len =? 0); cbn [sim]; try tauto.
  unfold drop. destruct (take len b) as [[c r]|e] eqn:E; cbn [bind sim];
    [|apply take_err in E as [-> _]; split; discriminate].
  apply sim_bind_same. intros [len' r']. apply sim_map, IH.
Qed.

Lemma skip_body_sim (rec : swalker) (rec' : walker Value) n :
  (forall d, sim_w (rec d) (rec' d)) -> forall d, sim_w (skip_body rec n d) (de_body false rec' n d).
Proof.
  intros Hr d b. unfold skip_body, de_body, de_kind. destruct (_ <? _)%nat; cbn [sim]; [split; discriminate|].
  destruct b as [|k r]; cbn [sim]; [split; discriminate|].
  destruct (kind_of_byte k) as [kd|]; cbn [sim]; [|split; discriminate].
  destruct kd as [| | |i|f| |e|e|e kk|e kk|e|].
  - reflexivity.
  - apply sim_map, Hr.
  - rewrite drop1. destruct r; cbn [sim]; [split; discriminate|reflexivity].
  - pose proof (sim_skip_int i r) as H. destruct i; apply sim_map; exact H.
  - apply sim_drop_take.
  - apply sim_bind_same. intros [len r1]. cbn [negb orb]. apply (sim_drop_take len r1 VString).
  - destruct e.
    + apply sim_bind_same. intros [cnt r1]. apply sim_map, sloop1_sim, Hr.
    + apply sim_map, sloop2_sim, Hr.
  - destruct e.
    + apply sim_bind_same. intros [cnt r1].
      destruct (take cnt r1) as [[bs r2]|]; cbn [sim]; [reflexivity|split; discriminate].
    + apply sim_bind_same. intros [len r1]. apply sim_map, sbytes2_sim.
  - destruct e.
    + apply sim_bind_same. intros [cnt r1]. apply sim_map, sloop1_sim. intros b'. unfold map_elem.
      apply sim_bind; [apply sim_skip_key|]. intros key r'. apply sim_map, Hr.
    + apply sim_map, sloop2_sim. intros b'. unfold map_elem.
      apply sim_bind; [apply sim_skip_key|]. intros key r'. apply sim_map, Hr.
  - destruct e.
    + apply sim_bind_same. intros [cnt r1]. apply sim_map, sloop1_sim. intros b'. apply sim_skip_key.
    + apply sim_map, sloop2_sim. intros b'. apply sim_skip_key.
  - destruct e.
    + apply sim_bind_same. intros [cnt r1]. apply sim_map, sloop1_sim. intros b'. unfold field_elem.
      apply sim_bind_same. intros [id r']. apply sim_map, Hr.
    + apply sim_map, sloop2_sim. intros b'. unfold field_elem.
      apply sim_bind_same. intros [id r']. apply sim_map, Hr.
  - apply sim_bind_same. intros [id r1]. apply sim_map, Hr.
Qed.

Theorem skip_sim : forall f d b, sim (skip f d b) (de false f d b).
Proof.
  induction f as [|f IH]; intros d b; cbn [skip de sim]; [tauto|].
  apply skip_body_sim. intros d' b'. apply IH.
Qed.

(* ---------- validating decoder ⊆ non-validating decoder ---------- *)
Definition sub {A} (x y : result A) : Prop := forall a, x = Ok a -> y = Ok a.

Lemma sub_refl {A} (x : result A) : sub x x. Proof. intros a H; exact H. Qed.
Lemma sub_bind {A B} (e e' : result A) (k k' : A -> result B) :
  sub e e' -> (forall a, sub (k a) (k' a)) -> sub (bind e k) (bind e' k').
Proof.
  intros He Hk b. destruct e as [a|er]; cbn [bind]; [|discriminate].
  rewrite (He a eq_refl). cbn [bind]. apply Hk.
Qed.

Lemma get_key_sub k b : sub (get_key true k b) (get_key false k b).
Proof.
  destruct k as [i| |]; cbn [get_key]; try apply sub_refl.
  apply sub_bind; [apply sub_refl|]. intros [n r]. apply sub_bind; [apply sub_refl|]. intros [s r'].
  cbn [negb orb]. destruct (utf8_valid s); [apply sub_refl|intros a; discriminate].
Qed.

Definition sub_w {A} (w w' : list N -> result (A * list N)) := forall b, sub (w b) (w' b).

Lemma loop1_sub {A} (elem elem' : list N -> result (A * list N)) :
  sub_w elem elem' -> forall n cnt b, sub (loop1 elem n cnt b) (loop1 elem' n cnt b).
Proof.
  intros He. induction n as [|n IH]; intros cnt b; cbn [loop1]; destruct (cnt =? 0); try apply sub_refl.
  apply sub_bind; [apply He|]. intros [x r]. apply sub_bind; [apply IH|]. intros [xs r']. apply sub_refl.
Qed.

Lemma loop2_sub {A} (elem elem' : list N -> result (A * list N)) :
  sub_w elem elem' -> forall n b, sub (loop2 elem n b) (loop2 elem' n b).
Proof.
  intros He. induction n as [|n IH]; intros b; cbn [loop2]; [apply sub_refl|].
  destruct b as [|k r]; [apply sub_refl|]. destruct (kind_of_byte k) as [[]|]; try apply sub_refl.
  apply sub_bind; [apply He|]. intros [x r1]. apply sub_bind; [apply IH|]. intros [xs r2]. apply sub_refl.
Qed.

Lemma de_body_sub (rec rec' : walker Value) n :
  (forall d, sub_w (rec d) (rec' d)) -> forall d, sub_w (de_body true rec n d) (de_body false rec' n d).
Proof.
  intros Hr d b. unfold de_body, de_kind. destruct (_ <? _)%nat; [apply sub_refl|].
  destruct b as [|k r]; [apply sub_refl|]. destruct (kind_of_byte k) as [kd|]; [|apply sub_refl].
  destruct kd as [| | |i|f| |e|e|e kk|e kk|e|]; try apply sub_refl.
  - apply sub_bind; [apply Hr|]. intros [v r']. apply sub_refl.
  - apply sub_bind; [apply sub_refl|]. intros [len r1]. apply sub_bind; [apply sub_refl|]. intros [s r2].
    cbn [negb orb]. destruct (utf8_valid s); [apply sub_refl|intros a; discriminate].
  - destruct e.
    + apply sub_bind; [apply sub_refl|]. intros [cnt r1].
      apply sub_bind; [apply loop1_sub, Hr|]. intros [xs r2]. apply sub_refl.
    + apply sub_bind; [apply loop2_sub, Hr|]. intros [xs r2]. apply sub_refl.
  - destruct e.
    + apply sub_bind; [apply sub_refl|]. intros [cnt r1].
      apply sub_bind; [apply loop1_sub|intros [xs r2]; apply sub_refl].
      intros b'. unfold map_elem. apply sub_bind; [apply get_key_sub|]. intros [key r'].
      apply sub_bind; [apply Hr|]. intros [v r'']. apply sub_refl.
    + apply sub_bind; [apply loop2_sub|intros [xs r2]; apply sub_refl].
      intros b'. unfold map_elem. apply sub_bind; [apply get_key_sub|]. intros [key r'].
      apply sub_bind; [apply Hr|]. intros [v r'']. apply sub_refl.
  - destruct e.
    + apply sub_bind; [apply sub_refl|]. intros [cnt r1].
      apply sub_bind; [apply loop1_sub; intros b'; apply get_key_sub|intros [xs r2]; apply sub_refl].
    + apply sub_bind; [apply loop2_sub; intros b'; apply get_key_sub|intros [xs r2]; apply sub_refl].
  - destruct e.
    + apply sub_bind; [apply sub_refl|]. intros [cnt r1].
      apply sub_bind; [apply loop1_sub|intros [xs r2]; apply sub_refl].
      intros b'. unfold field_elem. apply sub_bind; [apply sub_refl|]. intros [id r'].
      apply sub_bind; [apply Hr|]. intros [v r'']. apply sub_refl.
    + apply sub_bind; [apply loop2_sub|intros [xs r2]; apply sub_refl].
      intros b'. unfold field_elem. apply sub_bind; [apply sub_refl|]. intros [id r'].
      apply sub_bind; [apply Hr|]. intros [v r'']. apply sub_refl.
  - apply sub_bind; [apply sub_refl|]. intros [id r1]. apply sub_bind; [apply Hr|]. intros [v r2]. apply sub_refl.
Qed.

Theorem de_true_false : forall f d b, sub (de true f d b) (de false f d b).
Proof.
  induction f as [|f IH]; intros d b; cbn [de]; [apply sub_refl|].
  apply de_body_sub. intros d' b'. apply IH.
Qed.

(* ---------- top level ---------- *)
Theorem skip_exact b r : skip_value b = Ok r <-> exists v, de_value false b = Ok (v, r).
Proof.
  unfold skip_value, de_value. pose proof (skip_sim (S (length b)) 0%nat b) as H.
  destruct (skip _ _ b) as [r0|e], (de false _ _ b) as [[v r1]|e']; cbn [sim] in H; try tauto.
  - subst. split; [intros E; inversion E; subst; eauto|intros [v' E]; inversion E; subst; reflexivity].
  - split; [discriminate|intros [v' E]; discriminate].
Qed.

Theorem skip_agrees b v r : de_value true b = Ok (v, r) -> skip_value b = Ok r.
Proof.
  intros H. apply skip_exact. exists v. unfold de_value in *. apply de_true_false. exact H.
Qed.

Theorem skip_total b : skip_value b <> Err Fuel.
Proof.
  unfold skip_value. pose proof (skip_sim (S (length b)) 0%nat b) as H.
  pose proof (de_enough false (S (length b)) 0%nat b ltac:(lia)) as Hd.
  destruct (skip _ _ b) as [r0|e], (de false _ _ b) as [[v r1]|e']; cbn [sim] in H; try discriminate; try tauto.
  intros E. inversion E; subst. apply Hd. f_equal. apply H. reflexivity.
Qed.
