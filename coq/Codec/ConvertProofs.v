(* Codec/ConvertProofs.v — structural facts about the epoch converter (Convert.v):
   fuel monotonicity, a step-for-step simulation of the non-validating decoder (same
   acceptance, same remaining input, fuel exhausted at the same points; the only extra failure
   is Overflow), hence fuel totality and consumption; Overflow needs more than 2^32-1 input bytes;
   versions. *)
From Aldrin Require Import Codec.Base Codec.BaseProofs Codec.Value Codec.De Codec.Convert
  gen.Consts gen.ConvConsts Codec.DeProofs.
From Coq Require Import ZifyBool ZifyNat ZifyN.
Open Scope N_scope.
Arguments N.add : simpl never.
Arguments N.sub : simpl never.
Arguments N.mul : simpl never.
Arguments N.ltb : simpl never.
Arguments N.leb : simpl never.
Arguments N.eqb : simpl never.

(* ---------- fuel monotonicity ---------- *)
Lemma conv_map_elem_mono kk (rec rec' : list N -> cres) :
  le_w rec rec' -> le_w (conv_map_elem kk rec) (conv_map_elem kk rec').
Proof.
  intros H b. unfold conv_map_elem. apply le_bind; [apply le_refl|]. intros [ko r].
  apply le_bind; [apply H|]. intros [vo r']. apply le_refl.
Qed.

Lemma conv_field_elem_mono (rec rec' : list N -> cres) :
  le_w rec rec' -> le_w (conv_field_elem rec) (conv_field_elem rec').
Proof.
  intros H b. unfold conv_field_elem. apply le_bind; [apply le_refl|]. intros [id r].
  apply le_bind; [apply H|]. intros [vo r']. apply le_refl.
Qed.

Lemma conv_body_mono (rec rec' : cwalker) n n' :
  (forall d, le_w (rec d) (rec' d)) -> (n <= n')%nat ->
  forall d b, conv_body rec n d b ⊑ conv_body rec' n' d b.
Proof.
  intros Hr Hn d b. unfold conv_body, conv_kind. destruct (_ <? _)%nat; [apply le_refl|].
  destruct b as [|k r]; [apply le_refl|]. destruct (kind_of_byte k) as [kd|]; [|apply le_refl].
  destruct kd as [| | |i|f| |e|e|e kk|e kk|e|]; try apply le_refl.
  - apply le_bind; [apply Hr|]. intros [v r']. apply le_refl.
  - destruct e.
    + apply le_bind; [apply le_refl|]. intros [cnt r1].
      apply le_bind; [apply loop1_mono; auto|]. intros [xs r2]. apply le_refl.
    + apply le_bind; [apply loop2_mono; auto|]. intros [xs r2]. apply le_refl.
  - destruct e; [apply le_refl|].
    apply le_bind; [apply le_refl|]. intros [len r1].
    apply le_bind; [apply bytes2_loop_mono; auto|]. intros [bs r2]. apply le_refl.
  - destruct e.
    + apply le_bind; [apply le_refl|]. intros [cnt r1].
      apply le_bind; [apply loop1_mono; auto; apply conv_map_elem_mono; auto|]. intros [xs r2]. apply le_refl.
    + apply le_bind; [apply loop2_mono; auto; apply conv_map_elem_mono; auto|]. intros [xs r2]. apply le_refl.
  - destruct e.
    + apply le_bind; [apply le_refl|]. intros [cnt r1].
      apply le_bind; [apply loop1_mono; auto; intros ?; apply le_refl|]. intros [xs r2]. apply le_refl.
    + apply le_bind; [apply loop2_mono; auto; intros ?; apply le_refl|]. intros [xs r2]. apply le_refl.
  - destruct e.
    + apply le_bind; [apply le_refl|]. intros [cnt r1].
      apply le_bind; [apply loop1_mono; auto; apply conv_field_elem_mono; auto|]. intros [xs r2]. apply le_refl.
    + apply le_bind; [apply loop2_mono; auto; apply conv_field_elem_mono; auto|]. intros [xs r2]. apply le_refl.
  - apply le_bind; [apply le_refl|]. intros [id r1].
    apply le_bind; [apply Hr|]. intros [v r2]. apply le_refl.
Qed.

Theorem conv_mono : forall f f', (f <= f')%nat -> forall d b, conv f d b ⊑ conv f' d b.
Proof.
  induction f as [|f IH]; intros f' Hf d b; [apply le_fuel|].
  destruct f' as [|f']; [lia|]. cbn [conv]. apply conv_body_mono; [|lia].
  intros d' b'. apply IH. lia.
Qed.

(* ---------- simulation of the non-validating decoder ---------- *)
(* [csim x y]: x is the converter's result, y the decoder's.  Both succeed with the same rest,
   or both fail with the same error kind -- except that the converter says UnexpectedEoi where
   the decoder says InvalidSerialization (a short Bytes1 payload); the converter may in addition
   fail with Overflow wherever the decoder goes on. *)
Definition csim {O A} (x : result (O * list N)) (y : result (A * list N)) : Prop :=
  match x, y with
  | Err Overflow, _ => True
  | Ok (_, r), Ok (_, r') => r = r'
  | Err e, Err e' => e = e' \/ (e = Eoi /\ e' = Invalid)
  | _, _ => False
  end.

Lemma csim_ovf {O A} (y : result (A * list N)) : @csim O A (Err Overflow) y.
Proof. exact I. Qed.

Lemma csim_bind {O P A B} (e : result (O * list N)) (e' : result (A * list N))
      (k : O * list N -> result (P * list N)) (k' : A * list N -> result (B * list N)) :
  csim e e' -> (forall o a r, csim (k (o, r)) (k' (a, r))) -> csim (bind e k) (bind e' k').
Proof.
  destruct e as [[o r]|er], e' as [[a r']|er']; cbn [csim bind].
  - intros -> H. apply H.
  - tauto.
  - destruct er; tauto.
  - destruct er; tauto.
Qed.

Lemma csim_bind_same {X O A} (e : result X) (k : X -> result (O * list N)) (k' : X -> result (A * list N)) :
  (forall x, csim (k x) (k' x)) -> csim (bind e k) (bind e k').
Proof.
  destruct e as [x|er]; cbn [bind]; [auto|]. intros _. destruct er; cbn [csim]; auto.
Qed.

(* the converter returns [Ok (g a, r)] where the decoder returns [Ok (g' a, r)] *)
Lemma csim_ret {O A} (o : O) (a : A) r : csim (Ok (o, r)) (Ok (a, r)).
Proof. reflexivity. Qed.

Definition csim_w {O A} (w : list N -> result (O * list N)) (w' : list N -> result (A * list N)) :=
  forall b, csim (w b) (w' b).

Lemma csim_key kk : csim_w (conv_key kk) (get_key false kk).
Proof.
  intros b. destruct kk as [i| |]; cbn [conv_key get_key].
  - apply csim_bind_same. intros [z r]. reflexivity.
  - apply csim_bind_same. intros [n r]. apply csim_bind_same. intros [s r']. reflexivity.
  - destruct (take 16 b) as [[s r]|e] eqn:E; cbn [bind csim]; [reflexivity|].
    apply take_err in E as [-> _]. auto.
Qed.

Lemma csim_loop1 {O A} (elem : list N -> result (O * list N)) (elem' : list N -> result (A * list N)) :
  csim_w elem elem' -> forall n cnt b, csim (loop1 elem n cnt b) (loop1 elem' n cnt b).
Proof.
  intros He. induction n as [|n IH]; intros cnt b; cbn [loop1]; destruct (cnt =? 0); cbn [csim]; auto.
  apply csim_bind; [apply He|]. intros o a r. apply csim_bind; [apply IH|]. intros os xs r'. reflexivity.
Qed.

Lemma csim_loop2 {O A} (elem : list N -> result (O * list N)) (elem' : list N -> result (A * list N)) :
  csim_w elem elem' -> forall n b, csim (loop2 elem n b) (loop2 elem' n b).
Proof.
  intros He. induction n as [|n IH]; intros b; cbn [loop2 csim]; [auto|].
  destruct b as [|k r]; cbn [csim]; [auto|].
  destruct (kind_of_byte k) as [[]|]; cbn [csim]; auto.
  apply csim_bind; [apply He|]. intros o a r1. apply csim_bind; [apply IH|]. intros os xs r2. reflexivity.
Qed.

Lemma csim_finish2 {A} kd outs (x : A) r : csim (finish2 kd outs r) (Ok (x, r)).
Proof. unfold finish2. destruct (_ <=? _); cbn [csim]; auto. Qed.

Lemma csim_map_elem kk (rec : list N -> cres) (rec' : list N -> result (Value * list N)) :
  csim_w rec rec' -> csim_w (conv_map_elem kk rec) (map_elem false kk rec').
Proof.
  intros Hr b. unfold conv_map_elem, map_elem. apply csim_bind; [apply csim_key|]. intros ko key r.
  apply csim_bind; [apply Hr|]. intros vo v r'. reflexivity.
Qed.

Lemma csim_field_elem (rec : list N -> cres) (rec' : list N -> result (Value * list N)) :
  csim_w rec rec' -> csim_w (conv_field_elem rec) (field_elem rec').
Proof.
  intros Hr b. unfold conv_field_elem, field_elem. apply csim_bind_same. intros [id r].
  apply csim_bind; [apply Hr|]. intros vo v r'. reflexivity.
Qed.

Lemma conv_body_sim (rec : cwalker) (rec' : walker Value) n :
  (forall d, csim_w (rec d) (rec' d)) -> forall d, csim_w (conv_body rec n d) (de_body false rec' n d).
Proof.
  intros Hr d b. unfold conv_body, de_body, conv_kind, de_kind.
  destruct (_ <? _)%nat; cbn [csim]; [auto|].
  destruct b as [|k r]; cbn [csim]; [auto|].
  destruct (kind_of_byte k) as [kd|]; cbn [csim]; [|auto].
  destruct kd as [| | |i|f| |e|e|e kk|e kk|e|].
  - reflexivity.
  - apply csim_bind; [apply Hr|]. intros o v r'. reflexivity.
  - destruct r; cbn [csim]; [auto|reflexivity].
  - apply csim_bind_same. intros [z r']. reflexivity.
  - apply csim_bind_same. intros [bs r']. reflexivity.
  - apply csim_bind_same. intros [len r1]. apply csim_bind_same. intros [s r2]. reflexivity.
  - destruct e.
    + apply csim_bind_same. intros [cnt r1].
      apply csim_bind; [apply csim_loop1, Hr|]. intros os xs r2. reflexivity.
    + apply csim_bind; [apply csim_loop2, Hr|]. intros os xs r2. apply csim_finish2.
  - destruct e.
    + apply csim_bind_same. intros [cnt r1].
      destruct (take cnt r1) as [[bs r2]|e] eqn:E; cbn [bind csim]; [reflexivity|].
      apply take_err in E as [-> _]. right. split; reflexivity.
    + apply csim_bind_same. intros [len r1].
      destruct (bytes2_loop Invalid n len r1) as [[bs r2]|e]; cbn [bind].
      * destruct (_ <=? _); cbn [csim]; auto.
      * destruct e; cbn [csim]; auto.
  - destruct e.
    + apply csim_bind_same. intros [cnt r1].
      apply csim_bind; [apply csim_loop1, csim_map_elem, Hr|]. intros os xs r2. reflexivity.
    + apply csim_bind; [apply csim_loop2, csim_map_elem, Hr|]. intros os xs r2. apply csim_finish2.
  - destruct e.
    + apply csim_bind_same. intros [cnt r1].
      apply csim_bind; [apply csim_loop1, csim_key|]. intros os xs r2. reflexivity.
    + apply csim_bind; [apply csim_loop2, csim_key|]. intros os xs r2. apply csim_finish2.
  - destruct e.
    + apply csim_bind_same. intros [cnt r1].
      apply csim_bind; [apply csim_loop1, csim_field_elem, Hr|]. intros os xs r2. reflexivity.
    + apply csim_bind; [apply csim_loop2, csim_field_elem, Hr|]. intros os xs r2. apply csim_finish2.
  - apply csim_bind_same. intros [id r1]. apply csim_bind; [apply Hr|]. intros o v r2. reflexivity.
Qed.

Theorem conv_sim : forall f d b, csim (conv f d b) (de false f d b).
Proof.
  induction f as [|f IH]; intros d b; cbn [conv de csim]; [auto|].
  apply conv_body_sim. intros d' b'. apply IH.
Qed.

(* consequences *)
Lemma conv_ok_de f d b out r :
  conv f d b = Ok (out, r) -> exists v, de false f d b = Ok (v, r).
Proof.
  intros H. pose proof (conv_sim f d b) as S. rewrite H in S.
  destruct (de false f d b) as [[v r']|e]; cbn [csim] in S; [subst; eauto|contradiction].
Qed.

Lemma de_ok_conv f d b v r :
  de false f d b = Ok (v, r) -> (exists out, conv f d b = Ok (out, r)) \/ conv f d b = Err Overflow.
Proof.
  intros H. pose proof (conv_sim f d b) as S. rewrite H in S.
  destruct (conv f d b) as [[o r']|e]; cbn [csim] in S; [subst; eauto|].
  destruct e; try contradiction. auto.
Qed.

Theorem conv_consumes : forall f d, shrinks (conv f d).
Proof.
  intros f d b out r H. apply conv_ok_de in H as [v H]. eapply de_consumes; eauto.
Qed.

Theorem conv_enough f d b : (length b < f)%nat -> conv f d b <> Err Fuel.
Proof.
  intros Hb E. pose proof (conv_sim f d b) as S. rewrite E in S.
  destruct (de false f d b) as [[v r']|e] eqn:D; cbn [csim] in S; [contradiction|].
  destruct S as [<-|[S _]]; [exact (de_enough false f d b Hb D)|discriminate].
Qed.

(* error kinds: the converter fails with the decoder's error kind, except Eoi for Invalid (short
   Bytes1 payload) and the additional Overflow *)
Lemma conv_err_de f d b e :
  conv f d b = Err e ->
  e = Overflow \/ exists e', de false f d b = Err e' /\ (e = e' \/ (e = Eoi /\ e' = Invalid)).
Proof.
  intros H. pose proof (conv_sim f d b) as S. rewrite H in S.
  destruct (de false f d b) as [[v r']|e'] eqn:D; cbn [csim] in S.
  - destruct e; try contradiction. auto.
  - destruct e; eauto.
Qed.

Lemma de_err_conv f d b e' :
  de false f d b = Err e' ->
  exists e, conv f d b = Err e /\ (e = Overflow \/ e = e' \/ (e = Eoi /\ e' = Invalid)).
Proof.
  intros H. pose proof (conv_sim f d b) as S. rewrite H in S.
  destruct (conv f d b) as [[o r]|e] eqn:C; cbn [csim] in S; [contradiction|].
  exists e. split; [reflexivity|]. destruct e; auto.
Qed.

Corollary conv_value_stable b f x :
  conv f 0%nat b = x -> x <> Err Fuel -> conv_value b = x.
Proof.
  intros H Hx. unfold conv_value.
  destruct (Nat.le_gt_cases f (S (length b))) as [Hle|Hgt].
  - apply le_use; [|congruence]. rewrite <- H. apply conv_mono. exact Hle.
  - pose proof (conv_mono (S (length b)) f ltac:(lia) 0%nat b) as [E|E].
    + exfalso. eapply conv_enough; [|exact E]. lia.
    + congruence.
Qed.

Corollary conv_value_total b : conv_value b <> Err Fuel.
Proof. apply conv_enough. lia. Qed.

(* ---------- versions ---------- *)
Lemma epoch_of_spec maj min :
  epoch_of (maj, min) =
  if (maj =? 1) && (14 <=? min) && (min <=? 19) then Ok E1
  else if (maj =? 1) && (min =? 20) then Ok E2 else Err InvalidVersion.
Proof.
  unfold epoch_of, ver_leb, CONV_V1_MIN, CONV_V1_MAX, CONV_V2_MIN, CONV_V2_MAX. cbn [fst snd].
  destruct (N.ltb_spec 1 maj), (N.ltb_spec maj 1), (N.eqb_spec 1 maj), (N.eqb_spec maj 1);
    try lia; cbn [andb orb]; try reflexivity.
  destruct (N.leb_spec 14 min), (N.leb_spec min 19), (N.leb_spec 20 min), (N.leb_spec min 20),
    (N.eqb_spec min 20); try lia; reflexivity.
Qed.

Theorem epoch_invalid_iff maj min :
  epoch_of (maj, min) = Err InvalidVersion <-> ~ (maj = 1 /\ 14 <= min <= 20).
Proof.
  rewrite epoch_of_spec.
  destruct (N.eqb_spec maj 1), (N.leb_spec 14 min), (N.leb_spec min 19), (N.eqb_spec min 20);
    cbn [andb]; split; intros HH; try discriminate; try lia; try reflexivity; exfalso; apply HH; lia.
Qed.

Lemma epoch_of_err v e : epoch_of v = Err e -> e = InvalidVersion.
Proof.
  unfold epoch_of. destruct (_ && _); [discriminate|]. destruct (_ && _); [discriminate|].
  intros H; inversion H; reflexivity.
Qed.

(* ---------- Overflow needs more than u32::MAX input bytes ---------- *)
(* [ovb w]: w reports Overflow only on inputs longer than u32::MAX *)
Definition ovb {O} (w : list N -> result (O * list N)) : Prop :=
  forall b, w b = Err Overflow -> u32_max < lenN b.
Definition nongrow {O} (w : list N -> result (O * list N)) : Prop :=
  forall b x r, w b = Ok (x, r) -> (length r <= length b)%nat.

Lemma shrinks_nongrow {O} (w : list N -> result (O * list N)) : shrinks w -> nongrow w.
Proof. intros H b x r E. apply H in E. lia. Qed.

Lemma bind_err_inv {A B} (e : result A) (k : A -> result B) x :
  bind e k = Err x -> e = Err x \/ exists a, e = Ok a /\ k a = Err x.
Proof. destruct e as [a|er]; cbn [bind]; intros H; [right; eauto|left; inversion H; reflexivity]. Qed.

Lemma bind_ok_inv {A B} (e : result A) (k : A -> result B) y :
  bind e k = Ok y -> exists a, e = Ok a /\ k a = Ok y.
Proof. destruct e as [a|er]; cbn [bind]; intros H; [eauto|discriminate]. Qed.

Lemma ovb_bind {O P} (w : list N -> result (O * list N)) (k : O -> list N -> result (P * list N)) :
  ovb w -> nongrow w -> (forall a, ovb (k a)) -> ovb (fun b => '(a, r) <- w b ;; k a r).
Proof.
  intros Hw Hn Hk b H. apply bind_err_inv in H as [H|([a r] & E & H)]; [apply Hw, H|].
  apply Hk in H. apply Hn in E. unfold lenN in *. lia.
Qed.

Lemma take_err_eoi n b e : take n b = Err e -> e = Eoi.
Proof. intros H. apply take_err in H as [-> _]. reflexivity. Qed.

Lemma get_varint_err W b e : get_varint W b = Err e -> e = Eoi.
Proof.
  destruct b as [|x b]; cbn [get_varint]; [intros H; inversion H; reflexivity|].
  destruct (_ <? x); [|discriminate]. intros H. apply bind_err_inv in H as [H|([bs r] & _ & H)]; [|discriminate].
  eapply take_err_eoi; eauto.
Qed.

Lemma get_int_err i b e : get_int i b = Err e -> e = Eoi.
Proof.
  destruct i; cbn [get_int]; try (destruct b; [intros H; inversion H; reflexivity|discriminate]);
    (intros H; apply bind_err_inv in H as [H|([n r] & _ & H)]; [eapply get_varint_err; eauto|discriminate]).
Qed.

Lemma conv_key_err kk b e : conv_key kk b = Err e -> e = Eoi.
Proof.
  destruct kk as [i| |]; cbn [conv_key].
  - intros H. apply bind_err_inv in H as [H|([z r] & _ & H)]; [eapply get_int_err; eauto|discriminate].
  - intros H. apply bind_err_inv in H as [H|([n r] & _ & H)]; [eapply get_varint_err; eauto|].
    apply bind_err_inv in H as [H|([s r'] & _ & H)]; [eapply take_err_eoi; eauto|discriminate].
  - apply take_err_eoi.
Qed.

Lemma conv_key_consumes kk : shrinks (conv_key kk).
Proof.
  intros b o r H. pose proof (csim_key kk b) as S. rewrite H in S.
  destruct (get_key false kk b) as [[v r']|e] eqn:E; cbn [csim] in S; [subst|contradiction].
  eapply get_key_consumes; eauto.
Qed.

Lemma ovb_key kk : ovb (conv_key kk).
Proof. intros b H. apply conv_key_err in H. discriminate. Qed.

Lemma ovb_varint W : ovb (get_varint W).
Proof. intros b H. apply get_varint_err in H. discriminate. Qed.

Lemma conv_map_elem_shrinks kk rec : shrinks rec -> shrinks (conv_map_elem kk rec).
Proof.
  intros Hr b o r H. unfold conv_map_elem in H.
  apply bind_ok_inv in H as ([ko r1] & E & H). apply bind_ok_inv in H as ([vo r2] & E2 & H).
  inversion H; subst. apply conv_key_consumes in E. apply Hr in E2. lia.
Qed.

Lemma conv_field_elem_shrinks rec : shrinks rec -> shrinks (conv_field_elem rec).
Proof.
  intros Hr b o r H. unfold conv_field_elem in H.
  apply bind_ok_inv in H as ([id r1] & E & H). apply bind_ok_inv in H as ([vo r2] & E2 & H).
  inversion H; subst. apply get_varint_consumes in E. apply Hr in E2. lia.
Qed.

Lemma ovb_map_elem kk rec : ovb rec -> ovb (conv_map_elem kk rec).
Proof.
  intros Hr. unfold conv_map_elem.
  apply (ovb_bind (conv_key kk) (fun ko r => '(vo, r') <- rec r ;; Ok (ko ++ vo, r')));
    [apply ovb_key|apply shrinks_nongrow, conv_key_consumes|].
  intros ko b H. apply bind_err_inv in H as [H|([vo r'] & _ & H)]; [apply Hr, H|discriminate].
Qed.

Lemma ovb_field_elem rec : ovb rec -> ovb (conv_field_elem rec).
Proof.
  intros Hr. unfold conv_field_elem.
  apply (ovb_bind (get_varint 4) (fun id r => '(vo, r') <- rec r ;; Ok (put_varint 4 id ++ vo, r')));
    [apply ovb_varint|intros b x r E; apply get_varint_consumes in E; lia|].
  intros id b H. apply bind_err_inv in H as [H|([vo r'] & _ & H)]; [apply Hr, H|discriminate].
Qed.

Lemma ovb_loop1 {O} (elem : list N -> result (O * list N)) :
  ovb elem -> shrinks elem -> forall n cnt, ovb (loop1 elem n cnt).
Proof.
  intros He Hs. induction n as [|n IH]; intros cnt b; cbn [loop1]; destruct (cnt =? 0); try discriminate.
  intros H. apply bind_err_inv in H as [H|([x r] & E & H)]; [apply He, H|].
  apply bind_err_inv in H as [H|([xs r'] & _ & H)]; [|discriminate].
  apply IH in H. apply Hs in E. unfold lenN in *. lia.
Qed.

Lemma ovb_loop2 {O} (elem : list N -> result (O * list N)) :
  ovb elem -> shrinks elem -> forall n, ovb (loop2 elem n).
Proof.
  intros He Hs. induction n as [|n IH]; intros b; cbn [loop2]; [discriminate|].
  destruct b as [|k b]; [discriminate|]. destruct (kind_of_byte k) as [[]|]; try discriminate.
  intros H. apply bind_err_inv in H as [H|([x r] & E & H)].
  - apply He in H. rewrite lenN_cons. lia.
  - apply bind_err_inv in H as [H|([xs r'] & _ & H)]; [|discriminate].
    apply IH in H. apply Hs in E. rewrite lenN_cons. unfold lenN in *. lia.
Qed.

(* a terminated loop returns fewer elements than it consumes bytes *)
Lemma loop2_count {O} (elem : list N -> result (O * list N)) :
  shrinks elem -> forall n b xs r, loop2 elem n b = Ok (xs, r) -> (length xs + length r < length b)%nat.
Proof.
  intros Hs. induction n as [|n IH]; intros b xs r; cbn [loop2]; [discriminate|].
  destruct b as [|k b]; [discriminate|]. destruct (kind_of_byte k) as [[]|]; try discriminate.
  - intros H; inversion H; subst. cbn [length]. lia.
  - intros H. apply bind_ok_inv in H as ([x r1] & E & H). apply bind_ok_inv in H as ([ys r2] & E2 & H).
    inversion H; subst. apply Hs in E. apply IH in E2. cbn [length]. lia.
Qed.

Lemma bytes2_loop_count short : forall n len b bs r,
  bytes2_loop short n len b = Ok (bs, r) -> (length bs + length r <= length b)%nat.
Proof.
  induction n as [|n IH]; intros len b bs r; cbn [bytes2_loop];
    destruct (len =? 0); try (intros H; inversion H; subst; cbn [length]; lia); try discriminate.
  destruct (take len b) as [[c r0]|] eqn:E; [|discriminate].
  intros H. apply bind_ok_inv in H as ([len' r1] & E1 & H). apply bind_ok_inv in H as ([bs' r2] & E2 & H).
  inversion H; subst. apply take_ok in E as [-> _]. apply get_varint_consumes in E1. apply IH in E2.
  rewrite !app_length. lia.
Qed.

Lemma bytes2_loop_noovf : forall n len b, bytes2_loop Invalid n len b <> Err Overflow.
Proof.
  induction n as [|n IH]; intros len b; cbn [bytes2_loop]; destruct (len =? 0); try discriminate.
  destruct (take len b) as [[c r]|]; [|discriminate].
  intros H. apply bind_err_inv in H as [H|([len' r'] & _ & H)]; [apply get_varint_err in H; discriminate|].
  apply bind_err_inv in H as [H|([bs r''] & _ & H)]; [eapply IH; eauto|discriminate].
Qed.

Lemma finish2_ovf kd outs r : finish2 kd outs r = Err Overflow -> u32_max < lenN outs.
Proof. unfold finish2. destruct (N.leb_spec (lenN outs) u32_max); [discriminate|auto]. Qed.

Lemma conv_body_ovb (rec : cwalker) n :
  (forall d, ovb (rec d)) -> (forall d, shrinks (rec d)) -> forall d, ovb (conv_body rec n d).
Proof.
  intros Hr Hs d b. unfold conv_body, conv_kind. destruct (_ <? _)%nat; [discriminate|].
  destruct b as [|k r]; [discriminate|]. destruct (kind_of_byte k) as [kd|]; [|discriminate].
  rewrite lenN_cons.
  (* counted container: count varint, then a loop that reports Overflow only from an element *)
  assert (forall (elem : list N -> cres) (g : N -> list (list N) -> list N),
            ovb elem -> shrinks elem ->
            ('(cnt, r1) <- get_varint 4 r ;; '(outs, r2) <- loop1 elem n cnt r1 ;; Ok (g cnt outs, r2))
              = Err Overflow -> u32_max < 1 + lenN r) as C1.
  { intros elem g He Hse H. apply bind_err_inv in H as [H|([cnt r1] & E & H)];
      [apply get_varint_err in H; discriminate|].
    apply bind_err_inv in H as [H|([outs r2] & _ & H)]; [|discriminate].
    apply ovb_loop1 in H; auto. apply get_varint_consumes in E. unfold lenN in *. lia. }
  (* terminated container: the loop, then the u32 test on the number of elements *)
  assert (forall (elem : list N -> cres) kd',
            ovb elem -> shrinks elem ->
            ('(outs, r2) <- loop2 elem n r ;; finish2 kd' outs r2) = Err Overflow -> u32_max < 1 + lenN r) as C2.
  { intros elem kd' He Hse H. apply bind_err_inv in H as [H|([outs r2] & E & H)].
    - apply ovb_loop2 in H; auto. lia.
    - apply finish2_ovf in H. apply loop2_count in E; auto. unfold lenN in *. lia. }
  destruct kd as [| | |i|f| |e|e|e kk|e kk|e|]; try discriminate.
  - intros H. apply bind_err_inv in H as [H|([o r'] & _ & H)]; [apply Hr in H; lia|discriminate].
  - destruct r; discriminate.
  - intros H. apply bind_err_inv in H as [H|([z r'] & _ & H)]; [apply get_int_err in H|]; discriminate.
  - intros H. apply bind_err_inv in H as [H|([bs r'] & _ & H)]; [apply take_err_eoi in H|]; discriminate.
  - intros H. apply bind_err_inv in H as [H|([len r1] & _ & H)]; [apply get_varint_err in H; discriminate|].
    apply bind_err_inv in H as [H|([s r2] & _ & H)]; [apply take_err_eoi in H|]; discriminate.
  - destruct e; [apply (C1 _ (counted (KVec E1)))|apply C2]; auto.
  - destruct e.
    + intros H. apply bind_err_inv in H as [H|([cnt r1] & _ & H)]; [apply get_varint_err in H; discriminate|].
      apply bind_err_inv in H as [H|([s r2] & _ & H)]; [apply take_err_eoi in H|]; discriminate.
    + intros H. apply bind_err_inv in H as [H|([len r1] & E & H)]; [apply get_varint_err in H; discriminate|].
      apply bind_err_inv in H as [H|([bs r2] & E2 & H)]; [apply bytes2_loop_noovf in H; contradiction|].
      destruct (N.leb_spec (lenN bs) u32_max); [discriminate|].
      apply get_varint_consumes in E. apply bytes2_loop_count in E2. unfold lenN in *. lia.
  - destruct e; [apply (C1 _ (counted (KMap E1 kk)))|apply C2];
      auto using ovb_map_elem, conv_map_elem_shrinks.
  - destruct e; [apply (C1 _ (counted (KSet E1 kk)))|apply C2]; auto using ovb_key, conv_key_consumes.
  - destruct e; [apply (C1 _ (counted (KStruct E1)))|apply C2];
      auto using ovb_field_elem, conv_field_elem_shrinks.
  - intros H. apply bind_err_inv in H as [H|([id r1] & E & H)]; [apply get_varint_err in H; discriminate|].
    apply bind_err_inv in H as [H|([o r2] & _ & H)]; [|discriminate].
    apply Hr in H. apply get_varint_consumes in E. unfold lenN in *. lia.
Qed.

Theorem conv_overflow : forall f d b, conv f d b = Err Overflow -> u32_max < lenN b.
Proof.
  induction f as [|f IH]; intros d; [discriminate|]. cbn [conv].
  apply conv_body_ovb; [intros d'; exact (IH d')|intros d'; apply conv_consumes].
Qed.

(* whatever the non-validating decoder accepts within u32::MAX bytes, the converter accepts,
   leaving the same rest *)
Theorem conv_accepts f d b v r :
  lenN b <= u32_max -> de false f d b = Ok (v, r) -> exists out, conv f d b = Ok (out, r).
Proof.
  intros Hl H. apply de_ok_conv in H as [H|H]; [exact H|]. apply conv_overflow in H. lia.
Qed.
