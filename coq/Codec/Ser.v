(* Codec/Ser.v — serializer model: core/src/serializer.rs, serializer/*.rs and
   `impl Serialize for &Value` (epoch E2 = what the code emits today), plus the same walk
   through the counted `serialize_*1` API (epoch E1, the legacy encoding). *)
From Aldrin Require Export Codec.Value.
From Aldrin Require Import gen.Consts.
Open Scope N_scope.

Definition mapM {A B} (f : A -> result B) : list A -> result (list B) :=
  fix go l := match l with
              | [] => Ok []
              | x :: r => y <- f x ;; ys <- go r ;; Ok (y :: ys)
              end.

Definition kb (k : kind) : N := kind_byte k.

(* counted header: kind byte + varint u32 length, Overflow beyond u32::MAX *)
Definition hdr1 (k : kind) (n : N) (body : list N) : result (list N) :=
  if n <=? u32_max then Ok (kb k :: put_varint 4 n ++ body) else Err Overflow.

(* Bytes2Serializer::serialize on one slice + finish *)
Definition bytes2_body (bs : list N) : result (list N) :=
  match bs with
  | [] => Ok (put_varint 4 0)
  | _ => if lenN bs <=? u32_max then Ok (put_varint 4 (lenN bs) ++ bs ++ put_varint 4 0)
         else Err Overflow (* Rust: TooManyElements; unreachable under wf *)
  end.

(* [ser e d v] = Serializer::new(buf, d)?.serialize(v): the depth counter is incremented and
   checked first; children are serialized with Serializer::new(buf, depth) resp. after
   increment_depth (Some, Enum) — the same check in both cases. *)
Fixpoint ser (e : epoch) (d : nat) (v : Value) {struct v} : result (list N) :=
  if (MAX_VALUE_DEPTH <? S d)%nat then Err TooDeep else
  match v with
  | VNone => Ok [kb KNone]
  | VSome x => b <- ser e (S d) x ;; Ok (kb KSome :: b)
  | VBool b => Ok [kb KBool; if b then 1 else 0]
  | VInt i z => Ok (kb (KInt_ i) :: put_int i z)
  | VFixed f bs => Ok (kb (KFixed f) :: bs)
  | VString s => if lenN s <=? u32_max then Ok (kb KString :: put_varint 4 (lenN s) ++ s)
                 else Err Overflow
  | VVec l =>
      match e with
      | E2 => bs <- mapM (fun x => b <- ser e (S d) x ;; Ok (kb KSome :: b)) l ;;
              Ok (kb (KVec E2) :: concat bs ++ [kb KNone])
      | E1 => if lenN l <=? u32_max then
                bs <- mapM (ser e (S d)) l ;; Ok (kb (KVec E1) :: put_varint 4 (lenN l) ++ concat bs)
              else Err Overflow
      end
  | VBytes bs =>
      match e with
      | E2 => body <- bytes2_body bs ;; Ok (kb (KBytes E2) :: body)
      | E1 => hdr1 (KBytes E1) (lenN bs) bs
      end
  | VMap k l =>
      match e with
      | E2 => bs <- mapM (fun p => kbs <- put_key k (fst p) ;; b <- ser e (S d) (snd p) ;;
                                   Ok (kb KSome :: kbs ++ b)) l ;;
              Ok (kb (KMap E2 k) :: concat bs ++ [kb KNone])
      | E1 => if lenN l <=? u32_max then
                bs <- mapM (fun p => kbs <- put_key k (fst p) ;; b <- ser e (S d) (snd p) ;;
                                     Ok (kbs ++ b)) l ;;
                Ok (kb (KMap E1 k) :: put_varint 4 (lenN l) ++ concat bs)
              else Err Overflow
      end
  | VSet k l =>
      match e with
      | E2 => bs <- mapM (fun x => kbs <- put_key k x ;; Ok (kb KSome :: kbs)) l ;;
              Ok (kb (KSet E2 k) :: concat bs ++ [kb KNone])
      | E1 => if lenN l <=? u32_max then
                bs <- mapM (put_key k) l ;; Ok (kb (KSet E1 k) :: put_varint 4 (lenN l) ++ concat bs)
              else Err Overflow
      end
  | VStruct l =>
      match e with
      | E2 => bs <- mapM (fun p => b <- ser e (S d) (snd p) ;;
                                   Ok (kb KSome :: put_varint 4 (fst p) ++ b)) l ;;
              Ok (kb (KStruct E2) :: concat bs ++ [kb KNone])
      | E1 => if lenN l <=? u32_max then
                bs <- mapM (fun p => b <- ser e (S d) (snd p) ;; Ok (put_varint 4 (fst p) ++ b)) l ;;
                Ok (kb (KStruct E1) :: put_varint 4 (lenN l) ++ concat bs)
              else Err Overflow
      end
  | VEnum id x => b <- ser e (S d) x ;; Ok (kb KEnum :: put_varint 4 id ++ b)
  end.

(* SerializedValue::serialize(&value) *)
Definition serialize (e : epoch) (v : Value) : result (list N) := ser e 0%nat v.

(* the encoder without the depth counter: produces the bytes of over-deep values so that the
   decoder's own limit can be stated (C01_too_deep_de) *)
Fixpoint ser_raw (e : epoch) (v : Value) {struct v} : list N :=
  match v with
  | VNone => [kb KNone]
  | VSome x => kb KSome :: ser_raw e x
  | VBool b => [kb KBool; if b then 1 else 0]
  | VInt i z => kb (KInt_ i) :: put_int i z
  | VFixed f bs => kb (KFixed f) :: bs
  | VString s => kb KString :: put_varint 4 (lenN s) ++ s
  | VVec l =>
      match e with
      | E2 => kb (KVec E2) :: concat (map (fun x => kb KSome :: ser_raw e x) l) ++ [kb KNone]
      | E1 => kb (KVec E1) :: put_varint 4 (lenN l) ++ concat (map (ser_raw e) l)
      end
  | VBytes bs =>
      match e with
      | E2 => kb (KBytes E2) :: match bs with [] => put_varint 4 0
                                | _ => put_varint 4 (lenN bs) ++ bs ++ put_varint 4 0 end
      | E1 => kb (KBytes E1) :: put_varint 4 (lenN bs) ++ bs
      end
  | VMap k l =>
      let key p := match put_key k (fst p) with Ok b => b | Err _ => [] end in
      match e with
      | E2 => kb (KMap E2 k) :: concat (map (fun p => kb KSome :: key p ++ ser_raw e (snd p)) l)
                 ++ [kb KNone]
      | E1 => kb (KMap E1 k) :: put_varint 4 (lenN l) ++
                 concat (map (fun p => key p ++ ser_raw e (snd p)) l)
      end
  | VSet k l =>
      let key x := match put_key k x with Ok b => b | Err _ => [] end in
      match e with
      | E2 => kb (KSet E2 k) :: concat (map (fun x => kb KSome :: key x) l) ++ [kb KNone]
      | E1 => kb (KSet E1 k) :: put_varint 4 (lenN l) ++ concat (map key l)
      end
  | VStruct l =>
      match e with
      | E2 => kb (KStruct E2) ::
                concat (map (fun p => kb KSome :: put_varint 4 (fst p) ++ ser_raw e (snd p)) l)
                ++ [kb KNone]
      | E1 => kb (KStruct E1) :: put_varint 4 (lenN l) ++
                concat (map (fun p => put_varint 4 (fst p) ++ ser_raw e (snd p)) l)
      end
  | VEnum id x => kb KEnum :: put_varint 4 id ++ ser_raw e x
  end.
