(* Codec/Base.v — bytes, results, varints, zigzag, fixed-width ints, keys, UTF-8.
   Executable model of core/src/buf_ext.rs and the key codecs of core/src/tags/key_impl.rs.
   No proofs here (see BaseProofs.v). *)
From Coq Require Export List NArith ZArith Bool Lia.
Export ListNotations.
Open Scope N_scope.

(* A byte is an N below 256; [bytes_ok] states it. Decoders are total on any list N. *)
Definition byte_ok (b : N) : bool := b <? 256.
Definition bytes_ok (l : list N) : bool := forallb byte_ok l.

(* Error kinds: the union of DeserializeError, SerializeError and ValueConversionError variants
   that the modelled code can produce, plus [Fuel] (never produced with enough fuel: proved). *)
Inductive err :=
| Eoi | Invalid | UnexpectedValue | TooDeep | TrailingData | MoreElementsRemain | NoMoreElements
| Overflow | InvalidVersion | Fuel.

Inductive result (A : Type) := Ok (a : A) | Err (e : err).
Arguments Ok {A} a.
Arguments Err {A} e.

Definition bind {A B} (r : result A) (f : A -> result B) : result B :=
  match r with Ok a => f a | Err e => Err e end.
Definition rmap {A B} (f : A -> B) (r : result A) : result B :=
  match r with Ok a => Ok (f a) | Err e => Err e end.
Notation "x <- e ;; k" := (bind e (fun x => k)) (at level 61, e at next level, right associativity).
Notation "' p <- e ;; k" := (bind e (fun p => k)) (at level 61, p pattern, e at next level, right associativity).

Definition err_eqb (a b : err) : bool :=
  match a, b with
  | Eoi, Eoi | Invalid, Invalid | UnexpectedValue, UnexpectedValue | TooDeep, TooDeep
  | TrailingData, TrailingData | MoreElementsRemain, MoreElementsRemain
  | NoMoreElements, NoMoreElements | Overflow, Overflow | InvalidVersion, InvalidVersion
  | Fuel, Fuel => true
  | _, _ => false
  end.

(* [take n b]: the Rust [try_copy_to_slice]/[try_skip]/[try_copy_to_bytes]: n bytes or Eoi. *)
Definition lenN {A} (l : list A) : N := N.of_nat (length l).
(* walks at most n elements (no unary numbers, no full length): BaseProofs.take_spec shows
   take n b = if n <=? lenN b then Ok (firstn n b, skipn n b) else Err Eoi *)
Fixpoint take_go (b : list N) (n : N) (acc : list N) : option (list N * list N) :=
  if n =? 0 then Some (rev_append acc [], b) else
  match b with [] => None | x :: r => take_go r (N.pred n) (x :: acc) end.
Definition take (n : N) (b : list N) : result (list N * list N) :=
  match take_go b n [] with Some p => Ok p | None => Err Eoi end.

(* little-endian *)
Fixpoint from_le (l : list N) : N :=
  match l with [] => 0 | x :: r => x + 256 * from_le r end.
Fixpoint to_le (k : nat) (n : N) : list N :=
  match k with O => [] | S k' => (n mod 256) :: to_le k' (n / 256) end.

(* number of significant bytes, at least 1, at most W *)
Fixpoint sig_bytes (w : nat) (n : N) : nat :=
  match w with
  | O => 1%nat
  | S w' => if n <? 256 then 1%nat else S (sig_bytes w' (n / 256))
  end.

(* put_varint_le::<W>: the value n < 256^W as W little-endian bytes.
   Rust: scan from the most significant byte; the first non-zero byte at index W-1-i (i < W-1)
   gives header 255-i followed by the W-i low bytes; otherwise only bytes[0] is (possibly)
   non-zero: header 256-W iff bytes[0] > 255-W. *)
Definition put_varint (W : nat) (n : N) : list N :=
  let k := sig_bytes (W - 1) n in
  if (2 <=? k)%nat then (255 - N.of_nat (W - k)) :: to_le k n
  else if 255 - N.of_nat W <? n then [256 - N.of_nat W; n] else [n].

(* try_get_varint_le::<W> *)
Definition get_varint (W : nat) (b : list N) : result (N * list N) :=
  match b with
  | [] => Err Eoi
  | first :: r =>
      if 255 - N.of_nat W <? first then
        '(bs, r') <- take (first + N.of_nat W - 255) r ;; Ok (from_le bs, r')
      else Ok (first, r)
  end.

(* try_skip_varint_le::<W>; W is a parameter because the code instantiates it from an
   expression (mem::size_of::<..>()) that the translator evaluates (gen/Consts.v). *)
Definition skip_varint (W : nat) (b : list N) : result (list N) :=
  match b with
  | [] => Err Eoi
  | first :: r =>
      if 255 - N.of_nat W <? first then
        '(_, r') <- take (first + N.of_nat W - 255) r ;; Ok r'
      else Ok r
  end.

(* zigzag, arithmetic definition (the bit-twiddling Rust versions are compared in the
   correspondence check) *)
Definition zigzag_enc (z : Z) : N :=
  if (0 <=? z)%Z then Z.to_N (2 * z) else Z.to_N (- 2 * z - 1).
Definition zigzag_dec (n : N) : Z :=
  if N.even n then Z.of_N (n / 2) else (- Z.of_N ((n + 1) / 2))%Z.

(* integer kinds *)
Inductive intk := U8 | I8 | U16 | I16 | U32 | I32 | U64 | I64.
Definition intk_eqb (a b : intk) : bool :=
  match a, b with
  | U8,U8 | I8,I8 | U16,U16 | I16,I16 | U32,U32 | I32,I32 | U64,U64 | I64,I64 => true
  | _, _ => false end.
Definition int_signed (i : intk) : bool :=
  match i with I8 | I16 | I32 | I64 => true | _ => false end.
Definition int_width (i : intk) : nat :=
  match i with U8 | I8 => 1 | U16 | I16 => 2 | U32 | I32 => 4 | U64 | I64 => 8 end%nat.
Definition int_bits (i : intk) : Z := 8 * Z.of_nat (int_width i).
Definition int_ok (i : intk) (z : Z) : bool :=
  if int_signed i then ((- 2 ^ (int_bits i - 1) <=? z) && (z <? 2 ^ (int_bits i - 1)))%Z
  else ((0 <=? z) && (z <? 2 ^ int_bits i))%Z.

Definition put_int (i : intk) (z : Z) : list N :=
  match i with
  | U8 => [Z.to_N z]
  | I8 => [Z.to_N (z mod 256)]
  | _ => put_varint (int_width i) (if int_signed i then zigzag_enc z else Z.to_N z)
  end.

Definition get_int (i : intk) (b : list N) : result (Z * list N) :=
  match i with
  | U8 => match b with [] => Err Eoi | x :: r => Ok (Z.of_N x, r) end
  | I8 => match b with [] => Err Eoi
                     | x :: r => Ok (if x <? 128 then Z.of_N x else (Z.of_N x - 256)%Z, r) end
  | _ => '(n, r) <- get_varint (int_width i) b ;;
         Ok (if int_signed i then zigzag_dec n else Z.of_N n, r)
  end.

(* UTF-8 validity as decided by String::from_utf8 (no overlong forms, no surrogates,
   at most U+10FFFF). *)
Definition in_rng (lo hi x : N) : bool := (lo <=? x) && (x <=? hi).
Definition cont (x : N) : bool := in_rng 128 191 x.
Fixpoint utf8_valid (l : list N) : bool :=
  match l with
  | [] => true
  | b0 :: r =>
      if b0 <? 128 then utf8_valid r
      else if in_rng 194 223 b0 then
        match r with b1 :: r' => cont b1 && utf8_valid r' | _ => false end
      else if b0 =? 224 then
        match r with b1 :: b2 :: r' => in_rng 160 191 b1 && cont b2 && utf8_valid r' | _ => false end
      else if in_rng 225 236 b0 || in_rng 238 239 b0 then
        match r with b1 :: b2 :: r' => cont b1 && cont b2 && utf8_valid r' | _ => false end
      else if b0 =? 237 then
        match r with b1 :: b2 :: r' => in_rng 128 159 b1 && cont b2 && utf8_valid r' | _ => false end
      else if b0 =? 240 then
        match r with b1 :: b2 :: b3 :: r' =>
          in_rng 144 191 b1 && cont b2 && cont b3 && utf8_valid r' | _ => false end
      else if in_rng 241 243 b0 then
        match r with b1 :: b2 :: b3 :: r' =>
          cont b1 && cont b2 && cont b3 && utf8_valid r' | _ => false end
      else if b0 =? 244 then
        match r with b1 :: b2 :: b3 :: r' =>
          in_rng 128 143 b1 && cont b2 && cont b3 && utf8_valid r' | _ => false end
      else false
  end.

(* key kinds and key values *)
Inductive keyk := KInt (i : intk) | KStr | KUuid.
Definition keyk_eqb (a b : keyk) : bool :=
  match a, b with
  | KInt i, KInt j => intk_eqb i j | KStr, KStr | KUuid, KUuid => true | _, _ => false end.
Inductive keyv := KeyZ (z : Z) | KeyB (l : list N).

Definition list_eqb (a b : list N) : bool :=
  (length a =? length b)%nat && forallb (fun p => fst p =? snd p) (combine a b).
Definition key_eqb (a b : keyv) : bool :=
  match a, b with
  | KeyZ x, KeyZ y => (x =? y)%Z
  | KeyB x, KeyB y => list_eqb x y
  | _, _ => false
  end.

Definition u32_max : N := 4294967295.

(* the [utf8] flag: decoders validate UTF-8 ([true]); the skip walker and the epoch converter do
   not ([false]).  C07 relates the two. *)
Definition key_ok (utf8 : bool) (k : keyk) (v : keyv) : bool :=
  match k, v with
  | KInt i, KeyZ z => int_ok i z
  | KStr, KeyB l => bytes_ok l && (lenN l <=? u32_max) && (negb utf8 || utf8_valid l)
  | KUuid, KeyB l => bytes_ok l && (lenN l =? 16)
  | _, _ => false
  end.

(* KeyTagImpl::serialize_key *)
Definition put_key (k : keyk) (v : keyv) : result (list N) :=
  match k, v with
  | KInt i, KeyZ z => Ok (put_int i z)
  | KStr, KeyB l => if lenN l <=? u32_max then Ok (put_varint 4 (lenN l) ++ l) else Err Overflow
  | KUuid, KeyB l => Ok l
  | _, _ => Err Invalid   (* ill-typed key: not constructible in Rust *)
  end.

(* KeyTagImpl::deserialize_key *)
Definition get_key (utf8 : bool) (k : keyk) (b : list N) : result (keyv * list N) :=
  match k with
  | KInt i => '(z, r) <- get_int i b ;; Ok (KeyZ z, r)
  | KStr => '(n, r) <- get_varint 4 b ;;
            '(s, r') <- take n r ;;
            if negb utf8 || utf8_valid s then Ok (KeyB s, r') else Err Invalid
  | KUuid => '(s, r) <- take 16 b ;; Ok (KeyB s, r)
  end.
