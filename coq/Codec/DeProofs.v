(* Codec/DeProofs.v — structural facts about the fuelled decoder: more fuel never changes a
   non-Fuel result (de_mono), fuel = input length + 1 is always enough (de_enough), every
   successful decode consumes at least one byte (de_consumes). *)
From Aldrin Require Import Codec.Base Codec.BaseProofs Codec.Value Codec.De gen.Consts.
From Coq Require Import ZifyBool ZifyNat ZifyN.
Open Scope N_scope.
Arguments N.add : simpl never.
Arguments N.sub : simpl never.
Arguments N.mul : simpl never.
Arguments N.ltb : simpl never.
Arguments N.leb : simpl never.
Arguments N.eqb : simpl never.

(* [x ⊑ y]: x ran out of fuel, or x and y agree *)
Definition le_res {A} (x y : result A) : Prop := x = Err Fuel \/ x = y.
Infix "⊑" := le_res (at level 70).

Lemma le_refl {A} (x : result A) : x ⊑ x. Proof. right; reflexivity. Qed.
Lemma le_fuel {A} (y : result A) : Err Fuel ⊑ y. Proof. left; reflexivity. Qed.
Lemma le_bind {A B} (e e' : result A) (k k' : A -> result B) :
  e ⊑ e' -> (forall a, k a ⊑ k' a) -> bind e k ⊑ bind e' k'.
Proof.
  intros [->| ->] Hk; [left; reflexivity|]. destruct e' as [a|err]; cbn [bind]; [apply Hk|apply le_refl].
Qed.
Lemma le_use {A} (x y : result A) : x ⊑ y -> x <> Err Fuel -> y = x.
Proof. intros [->| ->] H; [congruence|reflexivity]. Qed.

Definition le_w {A} (w w' : list N -> result (A * list N)) := forall b, w b ⊑ w' b.

Lemma loop1_mono {A} (elem elem' : list N -> result (A * list N)) :
  le_w elem elem' -> forall n n', (n <= n')%nat -> forall cnt b,
  loop1 elem n cnt b ⊑ loop1 elem' n' cnt b.
Proof.
  intros He. induction n as [|n IH]; intros n' Hn cnt b.
  - cbn [loop1]. destruct n'; cbn [loop1]; destruct (cnt =? 0); try apply le_refl; apply le_fuel.
  - destruct n' as [|n']; [lia|]. cbn [loop1]. destruct (cnt =? 0); [apply le_refl|].
    apply le_bind; [apply He|]. intros [x r]. apply le_bind; [apply IH; lia|]. intros [xs r']. apply le_refl.
Qed.

Lemma loop2_mono {A} (elem elem' : list N -> result (A * list N)) :
  le_w elem elem' -> forall n n', (n <= n')%nat -> forall b,
  loop2 elem n b ⊑ loop2 elem' n' b.
Proof.
  intros He. induction n as [|n IH]; intros n' Hn b.
  - apply le_fuel.
  - destruct n' as [|n']; [lia|]. cbn [loop2]. destruct b as [|k r]; [apply le_refl|].
    destruct (kind_of_byte k) as [[]|]; try apply le_refl.
    apply le_bind; [apply He|]. intros [x r1]. apply le_bind; [apply IH; lia|]. intros [xs r2]. apply le_refl.
Qed.

Lemma bytes2_loop_mono short : forall n n', (n <= n')%nat -> forall len b,
  bytes2_loop short n len b ⊑ bytes2_loop short n' len b.
Proof.
  induction n as [|n IH]; intros n' Hn len b.
  - cbn [bytes2_loop]. destruct n'; cbn [bytes2_loop]; destruct (len =? 0); try apply le_refl; apply le_fuel.
  - destruct n' as [|n']; [lia|]. cbn [bytes2_loop]. destruct (len =? 0); [apply le_refl|].
    destruct (take len b) as [[c r]|]; [|apply le_refl].
    apply le_bind; [apply le_refl|]. intros [len' r']. apply le_bind; [apply IH; lia|]. intros [bs r'']. apply le_refl.
Qed.

Lemma map_elem_mono utf8 kk (rec rec' : list N -> result (Value * list N)) :
  le_w rec rec' -> le_w (map_elem utf8 kk rec) (map_elem utf8 kk rec').
Proof.
  intros H b. unfold map_elem. apply le_bind; [apply le_refl|]. intros [key r].
  apply le_bind; [apply H|]. intros [v r']. apply le_refl.
Qed.

Lemma field_elem_mono (rec rec' : list N -> result (Value * list N)) :
  le_w rec rec' -> le_w (field_elem rec) (field_elem rec').
Proof.
  intros H b. unfold field_elem. apply le_bind; [apply le_refl|]. intros [id r].
  apply le_bind; [apply H|]. intros [v r']. apply le_refl.
Qed.

Lemma de_body_mono utf8 (rec rec' : walker Value) n n' :
  (forall d, le_w (rec d) (rec' d)) -> (n <= n')%nat ->
  forall d b, de_body utf8 rec n d b ⊑ de_body utf8 rec' n' d b.
Proof.
  intros Hr Hn d b. unfold de_body, de_kind. destruct (_ <? _)%nat; [apply le_refl|].
  destruct b as [|k r]; [apply le_refl|]. destruct (kind_of_byte k) as [kd|]; [|apply le_refl].
  destruct kd as [| | |i|f| |e|e|e kk|e kk|e|]; try apply le_refl.
  - apply le_bind; [apply Hr|]. intros [v r']. apply le_refl.
  - destruct e.
    + apply le_bind; [apply le_refl|]. intros [cnt r1].
      apply le_bind; [apply loop1_mono; auto|]. intros [xs r2]. apply le_refl.
    + apply le_bind; [apply loop2_mono; auto|]. intros [xs r2]. apply le_refl.
  - destruct e; [apply le_refl|].
    apply le_bind; [apply le_refl|]. intros [len r1].
    apply le_bind; [apply bytes2_loop_mono; auto|]. intros [bs r2]. apply le_refl.
  - destruct e.
    + apply le_bind; [apply le_refl|]. intros [cnt r1].
      apply le_bind; [apply loop1_mono; auto; apply map_elem_mono; auto|]. intros [xs r2]. apply le_refl.
    + apply le_bind; [apply loop2_mono; auto; apply map_elem_mono; auto|]. intros [xs r2]. apply le_refl.
  - destruct e.
    + apply le_bind; [apply le_refl|]. intros [cnt r1].
      apply le_bind; [apply loop1_mono; auto; intros ?; apply le_refl|]. intros [xs r2]. apply le_refl.
    + apply le_bind; [apply loop2_mono; auto; intros ?; apply le_refl|]. intros [xs r2]. apply le_refl.
  - destruct e.
    + apply le_bind; [apply le_refl|]. intros [cnt r1].
      apply le_bind; [apply loop1_mono; auto; apply field_elem_mono; auto|]. intros [xs r2]. apply le_refl.
    + apply le_bind; [apply loop2_mono; auto; apply field_elem_mono; auto|]. intros [xs r2]. apply le_refl.
  - apply le_bind; [apply le_refl|]. intros [id r1].
    apply le_bind; [apply Hr|]. intros [v r2]. apply le_refl.
Qed.

Theorem de_mono utf8 : forall f f', (f <= f')%nat -> forall d b, de utf8 f d b ⊑ de utf8 f' d b.
Proof.
  induction f as [|f IH]; intros f' Hf d b; [apply le_fuel|].
  destruct f' as [|f']; [lia|]. cbn [de]. apply de_body_mono; [|lia].
  intros d' b'. apply IH. lia.
Qed.

(* ---------- consumption ---------- *)
Definition shrinks {A} (w : list N -> result (A * list N)) :=
  forall b x r, w b = Ok (x, r) -> (length r < length b)%nat.

Lemma take_len n b x r : take n b = Ok (x, r) -> (length r <= length b)%nat.
Proof. intros H. apply take_ok in H as [-> _]. rewrite app_length. lia. Qed.

Lemma get_int_consumes i : shrinks (get_int i).
Proof.
  intros b z r. destruct i; cbn [get_int]; try (destruct b; [discriminate|]; intros H; inversion H; subst; cbn; lia);
  destruct (get_varint _ b) as [[n r']|] eqn:E; cbn [bind]; try discriminate;
  intros H; inversion H; subst; eapply get_varint_consumes; eauto.
Qed.

Lemma get_key_consumes utf8 k : shrinks (get_key utf8 k).
Proof.
  intros b v r. destruct k as [i| |]; cbn [get_key].
  - destruct (get_int i b) as [[z r']|] eqn:E; cbn [bind]; [|discriminate].
    intros H; inversion H; subst. eapply get_int_consumes; eauto.
  - destruct (get_varint 4 b) as [[n r1]|] eqn:E; cbn [bind]; [|discriminate].
    destruct (take n r1) as [[s r2]|] eqn:E2; cbn [bind]; [|discriminate].
    destruct (_ || _); [|discriminate]. intros H; inversion H; subst.
    apply get_varint_consumes in E. apply take_len in E2. lia.
  - destruct (take 16 b) as [[s r']|] eqn:E; cbn [bind]; [|discriminate].
    intros H; inversion H; subst. apply take_ok in E as [-> E]. rewrite app_length.
    unfold lenN in E. lia.
Qed.

Lemma loop1_len {A} (elem : list N -> result (A * list N)) :
  shrinks elem -> forall n cnt b xs r, loop1 elem n cnt b = Ok (xs, r) -> (length r <= length b)%nat.
Proof.
  intros He. induction n as [|n IH]; intros cnt b xs r; cbn [loop1]; destruct (cnt =? 0);
    try (intros H; inversion H; subst; lia); try discriminate.
  destruct (elem b) as [[x r1]|] eqn:E; cbn [bind]; [|discriminate].
  destruct (loop1 elem n (cnt - 1) r1) as [[ys r2]|] eqn:E2; cbn [bind]; [|discriminate].
  intros H; inversion H; subst. apply He in E. apply IH in E2. lia.
Qed.

Lemma loop2_len {A} (elem : list N -> result (A * list N)) :
  shrinks elem -> forall n b xs r, loop2 elem n b = Ok (xs, r) -> (length r < length b)%nat.
Proof.
  intros He. induction n as [|n IH]; intros b xs r; cbn [loop2]; [discriminate|].
  destruct b as [|k b]; [discriminate|]. destruct (kind_of_byte k) as [[]|]; try discriminate.
  - intros H; inversion H; subst. cbn; lia.
  - destruct (elem b) as [[x r1]|] eqn:E; cbn [bind]; [|discriminate].
    destruct (loop2 elem n r1) as [[ys r2]|] eqn:E2; cbn [bind]; [|discriminate].
    intros H; inversion H; subst. apply He in E. apply IH in E2. cbn [length]. lia.
Qed.

Lemma bytes2_loop_len short : forall n len b bs r,
  bytes2_loop short n len b = Ok (bs, r) -> (length r <= length b)%nat.
Proof.
  induction n as [|n IH]; intros len b bs r; cbn [bytes2_loop];
    destruct (len =? 0); try (intros H; inversion H; subst; lia); try discriminate.
  destruct (take len b) as [[c r0]|] eqn:E; try discriminate.
  destruct (get_varint 4 r0) as [[len' r1]|] eqn:E1; cbn [bind]; [|discriminate].
  destruct (bytes2_loop short n len' r1) as [[bs' r2]|] eqn:E2; cbn [bind]; [|discriminate].
  intros H; inversion H; subst. apply take_len in E. apply get_varint_consumes in E1. apply IH in E2. lia.
Qed.

Lemma map_elem_shrinks utf8 kk rec : shrinks rec -> shrinks (map_elem utf8 kk rec).
Proof.
  intros Hr b [k v] r. unfold map_elem.
  destruct (get_key utf8 kk b) as [[key r1]|] eqn:E; cbn [bind]; [|discriminate].
  destruct (rec r1) as [[v' r2]|] eqn:E2; cbn [bind]; [|discriminate].
  intros H; inversion H; subst. apply get_key_consumes in E. apply Hr in E2. lia.
Qed.

Lemma field_elem_shrinks rec : shrinks rec -> shrinks (field_elem rec).
Proof.
  intros Hr b [k v] r. unfold field_elem.
  destruct (get_varint 4 b) as [[id r1]|] eqn:E; cbn [bind]; [|discriminate].
  destruct (rec r1) as [[v' r2]|] eqn:E2; cbn [bind]; [|discriminate].
  intros H; inversion H; subst. apply get_varint_consumes in E. apply Hr in E2. lia.
Qed.

Lemma de_body_shrinks utf8 (rec : walker Value) n :
  (forall d, shrinks (rec d)) -> forall d, shrinks (de_body utf8 rec n d).
Proof.
  intros Hr d b v r. unfold de_body, de_kind. destruct (_ <? _)%nat; [discriminate|].
  destruct b as [|k b]; [discriminate|]. destruct (kind_of_byte k) as [kd|]; [|discriminate].
  cbn [length].
  destruct kd as [| | |i|f| |e|e|e kk|e kk|e|].
  - intros H; inversion H; subst. lia.
  - destruct (rec (S d) b) as [[x r']|] eqn:E; cbn [bind]; [|discriminate].
    intros H; inversion H; subst. apply Hr in E. lia.
  - destruct b; [discriminate|]. intros H; inversion H; subst. cbn; lia.
  - destruct (get_int i b) as [[z r']|] eqn:E; cbn [bind]; [|discriminate].
    intros H; inversion H; subst. apply get_int_consumes in E. lia.
  - destruct (take _ b) as [[bs r']|] eqn:E; cbn [bind]; [|discriminate].
    intros H; inversion H; subst. apply take_len in E. lia.
  - destruct (get_varint 4 b) as [[len r1]|] eqn:E; cbn [bind]; [|discriminate].
    destruct (take len r1) as [[s r2]|] eqn:E2; cbn [bind]; [|discriminate].
    destruct (_ || _); [|discriminate]. intros H; inversion H; subst.
    apply get_varint_consumes in E. apply take_len in E2. lia.
  - destruct e.
    + destruct (get_varint 4 b) as [[cnt r1]|] eqn:E; cbn [bind]; [|discriminate].
      destruct (loop1 _ n cnt r1) as [[xs r2]|] eqn:E2; cbn [bind]; [|discriminate].
      intros H; inversion H; subst. apply get_varint_consumes in E. apply loop1_len in E2; [lia|apply Hr].
    + destruct (loop2 _ n b) as [[xs r2]|] eqn:E2; cbn [bind]; [|discriminate].
      intros H; inversion H; subst. apply loop2_len in E2; [lia|apply Hr].
  - destruct e.
    + destruct (get_varint 4 b) as [[cnt r1]|] eqn:E; cbn [bind]; [|discriminate].
      destruct (take cnt r1) as [[bs r2]|] eqn:E2; [|discriminate].
      intros H; inversion H; subst. apply get_varint_consumes in E. apply take_len in E2. lia.
    + destruct (get_varint 4 b) as [[len r1]|] eqn:E; cbn [bind]; [|discriminate].
      destruct (bytes2_loop _ n len r1) as [[bs r2]|] eqn:E2; cbn [bind]; [|discriminate].
      intros H; inversion H; subst. apply get_varint_consumes in E. apply bytes2_loop_len in E2. lia.
  - destruct e.
    + destruct (get_varint 4 b) as [[cnt r1]|] eqn:E; cbn [bind]; [|discriminate].
      destruct (loop1 _ n cnt r1) as [[xs r2]|] eqn:E2; cbn [bind]; [|discriminate].
      intros H; inversion H; subst. apply get_varint_consumes in E.
      apply loop1_len in E2; [lia|apply map_elem_shrinks, Hr].
    + destruct (loop2 _ n b) as [[xs r2]|] eqn:E2; cbn [bind]; [|discriminate].
      intros H; inversion H; subst. apply loop2_len in E2; [lia|apply map_elem_shrinks, Hr].
  - destruct e.
    + destruct (get_varint 4 b) as [[cnt r1]|] eqn:E; cbn [bind]; [|discriminate].
      destruct (loop1 _ n cnt r1) as [[xs r2]|] eqn:E2; cbn [bind]; [|discriminate].
      intros H; inversion H; subst. apply get_varint_consumes in E.
      apply loop1_len in E2; [lia|apply get_key_consumes].
    + destruct (loop2 _ n b) as [[xs r2]|] eqn:E2; cbn [bind]; [|discriminate].
      intros H; inversion H; subst. apply loop2_len in E2; [lia|apply get_key_consumes].
  - destruct e.
    + destruct (get_varint 4 b) as [[cnt r1]|] eqn:E; cbn [bind]; [|discriminate].
      destruct (loop1 _ n cnt r1) as [[xs r2]|] eqn:E2; cbn [bind]; [|discriminate].
      intros H; inversion H; subst. apply get_varint_consumes in E.
      apply loop1_len in E2; [lia|apply field_elem_shrinks, Hr].
    + destruct (loop2 _ n b) as [[xs r2]|] eqn:E2; cbn [bind]; [|discriminate].
      intros H; inversion H; subst. apply loop2_len in E2; [lia|apply field_elem_shrinks, Hr].
  - destruct (get_varint 4 b) as [[id r1]|] eqn:E; cbn [bind]; [|discriminate].
    destruct (rec (S d) r1) as [[x r2]|] eqn:E2; cbn [bind]; [|discriminate].
    intros H; inversion H; subst. apply get_varint_consumes in E. apply Hr in E2. lia.
Qed.

Theorem de_consumes utf8 : forall f d, shrinks (de utf8 f d).
Proof.
  induction f as [|f IH]; intros d; [intros b v r; discriminate|].
  cbn [de]. apply de_body_shrinks. exact IH.
Qed.

(* ---------- enough fuel ---------- *)
Definition nofuel_upto {A} (m : nat) (w : list N -> result (A * list N)) :=
  forall b, (length b < m)%nat -> w b <> Err Fuel.

Lemma bind_nofuel {A B} (e : result A) (k : A -> result B) :
  e <> Err Fuel -> (forall a, e = Ok a -> k a <> Err Fuel) -> bind e k <> Err Fuel.
Proof. destruct e as [a|err]; cbn [bind]; intros H1 H2; [apply H2; reflexivity|congruence]. Qed.

Lemma take_nofuel n b : take n b <> Err Fuel.
Proof. rewrite take_spec. destruct (_ <=? _); discriminate. Qed.

Lemma get_varint_nofuel W b : get_varint W b <> Err Fuel.
Proof.
  destruct b as [|x b]; cbn [get_varint]; [discriminate|]. destruct (_ <? x); [|discriminate].
  apply bind_nofuel; [apply take_nofuel|]. intros [bs r] _. discriminate.
Qed.

Lemma get_int_nofuel i b : get_int i b <> Err Fuel.
Proof.
  destruct i; cbn [get_int]; try (destruct b; discriminate);
    (apply bind_nofuel; [apply get_varint_nofuel|]; intros [n r] _; discriminate).
Qed.

Lemma get_key_nofuel utf8 k b : get_key utf8 k b <> Err Fuel.
Proof.
  destruct k as [i| |]; cbn [get_key].
  - apply bind_nofuel; [apply get_int_nofuel|]. intros [z r] _. discriminate.
  - apply bind_nofuel; [apply get_varint_nofuel|]. intros [n r] _.
    apply bind_nofuel; [apply take_nofuel|]. intros [s r'] _. destruct (_ || _); discriminate.
  - apply bind_nofuel; [apply take_nofuel|]. intros [s r] _. discriminate.
Qed.

Lemma loop1_nofuel {A} (elem : list N -> result (A * list N)) m :
  shrinks elem -> nofuel_upto m elem ->
  forall n cnt b, (length b < n)%nat -> (length b < m)%nat -> loop1 elem n cnt b <> Err Fuel.
Proof.
  intros Hs He. induction n as [|n IH]; intros cnt b Hn Hm; [lia|].
  cbn [loop1]. destruct (cnt =? 0); [discriminate|].
  apply bind_nofuel; [apply He; lia|]. intros [x r] E. apply Hs in E.
  apply bind_nofuel; [apply IH; lia|]. intros [xs r'] _. discriminate.
Qed.

Lemma loop2_nofuel {A} (elem : list N -> result (A * list N)) m :
  shrinks elem -> nofuel_upto m elem ->
  forall n b, (length b < n)%nat -> (length b < m)%nat -> loop2 elem n b <> Err Fuel.
Proof.
  intros Hs He. induction n as [|n IH]; intros b Hn Hm; [lia|].
  cbn [loop2]. destruct b as [|k b]; [discriminate|]. cbn [length] in *.
  destruct (kind_of_byte k) as [[]|]; try discriminate.
  apply bind_nofuel; [apply He; lia|]. intros [x r] E. apply Hs in E.
  apply bind_nofuel; [apply IH; lia|]. intros [xs r'] _. discriminate.
Qed.

Lemma bytes2_loop_nofuel short : short <> Fuel -> forall n len b, (length b < n)%nat ->
  bytes2_loop short n len b <> Err Fuel.
Proof.
  intros Hshort. induction n as [|n IH]; intros len b Hn; [lia|].
  cbn [bytes2_loop]. destruct (len =? 0); [discriminate|].
  destruct (take len b) as [[c r]|] eqn:E; [|congruence].
  apply bind_nofuel; [apply get_varint_nofuel|]. intros [len' r'] E1.
  apply take_len in E. apply get_varint_consumes in E1.
  apply bind_nofuel; [apply IH; lia|]. intros [bs r''] _. discriminate.
Qed.

Lemma map_elem_nofuel utf8 kk rec m :
  nofuel_upto m rec -> nofuel_upto m (map_elem utf8 kk rec).
Proof.
  intros Hr b Hb. unfold map_elem. apply bind_nofuel; [apply get_key_nofuel|]. intros [key r] E.
  apply get_key_consumes in E. apply bind_nofuel; [apply Hr; lia|]. intros [v r'] _. discriminate.
Qed.

Lemma field_elem_nofuel rec m : nofuel_upto m rec -> nofuel_upto m (field_elem rec).
Proof.
  intros Hr b Hb. unfold field_elem. apply bind_nofuel; [apply get_varint_nofuel|]. intros [id r] E.
  apply get_varint_consumes in E. apply bind_nofuel; [apply Hr; lia|]. intros [v r'] _. discriminate.
Qed.

Lemma de_body_nofuel utf8 (rec : walker Value) n :
  (forall d, shrinks (rec d)) -> (forall d, nofuel_upto n (rec d)) ->
  forall d b, (length b <= n)%nat -> de_body utf8 rec n d b <> Err Fuel.
Proof.
  intros Hs Hr d b Hb. unfold de_body, de_kind. destruct (_ <? _)%nat; [discriminate|].
  destruct b as [|k b]; [discriminate|]. cbn [length] in Hb.
  destruct (kind_of_byte k) as [kd|]; [|discriminate].
  destruct kd as [| | |i|f| |e|e|e kk|e kk|e|]; try discriminate.
  - apply bind_nofuel; [apply Hr; lia|]. intros [v r'] _. discriminate.
  - destruct b; discriminate.
  - apply bind_nofuel; [apply get_int_nofuel|]. intros [z r'] _. discriminate.
  - apply bind_nofuel; [apply take_nofuel|]. intros [bs r'] _. discriminate.
  - apply bind_nofuel; [apply get_varint_nofuel|]. intros [len r1] _.
    apply bind_nofuel; [apply take_nofuel|]. intros [s r2] _. destruct (_ || _); discriminate.
  - destruct e.
    + apply bind_nofuel; [apply get_varint_nofuel|]. intros [cnt r1] E. apply get_varint_consumes in E.
      apply bind_nofuel; [eapply loop1_nofuel; [apply Hs|apply Hr|lia|lia]|]. intros [xs r2] _. discriminate.
    + apply bind_nofuel; [eapply loop2_nofuel; [apply Hs|apply Hr|lia|lia]|]. intros [xs r2] _. discriminate.
  - destruct e.
    + apply bind_nofuel; [apply get_varint_nofuel|]. intros [cnt r1] _.
      destruct (take cnt r1) as [[bs r2]|]; discriminate.
    + apply bind_nofuel; [apply get_varint_nofuel|]. intros [len r1] E. apply get_varint_consumes in E.
      apply bind_nofuel; [apply bytes2_loop_nofuel; [discriminate|lia]|]. intros [bs r2] _. discriminate.
  - destruct e.
    + apply bind_nofuel; [apply get_varint_nofuel|]. intros [cnt r1] E. apply get_varint_consumes in E.
      apply bind_nofuel; [eapply loop1_nofuel; [apply map_elem_shrinks, Hs|apply map_elem_nofuel, Hr|lia|lia]|].
      intros [xs r2] _. discriminate.
    + apply bind_nofuel; [eapply loop2_nofuel; [apply map_elem_shrinks, Hs|apply map_elem_nofuel, Hr|lia|lia]|].
      intros [xs r2] _. discriminate.
  - destruct e.
    + apply bind_nofuel; [apply get_varint_nofuel|]. intros [cnt r1] E. apply get_varint_consumes in E.
      apply bind_nofuel; [eapply (loop1_nofuel _ n); [apply get_key_consumes|intros ? _; apply get_key_nofuel|lia|lia]|].
      intros [xs r2] _. discriminate.
    + apply bind_nofuel; [eapply (loop2_nofuel _ n); [apply get_key_consumes|intros ? _; apply get_key_nofuel|lia|lia]|].
      intros [xs r2] _. discriminate.
  - destruct e.
    + apply bind_nofuel; [apply get_varint_nofuel|]. intros [cnt r1] E. apply get_varint_consumes in E.
      apply bind_nofuel; [eapply loop1_nofuel; [apply field_elem_shrinks, Hs|apply field_elem_nofuel, Hr|lia|lia]|].
      intros [xs r2] _. discriminate.
    + apply bind_nofuel; [eapply loop2_nofuel; [apply field_elem_shrinks, Hs|apply field_elem_nofuel, Hr|lia|lia]|].
      intros [xs r2] _. discriminate.
  - apply bind_nofuel; [apply get_varint_nofuel|]. intros [id r1] E. apply get_varint_consumes in E.
    apply bind_nofuel; [apply Hr; lia|]. intros [v r2] _. discriminate.
Qed.

Theorem de_enough utf8 : forall f d b, (length b < f)%nat -> de utf8 f d b <> Err Fuel.
Proof.
  induction f as [|f IH]; intros d b Hb; [lia|]. cbn [de].
  apply de_body_nofuel; [intros d'; apply de_consumes| |lia].
  intros d' b' Hb'. apply IH. exact Hb'.
Qed.

(* the result at the canonical fuel is the result at any larger fuel, and never Fuel *)
Corollary de_value_stable utf8 b f x :
  de utf8 f 0%nat b = x -> x <> Err Fuel -> de_value utf8 b = x.
Proof.
  intros H Hx. unfold de_value.
  destruct (Nat.le_gt_cases f (S (length b))) as [Hle|Hgt].
  - apply le_use; [|congruence]. rewrite <- H. apply de_mono. exact Hle.
  - pose proof (de_mono utf8 (S (length b)) f ltac:(lia) 0%nat b) as [E|E].
    + exfalso. eapply de_enough; [|exact E]. lia.
    + congruence.
Qed.
