(* Codec/ConvertBytes.v — the converter writes a byte string (every element below 256) when it
   reads one, so the C13 theorems apply again to its output. *)
From Aldrin Require Import Codec.Base Codec.BaseProofs Codec.Value Codec.De Codec.Convert
  gen.Consts Codec.RoundTrip Codec.Frame Codec.ConvertProofs Codec.ConvertMeaning Codec.ConvertIdem
  Codec.DeProofs.
From Coq Require Import ZifyBool ZifyNat ZifyN.
Ltac Zify.zify_post_hook ::= Z.div_mod_to_equations.
Open Scope N_scope.
Arguments N.add : simpl never.
Arguments N.sub : simpl never.
Arguments N.mul : simpl never.
Arguments N.div : simpl never.
Arguments N.modulo : simpl never.
Arguments N.pow : simpl never.
Arguments N.ltb : simpl never.
Arguments N.leb : simpl never.
Arguments N.eqb : simpl never.

Lemma bytes_ok_cons_intro x l : x < 256 -> bytes_ok l = true -> bytes_ok (x :: l) = true.
Proof. intros Hx Hl. cbn [bytes_ok forallb]. fold (bytes_ok l). rewrite Hl. unfold byte_ok. lia. Qed.

Lemma bytes_ok_app_intro a b : bytes_ok a = true -> bytes_ok b = true -> bytes_ok (a ++ b) = true.
Proof. intros Ha Hb. rewrite bytes_ok_app, Ha, Hb. reflexivity. Qed.

Lemma bytes_ok_concat l : Forall (fun o => bytes_ok o = true) l -> bytes_ok (concat l) = true.
Proof. induction 1; cbn [concat]; [reflexivity|]. apply bytes_ok_app_intro; assumption. Qed.

Lemma to_le_bytes_ok k : forall n, bytes_ok (to_le k n) = true.
Proof.
  induction k as [|k IH]; intros n; cbn [to_le]; [reflexivity|].
  apply bytes_ok_cons_intro; [|apply IH]. pose proof (N.mod_lt n 256). lia.
Qed.

Lemma put_varint_bytes_ok W n :
  (1 <= W <= 8)%nat -> n < 256 ^ N.of_nat W -> bytes_ok (put_varint W n) = true.
Proof.
  intros HW Hn. unfold put_varint.
  destruct (Nat.leb_spec 2 (sig_bytes (W - 1) n)) as [Hk|Hk].
  - apply bytes_ok_cons_intro; [lia|apply to_le_bytes_ok].
  - assert (n < 256) as Hn256.
    { pose proof (sig_bytes_bound (W - 1) n) as Hsb.
      destruct (sig_bytes_one (W - 1) n ltac:(lia)) as [H0|H1]; [|exact H1].
      replace W with 1%nat in Hn by lia. exact Hn. }
    destruct (_ <? n); repeat apply bytes_ok_cons_intro; try reflexivity; lia.
Qed.

Lemma put_int_bytes_ok i z : int_ok i z = true -> bytes_ok (put_int i z) = true.
Proof.
  intros Hok. unfold int_ok, int_bits in Hok.
  assert (forall W, (0 < 2 ^ (8 * Z.of_nat W))%Z) as Hpos by (intros; apply Z.pow_pos_nonneg; lia).
  destruct i; cbn [int_signed int_width] in Hok; cbn [put_int int_signed int_width].
  - change (8 * Z.of_nat 1)%Z with 8%Z in Hok. apply bytes_ok_cons_intro; [lia|reflexivity].
  - apply bytes_ok_cons_intro; [|reflexivity]. pose proof (Z.mod_pos_bound z 256 ltac:(lia)). lia.
  - apply put_varint_bytes_ok; [lia|]. rewrite pow256. specialize (Hpos 2%nat). lia.
  - apply put_varint_bytes_ok; [lia|]. rewrite pow256.
    pose proof (zigzag_range z (8 * Z.of_nat 2) ltac:(lia) ltac:(lia)). specialize (Hpos 2%nat). lia.
  - apply put_varint_bytes_ok; [lia|]. rewrite pow256. specialize (Hpos 4%nat). lia.
  - apply put_varint_bytes_ok; [lia|]. rewrite pow256.
    pose proof (zigzag_range z (8 * Z.of_nat 4) ltac:(lia) ltac:(lia)). specialize (Hpos 4%nat). lia.
  - apply put_varint_bytes_ok; [lia|]. rewrite pow256. specialize (Hpos 8%nat). lia.
  - apply put_varint_bytes_ok; [lia|]. rewrite pow256.
    pose proof (zigzag_range z (8 * Z.of_nat 8) ltac:(lia) ltac:(lia)). specialize (Hpos 8%nat). lia.
Qed.

Lemma kind_byte_lt kd : kind_byte kd < 256.
Proof.
  destruct kd as [| | |i|f| |e|e|e kk|e kk|e|]; try (destruct e); cbn [kind_byte];
    try lia; try (destruct i; cbn; lia); try (destruct f; cbn; lia);
    destruct kk as [i| |]; try (destruct i); cbn; lia.
Qed.

(* [wok cw]: cw writes bytes (and leaves bytes) when it reads bytes *)
Definition wok (cw : list N -> cres) : Prop :=
  forall b o r, cw b = Ok (o, r) -> bytes_ok b = true -> bytes_ok r = true /\ bytes_ok o = true.

Lemma wok_agree cw : wok cw -> agree cw cw (fun o _ => bytes_ok o = true).
Proof.
  intros F b o r x r' H1 H2 Hb. rewrite H1 in H2. apply Ok_pair_inj in H2 as [_ <-].
  destruct (F _ _ _ H1 Hb). auto.
Qed.

Lemma varint_out_ok b n r :
  get_varint 4 b = Ok (n, r) -> bytes_ok b = true -> bytes_ok (put_varint 4 n) = true.
Proof. intros H Hb. apply put_varint_bytes_ok; [lia|eapply get_varint_range; eauto; lia]. Qed.

Lemma wok_key kk : wok (conv_key kk).
Proof.
  intros b o r Hc Hb. destruct kk as [i| |]; cbn [conv_key] in Hc.
  - destruct (get_int i b) as [[z r1]|] eqn:E; cbn [bind] in Hc; [|discriminate]. okp Hc.
    destruct (get_int_range _ _ _ _ E Hb). split; [assumption|apply put_int_bytes_ok; assumption].
  - destruct (get_varint 4 b) as [[n r1]|] eqn:E; cbn [bind] in Hc; [|discriminate].
    destruct (take n r1) as [[s r3]|] eqn:E2; cbn [bind] in Hc; [|discriminate]. okp Hc.
    pose proof (varint_bytes_ok _ _ _ _ E Hb) as Hb1.
    apply take_bytes_ok in E2 as (Hs & Hb3 & L); [|exact Hb1].
    split; [exact Hb3|]. apply bytes_ok_app_intro; [eapply varint_out_ok; eauto|exact Hs].
  - apply take_bytes_ok in Hc as (Hs & Hb3 & L); [|exact Hb]. auto.
Qed.

Lemma wok_map_elem kk rec : wok rec -> wok (conv_map_elem kk rec).
Proof.
  intros Hr b o r Hc Hb. unfold conv_map_elem in Hc.
  apply bind_ok_inv in Hc as ([ko r1] & Ec & Hc). apply bind_ok_inv in Hc as ([vo r2] & Ec2 & Hc). okp Hc.
  destruct (wok_key kk _ _ _ Ec Hb) as (Hb1 & K). destruct (Hr _ _ _ Ec2 Hb1) as (Hb2 & V).
  split; [exact Hb2|apply bytes_ok_app_intro; assumption].
Qed.

Lemma wok_field_elem rec : wok rec -> wok (conv_field_elem rec).
Proof.
  intros Hr b o r Hc Hb. unfold conv_field_elem in Hc.
  destruct (get_varint 4 b) as [[id r1]|] eqn:E; cbn [bind] in Hc; [|discriminate].
  pose proof (varint_bytes_ok _ _ _ _ E Hb) as Hb1.
  apply bind_ok_inv in Hc as ([vo r2] & Ec2 & Hc). okp Hc. destruct (Hr _ _ _ Ec2 Hb1) as (Hb2 & V).
  split; [exact Hb2|apply bytes_ok_app_intro; [eapply varint_out_ok; eauto|exact V]].
Qed.

Lemma bytes2_loop_bytes_ok : forall n len b bs r,
  bytes2_loop Invalid n len b = Ok (bs, r) -> bytes_ok b = true -> bytes_ok bs = true /\ bytes_ok r = true.
Proof.
  induction n as [|n IH]; intros len b bs r E2 Hb; cbn [bytes2_loop] in E2;
    destruct (len =? 0); try discriminate; try (okp E2; auto).
  destruct (take len b) as [[c r0]|] eqn:E; [|discriminate].
  apply take_bytes_ok in E as (Hc & Hr0 & _); [|exact Hb].
  apply bind_ok_inv in E2 as ([len' r1] & E1 & E2). apply bind_ok_inv in E2 as ([bs' r2] & E3 & E2). okp E2.
  pose proof (varint_bytes_ok _ _ _ _ E1 Hr0) as Hr1.
  destruct (IH _ _ _ _ E3 Hr1) as (Hbs & Hr). split; [apply bytes_ok_app_intro; assumption|exact Hr].
Qed.

Lemma counted_ok kd cnt outs :
  bytes_ok (put_varint 4 cnt) = true -> Forall2 (fun o (_ : list N) => bytes_ok o = true) outs outs ->
  bytes_ok (counted kd cnt outs) = true.
Proof.
  intros Hc F. unfold counted. apply bytes_ok_cons_intro; [apply kind_byte_lt|].
  apply bytes_ok_app_intro; [exact Hc|]. apply bytes_ok_concat. apply (Forall2_diag _ _ F).
Qed.

Lemma conv_body_wok (rec : cwalker) n : (forall d, wok (rec d)) -> forall d, wok (conv_body rec n d).
Proof.
  intros Hr d b o rr Hc Hb. unfold conv_body in Hc.
  destruct (MAX_VALUE_DEPTH <? S d)%nat; [discriminate|].
  destruct b as [|k r]; [discriminate|]. apply bytes_ok_cons in Hb as [_ Hb].
  destruct (kind_of_byte k) as [kd|]; [|discriminate].
  assert (forall (celem : list N -> cres) kd', wok celem ->
            ('(cnt, r1) <- get_varint 4 r ;; '(outs, r2) <- loop1 celem n cnt r1 ;; Ok (counted kd' cnt outs, r2))
              = Ok (o, rr) -> bytes_ok rr = true /\ bytes_ok o = true) as C1.
  { intros celem kd' He H1.
    destruct (get_varint 4 r) as [[cnt r1]|] eqn:E; cbn [bind] in H1; [|discriminate].
    pose proof (varint_bytes_ok _ _ _ _ E Hb) as Hb1.
    apply bind_ok_inv in H1 as ([outs r2] & Ec & H1). okp H1.
    destruct (agree_loop1 _ _ _ (wok_agree _ He) n cnt _ _ _ _ _ Ec Ec Hb1) as (_ & Hb2 & F & _).
    split; [exact Hb2|]. apply counted_ok; [eapply varint_out_ok; eauto|exact F]. }
  assert (forall (celem : list N -> cres) kd', wok celem ->
            ('(outs, r2) <- loop2 celem n r ;; finish2 kd' outs r2) = Ok (o, rr) ->
            bytes_ok rr = true /\ bytes_ok o = true) as C2.
  { intros celem kd' He H1. apply bind_ok_inv in H1 as ([outs r2] & Ec & H1).
    destruct (agree_loop2 _ _ _ (wok_agree _ He) n _ _ _ _ _ Ec Ec Hb) as (_ & Hb2 & F & _).
    unfold finish2 in H1. destruct (lenN outs <=? u32_max) eqn:Hov; [|discriminate]. okp H1.
    split; [exact Hb2|]. apply counted_ok; [|exact F].
    apply put_varint_bytes_ok; [lia|apply u32_fits; exact Hov]. }
  unfold conv_kind in Hc.
  destruct kd as [| | |i|f| |e|e|e kk|e kk|e|].
  - okp Hc. split; [exact Hb|reflexivity].
  - apply bind_ok_inv in Hc as ([o1 r1] & Ec & Hc). okp Hc. destruct (Hr _ _ _ _ Ec Hb) as (Hb1 & Ho).
    split; [exact Hb1|apply bytes_ok_cons_intro; [apply kind_byte_lt|exact Ho]].
  - destruct r as [|x r]; [discriminate|]. apply bytes_ok_cons in Hb as [_ Hb]. okp Hc.
    split; [exact Hb|]. destruct (x =? 0); reflexivity.
  - destruct (get_int i r) as [[z r1]|] eqn:E; cbn [bind] in Hc; [|discriminate]. okp Hc.
    destruct (get_int_range _ _ _ _ E Hb). split; [assumption|].
    apply bytes_ok_cons_intro; [apply kind_byte_lt|apply put_int_bytes_ok; assumption].
  - destruct (take (fix_len f) r) as [[bs r1]|] eqn:E; cbn [bind] in Hc; [|discriminate]. okp Hc.
    apply take_bytes_ok in E as (Hs & Hb1 & L); [|exact Hb].
    split; [exact Hb1|apply bytes_ok_cons_intro; [apply kind_byte_lt|exact Hs]].
  - destruct (get_varint 4 r) as [[len r1]|] eqn:E; cbn [bind] in Hc; [|discriminate].
    destruct (take len r1) as [[s r3]|] eqn:E2; cbn [bind] in Hc; [|discriminate]. okp Hc.
    pose proof (varint_bytes_ok _ _ _ _ E Hb) as Hb1.
    apply take_bytes_ok in E2 as (Hs & Hb3 & L); [|exact Hb1]. split; [exact Hb3|].
    apply bytes_ok_cons_intro; [apply kind_byte_lt|].
    apply bytes_ok_app_intro; [eapply varint_out_ok; eauto|exact Hs].
  - destruct e; [apply (C1 (rec (S d)) (KVec E1))|apply (C2 (rec (S d)) (KVec E1))]; auto.
  - destruct e.
    + destruct (get_varint 4 r) as [[cnt r1]|] eqn:E; cbn [bind] in Hc; [|discriminate].
      destruct (take cnt r1) as [[s r3]|] eqn:E2; cbn [bind] in Hc; [|discriminate]. okp Hc.
      pose proof (varint_bytes_ok _ _ _ _ E Hb) as Hb1.
      apply take_bytes_ok in E2 as (Hs & Hb3 & L); [|exact Hb1]. split; [exact Hb3|].
      apply bytes_ok_cons_intro; [apply kind_byte_lt|].
      apply bytes_ok_app_intro; [eapply varint_out_ok; eauto|exact Hs].
    + destruct (get_varint 4 r) as [[len r1]|] eqn:E; cbn [bind] in Hc; [|discriminate].
      destruct (bytes2_loop Invalid n len r1) as [[bs r3]|] eqn:E2; cbn [bind] in Hc; [|discriminate].
      destruct (lenN bs <=? u32_max) eqn:Hov; [|discriminate]. okp Hc.
      pose proof (varint_bytes_ok _ _ _ _ E Hb) as Hb1.
      destruct (bytes2_loop_bytes_ok _ _ _ _ _ E2 Hb1) as (Hbs & Hb3).
      split; [exact Hb3|].
      apply bytes_ok_cons_intro; [apply kind_byte_lt|].
      apply bytes_ok_app_intro; [apply put_varint_bytes_ok; [lia|apply u32_fits; exact Hov]|exact Hbs].
  - destruct e; [apply (C1 (conv_map_elem kk (rec (S d))) (KMap E1 kk))|apply (C2 (conv_map_elem kk (rec (S d))) (KMap E1 kk))];
      auto using wok_map_elem.
  - destruct e; [apply (C1 (conv_key kk) (KSet E1 kk))|apply (C2 (conv_key kk) (KSet E1 kk))]; auto using wok_key.
  - destruct e; [apply (C1 (conv_field_elem (rec (S d))) (KStruct E1))|apply (C2 (conv_field_elem (rec (S d))) (KStruct E1))];
      auto using wok_field_elem.
  - destruct (get_varint 4 r) as [[id r1]|] eqn:E; cbn [bind] in Hc; [|discriminate].
    pose proof (varint_bytes_ok _ _ _ _ E Hb) as Hb1.
    apply bind_ok_inv in Hc as ([o1 r2] & Ec & Hc). okp Hc. destruct (Hr _ _ _ _ Ec Hb1) as (Hb2 & Ho).
    split; [exact Hb2|]. apply bytes_ok_cons_intro; [apply kind_byte_lt|].
    apply bytes_ok_app_intro; [eapply varint_out_ok; eauto|exact Ho].
Qed.

Theorem conv_wok : forall f d, wok (conv f d).
Proof.
  induction f as [|f IH]; intros d; [intros b o r H; discriminate|].
  cbn [conv]. apply conv_body_wok. exact IH.
Qed.

Theorem conv_value_bytes_ok b b' r :
  bytes_ok b = true -> conv_value b = Ok (b', r) -> bytes_ok b' = true.
Proof. intros Hb H. exact (proj2 (conv_wok _ _ _ _ _ H Hb)). Qed.
