(* Codec/BaseProofs.v — facts about Base.v: take, little-endian, varint and zigzag round-trips,
   integer and key codecs. *)
From Aldrin Require Import Codec.Base.
From Coq Require Import ZifyBool ZifyNat ZifyN.
Ltac Zify.zify_post_hook ::= Z.div_mod_to_equations.
Open Scope N_scope.
Arguments N.add : simpl never.
Arguments N.sub : simpl never.
Arguments N.mul : simpl never.
Arguments N.div : simpl never.
Arguments N.modulo : simpl never.
Arguments N.pow : simpl never.
Arguments N.ltb : simpl never.
Arguments N.leb : simpl never.
Arguments N.eqb : simpl never.

(* ---------- take ---------- *)
Lemma take_go_spec b : forall n acc,
  take_go b n acc =
  if n <=? lenN b then Some (rev acc ++ firstn (N.to_nat n) b, skipn (N.to_nat n) b) else None.
Proof.
  induction b as [|x b IH]; intros n acc; cbn [take_go].
  - unfold lenN; cbn [length]. destruct (N.eqb_spec n 0) as [->|Hn].
    + cbn. rewrite rev_append_rev, !app_nil_r. reflexivity.
    + destruct (N.leb_spec n (N.of_nat 0)); [lia|reflexivity].
  - destruct (N.eqb_spec n 0) as [->|Hn].
    + cbn. rewrite rev_append_rev, !app_nil_r. reflexivity.
    + rewrite IH. unfold lenN; cbn [length].
      replace (N.to_nat n) with (S (N.to_nat (N.pred n))) by lia.
      cbn [firstn skipn rev].
      destruct (N.leb_spec (N.pred n) (N.of_nat (length b)));
        destruct (N.leb_spec n (N.of_nat (S (length b)))); try lia; [|reflexivity].
      rewrite <- app_assoc. reflexivity.
Qed.

Lemma take_spec n b :
  take n b = if n <=? lenN b then Ok (firstn (N.to_nat n) b, skipn (N.to_nat n) b) else Err Eoi.
Proof.
  unfold take. rewrite take_go_spec. destruct (n <=? lenN b); reflexivity.
Qed.

Lemma lenN_app {A} (a b : list A) : lenN (a ++ b) = lenN a + lenN b.
Proof. unfold lenN. rewrite app_length. lia. Qed.

Lemma lenN_cons {A} (x : A) l : lenN (x :: l) = 1 + lenN l.
Proof. unfold lenN. cbn [length]. lia. Qed.

Lemma take_app a r : take (lenN a) (a ++ r) = Ok (a, r).
Proof.
  rewrite take_spec, lenN_app.
  destruct (N.leb_spec (lenN a) (lenN a + lenN r)); [|lia].
  unfold lenN. rewrite Nat2N.id, firstn_app, Nat.sub_diag, firstn_all, skipn_app, Nat.sub_diag,
    skipn_all. cbn. rewrite !app_nil_r. reflexivity.
Qed.

Lemma take_ok n b x r : take n b = Ok (x, r) -> b = x ++ r /\ lenN x = n.
Proof.
  rewrite take_spec. destruct (N.leb_spec n (lenN b)) as [H|H]; [|discriminate].
  intros E; inversion E; subst. split; [symmetry; apply firstn_skipn|].
  unfold lenN in *. rewrite firstn_length. lia.
Qed.

Lemma take_err n b e : take n b = Err e -> e = Eoi /\ lenN b < n.
Proof.
  rewrite take_spec. destruct (N.leb_spec n (lenN b)); [discriminate|].
  intros E; inversion E; auto.
Qed.

(* ---------- little endian ---------- *)
Lemma to_le_length k : forall n, length (to_le k n) = k.
Proof. induction k; intros; cbn [to_le length]; auto. Qed.

Lemma from_to_le k : forall n, n < 256 ^ N.of_nat k -> from_le (to_le k n) = n.
Proof.
  induction k as [|k IH]; intros n Hn.
  - cbn in *. change (256 ^ 0) with 1 in Hn. lia.
  - cbn [to_le from_le]. rewrite IH.
    + pose proof (N.div_mod' n 256). lia.
    + replace (N.of_nat (S k)) with (N.succ (N.of_nat k)) in Hn by lia.
      rewrite N.pow_succ_r' in Hn. apply N.div_lt_upper_bound; lia.
Qed.

Lemma sig_bytes_bound w : forall n, (1 <= sig_bytes w n <= S w)%nat.
Proof.
  induction w as [|w IH]; intros n; cbn [sig_bytes]; [lia|].
  destruct (n <? 256); [lia|]. specialize (IH (n / 256)). lia.
Qed.

Lemma sig_bytes_fits w : forall n, n < 256 ^ N.of_nat (S w) -> n < 256 ^ N.of_nat (sig_bytes w n).
Proof.
  induction w as [|w IH]; intros n Hn; cbn [sig_bytes].
  - exact Hn.
  - destruct (N.ltb_spec n 256) as [H|H].
    + change (256 ^ N.of_nat 1) with 256. exact H.
    + replace (N.of_nat (S (sig_bytes w (n / 256)))) with (N.succ (N.of_nat (sig_bytes w (n / 256)))) by lia.
      rewrite N.pow_succ_r'.
      assert (n / 256 < 256 ^ N.of_nat (sig_bytes w (n / 256))) as H1.
      { apply IH. replace (N.of_nat (S (S w))) with (N.succ (N.of_nat (S w))) in Hn by lia.
        rewrite N.pow_succ_r' in Hn. apply N.div_lt_upper_bound; lia. }
      pose proof (N.div_mod' n 256). pose proof (N.mod_lt n 256). nia.
Qed.

Lemma sig_bytes_one w n : sig_bytes w n = 1%nat -> (w = 0%nat \/ n < 256).
Proof.
  destruct w; cbn [sig_bytes]; [auto|].
  destruct (N.ltb_spec n 256); [auto|]. pose proof (sig_bytes_bound w (n / 256)). lia.
Qed.

(* ---------- varint ---------- *)
Theorem varint_roundtrip W n r :
  (1 <= W <= 8)%nat -> n < 256 ^ N.of_nat W ->
  get_varint W (put_varint W n ++ r) = Ok (n, r).
Proof.
  intros HW Hn. unfold put_varint.
  pose proof (sig_bytes_bound (W - 1) n) as Hb.
  assert (n < 256 ^ N.of_nat (sig_bytes (W - 1) n)) as Hfit.
  { apply sig_bytes_fits. replace (S (W - 1)) with W by lia. exact Hn. }
  set (k := sig_bytes (W - 1) n) in *.
  destruct (Nat.leb_spec 2 k) as [Hk|Hk].
  - cbn [app get_varint].
    destruct (N.ltb_spec (255 - N.of_nat W) (255 - N.of_nat (W - k))) as [_|H]; [|lia].
    replace (255 - N.of_nat (W - k) + N.of_nat W - 255) with (lenN (to_le k n))
      by (unfold lenN; rewrite to_le_length; lia).
    rewrite take_app. cbn [bind]. rewrite from_to_le by exact Hfit. reflexivity.
  - assert (k = 1%nat) as Hk1 by lia. rewrite Hk1 in Hfit. change (256 ^ N.of_nat 1) with 256 in Hfit.
    destruct (N.ltb_spec (255 - N.of_nat W) n) as [H|H].
    + cbn [app get_varint].
      destruct (N.ltb_spec (255 - N.of_nat W) (256 - N.of_nat W)) as [_|H']; [|lia].
      replace (256 - N.of_nat W + N.of_nat W - 255) with (lenN [n]) by (unfold lenN; cbn; lia).
      change (n :: r) with ([n] ++ r). rewrite take_app. cbn [bind from_le]. f_equal. f_equal. lia.
    + cbn [app get_varint].
      destruct (N.ltb_spec (255 - N.of_nat W) n); [lia|reflexivity].
Qed.

Lemma put_varint_nonempty W n : put_varint W n <> [].
Proof. unfold put_varint. destruct (2 <=? _)%nat; [discriminate|]. destruct (_ <? n); discriminate. Qed.

Lemma get_varint_consumes W b n r : get_varint W b = Ok (n, r) -> (length r < length b)%nat.
Proof.
  destruct b as [|x b]; cbn [get_varint]; [discriminate|].
  destruct (_ <? x).
  - destruct (take _ b) as [[bs r']|e] eqn:E; cbn [bind]; [|discriminate].
    intros H; inversion H; subst. apply take_ok in E as [-> _]. cbn [length]. rewrite app_length. lia.
  - intros H; inversion H; subst. cbn. lia.
Qed.

(* ---------- zigzag ---------- *)
Theorem zigzag_roundtrip z : zigzag_dec (zigzag_enc z) = z.
Proof.
  unfold zigzag_enc, zigzag_dec.
  destruct (Z.leb_spec 0 z) as [H|H].
  - replace (N.even (Z.to_N (2 * z))) with true.
    + assert (Z.to_N (2 * z) / 2 = Z.to_N z) as -> by lia. lia.
    + symmetry. apply N.even_spec. exists (Z.to_N z). lia.
  - replace (N.even (Z.to_N (-2 * z - 1))) with false.
    + assert ((Z.to_N (-2 * z - 1) + 1) / 2 = Z.to_N (- z)) as -> by lia.
      lia.
    + symmetry. rewrite <- N.negb_odd. apply Bool.negb_false_iff. apply N.odd_spec.
      exists (Z.to_N (- z - 1)). lia.
Qed.

Lemma zigzag_range z bits : (0 < bits)%Z ->
  (- 2 ^ (bits - 1) <= z < 2 ^ (bits - 1))%Z -> (Z.of_N (zigzag_enc z) < 2 ^ bits)%Z.
Proof.
  intros Hb Hz. assert (2 ^ bits = 2 * 2 ^ (bits - 1))%Z as ->.
  { replace bits with (Z.succ (bits - 1)) at 1 by lia. apply Z.pow_succ_r. lia. }
  unfold zigzag_enc. destruct (Z.leb_spec 0 z); lia.
Qed.

(* ---------- ints ---------- *)
Lemma pow256 W : 256 ^ N.of_nat W = Z.to_N (2 ^ (8 * Z.of_nat W)).
Proof.
  rewrite Z.pow_mul_r by lia. change (2 ^ 8)%Z with 256%Z.
  rewrite <- (N2Z.id (256 ^ N.of_nat W)). f_equal. rewrite N2Z.inj_pow. f_equal. lia.
Qed.

Theorem int_roundtrip i z r : int_ok i z = true -> get_int i (put_int i z ++ r) = Ok (z, r).
Proof.
  intros Hok. unfold int_ok, int_bits in Hok.
  assert (forall W, (0 < 2 ^ (8 * Z.of_nat W))%Z) as Hpos by (intros; apply Z.pow_pos_nonneg; lia).
  destruct i; cbn [int_signed int_width] in Hok; cbn [put_int get_int app int_signed int_width].
  - (* U8 *) change (8 * Z.of_nat 1)%Z with 8%Z in Hok. f_equal. f_equal. lia.
  - (* I8 *) change (8 * Z.of_nat 1 - 1)%Z with 7%Z in Hok. change (2 ^ 7)%Z with 128%Z in Hok.
    destruct (N.ltb_spec (Z.to_N (z mod 256)) 128); f_equal; f_equal; lia.
  - rewrite varint_roundtrip; [cbn [bind]; f_equal; f_equal; lia|lia|].
    rewrite pow256. specialize (Hpos 2%nat). lia.
  - rewrite varint_roundtrip; [cbn [bind]; rewrite zigzag_roundtrip; reflexivity|lia|].
    rewrite pow256. pose proof (zigzag_range z (8 * Z.of_nat 2) ltac:(lia) ltac:(lia)).
    specialize (Hpos 2%nat). lia.
  - rewrite varint_roundtrip; [cbn [bind]; f_equal; f_equal; lia|lia|].
    rewrite pow256. specialize (Hpos 4%nat). lia.
  - rewrite varint_roundtrip; [cbn [bind]; rewrite zigzag_roundtrip; reflexivity|lia|].
    rewrite pow256. pose proof (zigzag_range z (8 * Z.of_nat 4) ltac:(lia) ltac:(lia)).
    specialize (Hpos 4%nat). lia.
  - rewrite varint_roundtrip; [cbn [bind]; f_equal; f_equal; lia|lia|].
    rewrite pow256. specialize (Hpos 8%nat). lia.
  - rewrite varint_roundtrip; [cbn [bind]; rewrite zigzag_roundtrip; reflexivity|lia|].
    rewrite pow256. pose proof (zigzag_range z (8 * Z.of_nat 8) ltac:(lia) ltac:(lia)).
    specialize (Hpos 8%nat). lia.
Qed.

Lemma put_int_nonempty i z : put_int i z <> [].
Proof. destruct i; cbn [put_int]; try discriminate; apply put_varint_nonempty. Qed.

Lemma u32_fits n : n <=? u32_max = true -> n < 256 ^ N.of_nat 4.
Proof. unfold u32_max. change (256 ^ N.of_nat 4) with 4294967296. lia. Qed.

(* ---------- keys ---------- *)
Theorem key_roundtrip utf8 k v bs r :
  key_ok utf8 k v = true -> put_key k v = Ok bs -> get_key utf8 k (bs ++ r) = Ok (v, r).
Proof.
  destruct k as [i| |], v as [z|l]; cbn [key_ok put_key get_key]; try discriminate.
  - intros Hok H; inversion H; subst. rewrite int_roundtrip by exact Hok. reflexivity.
  - intros Hok. apply andb_prop in Hok as [Hok Hutf]. apply andb_prop in Hok as [_ Hlen].
    rewrite Hlen. intros H; inversion H; subst. rewrite <- app_assoc.
    rewrite varint_roundtrip by (try lia; apply u32_fits; exact Hlen). cbn [bind].
    rewrite take_app. cbn [bind]. rewrite Hutf. reflexivity.
  - intros Hok. apply andb_prop in Hok as [_ Hlen]. intros H; inversion H; subst.
    replace 16 with (lenN bs) by lia. rewrite take_app. reflexivity.
Qed.

Lemma put_key_ok utf8 k v : key_ok utf8 k v = true -> exists bs, put_key k v = Ok bs /\ bs <> [].
Proof.
  destruct k as [i| |], v as [z|l]; cbn [key_ok put_key]; try discriminate.
  - intros _. eexists; split; [reflexivity|apply put_int_nonempty].
  - intros Hok. apply andb_prop in Hok as [Hok _]. apply andb_prop in Hok as [_ Hlen]. rewrite Hlen.
    eexists; split; [reflexivity|]. pose proof (put_varint_nonempty 4 (lenN l)).
    destruct (put_varint 4 (lenN l)); [congruence|discriminate].
  - intros Hok. apply andb_prop in Hok as [_ Hlen]. eexists; split; [reflexivity|].
    destruct l; [discriminate|discriminate].
Qed.

Lemma key_eqb_refl k : key_eqb k k = true.
Proof.
  destruct k as [z|l]; cbn [key_eqb]; [lia|]. unfold list_eqb. rewrite Nat.eqb_refl. cbn [andb].
  induction l as [|x l IH]; cbn [combine forallb fst snd]; [reflexivity|]. rewrite IH, N.eqb_refl. reflexivity.
Qed.
