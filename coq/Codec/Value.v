(* Codec/Value.v — the dynamic Value (core/src/value.rs), the 66 wire kinds
   (core/src/value_kind.rs), depth and well-formedness. *)
From Aldrin Require Export Codec.Base.
Open Scope N_scope.

Inductive epoch := E1 | E2.
Definition epoch_eqb (a b : epoch) := match a, b with E1,E1 | E2,E2 => true | _,_ => false end.

(* fixed-width opaque payloads: floats are their bit patterns (to_bits/put_uXX_le), ids are
   concatenated uuids *)
Inductive fixk := F32 | F64 | FUuid | FObjectId | FServiceId | FSender | FReceiver.
Definition fix_len (f : fixk) : N :=
  match f with F32 => 4 | F64 => 8 | FUuid | FSender | FReceiver => 16
          | FObjectId => 32 | FServiceId => 64 end.
Definition fixk_eqb (a b : fixk) : bool :=
  match a, b with
  | F32,F32 | F64,F64 | FUuid,FUuid | FObjectId,FObjectId | FServiceId,FServiceId
  | FSender,FSender | FReceiver,FReceiver => true | _,_ => false end.

(* 43 value kinds: None Some Bool, 8 ints, 7 fixed, String, Vec, Bytes, 10 maps, 10 sets,
   Struct, Enum.  Maps/sets/structs are association lists in the order the serializer visits
   the entries (HashMap iteration order is arbitrary: theorems quantify over every order). *)
Inductive Value :=
| VNone
| VSome (v : Value)
| VBool (b : bool)
| VInt (i : intk) (z : Z)
| VFixed (f : fixk) (bs : list N)
| VString (s : list N)
| VVec (l : list Value)
| VBytes (bs : list N)
| VMap (k : keyk) (l : list (keyv * Value))
| VSet (k : keyk) (l : list keyv)
| VStruct (l : list (N * Value))
| VEnum (id : N) (v : Value).

(* wire kinds *)
Inductive kind :=
| KNone | KSome | KBool | KInt_ (i : intk) | KFixed (f : fixk) | KString
| KVec (e : epoch) | KBytes (e : epoch) | KMap (e : epoch) (k : keyk) | KSet (e : epoch) (k : keyk)
| KStruct (e : epoch) | KEnum.

Definition intk_idx (i : intk) : N :=
  match i with U8 => 0 | I8 => 1 | U16 => 2 | I16 => 3 | U32 => 4 | I32 => 5 | U64 => 6 | I64 => 7 end.
Definition keyk_idx (k : keyk) : N :=
  match k with KInt i => intk_idx i | KStr => 8 | KUuid => 9 end.

Definition kind_byte (k : kind) : N :=
  match k with
  | KNone => 0 | KSome => 1 | KBool => 2
  | KInt_ i => 3 + intk_idx i
  | KFixed F32 => 11 | KFixed F64 => 12 | KString => 13
  | KFixed FUuid => 14 | KFixed FObjectId => 15 | KFixed FServiceId => 16
  | KVec E1 => 17 | KBytes E1 => 18
  | KMap E1 k => 19 + keyk_idx k
  | KSet E1 k => 29 + keyk_idx k
  | KStruct E1 => 39 | KEnum => 40 | KFixed FSender => 41 | KFixed FReceiver => 42
  | KVec E2 => 43 | KBytes E2 => 44
  | KMap E2 k => 45 + keyk_idx k
  | KSet E2 k => 55 + keyk_idx k
  | KStruct E2 => 65
  end.

Definition all_intk := [U8; I8; U16; I16; U32; I32; U64; I64].
Definition all_keyk := map KInt all_intk ++ [KStr; KUuid].
Definition all_kinds : list kind :=
  [KNone; KSome; KBool] ++ map KInt_ all_intk ++
  [KFixed F32; KFixed F64; KString; KFixed FUuid; KFixed FObjectId; KFixed FServiceId;
   KVec E1; KBytes E1] ++ map (KMap E1) all_keyk ++ map (KSet E1) all_keyk ++
  [KStruct E1; KEnum; KFixed FSender; KFixed FReceiver; KVec E2; KBytes E2] ++
  map (KMap E2) all_keyk ++ map (KSet E2) all_keyk ++ [KStruct E2].

(* TryFrom<u8> for ValueKind *)
Definition kind_of_byte (b : N) : option kind := nth_error all_kinds (N.to_nat b).

Definition intk_name (i : intk) : list N := (* ASCII, used only for the tie with gen/Kinds.v *)
  match i with
  | U8 => [85;56] | I8 => [73;56] | U16 => [85;49;54] | I16 => [73;49;54]
  | U32 => [85;51;50] | I32 => [73;51;50] | U64 => [85;54;52] | I64 => [73;54;52] end.

(* nesting depth: 1 for a leaf; every value position below a container/Some/Enum is one deeper *)
Fixpoint depth (v : Value) : nat :=
  match v with
  | VSome x | VEnum _ x => S (depth x)
  | VVec l => S (fold_right (fun x m => Nat.max (depth x) m) 0%nat l)
  | VMap _ l => S (fold_right (fun p m => Nat.max (depth (snd p)) m) 0%nat l)
  | VStruct l => S (fold_right (fun p m => Nat.max (depth (snd p)) m) 0%nat l)
  | _ => 1%nat
  end.

(* generic association-list helpers (HashMap/HashSet as lists) *)
Fixpoint nodupb {K} (eqb : K -> K -> bool) (l : list K) : bool :=
  match l with [] => true | k :: r => negb (existsb (eqb k) r) && nodupb eqb r end.
Definition keys_nodup := nodupb key_eqb.
Definition ids_nodup := nodupb N.eqb.

(* well-formedness = "is the image of a Rust Value": ints in range, payload sizes, valid UTF-8
   (when [utf8]), container lengths below 2^32, unique keys *)
Fixpoint wf (utf8 : bool) (v : Value) : bool :=
  match v with
  | VNone | VBool _ => true
  | VSome x => wf utf8 x
  | VInt i z => int_ok i z
  | VFixed f bs => bytes_ok bs && (lenN bs =? fix_len f)
  | VString s => bytes_ok s && (lenN s <=? u32_max) && (negb utf8 || utf8_valid s)
  | VVec l => (lenN l <=? u32_max) && forallb (wf utf8) l
  | VBytes bs => bytes_ok bs && (lenN bs <=? u32_max)
  | VMap k l => (lenN l <=? u32_max) && keys_nodup (map fst l) &&
                forallb (fun p => key_ok utf8 k (fst p) && wf utf8 (snd p)) l
  | VSet k l => (lenN l <=? u32_max) && keys_nodup l && forallb (key_ok utf8 k) l
  | VStruct l => (lenN l <=? u32_max) && ids_nodup (map fst l) &&
                 forallb (fun p => (fst p <=? u32_max) && wf utf8 (snd p)) l
  | VEnum id x => (id <=? u32_max) && wf utf8 x
  end.

(* HashMap::insert / HashSet::insert on association lists: last wins, position at the end *)
Definition assoc_insert {K V} (eqb : K -> K -> bool) (k : K) (v : V) (l : list (K * V)) :=
  filter (fun p => negb (eqb k (fst p))) l ++ [(k, v)].
Definition list_insert {K} (eqb : K -> K -> bool) (k : K) (l : list K) :=
  filter (fun x => negb (eqb k x)) l ++ [k].
Definition map_insert := @assoc_insert keyv Value key_eqb.
Definition set_insert := @list_insert keyv key_eqb.
Definition struct_insert := @assoc_insert N Value N.eqb.
