(* Codec/RoundTrip.v — de (ser v) = v for every well-formed value within the depth limit, both
   epochs (C01), by nested induction over Value. *)
From Aldrin Require Import Codec.Base Codec.BaseProofs Codec.Value Codec.Ser Codec.De gen.Consts.
From Coq Require Import ZifyBool ZifyNat ZifyN.
Open Scope N_scope.
Arguments N.add : simpl never.
Arguments N.sub : simpl never.
Arguments N.mul : simpl never.
Arguments N.ltb : simpl never.
Arguments N.leb : simpl never.
Arguments N.eqb : simpl never.

(* ---------- nested induction principle ---------- *)
Section VInd.
  Variable P : Value -> Prop.
  Hypothesis HNone : P VNone.
  Hypothesis HSome : forall x, P x -> P (VSome x).
  Hypothesis HBool : forall b, P (VBool b).
  Hypothesis HInt : forall i z, P (VInt i z).
  Hypothesis HFixed : forall f bs, P (VFixed f bs).
  Hypothesis HString : forall s, P (VString s).
  Hypothesis HVec : forall l, Forall P l -> P (VVec l).
  Hypothesis HBytes : forall bs, P (VBytes bs).
  Hypothesis HMap : forall k l, Forall (fun p => P (snd p)) l -> P (VMap k l).
  Hypothesis HSet : forall k l, P (VSet k l).
  Hypothesis HStruct : forall l, Forall (fun p => P (snd p)) l -> P (VStruct l).
  Hypothesis HEnum : forall id x, P x -> P (VEnum id x).

  Fixpoint Value_ind' (v : Value) : P v :=
    match v with
    | VNone => HNone
    | VSome x => HSome x (Value_ind' x)
    | VBool b => HBool b
    | VInt i z => HInt i z
    | VFixed f bs => HFixed f bs
    | VString s => HString s
    | VVec l => HVec l ((fix go l := match l return Forall P l with
                                     | [] => Forall_nil _
                                     | x :: r => Forall_cons _ (Value_ind' x) (go r) end) l)
    | VBytes bs => HBytes bs
    | VMap k l => HMap k l ((fix go (l : list (keyv * Value)) :=
                               match l return Forall (fun p => P (snd p)) l with
                               | [] => Forall_nil _
                               | p :: r => Forall_cons _ (Value_ind' (snd p)) (go r) end) l)
    | VSet k l => HSet k l
    | VStruct l => HStruct l ((fix go (l : list (N * Value)) :=
                                 match l return Forall (fun p => P (snd p)) l with
                                 | [] => Forall_nil _
                                 | p :: r => Forall_cons _ (Value_ind' (snd p)) (go r) end) l)
    | VEnum id x => HEnum id x (Value_ind' x)
    end.
End VInd.

(* ---------- kinds ---------- *)
Lemma kind_of_byte_kb k : kind_of_byte (kind_byte k) = Some k.
Proof.
  destruct k as [| | |i|f| |e|e|e k|e k|e|]; try reflexivity;
    try (destruct i; reflexivity); try (destruct f; reflexivity); try (destruct e; reflexivity);
    destruct e, k as [i| |]; try reflexivity; destruct i; reflexivity.
Qed.

Lemma all_kinds_bytes : map kind_byte all_kinds = map N.of_nat (seq 0 66).
Proof. reflexivity. Qed.

Lemma kind_of_byte_inv b k : kind_of_byte b = Some k -> b = kind_byte k.
Proof.
  unfold kind_of_byte. intros H.
  assert (nth_error (map kind_byte all_kinds) (N.to_nat b) = Some (kind_byte k)) as H1
    by (rewrite nth_error_map, H; reflexivity).
  rewrite all_kinds_bytes, nth_error_map in H1.
  destruct (nth_error (seq 0 66) (N.to_nat b)) as [m|] eqn:E; [|discriminate].
  cbn in H1. inversion H1; subst.
  assert (N.to_nat b < 66)%nat as Hlt.
  { change 66%nat with (length (seq 0 66)). apply nth_error_Some. rewrite E. discriminate. }
  pose proof (nth_error_nth _ _ 0%nat E) as E2. rewrite seq_nth in E2 by exact Hlt. lia.
Qed.

(* ---------- mapM ---------- *)
Lemma mapM_ok {A B} (f : A -> result B) l bs :
  mapM f l = Ok bs -> Forall2 (fun x b => f x = Ok b) l bs.
Proof.
  revert bs. induction l as [|x l IH]; intros bs; cbn [mapM].
  - intros H; inversion H. constructor.
  - destruct (f x) as [y|e] eqn:E; cbn [bind]; [|discriminate].
    destruct (mapM f l) as [ys|e] eqn:E2; cbn [bind]; [|discriminate].
    intros H; inversion H; subst. constructor; auto.
Qed.

Lemma Forall2_length {A B} (R : A -> B -> Prop) l l' : Forall2 R l l' -> length l = length l'.
Proof. induction 1; cbn [length]; congruence. Qed.
Lemma Forall2_length_N {A B} (R : A -> B -> Prop) l l' : Forall2 R l l' -> lenN l = lenN l'.
Proof. intros H. unfold lenN. f_equal. eapply Forall2_length; eauto. Qed.

(* ---------- loops ---------- *)
Lemma loop1_spec {A} (elem : list N -> result (A * list N)) bss ys r n :
  Forall2 (fun b y => forall r', elem (b ++ r') = Ok (y, r')) bss ys ->
  (length bss <= n)%nat ->
  loop1 elem n (lenN bss) (concat bss ++ r) = Ok (ys, r).
Proof.
  intros H. revert n. induction H as [|b y bss ys Hb _ IH]; intros n Hn.
  - destruct n; reflexivity.
  - destruct n as [|n]; [cbn in Hn; lia|]. cbn [loop1].
    destruct (N.eqb_spec (lenN (b :: bss)) 0) as [E|_]; [rewrite lenN_cons in E; lia|].
    cbn [concat]. rewrite <- app_assoc, Hb. cbn [bind].
    replace (lenN (b :: bss) - 1) with (lenN bss) by (rewrite lenN_cons; lia).
    rewrite IH by (cbn in Hn; lia). reflexivity.
Qed.

Lemma loop2_spec {A} (elem : list N -> result (A * list N)) bss ys r n :
  Forall2 (fun b y => exists inner, b = kb KSome :: inner /\
                                    forall r', elem (inner ++ r') = Ok (y, r')) bss ys ->
  (length bss < n)%nat ->
  loop2 elem n (concat bss ++ kb KNone :: r) = Ok (ys, r).
Proof.
  intros H. revert n. induction H as [|b y bss ys (inner & -> & Hb) _ IH]; intros n Hn.
  - destruct n; [cbn in Hn; lia|]. reflexivity.
  - destruct n as [|n]; [cbn in Hn; lia|]. cbn [loop2 concat app].
    change (kind_of_byte (kb KSome)) with (Some KSome). cbn iota.
    rewrite <- app_assoc, Hb. cbn [bind]. rewrite IH by (cbn in Hn; lia). reflexivity.
Qed.

(* ---------- dedup on duplicate-free lists is the identity ---------- *)
Section Dedup.
  Context {K : Type} (eqb : K -> K -> bool) (eqb_sym : forall a b, eqb a b = eqb b a).

  Lemma filter_all_false {V} k (acc : list (K * V)) :
    existsb (eqb k) (map fst acc) = false ->
    filter (fun p => negb (eqb k (fst p))) acc = acc.
  Proof.
    induction acc as [|p acc IH]; cbn [map existsb filter]; [reflexivity|].
    intros H. apply orb_false_elim in H as [H1 H2]. rewrite H1. cbn [negb]. rewrite IH; auto.
  Qed.

  Lemma nodupb_app_one l k :
    nodupb eqb (l ++ [k]) = nodupb eqb l && negb (existsb (eqb k) l).
  Proof.
    induction l as [|x l IH]; cbn [app nodupb existsb]; [reflexivity|].
    rewrite IH, existsb_app. cbn [existsb]. rewrite (eqb_sym k x).
    destruct (existsb (eqb x) l), (eqb x k), (nodupb eqb l), (existsb (eqb k) l); reflexivity.
  Qed.

  Lemma dedup_assoc_acc {V} (l acc : list (K * V)) :
    nodupb eqb (map fst (acc ++ l)) = true ->
    fold_left (fun a p => assoc_insert eqb (fst p) (snd p) a) l acc = acc ++ l.
  Proof.
    revert acc. induction l as [|p l IH]; intros acc H; cbn [fold_left].
    - rewrite app_nil_r. reflexivity.
    - replace (acc ++ p :: l) with ((acc ++ [p]) ++ l) in * by (rewrite <- app_assoc; reflexivity).
      rewrite <- IH by exact H. f_equal. unfold assoc_insert. rewrite filter_all_false.
      + destruct p; reflexivity.
      + rewrite map_app in H. clear IH.
        assert (nodupb eqb (map fst (acc ++ [p])) = true) as H1.
        { revert H. generalize (map fst (acc ++ [p])) as a. intros a. generalize (map fst l) as b.
          induction a as [|x a IHa]; intros b; cbn [app nodupb]; [reflexivity|].
          intros H. apply andb_prop in H as [H1 H2]. rewrite (IHa _ H2), andb_true_r.
          rewrite existsb_app in H1. destruct (existsb (eqb x) a); [discriminate|reflexivity]. }
        rewrite map_app in H1. cbn [map] in H1. rewrite nodupb_app_one in H1.
        apply andb_prop in H1 as [_ H1]. destruct (existsb _ _); [discriminate|reflexivity].
  Qed.

  Lemma dedup_assoc_id {V} (l : list (K * V)) :
    nodupb eqb (map fst l) = true ->
    fold_left (fun a p => assoc_insert eqb (fst p) (snd p) a) l [] = l.
  Proof. intros H. apply (dedup_assoc_acc l []). exact H. Qed.

  Lemma dedup_list_id (l : list K) :
    nodupb eqb l = true -> fold_left (fun a k => list_insert eqb k a) l [] = l.
  Proof.
    intros H. pose proof (dedup_assoc_id (map (fun k => (k, tt)) l)) as D.
    rewrite map_map in D. cbn [fst] in D. rewrite map_id in D. specialize (D H).
    assert (forall (l a : list K),
      map (fun k => (k, tt)) (fold_left (fun a k => list_insert eqb k a) l a) =
      fold_left (fun a p => assoc_insert eqb (fst p) (snd p) a) (map (fun k => (k, tt)) l)
                (map (fun k => (k, tt)) a)) as G.
    { clear. induction l as [|x l IH]; intros a; cbn [fold_left map]; [reflexivity|].
      rewrite IH. f_equal. unfold list_insert, assoc_insert. rewrite map_app. cbn [map fst snd].
      f_equal. induction a as [|y a IHa]; cbn [filter map fst]; [reflexivity|].
      destruct (eqb x y); cbn [negb map]; rewrite IHa; reflexivity. }
    specialize (G l []). cbn [map] in G. rewrite D in G.
    clear H D. revert G. generalize (fold_left (fun a k => list_insert eqb k a) l []). intros l'. revert l.
    induction l' as [|x l' IH]; intros [|y l]; cbn [map]; intros G; try discriminate; [reflexivity|].
    inversion G; subst. f_equal. apply (IH l). assumption.
  Qed.
End Dedup.

Lemma key_eqb_sym a b : key_eqb a b = key_eqb b a.
Proof.
  destruct a as [x|x], b as [y|y]; cbn [key_eqb]; try reflexivity; [apply Z.eqb_sym|].
  unfold list_eqb. rewrite (Nat.eqb_sym (length x)). destruct (length y =? length x)%nat; [|reflexivity].
  cbn [andb]. revert y. induction x as [|a x IH]; intros [|b y]; cbn [combine forallb fst snd]; try reflexivity.
  rewrite IH, (N.eqb_sym a b). reflexivity.
Qed.

Lemma dedup_map_id l : keys_nodup (map fst l) = true -> dedup_map l = l.
Proof. apply (dedup_assoc_id key_eqb key_eqb_sym). Qed.
Lemma dedup_set_id l : keys_nodup l = true -> dedup_set l = l.
Proof. apply (dedup_list_id key_eqb key_eqb_sym). Qed.
Lemma dedup_struct_id l : ids_nodup (map fst l) = true -> dedup_struct l = l.
Proof. apply (dedup_assoc_id N.eqb N.eqb_sym). Qed.

(* ---------- fuel a value needs ---------- *)
Fixpoint fuel_of (v : Value) : nat :=
  match v with
  | VSome x | VEnum _ x => S (fuel_of x)
  | VVec l => S (S (length l + fold_right (fun x m => fuel_of x + m) 0 l))%nat
  | VMap _ l => S (S (length l + fold_right (fun p m => fuel_of (snd p) + m) 0 l))%nat
  | VStruct l => S (S (length l + fold_right (fun p m => fuel_of (snd p) + m) 0 l))%nat
  | VSet _ l => S (S (length l))
  | VBytes _ => 3%nat
  | _ => 1%nat
  end.

Lemma fuel_in_sum {A} (g : A -> nat) x l :
  In x l -> (g x <= fold_right (fun y m => g y + m) 0 l)%nat.
Proof.
  induction l as [|y l IH]; cbn [In fold_right]; [tauto|]. intros [->|H]; [lia|]. apply IH in H. lia.
Qed.

Lemma Forall2_impl_in {A B} (R R' : A -> B -> Prop) l l' :
  Forall2 R l l' -> (forall x y, In x l -> R x y -> R' x y) -> Forall2 R' l l'.
Proof.
  induction 1 as [|x y l l' Hxy _ IH]; intros H; constructor.
  - apply H; [left; reflexivity|exact Hxy].
  - apply IH. intros; apply H; [right|]; assumption.
Qed.

Lemma Forall2_flip_map {A B C} (R : B -> C -> Prop) (g : A -> C) (l : list A) (bs : list B) :
  Forall2 (fun x b => R b (g x)) l bs -> Forall2 R bs (map g l).
Proof. induction 1; cbn [map]; constructor; auto. Qed.

Ltac depth_ok H :=
  match type of H with
  | (if (?a <? ?b)%nat then _ else _) = _ =>
      let E := fresh "Hd" in destruct (a <? b)%nat eqn:E; [discriminate H|]
  end.

Ltac bind_ok H x E :=
  match type of H with
  | bind ?e _ = Ok _ => destruct e as [x|?] eqn:E; [cbn [bind] in H|discriminate H]
  end.

Lemma Ok_inj {A} (a b : A) : Ok a = Ok b -> a = b.
Proof. intros H; inversion H; reflexivity. Qed.
Ltac ok_inv H := apply Ok_inj in H; subst.

Lemma take_0 b : take 0 b = Ok ([], b).
Proof. rewrite take_spec. destruct (N.leb_spec 0 (lenN b)); [reflexivity|lia]. Qed.

Lemma bytes2_loop_0 short n b : bytes2_loop short n 0 b = Ok ([], b).
Proof. destruct n; reflexivity. Qed.

(* ---------- the round trip ---------- *)
Theorem ser_de utf8 e : forall v d bs, wf utf8 v = true -> ser e d v = Ok bs ->
  forall f r, (fuel_of v <= f)%nat -> de utf8 f d (bs ++ r) = Ok (v, r).
Proof.
  induction v as [|x IH|b|i z|fk fbs|s|l IH|bs0|k l IH|k l|l IH|id x IH] using Value_ind';
    intros d bs Hwf Hser f r Hf; (destruct f as [|f]; [cbn in Hf; lia|]);
    cbn [ser] in Hser; depth_ok Hser; cbn [de]; unfold de_body, de_kind; rewrite Hd.
  - (* None *) ok_inv Hser. reflexivity.
  - (* Some *) bind_ok Hser b E. ok_inv Hser. cbn [app].
    change (kind_of_byte (kb KSome)) with (Some KSome). cbn iota.
    cbn [wf] in Hwf. cbn [fuel_of] in Hf. rewrite (IH _ _ Hwf E) by lia. reflexivity.
  - (* Bool *) ok_inv Hser. cbn [app]. change (kind_of_byte (kb KBool)) with (Some KBool).
    cbn iota. destruct b; reflexivity.
  - (* Int *) ok_inv Hser. cbn [app]. unfold kb. rewrite kind_of_byte_kb. cbn iota.
    cbn [wf] in Hwf. rewrite int_roundtrip by exact Hwf. reflexivity.
  - (* Fixed *) ok_inv Hser. cbn [app]. unfold kb. rewrite kind_of_byte_kb. cbn iota.
    cbn [wf] in Hwf. apply andb_prop in Hwf as [_ Hlen].
    replace (fix_len fk) with (lenN fbs) by lia. rewrite take_app. reflexivity.
  - (* String *) cbn [wf] in Hwf. apply andb_prop in Hwf as [Hwf Hutf]. apply andb_prop in Hwf as [_ Hlen].
    rewrite Hlen in Hser. ok_inv Hser. cbn [app].
    change (kind_of_byte (kb KString)) with (Some KString). cbn iota.
    rewrite <- app_assoc, varint_roundtrip by (try lia; apply u32_fits; exact Hlen). cbn [bind].
    rewrite take_app. cbn [bind]. rewrite Hutf. reflexivity.
  - (* Vec *) cbn [wf] in Hwf. apply andb_prop in Hwf as [Hlen Hwf]. cbn [fuel_of] in Hf.
    rewrite forallb_forall in Hwf. rewrite Forall_forall in IH.
    destruct e.
    + (* E1 *) rewrite Hlen in Hser. bind_ok Hser bss E. ok_inv Hser. cbn [app].
      change (kind_of_byte (kb (KVec E1))) with (Some (KVec E1)). cbn iota.
      apply mapM_ok in E. rewrite (Forall2_length_N _ _ _ E) in *.
      rewrite <- !app_assoc, varint_roundtrip by (try lia; apply u32_fits; exact Hlen). cbn [bind].
      erewrite loop1_spec; [reflexivity| |].
      * rewrite <- (map_id l) at 1. apply Forall2_flip_map.
        eapply Forall2_impl_in; [exact E|]. cbn beta. intros x b Hin Hx r'.
        apply IH; auto. pose proof (fuel_in_sum fuel_of x l Hin). lia.
      * rewrite <- (Forall2_length _ _ _ E). lia.
    + (* E2 *) bind_ok Hser bss E. ok_inv Hser. cbn [app].
      change (kind_of_byte (kb (KVec E2))) with (Some (KVec E2)). cbn iota.
      apply mapM_ok in E. rewrite <- !app_assoc. cbn [app].
      erewrite loop2_spec; [reflexivity| |].
      * rewrite <- (map_id l) at 1. apply Forall2_flip_map.
        eapply Forall2_impl_in; [exact E|]. cbn beta. intros x b Hin Hx.
        bind_ok Hx b' E'. ok_inv Hx. eexists; split; [reflexivity|]. intros r'.
        apply IH; auto. pose proof (fuel_in_sum fuel_of x l Hin). lia.
      * rewrite <- (Forall2_length _ _ _ E). lia.
  - (* Bytes *) cbn [wf] in Hwf. apply andb_prop in Hwf as [_ Hlen]. cbn [fuel_of] in Hf.
    destruct e.
    + unfold hdr1 in Hser. rewrite Hlen in Hser. ok_inv Hser. cbn [app].
      change (kind_of_byte (kb (KBytes E1))) with (Some (KBytes E1)). cbn iota.
      rewrite <- app_assoc, varint_roundtrip by (try lia; apply u32_fits; exact Hlen). cbn [bind].
      rewrite take_app. reflexivity.
    + bind_ok Hser body E. ok_inv Hser. cbn [app].
      change (kind_of_byte (kb (KBytes E2))) with (Some (KBytes E2)). cbn iota.
      unfold bytes2_body in E. destruct bs0 as [|b0 bs0].
      * ok_inv E. rewrite varint_roundtrip by (try lia; reflexivity). cbn [bind].
        rewrite bytes2_loop_0. reflexivity.
      * rewrite Hlen in E. ok_inv E. rewrite <- !app_assoc.
        rewrite varint_roundtrip by (try lia; apply u32_fits; exact Hlen). cbn [bind].
        destruct f as [|f]; [lia|]. cbn [bytes2_loop].
        destruct (N.eqb_spec (lenN (b0 :: bs0)) 0) as [E0|_]; [rewrite lenN_cons in E0; lia|].
        rewrite take_app. rewrite varint_roundtrip by (try lia; reflexivity). cbn [bind].
        rewrite bytes2_loop_0. cbn [bind]. rewrite app_nil_r. reflexivity.
  - (* Map *) cbn [wf] in Hwf. apply andb_prop in Hwf as [Hwf Hall]. apply andb_prop in Hwf as [Hlen Hnd].
    cbn [fuel_of] in Hf. rewrite forallb_forall in Hall. rewrite Forall_forall in IH.
    destruct e.
    + rewrite Hlen in Hser. bind_ok Hser bss E. ok_inv Hser. cbn [app].
      unfold kb. rewrite kind_of_byte_kb. cbn iota.
      apply mapM_ok in E. rewrite (Forall2_length_N _ _ _ E) in *.
      rewrite <- !app_assoc, varint_roundtrip by (try lia; apply u32_fits; exact Hlen). cbn [bind].
      erewrite loop1_spec; [cbn [bind]; rewrite dedup_map_id by exact Hnd; reflexivity| |].
      * rewrite <- (map_id l) at 1. apply Forall2_flip_map.
        eapply Forall2_impl_in; [exact E|]. cbn beta. intros p b Hin Hp r'.
        bind_ok Hp kbs Ek. bind_ok Hp vb Ev. ok_inv Hp.
        specialize (Hall _ Hin). apply andb_prop in Hall as [Hk Hv].
        unfold map_elem. rewrite <- app_assoc, (key_roundtrip _ _ _ _ _ Hk Ek). cbn [bind].
        rewrite (IH _ Hin _ _ Hv Ev); [destruct p; reflexivity|].
        pose proof (fuel_in_sum (fun p => fuel_of (snd p)) p l Hin). cbn beta in *. lia.
      * rewrite <- (Forall2_length _ _ _ E). lia.
    + bind_ok Hser bss E. ok_inv Hser. cbn [app].
      unfold kb at 1. rewrite kind_of_byte_kb. cbn iota.
      apply mapM_ok in E. rewrite <- !app_assoc. cbn [app].
      erewrite loop2_spec; [cbn [bind]; rewrite dedup_map_id by exact Hnd; reflexivity| |].
      * rewrite <- (map_id l) at 1. apply Forall2_flip_map.
        eapply Forall2_impl_in; [exact E|]. cbn beta. intros p b Hin Hp.
        bind_ok Hp kbs Ek. bind_ok Hp vb Ev. ok_inv Hp.
        eexists; split; [reflexivity|]. intros r'.
        specialize (Hall _ Hin). apply andb_prop in Hall as [Hk Hv].
        unfold map_elem. rewrite <- app_assoc, (key_roundtrip _ _ _ _ _ Hk Ek). cbn [bind].
        rewrite (IH _ Hin _ _ Hv Ev); [destruct p; reflexivity|].
        pose proof (fuel_in_sum (fun p => fuel_of (snd p)) p l Hin). cbn beta in *. lia.
      * rewrite <- (Forall2_length _ _ _ E). lia.
  - (* Set *) cbn [wf] in Hwf. apply andb_prop in Hwf as [Hwf Hall]. apply andb_prop in Hwf as [Hlen Hnd].
    cbn [fuel_of] in Hf. rewrite forallb_forall in Hall.
    destruct e.
    + rewrite Hlen in Hser. bind_ok Hser bss E. ok_inv Hser. cbn [app].
      unfold kb. rewrite kind_of_byte_kb. cbn iota.
      apply mapM_ok in E. rewrite (Forall2_length_N _ _ _ E) in *.
      rewrite <- !app_assoc, varint_roundtrip by (try lia; apply u32_fits; exact Hlen). cbn [bind].
      erewrite loop1_spec; [cbn [bind]; rewrite dedup_set_id by exact Hnd; reflexivity| |].
      * rewrite <- (map_id l) at 1. apply Forall2_flip_map.
        eapply Forall2_impl_in; [exact E|]. cbn beta. intros x b Hin Hx r'.
        apply key_roundtrip; auto.
      * rewrite <- (Forall2_length _ _ _ E). lia.
    + bind_ok Hser bss E. ok_inv Hser. cbn [app].
      unfold kb at 1. rewrite kind_of_byte_kb. cbn iota.
      apply mapM_ok in E. rewrite <- !app_assoc. cbn [app].
      erewrite loop2_spec; [cbn [bind]; rewrite dedup_set_id by exact Hnd; reflexivity| |].
      * rewrite <- (map_id l) at 1. apply Forall2_flip_map.
        eapply Forall2_impl_in; [exact E|]. cbn beta. intros x b Hin Hx.
        bind_ok Hx kbs Ek. ok_inv Hx.
        eexists; split; [reflexivity|]. intros r'. apply key_roundtrip; auto.
      * rewrite <- (Forall2_length _ _ _ E). lia.
  - (* Struct *) cbn [wf] in Hwf. apply andb_prop in Hwf as [Hwf Hall]. apply andb_prop in Hwf as [Hlen Hnd].
    cbn [fuel_of] in Hf. rewrite forallb_forall in Hall. rewrite Forall_forall in IH.
    destruct e.
    + rewrite Hlen in Hser. bind_ok Hser bss E. ok_inv Hser. cbn [app].
      change (kind_of_byte (kb (KStruct E1))) with (Some (KStruct E1)). cbn iota.
      apply mapM_ok in E. rewrite (Forall2_length_N _ _ _ E) in *.
      rewrite <- !app_assoc, varint_roundtrip by (try lia; apply u32_fits; exact Hlen). cbn [bind].
      erewrite loop1_spec; [cbn [bind]; rewrite dedup_struct_id by exact Hnd; reflexivity| |].
      * rewrite <- (map_id l) at 1. apply Forall2_flip_map.
        eapply Forall2_impl_in; [exact E|]. cbn beta. intros p b Hin Hp r'.
        bind_ok Hp vb Ev. ok_inv Hp.
        specialize (Hall _ Hin). apply andb_prop in Hall as [Hk Hv].
        unfold field_elem. rewrite <- app_assoc, varint_roundtrip by (try lia; apply u32_fits; exact Hk).
        cbn [bind]. rewrite (IH _ Hin _ _ Hv Ev); [destruct p; reflexivity|].
        pose proof (fuel_in_sum (fun p => fuel_of (snd p)) p l Hin). cbn beta in *. lia.
      * rewrite <- (Forall2_length _ _ _ E). lia.
    + bind_ok Hser bss E. ok_inv Hser. cbn [app].
      change (kind_of_byte (kb (KStruct E2))) with (Some (KStruct E2)). cbn iota.
      apply mapM_ok in E. rewrite <- !app_assoc. cbn [app].
      erewrite loop2_spec; [cbn [bind]; rewrite dedup_struct_id by exact Hnd; reflexivity| |].
      * rewrite <- (map_id l) at 1. apply Forall2_flip_map.
        eapply Forall2_impl_in; [exact E|]. cbn beta. intros p b Hin Hp.
        bind_ok Hp vb Ev. ok_inv Hp.
        eexists; split; [reflexivity|]. intros r'.
        specialize (Hall _ Hin). apply andb_prop in Hall as [Hk Hv].
        unfold field_elem. rewrite <- app_assoc, varint_roundtrip by (try lia; apply u32_fits; exact Hk).
        cbn [bind]. rewrite (IH _ Hin _ _ Hv Ev); [destruct p; reflexivity|].
        pose proof (fuel_in_sum (fun p => fuel_of (snd p)) p l Hin). cbn beta in *. lia.
      * rewrite <- (Forall2_length _ _ _ E). lia.
  - (* Enum *) bind_ok Hser b E. ok_inv Hser. cbn [app].
    change (kind_of_byte (kb KEnum)) with (Some KEnum). cbn iota.
    cbn [wf] in Hwf. apply andb_prop in Hwf as [Hid Hwf]. cbn [fuel_of] in Hf.
    rewrite <- app_assoc, varint_roundtrip by (try lia; apply u32_fits; exact Hid). cbn [bind].
    rewrite (IH _ _ Hwf E) by lia. reflexivity.
Qed.
