(* Codec/Convert.v — the epoch converter: core/src/convert_value.rs (struct Convert, Epoch,
   convert/convert_mut) and KeyTagImpl::convert (core/src/tags/key_impl.rs).

   The Rust walker reads from [src] and appends to [dst]; the model returns (bytes appended, rest
   of src).  The only target epoch below V2 is V1, so [Convert::epoch] is always V1 (the V2 arms
   are `unreachable!()`); the model has no epoch argument.  The depth counter, the error kinds and
   their precedence, the temporary buffer + element counter + u32 overflow test of the
   `*2_to_*1` functions and the canonicalising re-encoding of varints and booleans are
   transcribed.  Differences to the decoder that the code has and the model keeps:
   a short Bytes1 payload is UnexpectedEoi here (InvalidSerialization in the decoder); strings
   are not UTF-8 validated.  No proofs here (see ConvertProofs.v). *)
From Aldrin Require Export Codec.De.
From Aldrin Require Import gen.Consts gen.ConvConsts.
Open Scope N_scope.

Definition cres := result (list N * list N).
Definition cwalker := nat -> list N -> cres.

(* KeyTagImpl::convert: read the key, write it again (varints canonically; strings and uuids
   byte for byte, without UTF-8 validation) *)
Definition conv_key (k : keyk) (b : list N) : cres :=
  match k with
  | KInt i => '(z, r) <- get_int i b ;; Ok (put_int i z, r)
  | KStr => '(n, r) <- get_varint 4 b ;; '(s, r') <- take n r ;; Ok (put_varint 4 n ++ s, r')
  | KUuid => take 16 b
  end.

(* one map entry: K::convert then convert_next *)
Definition conv_map_elem (k : keyk) (rec : list N -> cres) (b : list N) : cres :=
  '(ko, r) <- conv_key k b ;; '(vo, r') <- rec r ;; Ok (ko ++ vo, r').

(* one struct field: the id varint re-encoded, then convert_next *)
Definition conv_field_elem (rec : list N -> cres) (b : list N) : cres :=
  '(id, r) <- get_varint 4 b ;; '(vo, r') <- rec r ;; Ok (put_varint 4 id ++ vo, r').

(* what a counted (epoch 1) container looks like: kind, count, the elements *)
Definition counted (kd : kind) (cnt : N) (outs : list (list N)) : list N :=
  kind_byte kd :: put_varint 4 cnt ++ concat outs.

(* the end of a `*2_to_*1` loop: `len.try_into::<u32>()` or SerializeError::Overflow, then
   kind, count and the temporary buffer *)
Definition finish2 (kd : kind) (outs : list (list N)) (r : list N) : cres :=
  if lenN outs <=? u32_max then Ok (counted kd (lenN outs) outs, r) else Err Overflow.

(* Convert::convert after the kind byte; [d'] is the depth of this value *)
Definition conv_kind (rec : cwalker) (n : nat) (d' : nat) (kd : kind) (r : list N) : cres :=
  match kd with
  | KNone => Ok ([kind_byte KNone], r)
  | KSome => '(o, r') <- rec d' r ;; Ok (kind_byte KSome :: o, r')
  | KBool => match r with
             | [] => Err Eoi
             | x :: r' => Ok ([kind_byte KBool; if x =? 0 then 0 else 1], r')
             end
  | KInt_ i => '(z, r') <- get_int i r ;; Ok (kind_byte (KInt_ i) :: put_int i z, r')
  | KFixed f => '(bs, r') <- take (fix_len f) r ;; Ok (kind_byte (KFixed f) :: bs, r')
  | KString => '(len, r1) <- get_varint 4 r ;;
               '(s, r2) <- take len r1 ;;
               Ok (kind_byte KString :: put_varint 4 len ++ s, r2)
  | KVec E1 => '(cnt, r1) <- get_varint 4 r ;;
               '(outs, r2) <- loop1 (rec d') n cnt r1 ;; Ok (counted (KVec E1) cnt outs, r2)
  | KVec E2 => '(outs, r2) <- loop2 (rec d') n r ;; finish2 (KVec E1) outs r2
  | KBytes E1 => '(cnt, r1) <- get_varint 4 r ;;
                 '(s, r2) <- take cnt r1 ;;   (* short payload: UnexpectedEoi (decoder: Invalid) *)
                 Ok (kind_byte (KBytes E1) :: put_varint 4 cnt ++ s, r2)
  | KBytes E2 => '(len, r1) <- get_varint 4 r ;;
                 '(bs, r2) <- bytes2_loop Invalid n len r1 ;;
                 if lenN bs <=? u32_max
                 then Ok (kind_byte (KBytes E1) :: put_varint 4 (lenN bs) ++ bs, r2)
                 else Err Overflow
  | KMap E1 kk => '(cnt, r1) <- get_varint 4 r ;;
                  '(outs, r2) <- loop1 (conv_map_elem kk (rec d')) n cnt r1 ;;
                  Ok (counted (KMap E1 kk) cnt outs, r2)
  | KMap E2 kk => '(outs, r2) <- loop2 (conv_map_elem kk (rec d')) n r ;;
                  finish2 (KMap E1 kk) outs r2
  | KSet E1 kk => '(cnt, r1) <- get_varint 4 r ;;
                  '(outs, r2) <- loop1 (conv_key kk) n cnt r1 ;;
                  Ok (counted (KSet E1 kk) cnt outs, r2)
  | KSet E2 kk => '(outs, r2) <- loop2 (conv_key kk) n r ;; finish2 (KSet E1 kk) outs r2
  | KStruct E1 => '(cnt, r1) <- get_varint 4 r ;;
                  '(outs, r2) <- loop1 (conv_field_elem (rec d')) n cnt r1 ;;
                  Ok (counted (KStruct E1) cnt outs, r2)
  | KStruct E2 => '(outs, r2) <- loop2 (conv_field_elem (rec d')) n r ;;
                  finish2 (KStruct E1) outs r2
  | KEnum => '(id, r1) <- get_varint 4 r ;;
             '(o, r2) <- rec d' r1 ;; Ok (kind_byte KEnum :: put_varint 4 id ++ o, r2)
  end.

(* Convert::new (depth check) followed by Convert::convert (kind byte, dispatch) *)
Definition conv_body (rec : cwalker) (n : nat) : cwalker := fun d b =>
  if (MAX_VALUE_DEPTH <? S d)%nat then Err TooDeep else
  match b with
  | [] => Err Eoi
  | k :: r =>
      match kind_of_byte k with
      | None => Err Invalid
      | Some kd => conv_kind rec n (S d) kd r
      end
  end.

Fixpoint conv (fuel : nat) : cwalker :=
  match fuel with
  | O => fun _ _ => Err Fuel
  | S f => conv_body (conv f) f
  end.

(* Convert::new(&mut src, &mut dst, V1, 0)?.convert() *)
Definition conv_value (b : list N) : cres := conv (S (length b)) 0%nat b.

(* ---------- versions ---------- *)
(* ProtocolVersion is (major, minor) with the derived, lexicographic order *)
Definition version := (N * N)%type.
Definition ver_leb (a b : version) : bool :=
  (fst a <? fst b) || ((fst a =? fst b) && (snd a <=? snd b)).

(* impl TryFrom<ProtocolVersion> for Epoch *)
Definition epoch_of (v : version) : result epoch :=
  if ver_leb CONV_V1_MIN v && ver_leb v CONV_V1_MAX then Ok E1
  else if ver_leb CONV_V2_MIN v && ver_leb v CONV_V2_MAX then Ok E2
  else Err InvalidVersion.

(* derived Ord on Epoch: V1 < V2 *)
Definition epoch_ltb (a b : epoch) : bool :=
  match a, b with E1, E2 => true | _, _ => false end.

(* convert_value::convert (SerializedValueSlice::convert; SerializedValue::convert replaces the
   value by the result) *)
Definition convert_api (from : option version) (to : version) (b : list N) : result (list N) :=
  from_e <- epoch_of (match from with Some v => v | None => CONV_MAX end) ;;
  to_e <- epoch_of to ;;
  if epoch_ltb to_e from_e then
    '(out, rest) <- conv_value b ;;
    match rest with [] => Ok out | _ => Err TrailingData end
  else Ok b.

(* ---------- the "no 1.20 container encoding" walker ---------- *)
(* [v1walk] is the skip walker (Skip.v) with the five epoch-2 container kinds (Vec2, Bytes2,
   *Map2, *Set2, Struct2) rejected in kind position at every nesting level.  It accepts exactly
   the byte strings a pre-1.20 peer's skip walker accepts. *)
Definition v1_key (k : keyk) (b : list N) : result (unit * list N) :=
  match k with
  | KInt i => '(_, r) <- get_int i b ;; Ok (tt, r)
  | KStr => '(n, r) <- get_varint 4 b ;; '(_, r') <- take n r ;; Ok (tt, r')
  | KUuid => '(_, r) <- take 16 b ;; Ok (tt, r)
  end.

Definition v1_map_elem (k : keyk) (rec : list N -> result (unit * list N)) (b : list N) :=
  '(_, r) <- v1_key k b ;; rec r.
Definition v1_field_elem (rec : list N -> result (unit * list N)) (b : list N) :=
  '(_, r) <- get_varint 4 b ;; rec r.

Definition v1_kind (rec : walker unit) (n : nat) (d' : nat) (kd : kind) (r : list N)
  : result (unit * list N) :=
  match kd with
  | KNone => Ok (tt, r)
  | KSome => rec d' r
  | KBool => '(_, r') <- take 1 r ;; Ok (tt, r')
  | KInt_ i => '(_, r') <- get_int i r ;; Ok (tt, r')
  | KFixed f => '(_, r') <- take (fix_len f) r ;; Ok (tt, r')
  | KString => '(len, r1) <- get_varint 4 r ;; '(_, r2) <- take len r1 ;; Ok (tt, r2)
  | KVec E1 => '(cnt, r1) <- get_varint 4 r ;;
               '(_, r2) <- loop1 (rec d') n cnt r1 ;; Ok (tt, r2)
  | KBytes E1 => '(cnt, r1) <- get_varint 4 r ;; '(_, r2) <- take cnt r1 ;; Ok (tt, r2)
  | KMap E1 kk => '(cnt, r1) <- get_varint 4 r ;;
                  '(_, r2) <- loop1 (v1_map_elem kk (rec d')) n cnt r1 ;; Ok (tt, r2)
  | KSet E1 kk => '(cnt, r1) <- get_varint 4 r ;;
                  '(_, r2) <- loop1 (v1_key kk) n cnt r1 ;; Ok (tt, r2)
  | KStruct E1 => '(cnt, r1) <- get_varint 4 r ;;
                  '(_, r2) <- loop1 (v1_field_elem (rec d')) n cnt r1 ;; Ok (tt, r2)
  | KEnum => '(_, r1) <- get_varint 4 r ;; rec d' r1
  (* the container encodings introduced in 1.20 *)
  | KVec E2 | KBytes E2 | KMap E2 _ | KSet E2 _ | KStruct E2 => Err Invalid
  end.

Definition v1walk_body (rec : walker unit) (n : nat) : walker unit := fun d b =>
  if (MAX_VALUE_DEPTH <? S d)%nat then Err TooDeep else
  match b with
  | [] => Err Eoi
  | k :: r =>
      match kind_of_byte k with
      | None => Err Invalid
      | Some kd => v1_kind rec n (S d) kd r
      end
  end.

Fixpoint v1walk (fuel : nat) : walker unit :=
  match fuel with
  | O => fun _ _ => Err Fuel
  | S f => v1walk_body (v1walk f) f
  end.

(* the whole byte string is one value without any 1.20 container encoding *)
Definition v1_only (b : list N) : bool :=
  match v1walk (S (length b)) 0%nat b with Ok (_, []) => true | _ => false end.
