(* Codec/Frame.v — the decoder never looks beyond what it consumes: if it decodes v from b
   leaving r, then b = p ++ r and it decodes v from p ++ r2 leaving r2 for every r2.  Hence an
   opaque sub-value split off by length re-decodes to the same value (C07). *)
From Aldrin Require Import Codec.Base Codec.BaseProofs Codec.Value Codec.De Codec.DeProofs gen.Consts.
From Coq Require Import ZifyBool ZifyNat ZifyN.
Open Scope N_scope.
Arguments N.add : simpl never.
Arguments N.sub : simpl never.
Arguments N.mul : simpl never.
Arguments N.ltb : simpl never.
Arguments N.leb : simpl never.
Arguments N.eqb : simpl never.

Definition framed {A} (w : list N -> result (A * list N)) : Prop :=
  forall b x r, w b = Ok (x, r) ->
  exists p, b = p ++ r /\ forall r2, w (p ++ r2) = Ok (x, r2).

Lemma framed_ret {A} (x : A) : framed (fun b => Ok (x, b)).
Proof. intros b y r H. inversion H; subst. exists []. split; reflexivity. Qed.

Lemma framed_err {A} e : framed (fun _ : list N => @Err (A * list N) e).
Proof. intros b y r H. discriminate. Qed.

Lemma framed_bind {A B} (w : list N -> result (A * list N)) (k : A -> list N -> result (B * list N)) :
  framed w -> (forall a, framed (k a)) -> framed (fun b => '(a, r) <- w b ;; k a r).
Proof.
  intros Hw Hk b y r H. cbn beta in H. destruct (w b) as [[a r1]|] eqn:E; cbn [bind] in H; [|discriminate].
  destruct (Hw _ _ _ E) as (p1 & -> & H1). destruct (Hk a _ _ _ H) as (p2 & -> & H2).
  exists (p1 ++ p2). split; [rewrite app_assoc; reflexivity|]. intros r2. cbn beta.
  rewrite <- app_assoc, H1. cbn [bind]. apply H2.
Qed.

Lemma framed_ext {A} (w w' : list N -> result (A * list N)) :
  (forall b, w b = w' b) -> framed w -> framed w'.
Proof.
  intros He Hw b x r H. rewrite <- He in H. destruct (Hw _ _ _ H) as (p & -> & Hp).
  exists p. split; [reflexivity|]. intros r2. rewrite <- He. apply Hp.
Qed.

Lemma framed_take n : framed (take n).
Proof.
  intros b x r H. apply take_ok in H as [-> <-]. exists x. split; [reflexivity|]. intros r2. apply take_app.
Qed.

Lemma framed_byte {A} (k : N -> list N -> result (A * list N)) :
  (forall x, framed (k x)) ->
  framed (fun b => match b with [] => Err Eoi | x :: r => k x r end).
Proof.
  intros Hk b y r H. destruct b as [|x b]; [discriminate|].
  destruct (Hk x _ _ _ H) as (p & -> & Hp). exists (x :: p). split; [reflexivity|]. exact Hp.
Qed.

Lemma framed_varint W : framed (get_varint W).
Proof.
  apply (framed_ext (fun b => match b with [] => Err Eoi | first :: r =>
           if 255 - N.of_nat W <? first then
             '(bs, r') <- take (first + N.of_nat W - 255) r ;; Ok (from_le bs, r')
           else Ok (first, r) end)); [intros []; reflexivity|].
  apply framed_byte. intros first. destruct (_ <? first).
  - apply (framed_bind (take _) (fun bs r' => Ok (from_le bs, r'))); [apply framed_take|].
    intros bs. apply framed_ret.
  - apply framed_ret.
Qed.

Lemma framed_int i : framed (get_int i).
Proof.
  destruct i; cbn [get_int];
    try (apply framed_byte; intros x; apply framed_ret);
    (apply (framed_bind (get_varint _) (fun n r => Ok (_ n, r))); [apply framed_varint|intros n; apply framed_ret]).
Qed.

Lemma framed_key utf8 k : framed (get_key utf8 k).
Proof.
  destruct k as [i| |]; cbn [get_key].
  - apply (framed_bind (get_int i) (fun z r => Ok (KeyZ z, r))); [apply framed_int|intros z; apply framed_ret].
  - apply (framed_bind (get_varint 4) (fun n r => '(s, r') <- take n r ;; _)); [apply framed_varint|].
    intros n. apply (framed_bind (take n) (fun s r' => if negb utf8 || utf8_valid s then Ok (KeyB s, r') else Err Invalid));
      [apply framed_take|].
    intros s. destruct (_ || _); [apply framed_ret|apply framed_err].
  - apply (framed_bind (take 16) (fun s r => Ok (KeyB s, r))); [apply framed_take|intros s; apply framed_ret].
Qed.

Lemma framed_loop1 {A} (elem : list N -> result (A * list N)) :
  framed elem -> forall n cnt, framed (loop1 elem n cnt).
Proof.
  intros He. induction n as [|n IH]; intros cnt; cbn [loop1]; destruct (cnt =? 0);
    try apply framed_ret; try apply framed_err.
  apply (framed_bind elem (fun x r => '(xs, r') <- loop1 elem n (cnt - 1) r ;; Ok (x :: xs, r'))); [exact He|].
  intros x. apply (framed_bind (loop1 elem n (cnt - 1)) (fun xs r' => Ok (x :: xs, r'))); [apply IH|].
  intros xs. apply framed_ret.
Qed.

Lemma framed_loop2 {A} (elem : list N -> result (A * list N)) :
  framed elem -> forall n, framed (loop2 elem n).
Proof.
  intros He. induction n as [|n IH]; cbn [loop2]; [apply framed_err|].
  apply framed_byte. intros k. destruct (kind_of_byte k) as [[]|]; try apply framed_err.
  - apply framed_ret.
  - apply (framed_bind elem (fun x r1 => '(xs, r2) <- loop2 elem n r1 ;; Ok (x :: xs, r2))); [exact He|].
    intros x. apply (framed_bind (loop2 elem n) (fun xs r2 => Ok (x :: xs, r2))); [apply IH|].
    intros xs. apply framed_ret.
Qed.

Lemma framed_bytes2 short : forall n len, framed (bytes2_loop short n len).
Proof.
  induction n as [|n IH]; intros len; cbn [bytes2_loop]; destruct (len =? 0);
    try apply framed_ret; try apply framed_err.
  intros b x r H. destruct (take len b) as [[chunk r0]|] eqn:E; [|discriminate].
  apply take_ok in E as [-> E].
  assert (framed (fun r0 => '(len', r') <- get_varint 4 r0 ;;
                            '(bs, r'') <- bytes2_loop short n len' r' ;; Ok (chunk ++ bs, r''))) as F.
  { apply (framed_bind (get_varint 4) (fun len' r' => '(bs, r'') <- bytes2_loop short n len' r' ;; Ok (chunk ++ bs, r''))).
    - apply framed_varint.
    - intros len'. apply (framed_bind (bytes2_loop short n len') (fun bs r'' => Ok (chunk ++ bs, r''))); [apply IH|].
      intros bs. apply framed_ret. }
  destruct (F _ _ _ H) as (p & -> & Hp). exists (chunk ++ p). split; [rewrite app_assoc; reflexivity|].
  intros r2. rewrite <- app_assoc, <- E, take_app. apply Hp.
Qed.

Lemma framed_map_elem utf8 kk rec : framed rec -> framed (map_elem utf8 kk rec).
Proof.
  intros Hr. unfold map_elem.
  apply (framed_bind (get_key utf8 kk) (fun key r => '(v, r') <- rec r ;; Ok ((key, v), r'))); [apply framed_key|].
  intros key. apply (framed_bind rec (fun v r' => Ok ((key, v), r'))); [exact Hr|]. intros v. apply framed_ret.
Qed.

Lemma framed_field_elem rec : framed rec -> framed (field_elem rec).
Proof.
  intros Hr. unfold field_elem.
  apply (framed_bind (get_varint 4) (fun id r => '(v, r') <- rec r ;; Ok ((id, v), r'))); [apply framed_varint|].
  intros id. apply (framed_bind rec (fun v r' => Ok ((id, v), r'))); [exact Hr|]. intros v. apply framed_ret.
Qed.

Lemma framed_de_kind utf8 (rec : walker Value) n d' kd :
  (forall d, framed (rec d)) -> framed (de_kind utf8 rec n d' kd).
Proof.
  intros Hr. unfold de_kind. destruct kd as [| | |i|f| |e|e|e kk|e kk|e|].
  - apply framed_ret.
  - apply (framed_bind (rec d') (fun v r' => Ok (VSome v, r'))); [apply Hr|intros v; apply framed_ret].
  - apply framed_byte. intros x. apply framed_ret.
  - apply (framed_bind (get_int i) (fun z r' => Ok (VInt i z, r'))); [apply framed_int|intros z; apply framed_ret].
  - apply (framed_bind (take _) (fun bs r' => Ok (VFixed f bs, r'))); [apply framed_take|intros bs; apply framed_ret].
  - apply (framed_bind (get_varint 4) (fun len r1 => '(s, r2) <- take len r1 ;; _)); [apply framed_varint|].
    intros len. apply (framed_bind (take len) (fun s r2 => if negb utf8 || utf8_valid s then Ok (VString s, r2) else Err Invalid));
      [apply framed_take|].
    intros s. destruct (_ || _); [apply framed_ret|apply framed_err].
  - destruct e.
    + apply (framed_bind (get_varint 4) (fun cnt r1 => '(xs, r2) <- loop1 (rec d') n cnt r1 ;; Ok (VVec xs, r2)));
        [apply framed_varint|].
      intros cnt. apply (framed_bind (loop1 (rec d') n cnt) (fun xs r2 => Ok (VVec xs, r2)));
        [apply framed_loop1, Hr|intros xs; apply framed_ret].
    + apply (framed_bind (loop2 (rec d') n) (fun xs r2 => Ok (VVec xs, r2)));
        [apply framed_loop2, Hr|intros xs; apply framed_ret].
  - destruct e.
    + apply (framed_bind (get_varint 4) (fun cnt r1 => match take cnt r1 with Err _ => Err Invalid
                                                        | Ok (bs, r2) => Ok (VBytes bs, r2) end)); [apply framed_varint|].
      intros cnt b x r H. destruct (take cnt b) as [[bs r2]|] eqn:E; [|discriminate].
      inversion H; subst. apply take_ok in E as [-> <-]. exists bs. split; [reflexivity|].
      intros r2. rewrite take_app. reflexivity.
    + apply (framed_bind (get_varint 4) (fun len r1 => '(bs, r2) <- bytes2_loop Invalid n len r1 ;; Ok (VBytes bs, r2)));
        [apply framed_varint|].
      intros len. apply (framed_bind (bytes2_loop Invalid n len) (fun bs r2 => Ok (VBytes bs, r2)));
        [apply framed_bytes2|intros bs; apply framed_ret].
  - destruct e.
    + apply (framed_bind (get_varint 4) (fun cnt r1 => '(xs, r2) <- loop1 (map_elem utf8 kk (rec d')) n cnt r1 ;;
                                                       Ok (VMap kk (dedup_map xs), r2))); [apply framed_varint|].
      intros cnt. apply (framed_bind (loop1 _ n cnt) (fun xs r2 => Ok (VMap kk (dedup_map xs), r2)));
        [apply framed_loop1, framed_map_elem, Hr|intros xs; apply framed_ret].
    + apply (framed_bind (loop2 _ n) (fun xs r2 => Ok (VMap kk (dedup_map xs), r2)));
        [apply framed_loop2, framed_map_elem, Hr|intros xs; apply framed_ret].
  - destruct e.
    + apply (framed_bind (get_varint 4) (fun cnt r1 => '(xs, r2) <- loop1 (get_key utf8 kk) n cnt r1 ;;
                                                       Ok (VSet kk (dedup_set xs), r2))); [apply framed_varint|].
      intros cnt. apply (framed_bind (loop1 _ n cnt) (fun xs r2 => Ok (VSet kk (dedup_set xs), r2)));
        [apply framed_loop1, framed_key|intros xs; apply framed_ret].
    + apply (framed_bind (loop2 _ n) (fun xs r2 => Ok (VSet kk (dedup_set xs), r2)));
        [apply framed_loop2, framed_key|intros xs; apply framed_ret].
  - destruct e.
    + apply (framed_bind (get_varint 4) (fun cnt r1 => '(xs, r2) <- loop1 (field_elem (rec d')) n cnt r1 ;;
                                                       Ok (VStruct (dedup_struct xs), r2))); [apply framed_varint|].
      intros cnt. apply (framed_bind (loop1 _ n cnt) (fun xs r2 => Ok (VStruct (dedup_struct xs), r2)));
        [apply framed_loop1, framed_field_elem, Hr|intros xs; apply framed_ret].
    + apply (framed_bind (loop2 _ n) (fun xs r2 => Ok (VStruct (dedup_struct xs), r2)));
        [apply framed_loop2, framed_field_elem, Hr|intros xs; apply framed_ret].
  - apply (framed_bind (get_varint 4) (fun id r1 => '(v, r2) <- rec d' r1 ;; Ok (VEnum id v, r2))); [apply framed_varint|].
    intros id. apply (framed_bind (rec d') (fun v r2 => Ok (VEnum id v, r2))); [apply Hr|intros v; apply framed_ret].
Qed.

Lemma framed_de_body utf8 (rec : walker Value) n d :
  (forall d, framed (rec d)) -> framed (de_body utf8 rec n d).
Proof.
  intros Hr. unfold de_body. destruct (_ <? _)%nat; [apply framed_err|].
  apply framed_byte. intros k. destruct (kind_of_byte k); [apply framed_de_kind, Hr|apply framed_err].
Qed.

Theorem de_framed utf8 : forall f d, framed (de utf8 f d).
Proof.
  induction f as [|f IH]; intros d; cbn [de]; [apply framed_err|]. apply framed_de_body, IH.
Qed.

(* a decoded prefix re-decodes to the same value, with nothing left over *)
Theorem de_value_prefix utf8 b v r :
  de_value utf8 b = Ok (v, r) -> exists p, b = p ++ r /\ de_value utf8 p = Ok (v, []).
Proof.
  unfold de_value at 1. intros H. destruct (de_framed utf8 _ _ _ _ _ H) as (p & -> & Hp).
  exists p. split; [reflexivity|]. specialize (Hp []). rewrite app_nil_r in Hp.
  eapply de_value_stable; [exact Hp|discriminate].
Qed.
