(* Codec/Skip.v — the skip walker: Deserializer::skip, the *Deserializer::skip methods and
   KeyTagImpl::skip (core/src/tags/key_impl.rs); Deserializer::len and
   split_off_serialized_value built on it.  Transcribed separately from the decoder (C07 is the
   statement that the two agree).  The varint width each KeyTagImpl::skip passes to
   try_skip_varint_le is read from the source by the translator (gen/Consts.v). *)
From Aldrin Require Export Codec.De.
From Aldrin Require Import gen.Consts.
Open Scope N_scope.

Definition swalker := nat -> list N -> result (list N).

Definition key_skip_width (i : intk) : nat :=
  match i with
  | U8 | I8 => 1%nat
  | U16 => KEY_SKIP_WIDTH_U16 | I16 => KEY_SKIP_WIDTH_I16
  | U32 => KEY_SKIP_WIDTH_U32 | I32 => KEY_SKIP_WIDTH_I32
  | U64 => KEY_SKIP_WIDTH_U64 | I64 => KEY_SKIP_WIDTH_I64
  end.

Definition drop (n : N) (b : list N) : result (list N) :=
  '(_, r) <- take n b ;; Ok r.

(* KeyTagImpl::skip *)
Definition skip_key (k : keyk) (b : list N) : result (list N) :=
  match k with
  | KInt U8 | KInt I8 => drop 1 b
  | KInt i => skip_varint (key_skip_width i) b
  | KStr => '(n, r) <- get_varint 4 b ;; drop n r
  | KUuid => drop 16 b
  end.

Fixpoint sloop1 (elem : list N -> result (list N)) (n : nat) (cnt : N) (b : list N)
  : result (list N) :=
  if cnt =? 0 then Ok b else
  match n with
  | O => Err Fuel
  | S n' => r <- elem b ;; sloop1 elem n' (cnt - 1) r
  end.

Fixpoint sloop2 (elem : list N -> result (list N)) (n : nat) (b : list N) : result (list N) :=
  match n with
  | O => Err Fuel
  | S n' =>
      match b with
      | [] => Err Eoi
      | k :: r =>
          match kind_of_byte k with
          | Some KNone => Ok r
          | Some KSome => r1 <- elem r ;; sloop2 elem n' r1
          | _ => Err Invalid
          end
      end
  end.

(* Bytes2Deserializer::skip: while len > 0 { advance(len) } *)
Fixpoint sbytes2_loop (n : nat) (len : N) (b : list N) : result (list N) :=
  if len =? 0 then Ok b else
  match n with
  | O => Err Fuel
  | S n' =>
      r <- drop len b ;;
      '(len', r') <- get_varint 4 r ;;
      sbytes2_loop n' len' r'
  end.

Definition skip_body (rec : swalker) (n : nat) : swalker := fun d b =>
  if (MAX_VALUE_DEPTH <? S d)%nat then Err TooDeep else
  let d' := S d in
  match b with
  | [] => Err Eoi
  | k :: r =>
      match kind_of_byte k with
      | None => Err Invalid
      | Some kd =>
          match kd with
          | KNone => Ok r
          | KSome => rec d' r
          | KBool | KInt_ U8 | KInt_ I8 => drop 1 r
          | KInt_ i => skip_varint (int_width i) r
          | KFixed f => drop (fix_len f) r
          | KString => '(len, r1) <- get_varint 4 r ;; drop len r1
          | KVec E1 => '(cnt, r1) <- get_varint 4 r ;; sloop1 (rec d') n cnt r1
          | KVec E2 => sloop2 (rec d') n r
          | KBytes E1 => '(cnt, r1) <- get_varint 4 r ;;
                         match take cnt r1 with Err _ => Err Invalid | Ok (_, r2) => Ok r2 end
          | KBytes E2 => '(len, r1) <- get_varint 4 r ;; sbytes2_loop n len r1
          | KMap E1 kk => '(cnt, r1) <- get_varint 4 r ;;
                          sloop1 (fun b => r <- skip_key kk b ;; rec d' r) n cnt r1
          | KMap E2 kk => sloop2 (fun b => r <- skip_key kk b ;; rec d' r) n r
          | KSet E1 kk => '(cnt, r1) <- get_varint 4 r ;; sloop1 (skip_key kk) n cnt r1
          | KSet E2 kk => sloop2 (skip_key kk) n r
          | KStruct E1 => '(cnt, r1) <- get_varint 4 r ;;
                          sloop1 (fun b => '(_, r) <- get_varint 4 b ;; rec d' r) n cnt r1
          | KStruct E2 => sloop2 (fun b => '(_, r) <- get_varint 4 b ;; rec d' r) n r
          | KEnum => '(_, r1) <- get_varint 4 r ;; rec d' r1
          end
      end
  end.

Fixpoint skip (fuel : nat) : swalker :=
  match fuel with
  | O => fun _ _ => Err Fuel
  | S f => skip_body (skip f) f
  end.

(* Deserializer::new(&mut buf, 0)?.skip() *)
Definition skip_value (b : list N) : result (list N) := skip (S (length b)) 0%nat b.

(* Deserializer::len on a fresh deserializer: number of bytes skip() consumes *)
Definition value_len (b : list N) : result N :=
  r <- skip_value b ;; Ok (lenN b - lenN r).

(* Deserializer::split_off_serialized_value *)
Definition split_off (b : list N) : result (list N * list N) :=
  n <- value_len b ;; Ok (firstn (N.to_nat n) b, skipn (N.to_nat n) b).

(* SerializedValueSlice::deserialize::<SerializedValue>(): split off + trailing-data check *)
Definition de_as_serialized (b : list N) : result (list N) :=
  '(p, r) <- split_off b ;; match r with [] => Ok p | _ => Err TrailingData end.
