(* Codec/ConvertVersion.v — error kinds of the epoch converter (C13): the walker [conv] fails with
   UnexpectedEoi, InvalidSerialization, TooDeeplyNested or Overflow only — in particular never with
   InvalidVersion or TrailingData — hence [convert_api] answers InvalidVersion ONLY when one of the
   two versions is outside 1.14..1.20, and TrailingData only from its own trailing-data test.
   An error-kind induction over the walker with the [only] combinators of Utf8Converse.v. *)
From Aldrin Require Import Codec.Base Codec.BaseProofs Codec.Value Codec.De Codec.Convert
  gen.Consts gen.ConvConsts Codec.DeProofs Codec.ConvertProofs Codec.Utf8Converse.
From Coq Require Import ZifyBool ZifyNat ZifyN.
Open Scope N_scope.
Arguments N.add : simpl never.
Arguments N.sub : simpl never.
Arguments N.mul : simpl never.
Arguments N.ltb : simpl never.
Arguments N.leb : simpl never.
Arguments N.eqb : simpl never.

Section Kinds.
  Variable P : err -> Prop.
  Hypothesis PEoi : P Eoi.
  Hypothesis PInvalid : P Invalid.
  Hypothesis PTooDeep : P TooDeep.
  Hypothesis POverflow : P Overflow.
  Hypothesis PFuel : P Fuel.

  Lemma only_conv_key k b : only P (conv_key k b).
  Proof.
    destruct k as [i| |]; cbn [conv_key].
    - apply only_bind; [apply only_int, PEoi|intros [z r]; apply only_ok].
    - apply only_bind; [apply only_varint, PEoi|]. intros [n r].
      apply only_bind; [apply only_take, PEoi|intros [s r']; apply only_ok].
    - apply only_take, PEoi.
  Qed.

  Lemma only_conv_map_elem kk (rec : list N -> cres) :
    (forall b, only P (rec b)) -> forall b, only P (conv_map_elem kk rec b).
  Proof.
    intros Hr b. unfold conv_map_elem. apply only_bind; [apply only_conv_key|]. intros [ko r].
    apply only_bind; [apply Hr|]. intros [vo r']. apply only_ok.
  Qed.

  Lemma only_conv_field_elem (rec : list N -> cres) :
    (forall b, only P (rec b)) -> forall b, only P (conv_field_elem rec b).
  Proof.
    intros Hr b. unfold conv_field_elem. apply only_bind; [apply only_varint, PEoi|]. intros [id r].
    apply only_bind; [apply Hr|]. intros [vo r']. apply only_ok.
  Qed.

  Lemma only_finish2 kd outs r : only P (finish2 kd outs r).
  Proof. unfold finish2. destruct (_ <=? _); [apply only_ok|apply only_err, POverflow]. Qed.

  Lemma only_conv_body (rec : cwalker) n :
    (forall d b, only P (rec d b)) -> forall d b, only P (conv_body rec n d b).
  Proof.
    intros Hr d b. unfold conv_body, conv_kind. destruct (_ <? _)%nat; [apply only_err, PTooDeep|].
    destruct b as [|k r]; [apply only_err, PEoi|].
    destruct (kind_of_byte k) as [kd|]; [|apply only_err, PInvalid].
    pose proof (only_varint P PEoi) as HV. pose proof (only_take P PEoi) as HT.
    pose proof (@only_loop1 P PFuel) as L1. pose proof (@only_loop2 P PEoi PInvalid PFuel) as L2.
    destruct kd as [| | |i|f| |e|e|e kk|e kk|e|].
    - apply only_ok.
    - apply only_bind; [apply Hr|intros [o r']; apply only_ok].
    - destruct r; [apply only_err, PEoi|apply only_ok].
    - apply only_bind; [apply only_int, PEoi|intros [z r']; apply only_ok].
    - apply only_bind; [apply HT|intros [bs r']; apply only_ok].
    - apply only_bind; [apply HV|]. intros [len r1]. apply only_bind; [apply HT|].
      intros [s r2]. apply only_ok.
    - destruct e.
      + apply only_bind; [apply HV|]. intros [cnt r1].
        apply only_bind; [apply L1, Hr|intros [xs r2]; apply only_ok].
      + apply only_bind; [apply L2, Hr|intros [xs r2]; apply only_finish2].
    - destruct e.
      + apply only_bind; [apply HV|]. intros [cnt r1].
        apply only_bind; [apply HT|intros [s r2]; apply only_ok].
      + apply only_bind; [apply HV|]. intros [len r1].
        apply only_bind; [apply (only_bytes2 P PEoi PInvalid PFuel)|]. intros [bs r2].
        destruct (_ <=? _); [apply only_ok|apply only_err, POverflow].
    - destruct e.
      + apply only_bind; [apply HV|]. intros [cnt r1].
        apply only_bind; [apply L1, only_conv_map_elem, Hr|intros [xs r2]; apply only_ok].
      + apply only_bind; [apply L2, only_conv_map_elem, Hr|intros [xs r2]; apply only_finish2].
    - destruct e.
      + apply only_bind; [apply HV|]. intros [cnt r1].
        apply only_bind; [apply L1, only_conv_key|intros [xs r2]; apply only_ok].
      + apply only_bind; [apply L2, only_conv_key|intros [xs r2]; apply only_finish2].
    - destruct e.
      + apply only_bind; [apply HV|]. intros [cnt r1].
        apply only_bind; [apply L1, only_conv_field_elem, Hr|intros [xs r2]; apply only_ok].
      + apply only_bind; [apply L2, only_conv_field_elem, Hr|intros [xs r2]; apply only_finish2].
    - apply only_bind; [apply HV|]. intros [id r1].
      apply only_bind; [apply Hr|intros [o r2]; apply only_ok].
  Qed.

  Lemma only_conv : forall f d b, only P (conv f d b).
  Proof.
    induction f as [|f IH]; intros d b; cbn [conv]; [apply only_err, PFuel|].
    apply only_conv_body. exact IH.
  Qed.
End Kinds.

Definition conv_kind_set (e : err) : Prop :=
  e = Eoi \/ e = Invalid \/ e = TooDeep \/ e = Overflow \/ e = Fuel.

Theorem conv_err_kinds f d b e : conv f d b = Err e -> conv_kind_set e.
Proof. apply (only_conv conv_kind_set); unfold conv_kind_set; auto 6. Qed.

(* the walker never answers InvalidVersion (nor TrailingData) *)
Corollary conv_never_invalid_version f d b : conv f d b <> Err InvalidVersion.
Proof. intros H. apply conv_err_kinds in H. unfold conv_kind_set in H. intuition discriminate. Qed.

Theorem conv_value_err_kinds b e :
  conv_value b = Err e -> e = Eoi \/ e = Invalid \/ e = TooDeep \/ e = Overflow.
Proof.
  intros H. pose proof (conv_value_total b) as T. unfold conv_value in *.
  destruct (conv_err_kinds _ _ _ _ H) as [K|[K|[K|[K|K]]]]; auto. subst. contradiction.
Qed.

Definition from_version (from : option version) : version :=
  match from with Some v => v | None => (1, 20) end.

Lemma from_version_ok from : (match from with Some v => v | None => CONV_MAX end) = from_version from.
Proof. destruct from; reflexivity. Qed.

(* every error of the API, classified by where it comes from *)
Theorem convert_api_err_cases from to b e :
  convert_api from to b = Err e ->
  (e = InvalidVersion /\ (epoch_of (from_version from) = Err InvalidVersion \/
                          epoch_of to = Err InvalidVersion)) \/
  (e = TrailingData /\ exists out x rest, conv_value b = Ok (out, x :: rest)) \/
  (conv_value b = Err e /\ (e = Eoi \/ e = Invalid \/ e = TooDeep \/ e = Overflow)).
Proof.
  unfold convert_api. rewrite from_version_ok.
  destruct (epoch_of (from_version from)) as [ef|e1] eqn:E1; cbn [bind].
  2:{ intros H; inversion H; subst. pose proof (epoch_of_err _ _ E1); subst. left. auto. }
  destruct (epoch_of to) as [et|e2] eqn:E2; cbn [bind].
  2:{ intros H; inversion H; subst. pose proof (epoch_of_err _ _ E2); subst. left. auto. }
  destruct (epoch_ltb et ef); [|discriminate].
  destruct (conv_value b) as [[out rest]|e'] eqn:C; cbn [bind].
  - destruct rest as [|x rest]; [discriminate|]. intros H; inversion H; subst.
    right; left. split; [reflexivity|]. eauto.
  - intros H; inversion H; subst. right; right. split; [reflexivity|].
    eapply conv_value_err_kinds. exact C.
Qed.

(* InvalidVersion ONLY for invalid versions *)
Theorem invalid_version_only from to b :
  convert_api from to b = Err InvalidVersion ->
  epoch_of (from_version from) = Err InvalidVersion \/ epoch_of to = Err InvalidVersion.
Proof.
  intros H. destruct (convert_api_err_cases _ _ _ _ H) as [[_ K]|[[K _]|[_ K]]];
    [exact K|discriminate|intuition discriminate].
Qed.

(* with C13_invalid_version: exactly *)
Theorem invalid_version_iff from to b :
  convert_api from to b = Err InvalidVersion <->
  (epoch_of (from_version from) = Err InvalidVersion \/ epoch_of to = Err InvalidVersion).
Proof.
  split; [apply invalid_version_only|]. intros H. unfold convert_api. rewrite from_version_ok.
  destruct (epoch_of (from_version from)) as [ef|e1] eqn:E1; cbn [bind].
  - destruct H as [H|H]; [discriminate|]. rewrite H. reflexivity.
  - f_equal. eapply epoch_of_err; eauto.
Qed.

(* in terms of the literal version numbers *)
Corollary invalid_version_numbers from to b :
  convert_api from to b = Err InvalidVersion <->
  (~ (fst (from_version from) = 1 /\ 14 <= snd (from_version from) <= 20) \/
   ~ (fst to = 1 /\ 14 <= snd to <= 20)).
Proof.
  rewrite invalid_version_iff. destruct (from_version from) as [fm fn], to as [tm tn].
  rewrite !epoch_invalid_iff. cbn [fst snd]. reflexivity.
Qed.

(* TrailingData only from the API's own test: the walker accepted and left input over *)
Theorem trailing_data_only from to b :
  convert_api from to b = Err TrailingData -> exists out x rest, conv_value b = Ok (out, x :: rest).
Proof.
  intros H. destruct (convert_api_err_cases _ _ _ _ H) as [[K _]|[[_ K]|[_ K]]];
    [discriminate|exact K|intuition discriminate].
Qed.

(* the complete list of error kinds of the API *)
Theorem convert_api_err_kinds from to b e :
  convert_api from to b = Err e ->
  e = InvalidVersion \/ e = TrailingData \/ e = Eoi \/ e = Invalid \/ e = TooDeep \/ e = Overflow.
Proof.
  intros H. destruct (convert_api_err_cases _ _ _ _ H) as [[K _]|[[K _]|[_ K]]]; intuition.
Qed.
