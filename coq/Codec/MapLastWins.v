(* Codec/MapLastWins.v — the round trip for ALL values, including maps/sets/structs whose entry
   lists contain duplicate keys (C01).  `wf` excludes duplicates (a Rust HashMap has none), but the
   wire format and the `serialize_map*` API can carry them, and the decoder inserts into a HashMap:
   the last entry of a key wins.

   [wfd]  = [wf] without the duplicate-freeness requirement;
   [norm] = what the decoder makes of a value: entry lists deduplicated by last-wins insertion
            (the model's [dedup_map]/[dedup_set]/[dedup_struct]), recursively;
   [ser_de_norm] : de (ser v ++ r) = (norm v, r) for wfd values; [norm] is the identity on wf
   values, its result is wf, and [dedup_*] is characterised independently of the fold that
   defines it: no duplicate keys, and looking a key up gives the LAST entry of that key. *)
From Aldrin Require Import Codec.Base Codec.BaseProofs Codec.Value Codec.Ser Codec.De
  Codec.RoundTrip Codec.DeProofs Codec.Depth gen.Consts.
From Coq Require Import ZifyBool ZifyNat ZifyN.
Open Scope N_scope.
Arguments N.add : simpl never.
Arguments N.sub : simpl never.
Arguments N.mul : simpl never.
Arguments N.ltb : simpl never.
Arguments N.leb : simpl never.
Arguments N.eqb : simpl never.

(* ---------- key equality ---------- *)
Lemma list_eqb_eq a : forall b, list_eqb a b = true <-> a = b.
Proof.
  unfold list_eqb. induction a as [|x a IH]; intros [|y b];
    cbn [length combine forallb Nat.eqb andb fst snd].
  - split; reflexivity.
  - split; discriminate.
  - split; discriminate.
  - destruct (N.eqb_spec x y) as [->|Hne]; cbn [andb].
    + rewrite IH. split; [intros ->; reflexivity|intros H; inversion H; reflexivity].
    + rewrite andb_false_r. split; [discriminate|intros H; inversion H; contradiction].
Qed.

Lemma key_eqb_eq a b : key_eqb a b = true <-> a = b.
Proof.
  destruct a as [x|x], b as [y|y]; cbn [key_eqb].
  - rewrite Z.eqb_eq. split; [intros ->; reflexivity|intros H; inversion H; reflexivity].
  - split; discriminate.
  - split; discriminate.
  - rewrite list_eqb_eq. split; [intros ->; reflexivity|intros H; inversion H; reflexivity].
Qed.

Lemma filter_len_le {A} (f : A -> bool) l : (length (filter f l) <= length l)%nat.
Proof. induction l as [|x l IH]; cbn [filter length]; [lia|]. destruct (f x); cbn [length]; lia. Qed.

(* ---------- last-wins insertion on association lists ---------- *)
Section Assoc.
  Context {K V : Type} (eqb : K -> K -> bool) (eqb_eq : forall a b, eqb a b = true <-> a = b).

  Lemma eqb_sym' a b : eqb a b = eqb b a.
  Proof.
    destruct (eqb a b) eqn:E1, (eqb b a) eqn:E2; try reflexivity.
    - apply eqb_eq in E1. subst. rewrite (proj2 (eqb_eq b b) eq_refl) in E2. discriminate.
    - apply eqb_eq in E2. subst. rewrite (proj2 (eqb_eq a a) eq_refl) in E1. discriminate.
  Qed.

  (* the value of the LAST entry with key k *)
  Fixpoint lookup_last (k : K) (l : list (K * V)) : option V :=
    match l with
    | [] => None
    | p :: r => match lookup_last k r with
                | Some v => Some v
                | None => if eqb k (fst p) then Some (snd p) else None
                end
    end.

  Definition ded (l acc : list (K * V)) : list (K * V) :=
    fold_left (fun a p => assoc_insert eqb (fst p) (snd p) a) l acc.

  Lemma lookup_app k a b :
    lookup_last k (a ++ b) = match lookup_last k b with Some v => Some v | None => lookup_last k a end.
  Proof.
    induction a as [|p a IH]; cbn [app lookup_last].
    - destruct (lookup_last k b); reflexivity.
    - rewrite IH. destruct (lookup_last k b); reflexivity.
  Qed.

  Lemma lookup_filter k k' l :
    lookup_last k (filter (fun p => negb (eqb k' (fst p))) l) =
    if eqb k k' then None else lookup_last k l.
  Proof.
    induction l as [|p l IH]; cbn [filter lookup_last].
    - destruct (eqb k k'); reflexivity.
    - destruct (eqb k' (fst p)) eqn:E; cbn [negb].
      + apply eqb_eq in E. rewrite IH. destruct (eqb k k') eqn:E2; [reflexivity|].
        destruct (lookup_last k l); [reflexivity|]. rewrite <- E, E2. reflexivity.
      + cbn [lookup_last]. rewrite IH. destruct (eqb k k') eqn:E2; [|reflexivity].
        apply eqb_eq in E2. subst k. rewrite E. reflexivity.
  Qed.

  Lemma lookup_insert k k' v l :
    lookup_last k (assoc_insert eqb k' v l) = if eqb k k' then Some v else lookup_last k l.
  Proof.
    unfold assoc_insert. rewrite lookup_app. cbn [lookup_last fst snd].
    destruct (eqb k k') eqn:E; [reflexivity|]. rewrite lookup_filter, E. reflexivity.
  Qed.

  Lemma lookup_ded k l : forall acc,
    lookup_last k (ded l acc) =
    match lookup_last k l with Some v => Some v | None => lookup_last k acc end.
  Proof.
    unfold ded. induction l as [|p l IH]; intros acc; cbn [fold_left lookup_last]; [reflexivity|].
    rewrite IH, lookup_insert. destruct (lookup_last k l); [reflexivity|].
    destruct (eqb k (fst p)); reflexivity.
  Qed.

  Lemma existsb_filter_self k (l : list (K * V)) :
    existsb (eqb k) (map fst (filter (fun p => negb (eqb k (fst p))) l)) = false.
  Proof.
    induction l as [|p l IH]; cbn [filter map existsb]; [reflexivity|].
    destruct (eqb k (fst p)) eqn:E; cbn [negb map existsb]; [exact IH|]. rewrite E. exact IH.
  Qed.

  Lemma existsb_filter_le k f (l : list (K * V)) :
    existsb (eqb k) (map fst (filter f l)) = true -> existsb (eqb k) (map fst l) = true.
  Proof.
    induction l as [|p l IH]; cbn [filter map existsb]; [auto|].
    destruct (f p); cbn [map existsb]; intros H.
    - apply orb_prop in H as [H|H]; [rewrite H; reflexivity|]. rewrite IH by exact H. apply orb_true_r.
    - rewrite IH by exact H. apply orb_true_r.
  Qed.

  Lemma nodup_filter f (l : list (K * V)) :
    nodupb eqb (map fst l) = true -> nodupb eqb (map fst (filter f l)) = true.
  Proof.
    induction l as [|p l IH]; cbn [filter map nodupb]; [auto|].
    intros H. apply andb_prop in H as [H1 H2]. destruct (f p); cbn [map nodupb]; [|auto].
    rewrite IH by exact H2. rewrite andb_true_r.
    destruct (existsb (eqb (fst p)) (map fst (filter f l))) eqn:E; [|reflexivity].
    apply existsb_filter_le in E. rewrite E in H1. discriminate.
  Qed.

  Lemma nodup_insert k v (l : list (K * V)) :
    nodupb eqb (map fst l) = true -> nodupb eqb (map fst (assoc_insert eqb k v l)) = true.
  Proof.
    intros H. unfold assoc_insert. rewrite map_app. cbn [map fst].
    rewrite (nodupb_app_one eqb eqb_sym'), nodup_filter, existsb_filter_self by exact H. reflexivity.
  Qed.

  Lemma nodup_ded l : forall acc,
    nodupb eqb (map fst acc) = true -> nodupb eqb (map fst (ded l acc)) = true.
  Proof.
    unfold ded. induction l as [|p l IH]; intros acc H; cbn [fold_left]; [exact H|].
    apply IH, nodup_insert, H.
  Qed.

  Lemma forallb_filter {A} (Q f : A -> bool) l : forallb Q l = true -> forallb Q (filter f l) = true.
  Proof.
    induction l as [|x l IH]; cbn [filter forallb]; [auto|]. intros H. apply andb_prop in H as [H1 H2].
    destruct (f x); cbn [forallb]; [rewrite H1|]; auto.
  Qed.

  Lemma forallb_ded (Q : K * V -> bool) l : forall acc,
    forallb Q acc = true -> forallb Q l = true -> forallb Q (ded l acc) = true.
  Proof.
    unfold ded. induction l as [|p l IH]; intros acc Ha Hl; cbn [fold_left]; [exact Ha|].
    cbn [forallb] in Hl. apply andb_prop in Hl as [Hp Hl]. apply IH; [|exact Hl].
    unfold assoc_insert. rewrite forallb_app, forallb_filter by exact Ha. cbn [forallb andb].
    destruct p; cbn [fst snd]. rewrite Hp. reflexivity.
  Qed.

  Lemma length_ded l : forall acc, (length (ded l acc) <= length acc + length l)%nat.
  Proof.
    unfold ded. induction l as [|p l IH]; intros acc; cbn [fold_left length]; [lia|].
    eapply Nat.le_trans; [apply IH|]. unfold assoc_insert. rewrite app_length. cbn [length].
    pose proof (filter_len_le (fun q => negb (eqb (fst p) (fst q))) acc). lia.
  Qed.
End Assoc.

Section ListSet.
  Context {K : Type} (eqb : K -> K -> bool) (eqb_eq : forall a b, eqb a b = true <-> a = b).

  Definition dedl (l acc : list K) : list K := fold_left (fun a k => list_insert eqb k a) l acc.

  Lemma mem_filter k k' l :
    existsb (eqb k) (filter (fun x => negb (eqb k' x)) l) =
    if eqb k k' then false else existsb (eqb k) l.
  Proof.
    induction l as [|x l IH]; cbn [filter existsb]; [destruct (eqb k k'); reflexivity|].
    destruct (eqb k' x) eqn:E; cbn [negb existsb]; rewrite IH.
    - apply eqb_eq in E. subst x. destruct (eqb k k'); reflexivity.
    - destruct (eqb k k') eqn:E2; [|reflexivity]. apply eqb_eq in E2. subst k. rewrite E. reflexivity.
  Qed.

  Lemma mem_insert k k' l :
    existsb (eqb k) (list_insert eqb k' l) = eqb k k' || existsb (eqb k) l.
  Proof.
    unfold list_insert. rewrite existsb_app, mem_filter. cbn [existsb].
    destruct (eqb k k'), (existsb (eqb k) l); reflexivity.
  Qed.

  Lemma mem_dedl k l : forall acc,
    existsb (eqb k) (dedl l acc) = existsb (eqb k) l || existsb (eqb k) acc.
  Proof.
    unfold dedl. induction l as [|x l IH]; intros acc; cbn [fold_left existsb]; [reflexivity|].
    rewrite IH, mem_insert. destruct (eqb k x), (existsb (eqb k) l), (existsb (eqb k) acc); reflexivity.
  Qed.

  Lemma nodup_filter_l f (l : list K) : nodupb eqb l = true -> nodupb eqb (filter f l) = true.
  Proof.
    induction l as [|x l IH]; cbn [filter nodupb]; [auto|].
    intros H. apply andb_prop in H as [H1 H2]. destruct (f x); cbn [nodupb]; [|auto].
    rewrite IH by exact H2. rewrite andb_true_r.
    destruct (existsb (eqb x) (filter f l)) eqn:E; [|reflexivity].
    apply existsb_exists in E as (y & Hin & Hy). apply filter_In in Hin as [Hin _].
    assert (existsb (eqb x) l = true) as E2 by (apply existsb_exists; eauto).
    rewrite E2 in H1. discriminate.
  Qed.

  Lemma nodup_insert_l k (l : list K) :
    nodupb eqb l = true -> nodupb eqb (list_insert eqb k l) = true.
  Proof.
    intros H. unfold list_insert.
    rewrite (nodupb_app_one eqb (eqb_sym' eqb eqb_eq)), nodup_filter_l, mem_filter by exact H.
    rewrite (proj2 (eqb_eq k k) eq_refl). reflexivity.
  Qed.

  Lemma nodup_dedl l : forall acc, nodupb eqb acc = true -> nodupb eqb (dedl l acc) = true.
  Proof.
    unfold dedl. induction l as [|x l IH]; intros acc H; cbn [fold_left]; [exact H|].
    apply IH, nodup_insert_l, H.
  Qed.

  Lemma forallb_dedl (Q : K -> bool) l : forall acc,
    forallb Q acc = true -> forallb Q l = true -> forallb Q (dedl l acc) = true.
  Proof.
    unfold dedl. induction l as [|x l IH]; intros acc Ha Hl; cbn [fold_left]; [exact Ha|].
    cbn [forallb] in Hl. apply andb_prop in Hl as [Hp Hl]. apply IH; [|exact Hl].
    unfold list_insert. rewrite forallb_app, forallb_filter by exact Ha. cbn [forallb andb].
    rewrite Hp. reflexivity.
  Qed.

  Lemma length_dedl l : forall acc, (length (dedl l acc) <= length acc + length l)%nat.
  Proof.
    unfold dedl. induction l as [|x l IH]; intros acc; cbn [fold_left length]; [lia|].
    eapply Nat.le_trans; [apply IH|]. unfold list_insert. rewrite app_length. cbn [length].
    pose proof (filter_len_le (fun y => negb (eqb x y)) acc). lia.
  Qed.
End ListSet.

(* ---------- the three instances: what dedup_map / dedup_set / dedup_struct compute ---------- *)
Definition map_lookup_last := @lookup_last keyv Value key_eqb.
Definition struct_lookup_last := @lookup_last N Value N.eqb.

Theorem dedup_map_spec l :
  keys_nodup (map fst (dedup_map l)) = true /\
  (forall k, map_lookup_last k (dedup_map l) = map_lookup_last k l) /\
  (length (dedup_map l) <= length l)%nat.
Proof.
  split; [|split].
  - apply (nodup_ded key_eqb key_eqb_eq l []). reflexivity.
  - intros k. unfold map_lookup_last. change (dedup_map l) with (ded key_eqb l []).
    rewrite (lookup_ded key_eqb key_eqb_eq k l []). cbn [lookup_last].
    destruct (lookup_last key_eqb k l); reflexivity.
  - apply (length_ded key_eqb l []).
Qed.

Theorem dedup_struct_spec l :
  ids_nodup (map fst (dedup_struct l)) = true /\
  (forall k, struct_lookup_last k (dedup_struct l) = struct_lookup_last k l) /\
  (length (dedup_struct l) <= length l)%nat.
Proof.
  split; [|split].
  - apply (nodup_ded N.eqb N.eqb_eq l []). reflexivity.
  - intros k. unfold struct_lookup_last. change (dedup_struct l) with (ded N.eqb l []).
    rewrite (lookup_ded N.eqb N.eqb_eq k l []). cbn [lookup_last].
    destruct (lookup_last N.eqb k l); reflexivity.
  - apply (length_ded N.eqb l []).
Qed.

Theorem dedup_set_spec l :
  keys_nodup (dedup_set l) = true /\
  (forall k, existsb (key_eqb k) (dedup_set l) = existsb (key_eqb k) l) /\
  (length (dedup_set l) <= length l)%nat.
Proof.
  split; [|split].
  - apply (nodup_dedl key_eqb key_eqb_eq l []). reflexivity.
  - intros k. change (dedup_set l) with (dedl key_eqb l []). rewrite (mem_dedl key_eqb key_eqb_eq k l []).
    cbn [existsb]. apply orb_false_r.
  - apply (length_dedl key_eqb key_eqb_eq l []).
Qed.

(* ---------- wfd and norm ---------- *)
Fixpoint wfd (utf8 : bool) (v : Value) : bool :=
  match v with
  | VNone | VBool _ => true
  | VSome x => wfd utf8 x
  | VInt i z => int_ok i z
  | VFixed f bs => bytes_ok bs && (lenN bs =? fix_len f)
  | VString s => bytes_ok s && (lenN s <=? u32_max) && (negb utf8 || utf8_valid s)
  | VVec l => (lenN l <=? u32_max) && forallb (wfd utf8) l
  | VBytes bs => bytes_ok bs && (lenN bs <=? u32_max)
  | VMap k l => (lenN l <=? u32_max) &&
                forallb (fun p => key_ok utf8 k (fst p) && wfd utf8 (snd p)) l
  | VSet k l => (lenN l <=? u32_max) && forallb (key_ok utf8 k) l
  | VStruct l => (lenN l <=? u32_max) &&
                 forallb (fun p => (fst p <=? u32_max) && wfd utf8 (snd p)) l
  | VEnum id x => (id <=? u32_max) && wfd utf8 x
  end.

Fixpoint norm (v : Value) : Value :=
  match v with
  | VSome x => VSome (norm x)
  | VVec l => VVec (map norm l)
  | VMap k l => VMap k (dedup_map (map (fun p => (fst p, norm (snd p))) l))
  | VSet k l => VSet k (dedup_set l)
  | VStruct l => VStruct (dedup_struct (map (fun p => (fst p, norm (snd p))) l))
  | VEnum id x => VEnum id (norm x)
  | _ => v
  end.

Lemma forallb_impl_in {A} (P Q : A -> bool) l :
  (forall x, In x l -> P x = true -> Q x = true) -> forallb P l = true -> forallb Q l = true.
Proof.
  intros H. rewrite !forallb_forall. intros HP x Hin. apply H; auto.
Qed.

Theorem wf_wfd utf8 : forall v, wf utf8 v = true -> wfd utf8 v = true.
Proof.
  induction v as [|x IH|b|i z|fk fbs|s|l IH|bs0|k l IH|k l|l IH|id x IH] using Value_ind';
    cbn [wf wfd]; auto.
  - intros H. apply andb_prop in H as [H1 H2]. rewrite H1. cbn [andb].
    rewrite Forall_forall in IH. revert H2. apply forallb_impl_in. auto.
  - intros H. apply andb_prop in H as [H H2]. apply andb_prop in H as [H1 _]. rewrite H1. cbn [andb].
    rewrite Forall_forall in IH. revert H2. apply forallb_impl_in. intros p Hin Hp.
    apply andb_prop in Hp as [Hk Hv]. rewrite Hk, (IH _ Hin Hv). reflexivity.
  - intros H. apply andb_prop in H as [H H2]. apply andb_prop in H as [H1 _]. rewrite H1, H2. reflexivity.
  - intros H. apply andb_prop in H as [H H2]. apply andb_prop in H as [H1 _]. rewrite H1. cbn [andb].
    rewrite Forall_forall in IH. revert H2. apply forallb_impl_in. intros p Hin Hp.
    apply andb_prop in Hp as [Hk Hv]. rewrite Hk, (IH _ Hin Hv). reflexivity.
  - intros H. apply andb_prop in H as [H1 H2]. rewrite H1, (IH H2). reflexivity.
Qed.

Lemma map_id_in {A} (g : A -> A) l : (forall x, In x l -> g x = x) -> map g l = l.
Proof. intros H. rewrite <- (map_id l) at 2. apply map_ext_in. exact H. Qed.

(* on values without duplicate keys the decoder's normalisation does nothing *)
Theorem norm_wf_id utf8 : forall v, wf utf8 v = true -> norm v = v.
Proof.
  induction v as [|x IH|b|i z|fk fbs|s|l IH|bs0|k l IH|k l|l IH|id x IH] using Value_ind';
    cbn [wf norm]; auto.
  - intros H. rewrite IH by exact H. reflexivity.
  - intros H. apply andb_prop in H as [_ H]. rewrite forallb_forall in H. rewrite Forall_forall in IH.
    rewrite map_id_in; [reflexivity|]. intros x Hin. apply IH; auto.
  - intros H. apply andb_prop in H as [H H2]. apply andb_prop in H as [_ Hnd].
    rewrite forallb_forall in H2. rewrite Forall_forall in IH.
    rewrite map_id_in; [rewrite dedup_map_id by exact Hnd; reflexivity|].
    intros p Hin. specialize (H2 _ Hin). apply andb_prop in H2 as [_ Hv].
    rewrite (IH _ Hin Hv). destruct p; reflexivity.
  - intros H. apply andb_prop in H as [H _]. apply andb_prop in H as [_ Hnd].
    rewrite dedup_set_id by exact Hnd. reflexivity.
  - intros H. apply andb_prop in H as [H H2]. apply andb_prop in H as [_ Hnd].
    rewrite forallb_forall in H2. rewrite Forall_forall in IH.
    rewrite map_id_in; [rewrite dedup_struct_id by exact Hnd; reflexivity|].
    intros p Hin. specialize (H2 _ Hin). apply andb_prop in H2 as [_ Hv].
    rewrite (IH _ Hin Hv). destruct p; reflexivity.
  - intros H. apply andb_prop in H as [_ H]. rewrite IH by exact H. reflexivity.
Qed.

Lemma lenN_le_trans {A B} (a : list A) (b : list B) :
  (length a <= length b)%nat -> lenN b <=? u32_max = true -> lenN a <=? u32_max = true.
Proof. unfold lenN. lia. Qed.

(* what the decoder returns is well-formed in the strict sense (no duplicate keys) *)
Theorem norm_wf utf8 : forall v, wfd utf8 v = true -> wf utf8 (norm v) = true.
Proof.
  induction v as [|x IH|b|i z|fk fbs|s|l IH|bs0|k l IH|k l|l IH|id x IH] using Value_ind';
    cbn [wfd wf norm]; auto.
  - intros H. apply andb_prop in H as [H1 H2]. unfold lenN in *. rewrite map_length, H1. cbn [andb].
    rewrite forallb_forall in *. rewrite Forall_forall in IH. intros y Hy.
    apply in_map_iff in Hy as (x & <- & Hin). apply IH; auto.
  - intros H. apply andb_prop in H as [H1 H2].
    set (l' := map (fun p => (fst p, norm (snd p))) l).
    destruct (dedup_map_spec l') as (Hnd & _ & Hlen). rewrite Hnd.
    rewrite (lenN_le_trans (dedup_map l') l) by (unfold l' in Hlen; rewrite map_length in Hlen; auto).
    cbn [andb]. apply (forallb_ded key_eqb _ l' []); [reflexivity|].
    unfold l'. rewrite forallb_forall in *. rewrite Forall_forall in IH. intros q Hq.
    apply in_map_iff in Hq as (p & <- & Hin). cbn [fst snd]. specialize (H2 _ Hin).
    apply andb_prop in H2 as [Hk Hv]. rewrite Hk, (IH _ Hin Hv). reflexivity.
  - intros H. apply andb_prop in H as [H1 H2].
    destruct (dedup_set_spec l) as (Hnd & _ & Hlen). rewrite Hnd.
    rewrite (lenN_le_trans (dedup_set l) l) by auto. cbn [andb].
    apply (forallb_dedl key_eqb _ l []); [reflexivity|exact H2].
  - intros H. apply andb_prop in H as [H1 H2].
    set (l' := map (fun p => (fst p, norm (snd p))) l).
    destruct (dedup_struct_spec l') as (Hnd & _ & Hlen). rewrite Hnd.
    rewrite (lenN_le_trans (dedup_struct l') l) by (unfold l' in Hlen; rewrite map_length in Hlen; auto).
    cbn [andb]. apply (forallb_ded N.eqb _ l' []); [reflexivity|].
    unfold l'. rewrite forallb_forall in *. rewrite Forall_forall in IH. intros q Hq.
    apply in_map_iff in Hq as (p & <- & Hin). cbn [fst snd]. specialize (H2 _ Hin).
    apply andb_prop in H2 as [Hk Hv]. rewrite Hk, (IH _ Hin Hv). reflexivity.
  - intros H. apply andb_prop in H as [H1 H2]. rewrite H1, (IH H2). reflexivity.
Qed.

Corollary norm_idem utf8 v : wfd utf8 v = true -> norm (norm v) = norm v.
Proof. intros H. apply (norm_wf_id utf8), norm_wf, H. Qed.

(* ---------- the serializer does not look at duplicates ---------- *)
Theorem ser_ok_wfd utf8 e : forall v d, wfd utf8 v = true -> fits d v -> exists bs, ser e d v = Ok bs.
Proof.
  unfold fits.
  induction v as [|x IH|b|i z|fk fbs|s|l IH|bs0|k l IH|k l|l IH|id x IH] using Value_ind';
    intros d Hwf Hfit; cbn [ser]; unfold MAX_VALUE_DEPTH;
    (destruct (Nat.ltb_spec 32 (S d)) as [Hd|Hd]; [cbn [depth] in Hfit; lia|]).
  - eexists; reflexivity.
  - cbn [wfd depth] in *. destruct (IH (S d) Hwf) as [bs ->]; [lia|]. eexists; reflexivity.
  - eexists; reflexivity.
  - eexists; reflexivity.
  - eexists; reflexivity.
  - cbn [wfd] in Hwf. apply andb_prop in Hwf as [Hwf _]. apply andb_prop in Hwf as [_ Hlen]. rewrite Hlen.
    eexists; reflexivity.
  - cbn [wfd] in Hwf. apply andb_prop in Hwf as [Hlen Hwf]. rewrite forallb_forall in Hwf.
    rewrite Forall_forall in IH. rewrite depth_vec in Hfit.
    assert (forall x, In x l -> exists b, ser e (S d) x = Ok b) as Hok.
    { intros x Hin. apply IH; auto. pose proof (maxd_in depth x l Hin). lia. }
    destruct e.
    + rewrite Hlen. destruct (mapM_all_ok _ l Hok) as [bs ->]. eexists; reflexivity.
    + destruct (mapM_all_ok (fun x => b <- ser E2 (S d) x;; Ok (kb KSome :: b)) l) as [bs ->];
        [|eexists; reflexivity].
      intros x Hin. destruct (Hok x Hin) as [b ->]. eexists; reflexivity.
  - cbn [wfd] in Hwf. apply andb_prop in Hwf as [_ Hlen]. destruct e.
    + unfold hdr1. rewrite Hlen. eexists; reflexivity.
    + unfold bytes2_body. destruct bs0; [eexists; reflexivity|]. rewrite Hlen. eexists; reflexivity.
  - cbn [wfd] in Hwf. apply andb_prop in Hwf as [Hlen Hall].
    rewrite forallb_forall in Hall. rewrite Forall_forall in IH. rewrite depth_map in Hfit.
    assert (forall p, In p l -> exists kbs, put_key k (fst p) = Ok kbs) as Hkey.
    { intros p Hin. specialize (Hall p Hin). apply andb_prop in Hall as [Hk _].
      destruct (put_key_ok _ _ _ Hk) as (kbs & -> & _). eexists; reflexivity. }
    assert (forall p, In p l -> exists b, ser e (S d) (snd p) = Ok b) as Hok.
    { intros p Hin. specialize (Hall p Hin). apply andb_prop in Hall as [_ Hv]. apply IH; auto.
      pose proof (maxd_in (fun p => depth (snd p)) p l Hin). cbn beta in *. lia. }
    destruct e.
    + rewrite Hlen.
      destruct (mapM_all_ok (fun p => kbs <- put_key k (fst p);; b <- ser E1 (S d) (snd p);; Ok (kbs ++ b)) l)
        as [bs ->]; [|eexists; reflexivity].
      intros p Hin. destruct (Hkey p Hin) as [kbs ->], (Hok p Hin) as [b ->]. eexists; reflexivity.
    + destruct (mapM_all_ok (fun p => kbs <- put_key k (fst p);; b <- ser E2 (S d) (snd p);;
                                      Ok (kb KSome :: kbs ++ b)) l) as [bs ->]; [|eexists; reflexivity].
      intros p Hin. destruct (Hkey p Hin) as [kbs ->], (Hok p Hin) as [b ->]. eexists; reflexivity.
  - cbn [wfd] in Hwf. apply andb_prop in Hwf as [Hlen Hall]. rewrite forallb_forall in Hall.
    assert (forall x, In x l -> exists kbs, put_key k x = Ok kbs) as Hkey.
    { intros x Hin. destruct (put_key_ok _ _ _ (Hall x Hin)) as (kbs & -> & _). eexists; reflexivity. }
    destruct e.
    + rewrite Hlen. destruct (mapM_all_ok _ l Hkey) as [bs ->]. eexists; reflexivity.
    + destruct (mapM_all_ok (fun x => kbs <- put_key k x;; Ok (kb KSome :: kbs)) l) as [bs ->];
        [|eexists; reflexivity].
      intros x Hin. destruct (Hkey x Hin) as [kbs ->]. eexists; reflexivity.
  - cbn [wfd] in Hwf. apply andb_prop in Hwf as [Hlen Hall].
    rewrite forallb_forall in Hall. rewrite Forall_forall in IH. rewrite depth_struct in Hfit.
    assert (forall p, In p l -> exists b, ser e (S d) (snd p) = Ok b) as Hok.
    { intros p Hin. specialize (Hall p Hin). apply andb_prop in Hall as [_ Hv]. apply IH; auto.
      pose proof (maxd_in (fun p => depth (snd p)) p l Hin). cbn beta in *. lia. }
    destruct e.
    + rewrite Hlen.
      destruct (mapM_all_ok (fun p => b <- ser E1 (S d) (snd p);; Ok (put_varint 4 (fst p) ++ b)) l)
        as [bs ->]; [|eexists; reflexivity].
      intros p Hin. destruct (Hok p Hin) as [b ->]. eexists; reflexivity.
    + destruct (mapM_all_ok (fun p => b <- ser E2 (S d) (snd p);;
                                      Ok (kb KSome :: put_varint 4 (fst p) ++ b)) l) as [bs ->];
        [|eexists; reflexivity].
      intros p Hin. destruct (Hok p Hin) as [b ->]. eexists; reflexivity.
  - cbn [wfd depth] in *. apply andb_prop in Hwf as [_ Hwf].
    destruct (IH (S d) Hwf) as [bs ->]; [lia|]. eexists; reflexivity.
Qed.

(* ---------- decoding what was serialized gives the normalised value ---------- *)
Lemma Forall2_flip {A B} (R : B -> A -> Prop) (l : list A) (bs : list B) :
  Forall2 (fun x b => R b x) l bs -> Forall2 R bs l.
Proof. induction 1; constructor; auto. Qed.

Theorem ser_de_norm utf8 e : forall v d bs, wfd utf8 v = true -> ser e d v = Ok bs ->
  forall f r, (fuel_of v <= f)%nat -> de utf8 f d (bs ++ r) = Ok (norm v, r).
Proof.
  induction v as [|x IH|b|i z|fk fbs|s|l IH|bs0|k l IH|k l|l IH|id x IH] using Value_ind';
    intros d bs Hwf Hser f r Hf; (destruct f as [|f]; [cbn in Hf; lia|]);
    cbn [ser] in Hser; depth_ok Hser; cbn [de norm]; unfold de_body, de_kind; rewrite Hd.
  - (* None *) ok_inv Hser. reflexivity.
  - (* Some *) bind_ok Hser b E. ok_inv Hser. cbn [app].
    change (kind_of_byte (kb KSome)) with (Some KSome). cbn iota.
    cbn [wfd] in Hwf. cbn [fuel_of] in Hf. rewrite (IH _ _ Hwf E) by lia. reflexivity.
  - (* Bool *) ok_inv Hser. cbn [app]. change (kind_of_byte (kb KBool)) with (Some KBool).
    cbn iota. destruct b; reflexivity.
  - (* Int *) ok_inv Hser. cbn [app]. unfold kb. rewrite kind_of_byte_kb. cbn iota.
    cbn [wfd] in Hwf. rewrite int_roundtrip by exact Hwf. reflexivity.
  - (* Fixed *) ok_inv Hser. cbn [app]. unfold kb. rewrite kind_of_byte_kb. cbn iota.
    cbn [wfd] in Hwf. apply andb_prop in Hwf as [_ Hlen].
    replace (fix_len fk) with (lenN fbs) by lia. rewrite take_app. reflexivity.
  - (* String *) cbn [wfd] in Hwf. apply andb_prop in Hwf as [Hwf Hutf]. apply andb_prop in Hwf as [_ Hlen].
    rewrite Hlen in Hser. ok_inv Hser. cbn [app].
    change (kind_of_byte (kb KString)) with (Some KString). cbn iota.
    rewrite <- app_assoc, varint_roundtrip by (try lia; apply u32_fits; exact Hlen). cbn [bind].
    rewrite take_app. cbn [bind]. rewrite Hutf. reflexivity.
  - (* Vec *) cbn [wfd] in Hwf. apply andb_prop in Hwf as [Hlen Hwf]. cbn [fuel_of] in Hf.
    rewrite forallb_forall in Hwf. rewrite Forall_forall in IH.
    destruct e.
    + (* E1 *) rewrite Hlen in Hser. bind_ok Hser bss E. ok_inv Hser. cbn [app].
      change (kind_of_byte (kb (KVec E1))) with (Some (KVec E1)). cbn iota.
      apply mapM_ok in E. rewrite (Forall2_length_N _ _ _ E) in *.
      rewrite <- !app_assoc, varint_roundtrip by (try lia; apply u32_fits; exact Hlen). cbn [bind].
      erewrite loop1_spec; [reflexivity| |].
      * apply Forall2_flip_map.
        eapply Forall2_impl_in; [exact E|]. cbn beta. intros x b Hin Hx r'.
        apply IH; auto. pose proof (fuel_in_sum fuel_of x l Hin). lia.
      * rewrite <- (Forall2_length _ _ _ E). lia.
    + (* E2 *) bind_ok Hser bss E. ok_inv Hser. cbn [app].
      change (kind_of_byte (kb (KVec E2))) with (Some (KVec E2)). cbn iota.
      apply mapM_ok in E. rewrite <- !app_assoc. cbn [app].
      erewrite loop2_spec; [reflexivity| |].
      * apply Forall2_flip_map.
        eapply Forall2_impl_in; [exact E|]. cbn beta. intros x b Hin Hx.
        bind_ok Hx b' E'. ok_inv Hx. eexists; split; [reflexivity|]. intros r'.
        apply IH; auto. pose proof (fuel_in_sum fuel_of x l Hin). lia.
      * rewrite <- (Forall2_length _ _ _ E). lia.
  - (* Bytes *) cbn [wfd] in Hwf. apply andb_prop in Hwf as [_ Hlen]. cbn [fuel_of] in Hf.
    destruct e.
    + unfold hdr1 in Hser. rewrite Hlen in Hser. ok_inv Hser. cbn [app].
      change (kind_of_byte (kb (KBytes E1))) with (Some (KBytes E1)). cbn iota.
      rewrite <- app_assoc, varint_roundtrip by (try lia; apply u32_fits; exact Hlen). cbn [bind].
      rewrite take_app. reflexivity.
    + bind_ok Hser body E. ok_inv Hser. cbn [app].
      change (kind_of_byte (kb (KBytes E2))) with (Some (KBytes E2)). cbn iota.
      unfold bytes2_body in E. destruct bs0 as [|b0 bs0].
      * ok_inv E. rewrite varint_roundtrip by (try lia; reflexivity). cbn [bind].
        rewrite bytes2_loop_0. reflexivity.
      * rewrite Hlen in E. ok_inv E. rewrite <- !app_assoc.
        rewrite varint_roundtrip by (try lia; apply u32_fits; exact Hlen). cbn [bind].
        destruct f as [|f]; [lia|]. cbn [bytes2_loop].
        destruct (N.eqb_spec (lenN (b0 :: bs0)) 0) as [E0|_]; [rewrite lenN_cons in E0; lia|].
        rewrite take_app. rewrite varint_roundtrip by (try lia; reflexivity). cbn [bind].
        rewrite bytes2_loop_0. cbn [bind]. rewrite app_nil_r. reflexivity.
  - (* Map *) cbn [wfd] in Hwf. apply andb_prop in Hwf as [Hlen Hall].
    cbn [fuel_of] in Hf. rewrite forallb_forall in Hall. rewrite Forall_forall in IH.
    destruct e.
    + rewrite Hlen in Hser. bind_ok Hser bss E. ok_inv Hser. cbn [app].
      unfold kb. rewrite kind_of_byte_kb. cbn iota.
      apply mapM_ok in E. rewrite (Forall2_length_N _ _ _ E) in *.
      rewrite <- !app_assoc, varint_roundtrip by (try lia; apply u32_fits; exact Hlen). cbn [bind].
      erewrite loop1_spec; [cbn [bind]; reflexivity| |].
      * apply Forall2_flip_map.
        eapply Forall2_impl_in; [exact E|]. cbn beta. intros p b Hin Hp r'.
        bind_ok Hp kbs Ek. bind_ok Hp vb Ev. ok_inv Hp.
        specialize (Hall _ Hin). apply andb_prop in Hall as [Hk Hv].
        unfold map_elem. rewrite <- app_assoc, (key_roundtrip _ _ _ _ _ Hk Ek). cbn [bind].
        rewrite (IH _ Hin _ _ Hv Ev); [reflexivity|].
        pose proof (fuel_in_sum (fun p => fuel_of (snd p)) p l Hin). cbn beta in *. lia.
      * rewrite <- (Forall2_length _ _ _ E). lia.
    + bind_ok Hser bss E. ok_inv Hser. cbn [app].
      unfold kb at 1. rewrite kind_of_byte_kb. cbn iota.
      apply mapM_ok in E. rewrite <- !app_assoc. cbn [app].
      erewrite loop2_spec; [cbn [bind]; reflexivity| |].
      * apply Forall2_flip_map.
        eapply Forall2_impl_in; [exact E|]. cbn beta. intros p b Hin Hp.
        bind_ok Hp kbs Ek. bind_ok Hp vb Ev. ok_inv Hp.
        eexists; split; [reflexivity|]. intros r'.
        specialize (Hall _ Hin). apply andb_prop in Hall as [Hk Hv].
        unfold map_elem. rewrite <- app_assoc, (key_roundtrip _ _ _ _ _ Hk Ek). cbn [bind].
        rewrite (IH _ Hin _ _ Hv Ev); [reflexivity|].
        pose proof (fuel_in_sum (fun p => fuel_of (snd p)) p l Hin). cbn beta in *. lia.
      * rewrite <- (Forall2_length _ _ _ E). lia.
  - (* Set *) cbn [wfd] in Hwf. apply andb_prop in Hwf as [Hlen Hall].
    cbn [fuel_of] in Hf. rewrite forallb_forall in Hall.
    destruct e.
    + rewrite Hlen in Hser. bind_ok Hser bss E. ok_inv Hser. cbn [app].
      unfold kb. rewrite kind_of_byte_kb. cbn iota.
      apply mapM_ok in E. rewrite (Forall2_length_N _ _ _ E) in *.
      rewrite <- !app_assoc, varint_roundtrip by (try lia; apply u32_fits; exact Hlen). cbn [bind].
      erewrite loop1_spec; [cbn [bind]; reflexivity| |].
      * apply Forall2_flip.
        eapply Forall2_impl_in; [exact E|]. cbn beta. intros x b Hin Hx r'.
        apply key_roundtrip; auto.
      * rewrite <- (Forall2_length _ _ _ E). lia.
    + bind_ok Hser bss E. ok_inv Hser. cbn [app].
      unfold kb at 1. rewrite kind_of_byte_kb. cbn iota.
      apply mapM_ok in E. rewrite <- !app_assoc. cbn [app].
      erewrite loop2_spec; [cbn [bind]; reflexivity| |].
      * apply Forall2_flip.
        eapply Forall2_impl_in; [exact E|]. cbn beta. intros x b Hin Hx.
        bind_ok Hx kbs Ek. ok_inv Hx.
        eexists; split; [reflexivity|]. intros r'. apply key_roundtrip; auto.
      * rewrite <- (Forall2_length _ _ _ E). lia.
  - (* Struct *) cbn [wfd] in Hwf. apply andb_prop in Hwf as [Hlen Hall].
    cbn [fuel_of] in Hf. rewrite forallb_forall in Hall. rewrite Forall_forall in IH.
    destruct e.
    + rewrite Hlen in Hser. bind_ok Hser bss E. ok_inv Hser. cbn [app].
      change (kind_of_byte (kb (KStruct E1))) with (Some (KStruct E1)). cbn iota.
      apply mapM_ok in E. rewrite (Forall2_length_N _ _ _ E) in *.
      rewrite <- !app_assoc, varint_roundtrip by (try lia; apply u32_fits; exact Hlen). cbn [bind].
      erewrite loop1_spec; [cbn [bind]; reflexivity| |].
      * apply Forall2_flip_map.
        eapply Forall2_impl_in; [exact E|]. cbn beta. intros p b Hin Hp r'.
        bind_ok Hp vb Ev. ok_inv Hp.
        specialize (Hall _ Hin). apply andb_prop in Hall as [Hk Hv].
        unfold field_elem. rewrite <- app_assoc, varint_roundtrip by (try lia; apply u32_fits; exact Hk).
        cbn [bind]. rewrite (IH _ Hin _ _ Hv Ev); [reflexivity|].
        pose proof (fuel_in_sum (fun p => fuel_of (snd p)) p l Hin). cbn beta in *. lia.
      * rewrite <- (Forall2_length _ _ _ E). lia.
    + bind_ok Hser bss E. ok_inv Hser. cbn [app].
      change (kind_of_byte (kb (KStruct E2))) with (Some (KStruct E2)). cbn iota.
      apply mapM_ok in E. rewrite <- !app_assoc. cbn [app].
      erewrite loop2_spec; [cbn [bind]; reflexivity| |].
      * apply Forall2_flip_map.
        eapply Forall2_impl_in; [exact E|]. cbn beta. intros p b Hin Hp.
        bind_ok Hp vb Ev. ok_inv Hp.
        eexists; split; [reflexivity|]. intros r'.
        specialize (Hall _ Hin). apply andb_prop in Hall as [Hk Hv].
        unfold field_elem. rewrite <- app_assoc, varint_roundtrip by (try lia; apply u32_fits; exact Hk).
        cbn [bind]. rewrite (IH _ Hin _ _ Hv Ev); [reflexivity|].
        pose proof (fuel_in_sum (fun p => fuel_of (snd p)) p l Hin). cbn beta in *. lia.
      * rewrite <- (Forall2_length _ _ _ E). lia.
  - (* Enum *) bind_ok Hser b E. ok_inv Hser. cbn [app].
    change (kind_of_byte (kb KEnum)) with (Some KEnum). cbn iota.
    cbn [wfd] in Hwf. apply andb_prop in Hwf as [Hid Hwf]. cbn [fuel_of] in Hf.
    rewrite <- app_assoc, varint_roundtrip by (try lia; apply u32_fits; exact Hid). cbn [bind].
    rewrite (IH _ _ Hwf E) by lia. reflexivity.
Qed.

(* ---------- top level: the round trip for every serializable value ---------- *)
Theorem roundtrip_general e v : wfd true v = true -> (depth v <= 32)%nat ->
  exists bs, serialize e v = Ok bs /\ de_as_value true bs = Ok (norm v).
Proof.
  intros Hwf Hd. destruct (ser_ok_wfd true e v 0 Hwf) as [bs Hs]; [unfold fits; lia|].
  exists bs. split; [exact Hs|]. unfold de_as_value.
  pose proof (ser_de_norm true e v 0 bs Hwf Hs (fuel_of v) [] (le_n _)) as H. rewrite app_nil_r in H.
  rewrite (de_value_stable _ _ _ _ H) by discriminate. reflexivity.
Qed.

(* the instance for one map: the decoded entry list is the last-wins deduplication of the
   (normalised) entry list, in the order of the last occurrences *)
Corollary map_last_wins e k l : wfd true (VMap k l) = true -> (depth (VMap k l) <= 32)%nat ->
  exists bs, serialize e (VMap k l) = Ok bs /\
             de_as_value true bs = Ok (VMap k (dedup_map (map (fun p => (fst p, norm (snd p))) l))).
Proof. apply roundtrip_general. Qed.

Corollary set_last_wins e k l : wfd true (VSet k l) = true ->
  exists bs, serialize e (VSet k l) = Ok bs /\ de_as_value true bs = Ok (VSet k (dedup_set l)).
Proof. intros H. apply (roundtrip_general e (VSet k l) H). cbn [depth]. lia. Qed.

(* duplicates present: the witness of the file header *)
Definition dup_map : Value :=
  VMap (KInt U8) [(KeyZ 1, VNone); (KeyZ 2, VBool true); (KeyZ 1, VBool false)].
Definition dup_struct : Value :=
  VStruct [(1, VSet KStr [KeyB [97]; KeyB [98]; KeyB [97]]); (1, VNone);
           (3, VSet KStr [KeyB [97]; KeyB [98]; KeyB [97]])].

Example dup_witness :
  wf true dup_map = false /\ wfd true dup_map = true /\
  norm dup_map = VMap (KInt U8) [(KeyZ 2, VBool true); (KeyZ 1, VBool false)] /\
  (bs <- serialize E2 dup_map ;; de_as_value true bs) = Ok (norm dup_map) /\
  (bs <- serialize E1 dup_map ;; de_as_value true bs) = Ok (norm dup_map) /\
  wfd true dup_struct = true /\
  norm dup_struct = VStruct [(1, VNone); (3, VSet KStr [KeyB [98]; KeyB [97]])] /\
  (bs <- serialize E2 dup_struct ;; de_as_value true bs) = Ok (norm dup_struct) /\
  (bs <- serialize E1 dup_struct ;; de_as_value true bs) = Ok (norm dup_struct).
Proof. repeat split; vm_compute; reflexivity. Qed.

(* ---------- whatever the wire bytes: a decoded value has no key twice, at any level ---------- *)
Fixpoint nodups (v : Value) : bool :=
  match v with
  | VSome x | VEnum _ x => nodups x
  | VVec l => forallb nodups l
  | VMap _ l => keys_nodup (map fst l) && forallb (fun p => nodups (snd p)) l
  | VSet _ l => keys_nodup l
  | VStruct l => ids_nodup (map fst l) && forallb (fun p => nodups (snd p)) l
  | _ => true
  end.

Definition good {A} (Q : A -> bool) (w : list N -> result (A * list N)) : Prop :=
  forall b x r, w b = Ok (x, r) -> Q x = true.

Lemma good_loop1 {A} (Q : A -> bool) (elem : list N -> result (A * list N)) :
  good Q elem -> forall n cnt, good (forallb Q) (loop1 elem n cnt).
Proof.
  intros He. induction n as [|n IH]; intros cnt b xs r; cbn [loop1]; destruct (cnt =? 0);
    try (intros H; ok_inv H; inversion H; reflexivity); try discriminate.
  intros H. bind_ok H p E. destruct p as [x r1]. bind_ok H q F2. destruct q as [ys r2].
  apply Ok_inj in H. inversion H; subst. cbn [forallb]. rewrite (He _ _ _ E), (IH _ _ _ _ F2). reflexivity.
Qed.

Lemma good_loop2 {A} (Q : A -> bool) (elem : list N -> result (A * list N)) :
  good Q elem -> forall n, good (forallb Q) (loop2 elem n).
Proof.
  intros He. induction n as [|n IH]; intros b xs r; cbn [loop2]; [discriminate|].
  destruct b as [|k b]; [discriminate|]. destruct (kind_of_byte k) as [[]|]; try discriminate.
  - intros H. apply Ok_inj in H. inversion H; reflexivity.
  - intros H. bind_ok H p E. destruct p as [x r1]. bind_ok H q F2. destruct q as [ys r2].
    apply Ok_inj in H. inversion H; subst. cbn [forallb]. rewrite (He _ _ _ E), (IH _ _ _ F2). reflexivity.
Qed.

Lemma good_map_elem utf8 kk rec : good nodups rec ->
  good (fun p : keyv * Value => nodups (snd p)) (map_elem utf8 kk rec).
Proof.
  intros Hr b [k v] r. unfold map_elem. intros H. bind_ok H p E. destruct p as [key r1].
  bind_ok H q F2. destruct q as [v' r2]. apply Ok_inj in H. inversion H; subst. cbn [snd].
  eapply Hr; eauto.
Qed.

Lemma good_field_elem rec : good nodups rec ->
  good (fun p : N * Value => nodups (snd p)) (field_elem rec).
Proof.
  intros Hr b [k v] r. unfold field_elem. intros H. bind_ok H p E. destruct p as [id r1].
  bind_ok H q F2. destruct q as [v' r2]. apply Ok_inj in H. inversion H; subst. cbn [snd].
  eapply Hr; eauto.
Qed.

Lemma nodups_map kk xs : forallb (fun p : keyv * Value => nodups (snd p)) xs = true ->
  nodups (VMap kk (dedup_map xs)) = true.
Proof.
  intros H. cbn [nodups]. rewrite (proj1 (dedup_map_spec xs)). cbn [andb].
  apply (forallb_ded key_eqb _ xs []); [reflexivity|exact H].
Qed.

Lemma nodups_struct xs : forallb (fun p : N * Value => nodups (snd p)) xs = true ->
  nodups (VStruct (dedup_struct xs)) = true.
Proof.
  intros H. cbn [nodups]. rewrite (proj1 (dedup_struct_spec xs)). cbn [andb].
  apply (forallb_ded N.eqb _ xs []); [reflexivity|exact H].
Qed.

Lemma good_de_body utf8 (rec : walker Value) n :
  (forall d, good nodups (rec d)) -> forall d, good nodups (de_body utf8 rec n d).
Proof.
  intros Hr d b v r. unfold de_body, de_kind. destruct (_ <? _)%nat; [discriminate|].
  destruct b as [|k b]; [discriminate|]. destruct (kind_of_byte k) as [kd|]; [|discriminate].
  destruct kd as [| | |i|f| |e|e|e kk|e kk|e|].
  - intros H. ok_inv H. inversion H. reflexivity.
  - intros H. bind_ok H p E. destruct p as [x r']. ok_inv H. inversion H; subst. cbn [nodups].
    eapply Hr; eauto.
  - destruct b; [discriminate|]. intros H. ok_inv H. inversion H. reflexivity.
  - intros H. bind_ok H p E. destruct p as [z r']. ok_inv H. inversion H. reflexivity.
  - intros H. bind_ok H p E. destruct p as [bs r']. ok_inv H. inversion H. reflexivity.
  - intros H. bind_ok H p E. destruct p as [len r1]. bind_ok H q F2. destruct q as [s r2].
    destruct (_ || _); [|discriminate]. ok_inv H. inversion H. reflexivity.
  - destruct e.
    + intros H. bind_ok H p E. destruct p as [cnt r1]. bind_ok H q F2. destruct q as [xs r2].
      ok_inv H. inversion H; subst. cbn [nodups]. eapply good_loop1; [apply Hr|exact F2].
    + intros H. bind_ok H q F2. destruct q as [xs r2].
      ok_inv H. inversion H; subst. cbn [nodups]. eapply good_loop2; [apply Hr|exact F2].
  - destruct e.
    + intros H. bind_ok H p E. destruct p as [cnt r1]. destruct (take cnt r1) as [[bs r2]|]; [|discriminate].
      ok_inv H. inversion H. reflexivity.
    + intros H. bind_ok H p E. destruct p as [len r1]. bind_ok H q F2. destruct q as [bs r2].
      ok_inv H. inversion H. reflexivity.
  - destruct e.
    + intros H. bind_ok H p E. destruct p as [cnt r1]. bind_ok H q F2. destruct q as [xs r2].
      ok_inv H. inversion H; subst. apply nodups_map.
      eapply good_loop1; [apply good_map_elem, Hr|exact F2].
    + intros H. bind_ok H q F2. destruct q as [xs r2].
      ok_inv H. inversion H; subst. apply nodups_map.
      eapply good_loop2; [apply good_map_elem, Hr|exact F2].
  - destruct e.
    + intros H. bind_ok H p E. destruct p as [cnt r1]. bind_ok H q F2. destruct q as [xs r2].
      ok_inv H. inversion H; subst. cbn [nodups]. apply (proj1 (dedup_set_spec xs)).
    + intros H. bind_ok H q F2. destruct q as [xs r2].
      ok_inv H. inversion H; subst. cbn [nodups]. apply (proj1 (dedup_set_spec xs)).
  - destruct e.
    + intros H. bind_ok H p E. destruct p as [cnt r1]. bind_ok H q F2. destruct q as [xs r2].
      ok_inv H. inversion H; subst. apply nodups_struct.
      eapply good_loop1; [apply good_field_elem, Hr|exact F2].
    + intros H. bind_ok H q F2. destruct q as [xs r2].
      ok_inv H. inversion H; subst. apply nodups_struct.
      eapply good_loop2; [apply good_field_elem, Hr|exact F2].
  - intros H. bind_ok H p E. destruct p as [id r1]. bind_ok H q F2. destruct q as [x r2].
    ok_inv H. inversion H; subst. cbn [nodups]. eapply Hr; eauto.
Qed.

Theorem de_nodups utf8 : forall f d, good nodups (de utf8 f d).
Proof.
  induction f as [|f IH]; intros d; cbn [de]; [intros b v r; discriminate|].
  apply good_de_body. exact IH.
Qed.

Corollary decoded_no_duplicates utf8 b v r : de_value utf8 b = Ok (v, r) -> nodups v = true.
Proof. unfold de_value. apply de_nodups. Qed.
