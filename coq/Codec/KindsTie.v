(* Codec/KindsTie.v — the model's kind table equals the one the translator read from
   core/src/value_kind.rs (names and discriminants), and the limit constant is what the
   property text says.  A drift in the source breaks these proofs. *)
From Coq Require Import String.
From Aldrin Require Import Codec.Value gen.Consts gen.Kinds.
Open Scope string_scope.

Definition intk_str (i : intk) : string :=
  match i with U8 => "U8" | I8 => "I8" | U16 => "U16" | I16 => "I16"
          | U32 => "U32" | I32 => "I32" | U64 => "U64" | I64 => "I64" end.
Definition keyk_str (k : keyk) : string :=
  match k with KInt i => intk_str i | KStr => "String" | KUuid => "Uuid" end.
Definition epoch_str (e : epoch) : string := match e with E1 => "1" | E2 => "2" end.
Definition kind_name (k : kind) : string :=
  match k with
  | KNone => "None" | KSome => "Some" | KBool => "Bool"
  | KInt_ i => intk_str i
  | KFixed F32 => "F32" | KFixed F64 => "F64" | KFixed FUuid => "Uuid"
  | KFixed FObjectId => "ObjectId" | KFixed FServiceId => "ServiceId"
  | KFixed FSender => "Sender" | KFixed FReceiver => "Receiver"
  | KString => "String"
  | KVec e => "Vec" ++ epoch_str e | KBytes e => "Bytes" ++ epoch_str e
  | KMap e k => keyk_str k ++ "Map" ++ epoch_str e
  | KSet e k => keyk_str k ++ "Set" ++ epoch_str e
  | KStruct e => "Struct" ++ epoch_str e
  | KEnum => "Enum"
  end.

Example value_kind_tie :
  value_kind_table = map (fun k => (kind_name k, kind_byte k)) all_kinds.
Proof. reflexivity. Qed.

Example max_depth_tie : MAX_VALUE_DEPTH = 32%nat.
Proof. reflexivity. Qed.
