(* Codec/Utf8Converse.v — the converse of C07_validating_subset, stated over the BYTES.

   [strs] is a specification walker (not Rust): the non-validating decoder's walk with the value
   forgotten and every string it reads collected — the payload of every String value and every
   string map/set key, in wire order, INCLUDING entries that HashMap last-wins insertion later
   overwrites.  It is built from the decoder's own loops ([loop1], [loop2], [bytes2_loop]).

   [tri]: with the same fuel, whenever the non-validating decoder accepts, the string walker
   accepts with the same rest, and the validating decoder returns the same value when all collected
   strings are valid UTF-8 and InvalidSerialization otherwise.

   The value-level converse ("de_value false accepts and the decoded VALUE is well-formed with
   UTF-8 validation") is false: [utf8_converse_naive_refuted]. *)
From Aldrin Require Import Codec.Base Codec.BaseProofs Codec.Value Codec.De Codec.DeProofs
  Codec.SkipProofs gen.Consts.
From Coq Require Import ZifyBool ZifyNat ZifyN.
Open Scope N_scope.
Arguments N.add : simpl never.
Arguments N.sub : simpl never.
Arguments N.mul : simpl never.
Arguments N.ltb : simpl never.
Arguments N.leb : simpl never.
Arguments N.eqb : simpl never.

(* ---------- the string collector ---------- *)
Definition strl := list (list N).
Definition sres := result (strl * list N).
Definition strwalker := nat -> list N -> sres.

Definition str_key (k : keyk) (b : list N) : sres :=
  match k with
  | KInt i => '(_, r) <- get_int i b ;; Ok ([], r)
  | KStr => '(n, r) <- get_varint 4 b ;; '(s, r') <- take n r ;; Ok ([s], r')
  | KUuid => '(_, r) <- take 16 b ;; Ok ([], r)
  end.

Definition str_map_elem (k : keyk) (rec : list N -> sres) (b : list N) : sres :=
  '(ks, r) <- str_key k b ;; '(vs, r') <- rec r ;; Ok (ks ++ vs, r').
Definition str_field_elem (rec : list N -> sres) (b : list N) : sres :=
  '(_, r) <- get_varint 4 b ;; rec r.

Definition str_kind (rec : strwalker) (n : nat) (d' : nat) (kd : kind) (r : list N) : sres :=
  match kd with
  | KNone => Ok ([], r)
  | KSome => rec d' r
  | KBool => match r with [] => Err Eoi | _ :: r' => Ok ([], r') end
  | KInt_ i => '(_, r') <- get_int i r ;; Ok ([], r')
  | KFixed f => '(_, r') <- take (fix_len f) r ;; Ok ([], r')
  | KString => '(len, r1) <- get_varint 4 r ;; '(s, r2) <- take len r1 ;; Ok ([s], r2)
  | KVec E1 => '(cnt, r1) <- get_varint 4 r ;;
               '(xs, r2) <- loop1 (rec d') n cnt r1 ;; Ok (concat xs, r2)
  | KVec E2 => '(xs, r2) <- loop2 (rec d') n r ;; Ok (concat xs, r2)
  | KBytes E1 => '(cnt, r1) <- get_varint 4 r ;;
                 match take cnt r1 with Err _ => Err Invalid | Ok (_, r2) => Ok ([], r2) end
  | KBytes E2 => '(len, r1) <- get_varint 4 r ;;
                 '(_, r2) <- bytes2_loop Invalid n len r1 ;; Ok ([], r2)
  | KMap E1 kk => '(cnt, r1) <- get_varint 4 r ;;
                  '(xs, r2) <- loop1 (str_map_elem kk (rec d')) n cnt r1 ;; Ok (concat xs, r2)
  | KMap E2 kk => '(xs, r2) <- loop2 (str_map_elem kk (rec d')) n r ;; Ok (concat xs, r2)
  | KSet E1 kk => '(cnt, r1) <- get_varint 4 r ;;
                  '(xs, r2) <- loop1 (str_key kk) n cnt r1 ;; Ok (concat xs, r2)
  | KSet E2 kk => '(xs, r2) <- loop2 (str_key kk) n r ;; Ok (concat xs, r2)
  | KStruct E1 => '(cnt, r1) <- get_varint 4 r ;;
                  '(xs, r2) <- loop1 (str_field_elem (rec d')) n cnt r1 ;; Ok (concat xs, r2)
  | KStruct E2 => '(xs, r2) <- loop2 (str_field_elem (rec d')) n r ;; Ok (concat xs, r2)
  | KEnum => '(_, r1) <- get_varint 4 r ;; rec d' r1
  end.

Definition str_body (rec : strwalker) (n : nat) : strwalker := fun d b =>
  if (MAX_VALUE_DEPTH <? S d)%nat then Err TooDeep else
  match b with
  | [] => Err Eoi
  | k :: r =>
      match kind_of_byte k with
      | None => Err Invalid
      | Some kd => str_kind rec n (S d) kd r
      end
  end.

Fixpoint strs (fuel : nat) : strwalker :=
  match fuel with
  | O => fun _ _ => Err Fuel
  | S f => str_body (strs f) f
  end.

Definition strs_value (b : list N) : sres := strs (S (length b)) 0%nat b.

(* every string the encoding of the first value in [b] contains ([] when [b] is ill-formed) *)
Definition encoded_strings (b : list N) : strl :=
  match strs_value b with Ok (ss, _) => ss | Err _ => [] end.
Definition all_valid (ss : strl) : bool := forallb utf8_valid ss.
Definition all_strings_valid (b : list N) : bool := all_valid (encoded_strings b).

(* ---------- the three-way relation ---------- *)
(* x: non-validating decoder, y: validating decoder, s: string collector *)
Definition tri {A S} (g : S -> strl) (x y : result (A * list N)) (s : result (S * list N)) : Prop :=
  match x with
  | Ok (a, r) => exists t, s = Ok (t, r) /\
                           y = if all_valid (g t) then Ok (a, r) else Err Invalid
  | Err _ => True
  end.

Definition idl (t : strl) : strl := t.

Lemma all_valid_app a b : all_valid (a ++ b) = all_valid a && all_valid b.
Proof. apply forallb_app. Qed.

Lemma tri_err {A S} (g : S -> strl) e (y : result (A * list N)) s : tri g (Err e) y s.
Proof. exact I. Qed.

Lemma tri_ret {A S} (g : S -> strl) (a : A) r t : all_valid (g t) = true ->
  tri g (Ok (a, r)) (Ok (a, r)) (Ok (t, r)).
Proof. intros H. cbn [tri]. exists t. rewrite H. split; reflexivity. Qed.

Lemma tri_same {X A S} (g : S -> strl) (e : result X)
  (kx ky : X -> result (A * list N)) (ks : X -> result (S * list N)) :
  (forall x, tri g (kx x) (ky x) (ks x)) -> tri g (bind e kx) (bind e ky) (bind e ks).
Proof. destruct e as [x|er]; cbn [bind]; [auto|intros _; exact I]. Qed.

Lemma tri_map {A B S T} (g1 : S -> strl) (g : T -> strl) (f : A -> B) (h : S -> T)
  (x1 y1 : result (A * list N)) (s1 : result (S * list N)) :
  tri g1 x1 y1 s1 -> (forall t, all_valid (g (h t)) = all_valid (g1 t)) ->
  tri g ('(a, r) <- x1 ;; Ok (f a, r)) ('(a, r) <- y1 ;; Ok (f a, r)) ('(t, r) <- s1 ;; Ok (h t, r)).
Proof.
  intros H Hg. destruct x1 as [[a r]|e]; cbn [bind tri]; [|exact I].
  destruct H as (t & -> & ->). cbn [bind]. exists (h t). split; [reflexivity|].
  rewrite Hg. destruct (all_valid (g1 t)); reflexivity.
Qed.

Lemma tri_pair {A B C S1 S2 T} (g1 : S1 -> strl) (g2 : S2 -> strl) (g : T -> strl)
  (f : A -> B -> C) (h : S1 -> S2 -> T)
  (x1 y1 : result (A * list N)) (s1 : result (S1 * list N))
  (x2 y2 : list N -> result (B * list N)) (s2 : list N -> result (S2 * list N)) :
  tri g1 x1 y1 s1 -> (forall r, tri g2 (x2 r) (y2 r) (s2 r)) ->
  (forall t1 t2, all_valid (g (h t1 t2)) = all_valid (g1 t1) && all_valid (g2 t2)) ->
  tri g ('(a, r) <- x1 ;; '(b, r') <- x2 r ;; Ok (f a b, r'))
        ('(a, r) <- y1 ;; '(b, r') <- y2 r ;; Ok (f a b, r'))
        ('(t1, r) <- s1 ;; '(t2, r') <- s2 r ;; Ok (h t1 t2, r')).
Proof.
  intros H1 H2 Hg. destruct x1 as [[a r]|e]; cbn [bind]; [|exact I].
  destruct H1 as (t1 & -> & ->). cbn [bind]. specialize (H2 r).
  destruct (x2 r) as [[b r']|e]; cbn [bind tri]; [|exact I].
  destruct H2 as (t2 & -> & H2). cbn [bind]. exists (h t1 t2). split; [reflexivity|].
  rewrite Hg. destruct (all_valid (g1 t1)); cbn [bind andb]; [|reflexivity].
  rewrite H2. destruct (all_valid (g2 t2)); reflexivity.
Qed.

Definition tri_w {A S} (g : S -> strl) (x y : list N -> result (A * list N))
  (s : list N -> result (S * list N)) := forall b, tri g (x b) (y b) (s b).

(* a leaf without strings *)
Lemma tri_leaf {X A} (e : result (X * list N)) (f : X -> A) :
  tri idl ('(a, r) <- e ;; Ok (f a, r)) ('(a, r) <- e ;; Ok (f a, r)) ('(_, r) <- e ;; Ok ([], r)).
Proof.
  destruct e as [[a r]|er]; cbn [bind tri]; [|exact I]. exists []. split; reflexivity.
Qed.

Lemma tri_key k : tri_w idl (get_key false k) (get_key true k) (str_key k).
Proof.
  intros b. destruct k as [i| |]; cbn [get_key str_key].
  - apply (tri_leaf (get_int i b) KeyZ).
  - apply tri_same. intros [n r]. apply tri_same. intros [s r']. cbn [negb orb tri].
    exists [s]. split; [reflexivity|]. unfold idl, all_valid. cbn [forallb].
    destruct (utf8_valid s); reflexivity.
  - apply (tri_leaf (take 16 b) KeyB).
Qed.

Lemma tri_loop1 {A} (ex ey : list N -> result (A * list N)) (es : list N -> sres) :
  tri_w idl ex ey es ->
  forall n cnt b, tri (@concat (list N)) (loop1 ex n cnt b) (loop1 ey n cnt b) (loop1 es n cnt b).
Proof.
  intros He. induction n as [|n IH]; intros cnt b; cbn [loop1]; destruct (cnt =? 0);
    try (apply tri_ret; reflexivity); try apply tri_err.
  apply (tri_pair idl (@concat (list N)) (@concat (list N)) cons cons); [apply He|intros r; apply IH|].
  intros t1 t2. cbn [concat]. apply all_valid_app.
Qed.

Lemma tri_loop2 {A} (ex ey : list N -> result (A * list N)) (es : list N -> sres) :
  tri_w idl ex ey es ->
  forall n b, tri (@concat (list N)) (loop2 ex n b) (loop2 ey n b) (loop2 es n b).
Proof.
  intros He. induction n as [|n IH]; intros b; cbn [loop2]; [apply tri_err|].
  destruct b as [|k r]; [apply tri_err|].
  destruct (kind_of_byte k) as [[]|]; try apply tri_err.
  - apply tri_ret. reflexivity.
  - apply (tri_pair idl (@concat (list N)) (@concat (list N)) cons cons); [apply He|intros r'; apply IH|].
    intros t1 t2. cbn [concat]. apply all_valid_app.
Qed.

Lemma tri_map_elem kk (rx ry : list N -> result (Value * list N)) (rs : list N -> sres) :
  tri_w idl rx ry rs -> tri_w idl (map_elem false kk rx) (map_elem true kk ry) (str_map_elem kk rs).
Proof.
  intros Hr b. unfold map_elem, str_map_elem.
  apply (tri_pair idl idl idl (@pair keyv Value) (@app (list N))); [apply tri_key|exact Hr|].
  intros t1 t2. apply all_valid_app.
Qed.

Lemma tri_field_elem (rx ry : list N -> result (Value * list N)) (rs : list N -> sres) :
  tri_w idl rx ry rs -> tri_w idl (field_elem rx) (field_elem ry) (str_field_elem rs).
Proof.
  intros Hr b. unfold field_elem, str_field_elem. apply tri_same. intros [id r].
  specialize (Hr r). destruct (rx r) as [[v r']|e]; cbn [bind tri]; [|exact I].
  destruct Hr as (t & -> & ->). exists t. split; [reflexivity|].
  unfold idl. destruct (all_valid t); reflexivity.
Qed.

(* wrapping a decoded component: the string list is passed through *)
Lemma tri_wrap {A B} (f : A -> B) (x1 y1 : result (A * list N)) (s1 : sres) :
  tri idl x1 y1 s1 -> tri idl ('(a, r) <- x1 ;; Ok (f a, r)) ('(a, r) <- y1 ;; Ok (f a, r)) s1.
Proof.
  intros H. destruct x1 as [[a r]|e]; cbn [bind tri]; [|exact I].
  destruct H as (t & -> & ->). exists t. split; [reflexivity|].
  destruct (all_valid (idl t)); reflexivity.
Qed.

(* finishing a container: the element strings are concatenated *)
Lemma tri_concat {A B} (f : list A -> B) (x1 y1 : result (list A * list N))
  (s1 : result (list strl * list N)) :
  tri (@concat (list N)) x1 y1 s1 ->
  tri idl ('(a, r) <- x1 ;; Ok (f a, r)) ('(a, r) <- y1 ;; Ok (f a, r))
          ('(t, r) <- s1 ;; Ok (concat t, r)).
Proof. intros H. apply (tri_map (@concat (list N)) idl f (@concat (list N))); [exact H|reflexivity]. Qed.

Lemma str_body_tri (rx ry : walker Value) (rs : strwalker) n :
  (forall d, tri_w idl (rx d) (ry d) (rs d)) ->
  forall d, tri_w idl (de_body false rx n d) (de_body true ry n d) (str_body rs n d).
Proof.
  intros Hr d b. unfold de_body, str_body, de_kind, str_kind.
  destruct (_ <? _)%nat; [apply tri_err|].
  destruct b as [|k r]; [apply tri_err|]. destruct (kind_of_byte k) as [kd|]; [|apply tri_err].
  destruct kd as [| | |i|f| |e|e|e kk|e kk|e|].
  - apply tri_ret. reflexivity.
  - apply tri_wrap, Hr.
  - destruct r as [|x r']; [apply tri_err|]. apply tri_ret. reflexivity.
  - apply (tri_leaf (get_int i r) (VInt i)).
  - apply (tri_leaf (take (fix_len f) r) (VFixed f)).
  - apply tri_same. intros [len r1]. apply tri_same. intros [s r2]. cbn [negb orb tri].
    exists [s]. split; [reflexivity|]. unfold idl, all_valid. cbn [forallb].
    destruct (utf8_valid s); reflexivity.
  - destruct e.
    + apply tri_same. intros [cnt r1]. apply tri_concat, tri_loop1, Hr.
    + apply tri_concat, tri_loop2, Hr.
  - destruct e.
    + apply tri_same. intros [cnt r1].
      destruct (take cnt r1) as [[bs r2]|]; [apply tri_ret; reflexivity|apply tri_err].
    + apply tri_same. intros [len r1]. apply (tri_leaf (bytes2_loop Invalid n len r1) VBytes).
  - destruct e.
    + apply tri_same. intros [cnt r1].
      apply (tri_concat (fun xs => VMap kk (dedup_map xs))), tri_loop1, tri_map_elem, Hr.
    + apply (tri_concat (fun xs => VMap kk (dedup_map xs))), tri_loop2, tri_map_elem, Hr.
  - destruct e.
    + apply tri_same. intros [cnt r1].
      apply (tri_concat (fun xs => VSet kk (dedup_set xs))), tri_loop1, tri_key.
    + apply (tri_concat (fun xs => VSet kk (dedup_set xs))), tri_loop2, tri_key.
  - destruct e.
    + apply tri_same. intros [cnt r1].
      apply (tri_concat (fun xs => VStruct (dedup_struct xs))), tri_loop1, tri_field_elem, Hr.
    + apply (tri_concat (fun xs => VStruct (dedup_struct xs))), tri_loop2, tri_field_elem, Hr.
  - apply tri_same. intros [id r1]. apply tri_wrap, Hr.
Qed.

Theorem strs_tri : forall f d b, tri idl (de false f d b) (de true f d b) (strs f d b).
Proof.
  induction f as [|f IH]; intros d b; cbn [de strs]; [apply tri_err|].
  apply str_body_tri. intros d' b'. apply IH.
Qed.

(* ---------- top level ---------- *)
Lemma de_false_strs b v r : de_value false b = Ok (v, r) ->
  exists ss, strs_value b = Ok (ss, r) /\
             de_value true b = if all_valid ss then Ok (v, r) else Err Invalid.
Proof.
  unfold de_value, strs_value. intros H.
  pose proof (strs_tri (S (length b)) 0%nat b) as T. rewrite H in T. exact T.
Qed.

(* the validating decoder accepts exactly what the non-validating decoder accepts with every
   encoded string valid, with the same value and rest ... *)
Theorem validating_iff b v r :
  de_value true b = Ok (v, r) <-> de_value false b = Ok (v, r) /\ all_strings_valid b = true.
Proof.
  split.
  - intros H. pose proof (de_true_false _ _ _ _ H) as Hf. fold (de_value false b) in Hf.
    split; [exact Hf|]. destruct (de_false_strs _ _ _ Hf) as (ss & Hs & Ht).
    unfold all_strings_valid, encoded_strings. rewrite Hs.
    destruct (all_valid ss); [reflexivity|]. rewrite Ht in H. discriminate.
  - intros [Hf Hv]. destruct (de_false_strs _ _ _ Hf) as (ss & Hs & Ht).
    unfold all_strings_valid, encoded_strings in Hv. rewrite Hs in Hv. rewrite Hv in Ht. exact Ht.
Qed.

(* ... and otherwise it fails with InvalidSerialization (the UTF-8 error), nothing else *)
Theorem validating_error b v r :
  de_value false b = Ok (v, r) -> all_strings_valid b = false -> de_value true b = Err Invalid.
Proof.
  intros Hf Hv. destruct (de_false_strs _ _ _ Hf) as (ss & Hs & Ht).
  unfold all_strings_valid, encoded_strings in Hv. rewrite Hs in Hv. rewrite Hv in Ht. exact Ht.
Qed.

(* the collector consumes what the decoder consumes *)
Theorem strs_rest b v r : de_value false b = Ok (v, r) -> exists ss, strs_value b = Ok (ss, r).
Proof. intros H. destruct (de_false_strs _ _ _ H) as (ss & Hs & _). eauto. Qed.

(* ---------- the value-level converse is false ---------- *)
(* a U8-keyed map with the key 1 twice: the first entry's value is the invalid string [255], the
   second entry's value "a" overwrites it, so the decoded VALUE has only valid strings *)
Definition naive_witness : list N := [19; 2; 1; 13; 1; 255; 1; 13; 1; 97].
Definition naive_value : Value := VMap (KInt U8) [(KeyZ 1, VString [97])].

Lemma utf8_converse_naive_refuted :
  exists b v r, de_value false b = Ok (v, r) /\ wf true v = true /\ de_value true b <> Ok (v, r).
Proof.
  exists naive_witness, naive_value, []. repeat split; try (vm_compute; reflexivity).
  vm_compute. discriminate.
Qed.

Example naive_witness_facts :
  de_value false naive_witness = Ok (naive_value, []) /\ wf true naive_value = true /\
  de_value true naive_witness = Err Invalid /\
  encoded_strings naive_witness = [[255]; [97]] /\ all_strings_valid naive_witness = false.
Proof. repeat split; vm_compute; reflexivity. Qed.

(* ---------- error kinds of the decoder ---------- *)
(* [only P x]: if x is an error, its kind satisfies P.  The combinators are reused by
   ConvertVersion.v for the epoch converter. *)
Definition only {A} (P : err -> Prop) (x : result A) : Prop := forall e, x = Err e -> P e.

Lemma only_ok {A} P (a : A) : only P (Ok a).
Proof. intros e H. discriminate. Qed.
Lemma only_err {A} (P : err -> Prop) e : P e -> only P (@Err A e).
Proof. intros H e' E. inversion E; subst. exact H. Qed.
Lemma only_bind {A B} P (x : result A) (k : A -> result B) :
  only P x -> (forall a, only P (k a)) -> only P (bind x k).
Proof.
  intros Hx Hk e. destruct x as [a|er]; cbn [bind]; [apply Hk|]. intros E. apply Hx.
  inversion E; reflexivity.
Qed.

Section Kinds.
  Variable P : err -> Prop.
  Hypothesis PEoi : P Eoi.
  Hypothesis PInvalid : P Invalid.
  Hypothesis PTooDeep : P TooDeep.
  Hypothesis PFuel : P Fuel.

  Lemma only_take n b : only P (take n b).
  Proof. intros e H. apply take_err in H as [-> _]. exact PEoi. Qed.

  Lemma only_varint W b : only P (get_varint W b).
  Proof.
    destruct b as [|x b]; cbn [get_varint]; [apply only_err, PEoi|].
    destruct (_ <? x); [|apply only_ok]. apply only_bind; [apply only_take|]. intros [bs r]. apply only_ok.
  Qed.

  Lemma only_int i b : only P (get_int i b).
  Proof.
    destruct i; cbn [get_int]; try (destruct b; [apply only_err, PEoi|apply only_ok]);
      (apply only_bind; [apply only_varint|intros [n r]; apply only_ok]).
  Qed.

  Lemma only_key utf8 k b : only P (get_key utf8 k b).
  Proof.
    destruct k as [i| |]; cbn [get_key].
    - apply only_bind; [apply only_int|intros [z r]; apply only_ok].
    - apply only_bind; [apply only_varint|]. intros [n r]. apply only_bind; [apply only_take|].
      intros [s r']. destruct (_ || _); [apply only_ok|apply only_err, PInvalid].
    - apply only_bind; [apply only_take|intros [s r]; apply only_ok].
  Qed.

  Lemma only_loop1 {A} (elem : list N -> result (A * list N)) :
    (forall b, only P (elem b)) -> forall n cnt b, only P (loop1 elem n cnt b).
  Proof.
    intros He. induction n as [|n IH]; intros cnt b; cbn [loop1]; destruct (cnt =? 0);
      try apply only_ok; [apply only_err, PFuel|].
    apply only_bind; [apply He|]. intros [x r]. apply only_bind; [apply IH|]. intros [xs r']. apply only_ok.
  Qed.

  Lemma only_loop2 {A} (elem : list N -> result (A * list N)) :
    (forall b, only P (elem b)) -> forall n b, only P (loop2 elem n b).
  Proof.
    intros He. induction n as [|n IH]; intros b; cbn [loop2]; [apply only_err, PFuel|].
    destruct b as [|k r]; [apply only_err, PEoi|].
    destruct (kind_of_byte k) as [[]|]; try (apply only_err, PInvalid); [apply only_ok|].
    apply only_bind; [apply He|]. intros [x r1]. apply only_bind; [apply IH|]. intros [xs r2]. apply only_ok.
  Qed.

  Lemma only_bytes2 : forall n len b, only P (bytes2_loop Invalid n len b).
  Proof.
    induction n as [|n IH]; intros len b; cbn [bytes2_loop]; destruct (len =? 0);
      try apply only_ok; [apply only_err, PFuel|].
    destruct (take len b) as [[c r]|]; [|apply only_err, PInvalid].
    apply only_bind; [apply only_varint|]. intros [len' r']. apply only_bind; [apply IH|].
    intros [bs r'']. apply only_ok.
  Qed.

  Lemma only_map_elem utf8 kk (rec : list N -> result (Value * list N)) :
    (forall b, only P (rec b)) -> forall b, only P (map_elem utf8 kk rec b).
  Proof.
    intros Hr b. unfold map_elem. apply only_bind; [apply only_key|]. intros [key r].
    apply only_bind; [apply Hr|]. intros [v r']. apply only_ok.
  Qed.

  Lemma only_field_elem (rec : list N -> result (Value * list N)) :
    (forall b, only P (rec b)) -> forall b, only P (field_elem rec b).
  Proof.
    intros Hr b. unfold field_elem. apply only_bind; [apply only_varint|]. intros [id r].
    apply only_bind; [apply Hr|]. intros [v r']. apply only_ok.
  Qed.

  Lemma only_de_body utf8 (rec : walker Value) n :
    (forall d b, only P (rec d b)) -> forall d b, only P (de_body utf8 rec n d b).
  Proof.
    intros Hr d b. unfold de_body, de_kind. destruct (_ <? _)%nat; [apply only_err, PTooDeep|].
    destruct b as [|k r]; [apply only_err, PEoi|].
    destruct (kind_of_byte k) as [kd|]; [|apply only_err, PInvalid].
    destruct kd as [| | |i|f| |e|e|e kk|e kk|e|].
    - apply only_ok.
    - apply only_bind; [apply Hr|intros [v r']; apply only_ok].
    - destruct r; [apply only_err, PEoi|apply only_ok].
    - apply only_bind; [apply only_int|intros [z r']; apply only_ok].
    - apply only_bind; [apply only_take|intros [bs r']; apply only_ok].
    - apply only_bind; [apply only_varint|]. intros [len r1]. apply only_bind; [apply only_take|].
      intros [s r2]. destruct (_ || _); [apply only_ok|apply only_err, PInvalid].
    - destruct e.
      + apply only_bind; [apply only_varint|]. intros [cnt r1].
        apply only_bind; [apply only_loop1, Hr|intros [xs r2]; apply only_ok].
      + apply only_bind; [apply only_loop2, Hr|intros [xs r2]; apply only_ok].
    - destruct e.
      + apply only_bind; [apply only_varint|]. intros [cnt r1].
        destruct (take cnt r1) as [[bs r2]|]; [apply only_ok|apply only_err, PInvalid].
      + apply only_bind; [apply only_varint|]. intros [len r1].
        apply only_bind; [apply only_bytes2|intros [bs r2]; apply only_ok].
    - destruct e.
      + apply only_bind; [apply only_varint|]. intros [cnt r1].
        apply only_bind; [apply only_loop1, only_map_elem, Hr|intros [xs r2]; apply only_ok].
      + apply only_bind; [apply only_loop2, only_map_elem, Hr|intros [xs r2]; apply only_ok].
    - destruct e.
      + apply only_bind; [apply only_varint|]. intros [cnt r1].
        apply only_bind; [apply only_loop1, only_key|intros [xs r2]; apply only_ok].
      + apply only_bind; [apply only_loop2, only_key|intros [xs r2]; apply only_ok].
    - destruct e.
      + apply only_bind; [apply only_varint|]. intros [cnt r1].
        apply only_bind; [apply only_loop1, only_field_elem, Hr|intros [xs r2]; apply only_ok].
      + apply only_bind; [apply only_loop2, only_field_elem, Hr|intros [xs r2]; apply only_ok].
    - apply only_bind; [apply only_varint|]. intros [id r1].
      apply only_bind; [apply Hr|intros [v r2]; apply only_ok].
  Qed.

  Lemma only_de utf8 : forall f d b, only P (de utf8 f d b).
  Proof.
    induction f as [|f IH]; intros d b; cbn [de]; [apply only_err, PFuel|].
    apply only_de_body. exact IH.
  Qed.
End Kinds.

Definition de_kind_set (e : err) : Prop := e = Eoi \/ e = Invalid \/ e = TooDeep \/ e = Fuel.

(* the decoder proper fails with UnexpectedEoi, InvalidSerialization or TooDeeplyNested only
   (TrailingData is added by de_as_value) *)
Theorem de_err_kinds utf8 b e : de_value utf8 b = Err e -> e = Eoi \/ e = Invalid \/ e = TooDeep.
Proof.
  intros H. unfold de_value in H.
  assert (de_kind_set e) as K.
  { revert H. apply (only_de de_kind_set); unfold de_kind_set; auto. }
  destruct K as [K|[K|[K|K]]]; auto. subst. exfalso. revert H. apply de_enough. lia.
Qed.

Theorem de_as_value_err_kinds utf8 b e :
  de_as_value utf8 b = Err e -> e = Eoi \/ e = Invalid \/ e = TooDeep \/ e = TrailingData.
Proof.
  unfold de_as_value. destruct (de_value utf8 b) as [[v r]|e'] eqn:E; cbn [bind].
  - destruct r; [discriminate|]. intros H; inversion H. auto.
  - intros H; inversion H; subst. destruct (de_err_kinds _ _ _ E) as [K|[K|K]]; auto.
Qed.
