(* Codec/De.v — decoder model: core/src/deserializer.rs, deserializer/*.rs and
   `impl Deserialize for Value` / Struct / Enum (core/src/value.rs), including the depth
   counter, every error kind and its precedence, HashMap last-wins insertion.
   Walkers are fuelled (fuel = input length + 1 always suffices: DeProofs.de_fuel_enough) and
   written by open recursion: [de_body rec] is not recursive. *)
From Aldrin Require Export Codec.Value.
From Aldrin Require Import gen.Consts.
Open Scope N_scope.

Definition walker (A : Type) := nat -> list N -> result (A * list N).

(* counted element loop of the *1 containers *)
Fixpoint loop1 {A} (elem : list N -> result (A * list N)) (n : nat) (cnt : N) (b : list N)
  : result (list A * list N) :=
  if cnt =? 0 then Ok ([], b) else
  match n with
  | O => Err Fuel
  | S n' => '(x, r) <- elem b ;; '(xs, r') <- loop1 elem n' (cnt - 1) r ;; Ok (x :: xs, r')
  end.

(* terminated element loop of the *2 containers: Some-tagged elements, None ends *)
Fixpoint loop2 {A} (elem : list N -> result (A * list N)) (n : nat) (b : list N)
  : result (list A * list N) :=
  match n with
  | O => Err Fuel
  | S n' =>
      match b with
      | [] => Err Eoi
      | k :: r =>
          match kind_of_byte k with
          | Some KNone => Ok ([], r)
          | Some KSome => '(x, r1) <- elem r ;; '(xs, r2) <- loop2 elem n' r1 ;; Ok (x :: xs, r2)
          | _ => Err Invalid
          end
      end
  end.

(* Bytes2Deserializer::deserialize_extend; [short] is the error for a chunk longer than the
   remaining input: Invalid in as_slice (decode), Eoi in advance/try_skip (skip) *)
Fixpoint bytes2_loop (short : err) (n : nat) (len : N) (b : list N) : result (list N * list N) :=
  if len =? 0 then Ok ([], b) else
  match n with
  | O => Err Fuel
  | S n' =>
      match take len b with
      | Err _ => Err short
      | Ok (chunk, r) =>
          '(len', r') <- get_varint 4 r ;;
          '(bs, r'') <- bytes2_loop short n' len' r' ;;
          Ok (chunk ++ bs, r'')
      end
  end.

Definition dedup_map (l : list (keyv * Value)) : list (keyv * Value) :=
  fold_left (fun acc p => map_insert (fst p) (snd p) acc) l [].
Definition dedup_set (l : list keyv) : list keyv :=
  fold_left (fun acc k => set_insert k acc) l [].
Definition dedup_struct (l : list (N * Value)) : list (N * Value) :=
  fold_left (fun acc p => struct_insert (fst p) (snd p) acc) l [].

Definition map_elem (utf8 : bool) (k : keyk) (rec : list N -> result (Value * list N)) (b : list N)
  : result ((keyv * Value) * list N) :=
  '(key, r) <- get_key utf8 k b ;; '(v, r') <- rec r ;; Ok ((key, v), r').
Definition field_elem (rec : list N -> result (Value * list N)) (b : list N)
  : result ((N * Value) * list N) :=
  '(id, r) <- get_varint 4 b ;; '(v, r') <- rec r ;; Ok ((id, v), r').

(* the per-kind part of `impl Deserialize for Value`, after the depth check and the kind byte;
   [d'] is the depth of this value (children are decoded with Deserializer::new(buf, d')) *)
Definition de_kind (utf8 : bool) (rec : walker Value) (n : nat) (d' : nat) (kd : kind) (r : list N)
  : result (Value * list N) :=
  match kd with
  | KNone => Ok (VNone, r)
  | KSome => '(v, r') <- rec d' r ;; Ok (VSome v, r')
  | KBool => match r with [] => Err Eoi | x :: r' => Ok (VBool (negb (x =? 0)), r') end
  | KInt_ i => '(z, r') <- get_int i r ;; Ok (VInt i z, r')
  | KFixed f => '(bs, r') <- take (fix_len f) r ;; Ok (VFixed f bs, r')
  | KString => '(len, r1) <- get_varint 4 r ;;
               '(s, r2) <- take len r1 ;;
               if negb utf8 || utf8_valid s then Ok (VString s, r2) else Err Invalid
  | KVec E1 => '(cnt, r1) <- get_varint 4 r ;;
               '(xs, r2) <- loop1 (rec d') n cnt r1 ;; Ok (VVec xs, r2)
  | KVec E2 => '(xs, r2) <- loop2 (rec d') n r ;; Ok (VVec xs, r2)
  | KBytes E1 => '(cnt, r1) <- get_varint 4 r ;;
                 match take cnt r1 with
                 | Err _ => Err Invalid
                 | Ok (bs, r2) => Ok (VBytes bs, r2)
                 end
  | KBytes E2 => '(len, r1) <- get_varint 4 r ;;
                 '(bs, r2) <- bytes2_loop Invalid n len r1 ;; Ok (VBytes bs, r2)
  | KMap E1 kk => '(cnt, r1) <- get_varint 4 r ;;
                  '(xs, r2) <- loop1 (map_elem utf8 kk (rec d')) n cnt r1 ;;
                  Ok (VMap kk (dedup_map xs), r2)
  | KMap E2 kk => '(xs, r2) <- loop2 (map_elem utf8 kk (rec d')) n r ;;
                  Ok (VMap kk (dedup_map xs), r2)
  | KSet E1 kk => '(cnt, r1) <- get_varint 4 r ;;
                  '(xs, r2) <- loop1 (get_key utf8 kk) n cnt r1 ;;
                  Ok (VSet kk (dedup_set xs), r2)
  | KSet E2 kk => '(xs, r2) <- loop2 (get_key utf8 kk) n r ;;
                  Ok (VSet kk (dedup_set xs), r2)
  | KStruct E1 => '(cnt, r1) <- get_varint 4 r ;;
                  '(xs, r2) <- loop1 (field_elem (rec d')) n cnt r1 ;;
                  Ok (VStruct (dedup_struct xs), r2)
  | KStruct E2 => '(xs, r2) <- loop2 (field_elem (rec d')) n r ;;
                  Ok (VStruct (dedup_struct xs), r2)
  | KEnum => '(id, r1) <- get_varint 4 r ;;
             '(v, r2) <- rec d' r1 ;; Ok (VEnum id v, r2)
  end.

Definition de_body (utf8 : bool) (rec : walker Value) (n : nat) : walker Value := fun d b =>
  if (MAX_VALUE_DEPTH <? S d)%nat then Err TooDeep else
  match b with
  | [] => Err Eoi
  | k :: r =>
      match kind_of_byte k with
      | None => Err Invalid
      | Some kd => de_kind utf8 rec n (S d) kd r
      end
  end.

Fixpoint de (utf8 : bool) (fuel : nat) : walker Value :=
  match fuel with
  | O => fun _ _ => Err Fuel
  | S f => de_body utf8 (de utf8 f) f
  end.

(* Deserializer::new(&mut buf, 0)?.deserialize::<Value>() *)
Definition de_value (utf8 : bool) (b : list N) : result (Value * list N) :=
  de utf8 (S (length b)) 0%nat b.

(* SerializedValueSlice::deserialize_as_value: adds the trailing-data check *)
Definition de_as_value (utf8 : bool) (b : list N) : result Value :=
  '(v, r) <- de_value utf8 b ;; match r with [] => Ok v | _ => Err TrailingData end.

(* SerializedValueSlice::kind *)
Definition peek_kind (b : list N) : result kind :=
  if (MAX_VALUE_DEPTH <? 1)%nat then Err TooDeep else
  match b with
  | [] => Err Eoi
  | k :: _ => match kind_of_byte k with Some kd => Ok kd | None => Err Invalid end
  end.
