(* Codec/ConvertMeaning.v — what the converter writes decodes to the value the input decodes to
   (C13_meaning).  Stated for both decoders at once ([utf8] = true: the validating one): if the
   converter turns b into out and the decoder reads v from b, then both leave the same rest and
   the decoder reads v from out ++ r2 leaving r2, with the same fuel.  [bytes_ok b] (every
   element of b is below 256, i.e. b is a byte string) is needed because the re-encoding of
   varints is canonical only for values the wire format can carry. *)
From Aldrin Require Import Codec.Base Codec.BaseProofs Codec.Value Codec.De Codec.Convert
  gen.Consts Codec.RoundTrip Codec.Frame Codec.Skip Codec.SkipProofs Codec.ConvertProofs Codec.DeProofs.
From Coq Require Import ZifyBool ZifyNat ZifyN.
Ltac Zify.zify_post_hook ::= Z.div_mod_to_equations.
Open Scope N_scope.
Arguments N.add : simpl never.
Arguments N.sub : simpl never.
Arguments N.mul : simpl never.
Arguments N.div : simpl never.
Arguments N.modulo : simpl never.
Arguments N.pow : simpl never.
Arguments N.ltb : simpl never.
Arguments N.leb : simpl never.
Arguments N.eqb : simpl never.

(* ---------- byte strings ---------- *)
Lemma bytes_ok_app a b : bytes_ok (a ++ b) = bytes_ok a && bytes_ok b.
Proof. apply forallb_app. Qed.

Lemma bytes_ok_app_r a b : bytes_ok (a ++ b) = true -> bytes_ok b = true.
Proof. rewrite bytes_ok_app. intros H. apply andb_prop in H. tauto. Qed.

Lemma bytes_ok_app_l a b : bytes_ok (a ++ b) = true -> bytes_ok a = true.
Proof. rewrite bytes_ok_app. intros H. apply andb_prop in H. tauto. Qed.

Lemma bytes_ok_cons x b : bytes_ok (x :: b) = true -> x < 256 /\ bytes_ok b = true.
Proof. cbn [bytes_ok forallb]. unfold byte_ok. intros H. apply andb_prop in H. split; [lia|tauto]. Qed.

Lemma framed_bytes_ok {A} (w : list N -> result (A * list N)) :
  framed w -> forall b x r, w b = Ok (x, r) -> bytes_ok b = true -> bytes_ok r = true.
Proof. intros F b x r H Hb. destruct (F _ _ _ H) as (p & -> & _). eapply bytes_ok_app_r; eauto. Qed.

Lemma take_bytes_ok n b x r :
  take n b = Ok (x, r) -> bytes_ok b = true -> bytes_ok x = true /\ bytes_ok r = true /\ lenN x = n.
Proof.
  intros H Hb. apply take_ok in H as [-> L]. split; [eapply bytes_ok_app_l; eauto|].
  split; [eapply bytes_ok_app_r; eauto|exact L].
Qed.

Lemma from_le_bound l : bytes_ok l = true -> from_le l < 256 ^ lenN l.
Proof.
  induction l as [|x l IH]; intros H.
  - cbn. change (256 ^ lenN []) with 1. lia.
  - apply bytes_ok_cons in H as [Hx Hl]. specialize (IH Hl). cbn [from_le].
    rewrite lenN_cons. replace (1 + lenN l) with (N.succ (lenN l)) by lia. rewrite N.pow_succ_r'. lia.
Qed.

(* a varint read from a byte string fits its width *)
Lemma get_varint_range W b n r :
  (1 <= W <= 8)%nat -> get_varint W b = Ok (n, r) -> bytes_ok b = true -> n < 256 ^ N.of_nat W.
Proof.
  intros HW H Hb. destruct b as [|first b]; cbn [get_varint] in H; [discriminate|].
  apply bytes_ok_cons in Hb as [Hf Hb].
  assert (256 <= 256 ^ N.of_nat W) as H256.
  { change 256 with (256 ^ 1) at 1. apply N.pow_le_mono_r; lia. }
  destruct (N.ltb_spec (255 - N.of_nat W) first) as [Hlt|Hge].
  - apply bind_ok_inv in H as ([bs r'] & E & H). inversion H; subst.
    apply take_bytes_ok in E as (Hbs & _ & L); [|exact Hb].
    pose proof (from_le_bound bs Hbs) as B. rewrite L in B.
    eapply N.lt_le_trans; [exact B|]. apply N.pow_le_mono_r; lia.
  - inversion H; subst. lia.
Qed.

Lemma varint_bytes_ok W b n r :
  get_varint W b = Ok (n, r) -> bytes_ok b = true -> bytes_ok r = true.
Proof. apply framed_bytes_ok, framed_varint. Qed.

Lemma get_int_range i b z r :
  get_int i b = Ok (z, r) -> bytes_ok b = true -> int_ok i z = true /\ bytes_ok r = true.
Proof.
  intros H Hb. split; [|eapply framed_bytes_ok; [apply framed_int|eauto..]].
  unfold int_ok, int_bits.
  assert (forall W, (1 <= W <= 8)%nat -> forall n r', get_varint W b = Ok (n, r') -> n < 256 ^ N.of_nat W) as V
    by (intros W HW n r' E; eapply get_varint_range; eauto).
  destruct i; cbn [get_int int_signed int_width] in *.
  - destruct b as [|x b]; [discriminate|]. inversion H; subst. apply bytes_ok_cons in Hb as [Hx _].
    change (2 ^ (8 * Z.of_nat 1))%Z with 256%Z. lia.
  - destruct b as [|x b]; [discriminate|]. inversion H; subst. apply bytes_ok_cons in Hb as [Hx _].
    change (2 ^ (8 * Z.of_nat 1 - 1))%Z with 128%Z. destruct (N.ltb_spec x 128); lia.
  - apply bind_ok_inv in H as ([n r'] & E & H). inversion H; subst. apply V in E; [|lia].
    change (256 ^ N.of_nat 2) with 65536 in E. change (2 ^ (8 * Z.of_nat 2))%Z with 65536%Z. lia.
  - apply bind_ok_inv in H as ([n r'] & E & H). inversion H; subst. apply V in E; [|lia].
    change (256 ^ N.of_nat 2) with 65536 in E. change (2 ^ (8 * Z.of_nat 2 - 1))%Z with 32768%Z.
    unfold zigzag_dec. destruct (N.even n); lia.
  - apply bind_ok_inv in H as ([n r'] & E & H). inversion H; subst. apply V in E; [|lia].
    change (256 ^ N.of_nat 4) with 4294967296 in E. change (2 ^ (8 * Z.of_nat 4))%Z with 4294967296%Z. lia.
  - apply bind_ok_inv in H as ([n r'] & E & H). inversion H; subst. apply V in E; [|lia].
    change (256 ^ N.of_nat 4) with 4294967296 in E. change (2 ^ (8 * Z.of_nat 4 - 1))%Z with 2147483648%Z.
    unfold zigzag_dec. destruct (N.even n); lia.
  - apply bind_ok_inv in H as ([n r'] & E & H). inversion H; subst. apply V in E; [|lia].
    change (256 ^ N.of_nat 8) with 18446744073709551616 in E.
    change (2 ^ (8 * Z.of_nat 8))%Z with 18446744073709551616%Z. lia.
  - apply bind_ok_inv in H as ([n r'] & E & H). inversion H; subst. apply V in E; [|lia].
    change (256 ^ N.of_nat 8) with 18446744073709551616 in E.
    change (2 ^ (8 * Z.of_nat 8 - 1))%Z with 9223372036854775808%Z.
    unfold zigzag_dec. destruct (N.even n); lia.
Qed.

(* re-reading a canonically re-encoded varint / int *)
Lemma varint_reread W b n r r2 :
  (1 <= W <= 8)%nat -> get_varint W b = Ok (n, r) -> bytes_ok b = true ->
  get_varint W (put_varint W n ++ r2) = Ok (n, r2).
Proof. intros HW H Hb. apply varint_roundtrip; [exact HW|eapply get_varint_range; eauto]. Qed.

Lemma int_reread i b z r r2 :
  get_int i b = Ok (z, r) -> bytes_ok b = true -> get_int i (put_int i z ++ r2) = Ok (z, r2).
Proof. intros H Hb. apply int_roundtrip. eapply get_int_range; eauto. Qed.

(* ---------- agreement of a converting walker with a decoding walker ---------- *)
Definition agree {O A} (cw : list N -> result (O * list N)) (dw : list N -> result (A * list N))
           (R : O -> A -> Prop) : Prop :=
  forall b o r x r', cw b = Ok (o, r) -> dw b = Ok (x, r') -> bytes_ok b = true ->
                     r = r' /\ bytes_ok r = true /\ R o x.

(* [reads w o x]: w reads x from o, whatever follows *)
Definition reads {A} (w : list N -> result (A * list N)) (o : list N) (x : A) : Prop :=
  forall r2, w (o ++ r2) = Ok (x, r2).

Lemma agree_key utf8 kk : agree (conv_key kk) (get_key utf8 kk) (reads (get_key utf8 kk)).
Proof.
  intros b o r x r' Hc Hd Hb. destruct kk as [i| |]; cbn [conv_key get_key] in *.
  - destruct (get_int i b) as [[z r1]|] eqn:E; cbn [bind] in *; [|discriminate].
    inversion Hc; inversion Hd; subst. split; [reflexivity|]. split; [eapply get_int_range; eauto|].
    intros r2. cbn [get_key]. erewrite int_reread by eauto. reflexivity.
  - destruct (get_varint 4 b) as [[n r1]|] eqn:E; cbn [bind] in *; [|discriminate].
    destruct (take n r1) as [[s r3]|] eqn:E2; cbn [bind] in *; [|discriminate].
    destruct (negb utf8 || utf8_valid s) eqn:U; [|discriminate].
    inversion Hc; inversion Hd; subst.
    pose proof (varint_bytes_ok _ _ _ _ E Hb) as Hb1.
    apply take_bytes_ok in E2 as (_ & Hb3 & L); [|exact Hb1].
    split; [reflexivity|]. split; [exact Hb3|]. intros r2. cbn [get_key].
    rewrite <- app_assoc. erewrite varint_reread by (eauto; lia). cbn [bind].
    rewrite <- L, take_app. cbn [bind]. rewrite U. reflexivity.
  - rewrite Hc in Hd. cbn [bind] in Hd. inversion Hd; subst.
    apply take_bytes_ok in Hc as (_ & Hb3 & L); [|exact Hb].
    split; [reflexivity|]. split; [exact Hb3|]. intros r2. cbn [get_key].
    rewrite <- L, take_app. reflexivity.
Qed.

Lemma agree_map_elem utf8 kk (rec : list N -> cres) (rec' : list N -> result (Value * list N)) :
  agree rec rec' (reads rec') ->
  agree (conv_map_elem kk rec) (map_elem utf8 kk rec') (reads (map_elem utf8 kk rec')).
Proof.
  intros Hr b o r x r' Hc Hd Hb. unfold conv_map_elem, map_elem in Hc, Hd.
  apply bind_ok_inv in Hc as ([ko r1] & Ec & Hc). apply bind_ok_inv in Hd as ([key r1'] & Ed & Hd).
  destruct (agree_key utf8 kk _ _ _ _ _ Ec Ed Hb) as (<- & Hb1 & Rk).
  apply bind_ok_inv in Hc as ([vo r2] & Ec2 & Hc). apply bind_ok_inv in Hd as ([v r2'] & Ed2 & Hd).
  destruct (Hr _ _ _ _ _ Ec2 Ed2 Hb1) as (<- & Hb2 & Rv).
  inversion Hc; inversion Hd; subst. split; [reflexivity|]. split; [exact Hb2|].
  intros r3. unfold map_elem. rewrite <- app_assoc, Rk. cbn [bind]. rewrite Rv. reflexivity.
Qed.

Lemma agree_field_elem (rec : list N -> cres) (rec' : list N -> result (Value * list N)) :
  agree rec rec' (reads rec') ->
  agree (conv_field_elem rec) (field_elem rec') (reads (field_elem rec')).
Proof.
  intros Hr b o r x r' Hc Hd Hb. unfold conv_field_elem, field_elem in Hc, Hd.
  destruct (get_varint 4 b) as [[id r1]|] eqn:E; cbn [bind] in *; [|discriminate].
  pose proof (varint_bytes_ok _ _ _ _ E Hb) as Hb1.
  apply bind_ok_inv in Hc as ([vo r2] & Ec2 & Hc). apply bind_ok_inv in Hd as ([v r2'] & Ed2 & Hd).
  destruct (Hr _ _ _ _ _ Ec2 Ed2 Hb1) as (<- & Hb2 & Rv).
  inversion Hc; inversion Hd; subst. split; [reflexivity|]. split; [exact Hb2|].
  intros r3. unfold field_elem. rewrite <- app_assoc. erewrite varint_reread by (eauto; lia).
  cbn [bind]. rewrite Rv. reflexivity.
Qed.

Lemma agree_loop1 {O A} (celem : list N -> result (O * list N)) (delem : list N -> result (A * list N)) R :
  agree celem delem R -> forall n cnt,
  agree (loop1 celem n cnt) (loop1 delem n cnt)
        (fun outs xs => Forall2 R outs xs /\ lenN outs = cnt /\ (length outs <= n)%nat).
Proof.
  intros He. induction n as [|n IH]; intros cnt b outs r xs r'; cbn [loop1];
    destruct (N.eqb_spec cnt 0) as [->|Hc0]; try discriminate;
    try (intros H1 H2 Hb; inversion H1; inversion H2; subst; repeat split; auto; cbn [length]; lia).
  intros Hc Hd Hb.
  apply bind_ok_inv in Hc as ([o r1] & Ec & Hc). apply bind_ok_inv in Hd as ([x r1'] & Ed & Hd).
  destruct (He _ _ _ _ _ Ec Ed Hb) as (<- & Hb1 & Rx).
  apply bind_ok_inv in Hc as ([os r2] & Ec2 & Hc). apply bind_ok_inv in Hd as ([ys r2'] & Ed2 & Hd).
  destruct (IH _ _ _ _ _ _ Ec2 Ed2 Hb1) as (<- & Hb2 & F & L & Ln).
  inversion Hc; inversion Hd; subst. split; [reflexivity|]. split; [exact Hb2|].
  split; [constructor; assumption|]. rewrite lenN_cons. cbn [length]. split; lia.
Qed.

Lemma agree_loop2 {O A} (celem : list N -> result (O * list N)) (delem : list N -> result (A * list N)) R :
  agree celem delem R -> forall n,
  agree (loop2 celem n) (loop2 delem n)
        (fun outs xs => Forall2 R outs xs /\ (length outs < n)%nat).
Proof.
  intros He. induction n as [|n IH]; intros b outs r xs r'; cbn [loop2]; [discriminate|].
  destruct b as [|k b]; [discriminate|]. intros Hc Hd Hb. apply bytes_ok_cons in Hb as [_ Hb].
  destruct (kind_of_byte k) as [[]|]; try discriminate.
  - inversion Hc; inversion Hd; subst. repeat split; auto. cbn [length]. lia.
  - apply bind_ok_inv in Hc as ([o r1] & Ec & Hc). apply bind_ok_inv in Hd as ([x r1'] & Ed & Hd).
    destruct (He _ _ _ _ _ Ec Ed Hb) as (<- & Hb1 & Rx).
    apply bind_ok_inv in Hc as ([os r2] & Ec2 & Hc). apply bind_ok_inv in Hd as ([ys r2'] & Ed2 & Hd).
    destruct (IH _ _ _ _ _ Ec2 Ed2 Hb1) as (<- & Hb2 & F & Ln).
    inversion Hc; inversion Hd; subst. split; [reflexivity|]. split; [exact Hb2|].
    split; [constructor; assumption|]. cbn [length]. lia.
Qed.

(* the counted loop re-reads the concatenated element outputs *)
Lemma loop1_reread {A} (elem : list N -> result (A * list N)) outs xs n r2 :
  Forall2 (reads elem) outs xs -> (length outs <= n)%nat ->
  loop1 elem n (lenN outs) (concat outs ++ r2) = Ok (xs, r2).
Proof. intros F Hn. apply loop1_spec; [exact F|exact Hn]. Qed.

(* ---------- the main induction ---------- *)
Lemma Ok_pair_inj {A B} (a c : A) (b d : B) : Ok (a, b) = Ok (c, d) -> a = c /\ b = d.
Proof. intros H; inversion H; auto. Qed.
Ltac okp H := apply Ok_pair_inj in H as [? ?]; subst.

Lemma u32_lt n : n <=? u32_max = true -> n < 256 ^ N.of_nat 4.
Proof. apply u32_fits. Qed.

Lemma conv_body_agree utf8 (rec : cwalker) (rec' : walker Value) n :
  (forall d, agree (rec d) (rec' d) (reads (rec' d))) ->
  forall d, agree (conv_body rec n d) (de_body utf8 rec' n d) (reads (de_body utf8 rec' n d)).
Proof.
  intros Hr d b o rr v rr' Hc Hd Hb. unfold conv_body in Hc. unfold de_body in Hd.
  destruct (MAX_VALUE_DEPTH <? S d)%nat eqn:Hdepth; [discriminate|].
  destruct b as [|k r]; [discriminate|]. apply bytes_ok_cons in Hb as [_ Hb].
  destruct (kind_of_byte k) as [kd|] eqn:Hk; [|discriminate].
  (* what remains to show about the output [kind_byte kd' :: body]: de_kind reads v from it *)
  assert (forall kd' body,
            (forall r2, de_kind utf8 rec' n (S d) kd' (body ++ r2) = Ok (v, r2)) ->
            reads (de_body utf8 rec' n d) (kind_byte kd' :: body) v) as Fin.
  { intros kd' body H r2. unfold de_body. rewrite Hdepth. cbn [app]. rewrite kind_of_byte_kb. apply H. }
  (* the counted containers: count varint, counted loop *)
  assert (forall {X} (celem : list N -> cres) (delem : list N -> result (X * list N)) kd' (g : list X -> Value),
            agree celem delem (reads delem) ->
            ('(cnt, r1) <- get_varint 4 r ;; '(outs, r2) <- loop1 celem n cnt r1 ;; Ok (counted kd' cnt outs, r2))
              = Ok (o, rr) ->
            ('(cnt, r1) <- get_varint 4 r ;; '(xs, r2) <- loop1 delem n cnt r1 ;; Ok (g xs, r2)) = Ok (v, rr') ->
            (forall r2, de_kind utf8 rec' n (S d) kd' r2 =
                        '(cnt, r1) <- get_varint 4 r2 ;; '(xs, r3) <- loop1 delem n cnt r1 ;; Ok (g xs, r3)) ->
            rr = rr' /\ bytes_ok rr = true /\ reads (de_body utf8 rec' n d) o v) as C1.
  { intros X celem delem kd' g He H1 H2 Hk'.
    destruct (get_varint 4 r) as [[cnt r1]|] eqn:E; cbn [bind] in H1, H2; [|discriminate].
    pose proof (varint_bytes_ok _ _ _ _ E Hb) as Hb1.
    apply bind_ok_inv in H1 as ([outs r2] & Ec & H1). apply bind_ok_inv in H2 as ([xs r2'] & Ed & H2).
    destruct (agree_loop1 _ _ _ He n cnt _ _ _ _ _ Ec Ed Hb1) as (<- & Hb2 & F & L & Ln).
    okp H1; okp H2. split; [reflexivity|]. split; [exact Hb2|].
    apply Fin. intros r3. rewrite Hk'. unfold counted. rewrite <- app_assoc.
    erewrite varint_reread by (eauto; lia). cbn [bind]. rewrite (loop1_reread delem outs xs n r3 F Ln). reflexivity. }
  (* the terminated containers: loop, u32 test, written as a counted container *)
  assert (forall {X} (celem : list N -> cres) (delem : list N -> result (X * list N)) kd' (g : list X -> Value),
            agree celem delem (reads delem) ->
            ('(outs, r2) <- loop2 celem n r ;; finish2 kd' outs r2) = Ok (o, rr) ->
            ('(xs, r2) <- loop2 delem n r ;; Ok (g xs, r2)) = Ok (v, rr') ->
            (forall r2, de_kind utf8 rec' n (S d) kd' r2 =
                        '(cnt, r1) <- get_varint 4 r2 ;; '(xs, r3) <- loop1 delem n cnt r1 ;; Ok (g xs, r3)) ->
            rr = rr' /\ bytes_ok rr = true /\ reads (de_body utf8 rec' n d) o v) as C2.
  { intros X celem delem kd' g He H1 H2 Hk'.
    apply bind_ok_inv in H1 as ([outs r2] & Ec & H1). apply bind_ok_inv in H2 as ([xs r2'] & Ed & H2).
    destruct (agree_loop2 _ _ _ He n _ _ _ _ _ Ec Ed Hb) as (<- & Hb2 & F & Ln).
    unfold finish2 in H1. destruct (lenN outs <=? u32_max) eqn:Hov; [|discriminate].
    okp H1; okp H2. split; [reflexivity|]. split; [exact Hb2|].
    apply Fin. intros r3. rewrite Hk'. unfold counted. rewrite <- app_assoc.
    rewrite varint_roundtrip by (try lia; apply u32_lt; exact Hov). cbn [bind].
    rewrite (loop1_reread delem outs xs n r3 F ltac:(lia)). reflexivity. }
  unfold conv_kind in Hc. unfold de_kind in Hd.
  destruct kd as [| | |i|f| |e|e|e kk|e kk|e|].
  - (* None *) okp Hc; okp Hd. split; [reflexivity|]. split; [exact Hb|].
    apply Fin. intros r2. reflexivity.
  - (* Some *)
    apply bind_ok_inv in Hc as ([o1 r1] & Ec & Hc). apply bind_ok_inv in Hd as ([x r1'] & Ed & Hd).
    destruct (Hr _ _ _ _ _ _ Ec Ed Hb) as (<- & Hb1 & Rx). okp Hc; okp Hd.
    split; [reflexivity|]. split; [exact Hb1|]. apply Fin. intros r2. cbn [de_kind]. rewrite Rx. reflexivity.
  - (* Bool *)
    destruct r as [|x r]; [discriminate|]. apply bytes_ok_cons in Hb as [_ Hb].
    okp Hc; okp Hd. split; [reflexivity|]. split; [exact Hb|].
    apply Fin. intros r2. cbn [de_kind app]. destruct (N.eqb_spec x 0); reflexivity.
  - (* ints *)
    destruct (get_int i r) as [[z r1]|] eqn:E; cbn [bind] in *; [|discriminate].
    okp Hc; okp Hd. split; [reflexivity|]. split; [eapply get_int_range; eauto|].
    apply Fin. intros r2. cbn [de_kind]. erewrite int_reread by eauto. reflexivity.
  - (* fixed *)
    destruct (take (fix_len f) r) as [[bs r1]|] eqn:E; cbn [bind] in *; [|discriminate].
    okp Hc; okp Hd. apply take_bytes_ok in E as (_ & Hb1 & L); [|exact Hb].
    split; [reflexivity|]. split; [exact Hb1|]. apply Fin. intros r2. cbn [de_kind].
    rewrite <- L, take_app. reflexivity.
  - (* String *)
    destruct (get_varint 4 r) as [[len r1]|] eqn:E; cbn [bind] in *; [|discriminate].
    destruct (take len r1) as [[s r3]|] eqn:E2; cbn [bind] in *; [|discriminate].
    destruct (negb utf8 || utf8_valid s) eqn:U; [|discriminate].
    okp Hc; okp Hd.
    pose proof (varint_bytes_ok _ _ _ _ E Hb) as Hb1.
    apply take_bytes_ok in E2 as (_ & Hb3 & L); [|exact Hb1].
    split; [reflexivity|]. split; [exact Hb3|]. apply Fin. intros r2. cbn [de_kind].
    rewrite <- app_assoc. erewrite varint_reread by (eauto; lia). cbn [bind].
    rewrite <- L, take_app. cbn [bind]. rewrite U. reflexivity.
  - (* Vec *)
    destruct e; [eapply (C1 _ _ _ (KVec E1) VVec)|eapply (C2 _ _ _ (KVec E1) VVec)]; eauto; apply Hr.
  - (* Bytes *)
    destruct e.
    + destruct (get_varint 4 r) as [[cnt r1]|] eqn:E; cbn [bind] in *; [|discriminate].
      destruct (take cnt r1) as [[s r3]|] eqn:E2; cbn [bind] in *; [|discriminate].
      okp Hc; okp Hd.
      pose proof (varint_bytes_ok _ _ _ _ E Hb) as Hb1.
      apply take_bytes_ok in E2 as (_ & Hb3 & L); [|exact Hb1].
      split; [reflexivity|]. split; [exact Hb3|]. apply Fin. intros r2. cbn [de_kind].
      rewrite <- app_assoc. erewrite varint_reread by (eauto; lia). cbn [bind].
      rewrite <- L, take_app. reflexivity.
    + destruct (get_varint 4 r) as [[len r1]|] eqn:E; cbn [bind] in *; [|discriminate].
      destruct (bytes2_loop Invalid n len r1) as [[bs r3]|] eqn:E2; cbn [bind] in *; [|discriminate].
      destruct (lenN bs <=? u32_max) eqn:Hov; [|discriminate].
      okp Hc; okp Hd.
      pose proof (varint_bytes_ok _ _ _ _ E Hb) as Hb1.
      pose proof (framed_bytes_ok _ (framed_bytes2 Invalid n len) _ _ _ E2 Hb1) as Hb3.
      split; [reflexivity|]. split; [exact Hb3|]. apply Fin. intros r2. cbn [de_kind].
      rewrite <- app_assoc. rewrite varint_roundtrip by (try lia; apply u32_lt; exact Hov). cbn [bind].
      rewrite take_app. reflexivity.
  - (* Map *)
    destruct e; [eapply (C1 _ _ _ (KMap E1 kk) (fun xs => VMap kk (dedup_map xs)))
                |eapply (C2 _ _ _ (KMap E1 kk) (fun xs => VMap kk (dedup_map xs)))]; eauto;
      apply agree_map_elem, Hr.
  - (* Set *)
    destruct e; [eapply (C1 _ _ _ (KSet E1 kk) (fun xs => VSet kk (dedup_set xs)))
                |eapply (C2 _ _ _ (KSet E1 kk) (fun xs => VSet kk (dedup_set xs)))]; eauto;
      apply agree_key.
  - (* Struct *)
    destruct e; [eapply (C1 _ _ _ (KStruct E1) (fun xs => VStruct (dedup_struct xs)))
                |eapply (C2 _ _ _ (KStruct E1) (fun xs => VStruct (dedup_struct xs)))]; eauto;
      apply agree_field_elem, Hr.
  - (* Enum *)
    destruct (get_varint 4 r) as [[id r1]|] eqn:E; cbn [bind] in *; [|discriminate].
    pose proof (varint_bytes_ok _ _ _ _ E Hb) as Hb1.
    apply bind_ok_inv in Hc as ([o1 r2] & Ec & Hc). apply bind_ok_inv in Hd as ([x r2'] & Ed & Hd).
    destruct (Hr _ _ _ _ _ _ Ec Ed Hb1) as (<- & Hb2 & Rx). okp Hc; okp Hd.
    split; [reflexivity|]. split; [exact Hb2|]. apply Fin. intros r3. cbn [de_kind].
    rewrite <- app_assoc. erewrite varint_reread by (eauto; lia). cbn [bind]. rewrite Rx. reflexivity.
Qed.

Theorem conv_agree utf8 : forall f d, agree (conv f d) (de utf8 f d) (reads (de utf8 f d)).
Proof.
  induction f as [|f IH]; intros d; [intros b o r x r' H; discriminate|].
  cbn [conv de]. apply conv_body_agree. exact IH.
Qed.

(* top level: the converted bytes of a whole value decode to the same value, with nothing left *)
Theorem conv_value_meaning utf8 b v :
  bytes_ok b = true -> lenN b <= u32_max -> de_value utf8 b = Ok (v, []) ->
  exists b', conv_value b = Ok (b', []) /\ de_value utf8 b' = Ok (v, []).
Proof.
  intros Hb Hl Hd. unfold de_value in Hd.
  assert (de false (S (length b)) 0%nat b = Ok (v, [])) as Hd0.
  { destruct utf8; [|exact Hd]. apply (de_true_false _ _ _ _ Hd). }
  destruct (conv_accepts _ _ _ _ _ Hl Hd0) as (out & Hc).
  exists out. split; [exact Hc|].
  destruct (conv_agree utf8 _ _ _ _ _ _ _ Hc Hd Hb) as (_ & _ & R).
  specialize (R []). rewrite app_nil_r in R.
  eapply de_value_stable; [exact R|discriminate].
Qed.
