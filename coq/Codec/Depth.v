(* Codec/Depth.v — the nesting limit (C01): a well-formed value serializes iff its depth fits,
   the error is TooDeep otherwise, and the decoder rejects the bytes of an over-deep value with
   TooDeep as well. *)
From Aldrin Require Import Codec.Base Codec.BaseProofs Codec.Value Codec.Ser Codec.De
  Codec.RoundTrip gen.Consts.
From Coq Require Import ZifyBool ZifyNat ZifyN.
Open Scope N_scope.
Arguments N.add : simpl never.
Arguments N.sub : simpl never.
Arguments N.mul : simpl never.
Arguments N.ltb : simpl never.
Arguments N.leb : simpl never.
Arguments N.eqb : simpl never.

Definition maxd {A} (g : A -> nat) (l : list A) : nat := fold_right (fun x m => Nat.max (g x) m) 0%nat l.

Lemma maxd_in {A} (g : A -> nat) x l : In x l -> (g x <= maxd g l)%nat.
Proof. induction l as [|y l IH]; cbn [In maxd fold_right]; [tauto|]. intros [->|H]; [lia|]. apply IH in H. unfold maxd in H. lia. Qed.

Lemma maxd_witness {A} (g : A -> nat) l : (0 < maxd g l)%nat -> exists x, In x l /\ g x = maxd g l.
Proof.
  induction l as [|y l IH]; cbn [maxd fold_right]; [lia|]. intros H.
  destruct (Nat.max_spec (g y) (fold_right (fun x m => Nat.max (g x) m) 0%nat l)) as [[Hlt ->]|[Hle ->]].
  - destruct IH as (x & Hin & Hx); [unfold maxd; lia|]. exists x. split; [right; exact Hin|exact Hx].
  - exists y. split; [left; reflexivity|reflexivity].
Qed.

Lemma depth_vec l : depth (VVec l) = S (maxd depth l). Proof. reflexivity. Qed.
Lemma depth_map k l : depth (VMap k l) = S (maxd (fun p => depth (snd p)) l). Proof. reflexivity. Qed.
Lemma depth_struct l : depth (VStruct l) = S (maxd (fun p => depth (snd p)) l). Proof. reflexivity. Qed.

(* ---------- mapM over elements that either succeed or fail with one error ---------- *)
Lemma mapM_all_ok {A B} (f : A -> result B) l :
  (forall x, In x l -> exists b, f x = Ok b) -> exists bs, mapM f l = Ok bs.
Proof.
  induction l as [|x l IH]; intros H; cbn [mapM]; [eexists; reflexivity|].
  destruct (H x (or_introl eq_refl)) as [b ->]. cbn [bind].
  destruct IH as [bs ->]; [intros; apply H; right; assumption|]. eexists; reflexivity.
Qed.

Lemma mapM_some_err {A B} (f : A -> result B) l e :
  (forall x, In x l -> (exists b, f x = Ok b) \/ f x = Err e) ->
  (exists x, In x l /\ f x = Err e) -> mapM f l = Err e.
Proof.
  induction l as [|x l IH]; intros Hall (y & Hin & Hy); [destruct Hin|]. cbn [mapM].
  destruct (Hall x (or_introl eq_refl)) as [[b Hb]|Hb]; rewrite Hb; cbn [bind]; [|reflexivity].
  destruct Hin as [->|Hin]; [congruence|]. rewrite IH; [reflexivity| |exists y; auto].
  intros; apply Hall; right; assumption.
Qed.

Definition fits (d : nat) (v : Value) : Prop := (d + depth v <= 32)%nat.

Ltac maxdepth := unfold MAX_VALUE_DEPTH in *.

(* ---------- serializer: total on well-formed values, TooDeep exactly beyond the limit ------- *)
Theorem ser_total utf8 e : forall v d, wf utf8 v = true ->
  (fits d v -> exists bs, ser e d v = Ok bs) /\ (~ fits d v -> ser e d v = Err TooDeep).
Proof.
  unfold fits.
  induction v as [|x IH|b|i z|fk fbs|s|l IH|bs0|k l IH|k l|l IH|id x IH] using Value_ind';
    intros d Hwf; cbn [ser]; maxdepth;
    (destruct (Nat.ltb_spec 32 (S d)) as [Hd|Hd];
      [split; [cbn [depth]; intros; lia|reflexivity]|]).
  all: try (pose proof (maxd_in depth) as Hmx).
  - split; [eexists; reflexivity|cbn [depth]; lia].
  - (* Some *) cbn [wf depth] in *. destruct (IH (S d) Hwf) as [H1 H2]. split; intros H.
    + destruct H1 as [bs ->]; [lia|]. eexists; reflexivity.
    + rewrite H2 by lia. reflexivity.
  - split; [eexists; reflexivity|cbn [depth]; lia].
  - split; [eexists; reflexivity|cbn [depth]; lia].
  - split; [eexists; reflexivity|cbn [depth]; lia].
  - cbn [wf] in Hwf. apply andb_prop in Hwf as [Hwf _]. apply andb_prop in Hwf as [_ Hlen]. rewrite Hlen.
    split; [eexists; reflexivity|cbn [depth]; lia].
  - (* Vec *) cbn [wf] in Hwf. apply andb_prop in Hwf as [Hlen Hwf]. rewrite forallb_forall in Hwf.
    rewrite Forall_forall in IH. rewrite depth_vec.
    assert (forall x, In x l -> (fits (S d) x -> exists b, ser e (S d) x = Ok b) /\
                                 (~ fits (S d) x -> ser e (S d) x = Err TooDeep)) as IH'
      by (intros x Hin; apply IH; auto).
    unfold fits in IH'.
    split; intros H.
    + assert (forall x, In x l -> exists b, ser e (S d) x = Ok b) as Hok.
      { intros x Hin. apply (IH' x Hin). pose proof (maxd_in depth x l Hin). lia. }
      destruct e.
      * rewrite Hlen. destruct (mapM_all_ok _ l Hok) as [bs ->]. eexists; reflexivity.
      * destruct (mapM_all_ok (fun x => b <- ser E2 (S d) x;; Ok (kb KSome :: b)) l) as [bs ->];
          [|eexists; reflexivity].
        intros x Hin. destruct (Hok x Hin) as [b ->]. eexists; reflexivity.
    + destruct (maxd_witness depth l ltac:(lia)) as (y & Hin & Hy).
      assert (forall x, In x l -> (exists b, ser e (S d) x = Ok b) \/ ser e (S d) x = Err TooDeep) as Hall.
      { intros x Hx. destruct (le_gt_dec (S d + depth x) 32); [left|right]; apply (IH' x Hx); lia. }
      assert (ser e (S d) y = Err TooDeep) as Hbad by (apply (IH' y Hin); lia).
      destruct e.
      * rewrite Hlen. rewrite (mapM_some_err _ l TooDeep Hall); [reflexivity|eauto].
      * rewrite (mapM_some_err _ l TooDeep); [reflexivity| |exists y; rewrite Hbad; auto].
        intros x Hx. destruct (Hall x Hx) as [[b ->]| ->]; [left; eexists; reflexivity|right; reflexivity].
  - (* Bytes *) cbn [wf] in Hwf. apply andb_prop in Hwf as [_ Hlen].
    split; [intros _|cbn [depth]; lia]. destruct e.
    + unfold hdr1. rewrite Hlen. eexists; reflexivity.
    + unfold bytes2_body. destruct bs0; [eexists; reflexivity|]. rewrite Hlen. eexists; reflexivity.
  - (* Map *) cbn [wf] in Hwf. apply andb_prop in Hwf as [Hwf Hall]. apply andb_prop in Hwf as [Hlen _].
    rewrite forallb_forall in Hall. rewrite Forall_forall in IH. rewrite depth_map.
    assert (forall p, In p l -> (fits (S d) (snd p) -> exists b, ser e (S d) (snd p) = Ok b) /\
                                 (~ fits (S d) (snd p) -> ser e (S d) (snd p) = Err TooDeep)) as IH'.
    { intros p Hin. apply IH; auto. specialize (Hall p Hin). apply andb_prop in Hall. tauto. }
    assert (forall p, In p l -> exists kbs, put_key k (fst p) = Ok kbs) as Hkey.
    { intros p Hin. specialize (Hall p Hin). apply andb_prop in Hall as [Hk _].
      destruct (put_key_ok _ _ _ Hk) as (kbs & -> & _). eexists; reflexivity. }
    unfold fits in IH'.
    split; intros H.
    + assert (forall p, In p l -> exists b, ser e (S d) (snd p) = Ok b) as Hok.
      { intros p Hin. apply (IH' p Hin). pose proof (maxd_in (fun p => depth (snd p)) p l Hin). cbn beta in *. lia. }
      destruct e.
      * rewrite Hlen.
        destruct (mapM_all_ok (fun p => kbs <- put_key k (fst p);; b <- ser E1 (S d) (snd p);; Ok (kbs ++ b)) l)
          as [bs ->]; [|eexists; reflexivity].
        intros p Hin. destruct (Hkey p Hin) as [kbs ->], (Hok p Hin) as [b ->]. eexists; reflexivity.
      * destruct (mapM_all_ok (fun p => kbs <- put_key k (fst p);; b <- ser E2 (S d) (snd p);;
                                        Ok (kb KSome :: kbs ++ b)) l) as [bs ->]; [|eexists; reflexivity].
        intros p Hin. destruct (Hkey p Hin) as [kbs ->], (Hok p Hin) as [b ->]. eexists; reflexivity.
    + destruct (maxd_witness (fun p => depth (snd p)) l ltac:(lia)) as (y & Hin & Hy).
      assert (forall p, In p l -> (exists b, ser e (S d) (snd p) = Ok b) \/ ser e (S d) (snd p) = Err TooDeep) as Hal.
      { intros p Hp. destruct (le_gt_dec (S d + depth (snd p)) 32); [left|right]; apply (IH' p Hp); lia. }
      assert (ser e (S d) (snd y) = Err TooDeep) as Hbad by (apply (IH' y Hin); lia).
      destruct e.
      * rewrite Hlen. rewrite (mapM_some_err _ l TooDeep); [reflexivity| |].
        -- intros p Hp. destruct (Hkey p Hp) as [kbs ->]. cbn [bind].
           destruct (Hal p Hp) as [[b ->]| ->]; [left; eexists; reflexivity|right; reflexivity].
        -- exists y. split; [exact Hin|]. destruct (Hkey y Hin) as [kbs ->]. rewrite Hbad. reflexivity.
      * rewrite (mapM_some_err _ l TooDeep); [reflexivity| |].
        -- intros p Hp. destruct (Hkey p Hp) as [kbs ->]. cbn [bind].
           destruct (Hal p Hp) as [[b ->]| ->]; [left; eexists; reflexivity|right; reflexivity].
        -- exists y. split; [exact Hin|]. destruct (Hkey y Hin) as [kbs ->]. rewrite Hbad. reflexivity.
  - (* Set *) cbn [wf] in Hwf. apply andb_prop in Hwf as [Hwf Hall]. apply andb_prop in Hwf as [Hlen _].
    rewrite forallb_forall in Hall.
    split; [intros _|cbn [depth]; lia].
    assert (forall x, In x l -> exists kbs, put_key k x = Ok kbs) as Hkey.
    { intros x Hin. destruct (put_key_ok _ _ _ (Hall x Hin)) as (kbs & -> & _). eexists; reflexivity. }
    destruct e.
    + rewrite Hlen. destruct (mapM_all_ok _ l Hkey) as [bs ->]. eexists; reflexivity.
    + destruct (mapM_all_ok (fun x => kbs <- put_key k x;; Ok (kb KSome :: kbs)) l) as [bs ->];
        [|eexists; reflexivity].
      intros x Hin. destruct (Hkey x Hin) as [kbs ->]. eexists; reflexivity.
  - (* Struct *) cbn [wf] in Hwf. apply andb_prop in Hwf as [Hwf Hall]. apply andb_prop in Hwf as [Hlen _].
    rewrite forallb_forall in Hall. rewrite Forall_forall in IH. rewrite depth_struct.
    assert (forall p, In p l -> (fits (S d) (snd p) -> exists b, ser e (S d) (snd p) = Ok b) /\
                                 (~ fits (S d) (snd p) -> ser e (S d) (snd p) = Err TooDeep)) as IH'.
    { intros p Hin. apply IH; auto. specialize (Hall p Hin). apply andb_prop in Hall. tauto. }
    unfold fits in IH'.
    split; intros H.
    + assert (forall p, In p l -> exists b, ser e (S d) (snd p) = Ok b) as Hok.
      { intros p Hin. apply (IH' p Hin). pose proof (maxd_in (fun p => depth (snd p)) p l Hin). cbn beta in *. lia. }
      destruct e.
      * rewrite Hlen.
        destruct (mapM_all_ok (fun p => b <- ser E1 (S d) (snd p);; Ok (put_varint 4 (fst p) ++ b)) l)
          as [bs ->]; [|eexists; reflexivity].
        intros p Hin. destruct (Hok p Hin) as [b ->]. eexists; reflexivity.
      * destruct (mapM_all_ok (fun p => b <- ser E2 (S d) (snd p);;
                                        Ok (kb KSome :: put_varint 4 (fst p) ++ b)) l) as [bs ->];
          [|eexists; reflexivity].
        intros p Hin. destruct (Hok p Hin) as [b ->]. eexists; reflexivity.
    + destruct (maxd_witness (fun p => depth (snd p)) l ltac:(lia)) as (y & Hin & Hy).
      assert (forall p, In p l -> (exists b, ser e (S d) (snd p) = Ok b) \/ ser e (S d) (snd p) = Err TooDeep) as Hal.
      { intros p Hp. destruct (le_gt_dec (S d + depth (snd p)) 32); [left|right]; apply (IH' p Hp); lia. }
      assert (ser e (S d) (snd y) = Err TooDeep) as Hbad by (apply (IH' y Hin); lia).
      destruct e.
      * rewrite Hlen. rewrite (mapM_some_err _ l TooDeep); [reflexivity| |].
        -- intros p Hp. destruct (Hal p Hp) as [[b ->]| ->]; [left; eexists; reflexivity|right; reflexivity].
        -- exists y. split; [exact Hin|]. rewrite Hbad. reflexivity.
      * rewrite (mapM_some_err _ l TooDeep); [reflexivity| |].
        -- intros p Hp. destruct (Hal p Hp) as [[b ->]| ->]; [left; eexists; reflexivity|right; reflexivity].
        -- exists y. split; [exact Hin|]. rewrite Hbad. reflexivity.
  - (* Enum *) cbn [wf depth] in *. apply andb_prop in Hwf as [_ Hwf].
    destruct (IH (S d) Hwf) as [H1 H2]. split; intros H.
    + destruct H1 as [bs ->]; [lia|]. eexists; reflexivity.
    + rewrite H2 by lia. reflexivity.
Qed.

(* ---------- ser succeeds => its bytes are those of the depth-unchecked encoder ---------- *)
Lemma mapM_map {A B} (f : A -> result B) (g : A -> B) l bs :
  mapM f l = Ok bs -> (forall x b, In x l -> f x = Ok b -> b = g x) -> bs = map g l.
Proof.
  revert bs. induction l as [|x l IH]; intros bs; cbn [mapM map].
  - intros H _. inversion H. reflexivity.
  - destruct (f x) as [y|] eqn:E; cbn [bind]; [|discriminate].
    destruct (mapM f l) as [ys|] eqn:E2; cbn [bind]; [|discriminate].
    intros H Hg. inversion H; subst. f_equal; [apply Hg; [left; reflexivity|exact E]|].
    apply IH; [reflexivity|]. intros; apply Hg; [right|]; assumption.
Qed.

Theorem ser_raw_eq e : forall v d bs, ser e d v = Ok bs -> bs = ser_raw e v.
Proof.
  induction v as [|x IH|b|i z|fk fbs|s|l IH|bs0|k l IH|k l|l IH|id x IH] using Value_ind';
    intros d bs Hser; cbn [ser] in Hser; depth_ok Hser; cbn [ser_raw].
  - ok_inv Hser. reflexivity.
  - bind_ok Hser b E. ok_inv Hser. f_equal. eapply IH; eauto.
  - ok_inv Hser. reflexivity.
  - ok_inv Hser. reflexivity.
  - ok_inv Hser. reflexivity.
  - destruct (_ <=? _); [|discriminate]. ok_inv Hser. reflexivity.
  - rewrite Forall_forall in IH. destruct e.
    + destruct (_ <=? _); [|discriminate]. bind_ok Hser bss E. ok_inv Hser. do 3 f_equal.
      eapply mapM_map; [exact E|]. intros x b Hin Hx. eapply IH; eauto.
    + bind_ok Hser bss E. ok_inv Hser. do 3 f_equal.
      eapply mapM_map; [exact E|]. cbn beta. intros x b Hin Hx. bind_ok Hx b' E'. ok_inv Hx.
      f_equal. eapply IH; eauto.
  - destruct e.
    + unfold hdr1 in Hser. destruct (_ <=? _); [|discriminate]. ok_inv Hser. reflexivity.
    + bind_ok Hser body E. ok_inv Hser. f_equal. unfold bytes2_body in E. destruct bs0.
      * ok_inv E. reflexivity.
      * destruct (_ <=? _); [|discriminate]. ok_inv E. reflexivity.
  - rewrite Forall_forall in IH. destruct e.
    + destruct (_ <=? _); [|discriminate]. bind_ok Hser bss E. ok_inv Hser. do 3 f_equal.
      eapply mapM_map; [exact E|]. cbn beta. intros p b Hin Hp. bind_ok Hp kbs Ek. bind_ok Hp vb Ev.
      ok_inv Hp. f_equal. eapply IH; eauto.
    + bind_ok Hser bss E. ok_inv Hser. do 3 f_equal.
      eapply mapM_map; [exact E|]. cbn beta. intros p b Hin Hp. bind_ok Hp kbs Ek. bind_ok Hp vb Ev.
      ok_inv Hp. do 2 f_equal. eapply IH; eauto.
  - destruct e.
    + destruct (_ <=? _); [|discriminate]. bind_ok Hser bss E. ok_inv Hser. do 3 f_equal.
      eapply mapM_map; [exact E|]. cbn beta. intros x b Hin Hx. rewrite Hx. reflexivity.
    + bind_ok Hser bss E. ok_inv Hser. do 3 f_equal.
      eapply mapM_map; [exact E|]. cbn beta. intros x b Hin Hx. bind_ok Hx kbs Ek. ok_inv Hx. reflexivity.
  - rewrite Forall_forall in IH. destruct e.
    + destruct (_ <=? _); [|discriminate]. bind_ok Hser bss E. ok_inv Hser. do 3 f_equal.
      eapply mapM_map; [exact E|]. cbn beta. intros p b Hin Hp. bind_ok Hp vb Ev.
      ok_inv Hp. f_equal. eapply IH; eauto.
    + bind_ok Hser bss E. ok_inv Hser. do 3 f_equal.
      eapply mapM_map; [exact E|]. cbn beta. intros p b Hin Hp. bind_ok Hp vb Ev.
      ok_inv Hp. do 2 f_equal. eapply IH; eauto.
  - bind_ok Hser b E. ok_inv Hser. do 2 f_equal. eapply IH; eauto.
Qed.

(* a value that fits decodes from the raw bytes *)
Lemma de_raw_ok utf8 e v d f r :
  wf utf8 v = true -> fits d v -> (fuel_of v <= f)%nat ->
  de utf8 f d (ser_raw e v ++ r) = Ok (v, r).
Proof.
  intros Hwf Hfit Hf. destruct (proj1 (ser_total utf8 e v d Hwf) Hfit) as [bs Hs].
  rewrite <- (ser_raw_eq _ _ _ _ Hs). eapply ser_de; eauto.
Qed.

(* ---------- loops hitting an over-deep element ---------- *)
Definition el_ok {A} (elem : list N -> result (A * list N)) (b : list N) : Prop :=
  exists y, forall r', elem (b ++ r') = Ok (y, r').
Definition el_bad {A} (elem : list N -> result (A * list N)) (b : list N) : Prop :=
  forall r', elem (b ++ r') = Err TooDeep.

Lemma loop1_bad {A} (elem : list N -> result (A * list N)) bss r :
  Forall (fun b => el_ok elem b \/ el_bad elem b) bss -> Exists (el_bad elem) bss ->
  forall n, (length bss <= n)%nat ->
  loop1 elem n (lenN bss) (concat bss ++ r) = Err TooDeep.
Proof.
  induction bss as [|b bss IH]; intros Hall Hex n Hn; [inversion Hex|].
  destruct n as [|n]; [cbn in Hn; lia|]. cbn [loop1].
  destruct (N.eqb_spec (lenN (b :: bss)) 0) as [E|_]; [rewrite lenN_cons in E; lia|].
  cbn [concat]. rewrite <- app_assoc. inversion Hall as [|? ? [[y Hy]|Hb] Hall']; subst.
  - rewrite Hy. cbn [bind]. replace (lenN (b :: bss) - 1) with (lenN bss) by (rewrite lenN_cons; lia).
    rewrite IH; [reflexivity|exact Hall'| |cbn in Hn; lia].
    inversion Hex as [? ? Hb|]; subst; [|assumption]. specialize (Hb (concat bss ++ r)). congruence.
  - rewrite Hb. reflexivity.
Qed.

Lemma loop2_bad {A} (elem : list N -> result (A * list N)) bss r :
  Forall (fun b => el_ok elem b \/ el_bad elem b) bss -> Exists (el_bad elem) bss ->
  forall n, (length bss <= n)%nat ->
  loop2 elem n (concat (map (cons (kb KSome)) bss) ++ r) = Err TooDeep.
Proof.
  induction bss as [|b bss IH]; intros Hall Hex n Hn; [inversion Hex|].
  destruct n as [|n]; [cbn in Hn; lia|]. cbn [loop2 map concat app].
  change (kind_of_byte (kb KSome)) with (Some KSome). cbn iota.
  rewrite <- app_assoc. inversion Hall as [|? ? [[y Hy]|Hb] Hall']; subst.
  - rewrite Hy. cbn [bind]. rewrite IH; [reflexivity|exact Hall'| |cbn in Hn; lia].
    inversion Hex as [? ? Hb|]; subst; [|assumption]. specialize (Hb (concat (map (cons (kb KSome)) bss) ++ r)). congruence.
  - rewrite Hb. reflexivity.
Qed.

Lemma Forall_map_iff {A B} (P : B -> Prop) (g : A -> B) l : Forall P (map g l) <-> Forall (fun x => P (g x)) l.
Proof. rewrite !Forall_forall. split; intros H x. - intros Hin. apply H. apply in_map. exact Hin.
  - intros Hin. apply in_map_iff in Hin as (y & <- & Hy). apply H. exact Hy. Qed.

Lemma Exists_map_in {A B} (P : B -> Prop) (g : A -> B) l y : In y l -> P (g y) -> Exists P (map g l).
Proof. intros Hin Hp. apply Exists_exists. exists (g y). split; [apply in_map; exact Hin|exact Hp]. Qed.

Lemma concat_map_cons {A} (g : A -> list N) l :
  concat (map (fun x => kb KSome :: g x) l) = concat (map (cons (kb KSome)) (map g l)).
Proof. rewrite map_map. reflexivity. Qed.

(* ---------- decoder: the bytes of an over-deep value are rejected with TooDeep ---------- *)
Theorem de_too_deep utf8 e : forall v d, wf utf8 v = true -> ~ fits d v ->
  forall f r, (fuel_of v <= f)%nat -> de utf8 f d (ser_raw e v ++ r) = Err TooDeep.
Proof.
  unfold fits.
  induction v as [|x IH|b|i z|fk fbs|s|l IH|bs0|k l IH|k l|l IH|id x IH] using Value_ind';
    intros d Hwf Hdeep f r Hf; (destruct f as [|f]; [cbn in Hf; lia|]);
    cbn [de]; unfold de_body, de_kind; maxdepth;
    (destruct (Nat.ltb_spec 32 (S d)) as [Hd|Hd]; [reflexivity|]);
    try (cbn [depth] in Hdeep; lia); cbn [ser_raw app].
  - (* Some *) change (kind_of_byte (kb KSome)) with (Some KSome). cbn iota.
    cbn [wf depth fuel_of] in *. rewrite IH by (auto; lia). reflexivity.
  - (* Vec *) cbn [wf] in Hwf. apply andb_prop in Hwf as [Hlen Hwf]. rewrite forallb_forall in Hwf.
    rewrite Forall_forall in IH. rewrite depth_vec in Hdeep. cbn [fuel_of] in Hf.
    destruct (maxd_witness depth l ltac:(lia)) as (y & Hin & Hy).
    assert (forall x, In x l -> el_ok (de utf8 f (S d)) (ser_raw e x) \/ el_bad (de utf8 f (S d)) (ser_raw e x)) as Hall.
    { intros x Hx. pose proof (fuel_in_sum fuel_of x l Hx).
      destruct (le_gt_dec (S d + depth x) 32); [left; exists x|right]; intros r'.
      - apply de_raw_ok; auto. lia.
      - apply IH; auto; lia. }
    assert (el_bad (de utf8 f (S d)) (ser_raw e y)) as Hbad.
    { intros r'. pose proof (fuel_in_sum fuel_of y l Hin). apply IH; auto; lia. }
    destruct e.
    + cbn [app]. change (kind_of_byte (kb (KVec E1))) with (Some (KVec E1)). cbn iota.
      rewrite <- app_assoc, varint_roundtrip by (try lia; apply u32_fits; exact Hlen). cbn [bind].
      replace (lenN l) with (lenN (map (ser_raw E1) l)) by (unfold lenN; rewrite map_length; reflexivity).
      rewrite loop1_bad; [reflexivity| | |rewrite map_length; lia].
      * apply Forall_map_iff, Forall_forall. exact Hall.
      * eapply Exists_map_in; eauto.
    + cbn [app]. change (kind_of_byte (kb (KVec E2))) with (Some (KVec E2)). cbn iota.
      rewrite concat_map_cons, <- app_assoc.
      rewrite loop2_bad; [reflexivity| | |rewrite map_length; lia].
      * apply Forall_map_iff, Forall_forall. exact Hall.
      * eapply Exists_map_in; eauto.
  - (* Map *) cbn [wf] in Hwf. apply andb_prop in Hwf as [Hwf Hal]. apply andb_prop in Hwf as [Hlen _].
    rewrite forallb_forall in Hal. rewrite Forall_forall in IH. rewrite depth_map in Hdeep. cbn [fuel_of] in Hf.
    destruct (maxd_witness (fun p => depth (snd p)) l ltac:(lia)) as (y & Hin & Hy).
    set (enc := fun p : keyv * Value =>
                  match put_key k (fst p) with Ok b => b | Err _ => [] end ++ ser_raw e (snd p)).
    assert (forall p, In p l -> el_ok (map_elem utf8 k (de utf8 f (S d))) (enc p) \/
                                 el_bad (map_elem utf8 k (de utf8 f (S d))) (enc p)) as Hall.
    { intros p Hp. pose proof (fuel_in_sum (fun p => fuel_of (snd p)) p l Hp) as Hfu. cbn beta in Hfu.
      specialize (Hal p Hp). apply andb_prop in Hal as [Hk Hv].
      destruct (put_key_ok _ _ _ Hk) as (kbs & Ek & _). unfold enc. rewrite Ek.
      destruct (le_gt_dec (S d + depth (snd p)) 32); [left; exists p|right]; intros r';
        unfold map_elem; rewrite <- app_assoc, (key_roundtrip _ _ _ _ _ Hk Ek); cbn [bind].
      - rewrite de_raw_ok by (auto; unfold fits; lia). destruct p; reflexivity.
      - rewrite IH by (auto; lia). reflexivity. }
    assert (el_bad (map_elem utf8 k (de utf8 f (S d))) (enc y)) as Hbad.
    { destruct (Hall y Hin) as [[q Hq]|Hb]; [|exact Hb]. exfalso.
      pose proof (fuel_in_sum (fun p => fuel_of (snd p)) y l Hin) as Hfu. cbn beta in Hfu.
      specialize (Hal y Hin). apply andb_prop in Hal as [Hk Hv].
      destruct (put_key_ok _ _ _ Hk) as (kbs & Ek & _). specialize (Hq []). unfold enc in Hq. rewrite Ek in Hq.
      unfold map_elem in Hq. rewrite <- app_assoc, (key_roundtrip _ _ _ _ _ Hk Ek) in Hq. cbn [bind] in Hq.
      rewrite IH in Hq by (auto; lia). discriminate. }
    destruct e.
    + cbn [app]. unfold kb at 1. rewrite kind_of_byte_kb. cbn iota.
      rewrite <- app_assoc, varint_roundtrip by (try lia; apply u32_fits; exact Hlen). cbn [bind].
      replace (lenN l) with (lenN (map enc l)) by (unfold lenN; rewrite map_length; reflexivity).
      change (concat (map (fun p => match put_key k (fst p) with Ok b => b | Err _ => [] end ++ ser_raw E1 (snd p)) l))
        with (concat (map enc l)).
      rewrite loop1_bad; [reflexivity| | |rewrite map_length; lia].
      * apply Forall_map_iff, Forall_forall. exact Hall.
      * eapply Exists_map_in; eauto.
    + cbn [app]. unfold kb at 1. rewrite kind_of_byte_kb. cbn iota.
      change (concat (map (fun p => kb KSome :: match put_key k (fst p) with Ok b => b | Err _ => [] end ++ ser_raw E2 (snd p)) l))
        with (concat (map (fun p => kb KSome :: enc p) l)).
      rewrite concat_map_cons, <- app_assoc.
      rewrite loop2_bad; [reflexivity| | |rewrite map_length; lia].
      * apply Forall_map_iff, Forall_forall. exact Hall.
      * eapply Exists_map_in; eauto.
  - (* Struct *) cbn [wf] in Hwf. apply andb_prop in Hwf as [Hwf Hal]. apply andb_prop in Hwf as [Hlen _].
    rewrite forallb_forall in Hal. rewrite Forall_forall in IH. rewrite depth_struct in Hdeep. cbn [fuel_of] in Hf.
    destruct (maxd_witness (fun p => depth (snd p)) l ltac:(lia)) as (y & Hin & Hy).
    set (enc := fun p : N * Value => put_varint 4 (fst p) ++ ser_raw e (snd p)).
    assert (forall p, In p l -> el_ok (field_elem (de utf8 f (S d))) (enc p) \/
                                 el_bad (field_elem (de utf8 f (S d))) (enc p)) as Hall.
    { intros p Hp. pose proof (fuel_in_sum (fun p => fuel_of (snd p)) p l Hp) as Hfu. cbn beta in Hfu.
      specialize (Hal p Hp). apply andb_prop in Hal as [Hk Hv]. unfold enc.
      destruct (le_gt_dec (S d + depth (snd p)) 32); [left; exists p|right]; intros r';
        unfold field_elem; rewrite <- app_assoc, varint_roundtrip by (try lia; apply u32_fits; exact Hk); cbn [bind].
      - rewrite de_raw_ok by (auto; unfold fits; lia). destruct p; reflexivity.
      - rewrite IH by (auto; lia). reflexivity. }
    assert (el_bad (field_elem (de utf8 f (S d))) (enc y)) as Hbad.
    { destruct (Hall y Hin) as [[q Hq]|Hb]; [|exact Hb]. exfalso.
      pose proof (fuel_in_sum (fun p => fuel_of (snd p)) y l Hin) as Hfu. cbn beta in Hfu.
      specialize (Hal y Hin). apply andb_prop in Hal as [Hk Hv]. specialize (Hq []). unfold enc in Hq.
      unfold field_elem in Hq. rewrite <- app_assoc, varint_roundtrip in Hq by (try lia; apply u32_fits; exact Hk).
      cbn [bind] in Hq. rewrite IH in Hq by (auto; lia). discriminate. }
    destruct e.
    + cbn [app]. change (kind_of_byte (kb (KStruct E1))) with (Some (KStruct E1)). cbn iota.
      rewrite <- app_assoc, varint_roundtrip by (try lia; apply u32_fits; exact Hlen). cbn [bind].
      replace (lenN l) with (lenN (map enc l)) by (unfold lenN; rewrite map_length; reflexivity).
      change (concat (map (fun p => put_varint 4 (fst p) ++ ser_raw E1 (snd p)) l)) with (concat (map enc l)).
      rewrite loop1_bad; [reflexivity| | |rewrite map_length; lia].
      * apply Forall_map_iff, Forall_forall. exact Hall.
      * eapply Exists_map_in; eauto.
    + cbn [app]. change (kind_of_byte (kb (KStruct E2))) with (Some (KStruct E2)). cbn iota.
      change (concat (map (fun p => kb KSome :: put_varint 4 (fst p) ++ ser_raw E2 (snd p)) l))
        with (concat (map (fun p => kb KSome :: enc p) l)).
      rewrite concat_map_cons, <- app_assoc.
      rewrite loop2_bad; [reflexivity| | |rewrite map_length; lia].
      * apply Forall_map_iff, Forall_forall. exact Hall.
      * eapply Exists_map_in; eauto.
  - (* Enum *) change (kind_of_byte (kb KEnum)) with (Some KEnum). cbn iota.
    cbn [wf depth fuel_of] in *. apply andb_prop in Hwf as [Hid Hwf].
    rewrite <- app_assoc, varint_roundtrip by (try lia; apply u32_fits; exact Hid). cbn [bind].
    rewrite IH by (auto; lia). reflexivity.
Qed.
