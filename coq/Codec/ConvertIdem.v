(* Codec/ConvertIdem.v — what the converter writes is a fixed point of the converter
   (C13_idempotent) and is accepted by [v1walk], the skip walker without the five container
   encodings introduced in 1.20 (C13_no_v2); both with the fuel of the original run.
   Also: v1walk is fuel-monotone, accepts only what the skip walker/decoder accept, and is total
   on fuel = length + 1, so the boolean [v1_only] is the decision. *)
From Aldrin Require Import Codec.Base Codec.BaseProofs Codec.Value Codec.De Codec.Convert
  gen.Consts Codec.RoundTrip Codec.Frame Codec.Skip Codec.SkipProofs Codec.ConvertProofs
  Codec.ConvertMeaning Codec.DeProofs.
From Coq Require Import ZifyBool ZifyNat ZifyN.
Open Scope N_scope.
Arguments N.add : simpl never.
Arguments N.sub : simpl never.
Arguments N.mul : simpl never.
Arguments N.ltb : simpl never.
Arguments N.leb : simpl never.
Arguments N.eqb : simpl never.

(* [fixes cw w1 w2]: whatever cw writes, w1 reads back as itself and w2 accepts *)
Definition fixes {U} (cw w1 : list N -> cres) (w2 : list N -> result (U * list N)) (u : U) : Prop :=
  forall b o r, cw b = Ok (o, r) -> bytes_ok b = true ->
                bytes_ok r = true /\ reads w1 o o /\ reads w2 o u.

Lemma fixes_agree {U} cw w1 (w2 : list N -> result (U * list N)) u :
  fixes cw w1 w2 u -> agree cw cw (fun o _ => reads w1 o o /\ reads w2 o u).
Proof.
  intros F b o r x r' H1 H2 Hb. rewrite H1 in H2. apply Ok_pair_inj in H2 as [_ <-].
  destruct (F _ _ _ H1 Hb) as (Hr & R1 & R2). auto.
Qed.

Lemma Forall2_diag {A} (P : A -> Prop) l : Forall2 (fun o (_ : A) => P o) l l -> Forall P l.
Proof.
  induction l as [|x l IH]; intros H; [constructor|]. inversion H; subst. constructor; auto.
Qed.

Lemma loop1_reread_self (celem : list N -> cres) outs n r2 :
  Forall (fun o => reads celem o o) outs -> (length outs <= n)%nat ->
  loop1 celem n (lenN outs) (concat outs ++ r2) = Ok (outs, r2).
Proof.
  intros F Hn. apply loop1_spec; [clear Hn|exact Hn].
  induction F; constructor; assumption.
Qed.

Lemma loop1_reread_unit {U} (velem : list N -> result (U * list N)) u outs n r2 :
  Forall (fun o => reads velem o u) outs -> (length outs <= n)%nat ->
  loop1 velem n (lenN outs) (concat outs ++ r2) = Ok (map (fun _ => u) outs, r2).
Proof.
  intros F Hn. apply loop1_spec; [clear Hn|exact Hn].
  induction F; cbn [map]; constructor; assumption.
Qed.

Lemma fixes_key kk : fixes (conv_key kk) (conv_key kk) (v1_key kk) tt.
Proof.
  intros b o r Hc Hb. destruct kk as [i| |]; cbn [conv_key] in Hc.
  - destruct (get_int i b) as [[z r1]|] eqn:E; cbn [bind] in Hc; [|discriminate]. okp Hc.
    split; [eapply get_int_range; eauto|]. split; intros r2; cbn [conv_key v1_key];
      erewrite int_reread by eauto; reflexivity.
  - destruct (get_varint 4 b) as [[n r1]|] eqn:E; cbn [bind] in Hc; [|discriminate].
    destruct (take n r1) as [[s r3]|] eqn:E2; cbn [bind] in Hc; [|discriminate]. okp Hc.
    pose proof (varint_bytes_ok _ _ _ _ E Hb) as Hb1.
    apply take_bytes_ok in E2 as (_ & Hb3 & L); [|exact Hb1].
    split; [exact Hb3|]. split; intros r2; cbn [conv_key v1_key]; rewrite <- app_assoc;
      erewrite varint_reread by (eauto; lia); cbn [bind]; rewrite <- L, take_app; reflexivity.
  - apply take_bytes_ok in Hc as (_ & Hb3 & L); [|exact Hb].
    split; [exact Hb3|]. split; intros r2; cbn [conv_key v1_key]; rewrite <- L, take_app; reflexivity.
Qed.

Lemma fixes_map_elem kk (rec : list N -> cres) (vrec : list N -> result (unit * list N)) :
  fixes rec rec vrec tt ->
  fixes (conv_map_elem kk rec) (conv_map_elem kk rec) (v1_map_elem kk vrec) tt.
Proof.
  intros Hr b o r Hc Hb. unfold conv_map_elem in Hc.
  apply bind_ok_inv in Hc as ([ko r1] & Ec & Hc). apply bind_ok_inv in Hc as ([vo r2] & Ec2 & Hc). okp Hc.
  destruct (fixes_key kk _ _ _ Ec Hb) as (Hb1 & K1 & K2).
  destruct (Hr _ _ _ Ec2 Hb1) as (Hb2 & V1 & V2).
  split; [exact Hb2|]. split; intros r3; unfold conv_map_elem, v1_map_elem; rewrite <- app_assoc.
  - rewrite K1. cbn [bind]. rewrite V1. reflexivity.
  - rewrite K2. cbn [bind]. apply V2.
Qed.

Lemma fixes_field_elem (rec : list N -> cres) (vrec : list N -> result (unit * list N)) :
  fixes rec rec vrec tt ->
  fixes (conv_field_elem rec) (conv_field_elem rec) (v1_field_elem vrec) tt.
Proof.
  intros Hr b o r Hc Hb. unfold conv_field_elem in Hc.
  destruct (get_varint 4 b) as [[id r1]|] eqn:E; cbn [bind] in Hc; [|discriminate].
  pose proof (varint_bytes_ok _ _ _ _ E Hb) as Hb1.
  apply bind_ok_inv in Hc as ([vo r2] & Ec2 & Hc). okp Hc.
  destruct (Hr _ _ _ Ec2 Hb1) as (Hb2 & V1 & V2).
  split; [exact Hb2|]. split; intros r3; unfold conv_field_elem, v1_field_elem; rewrite <- app_assoc;
    erewrite varint_reread by (eauto; lia); cbn [bind].
  - rewrite V1. reflexivity.
  - apply V2.
Qed.

Lemma conv_body_fixes (rec : cwalker) (vrec : walker unit) n :
  (forall d, fixes (rec d) (rec d) (vrec d) tt) ->
  forall d, fixes (conv_body rec n d) (conv_body rec n d) (v1walk_body vrec n d) tt.
Proof.
  intros Hr d b o rr Hc Hb. unfold conv_body in Hc.
  destruct (MAX_VALUE_DEPTH <? S d)%nat eqn:Hdepth; [discriminate|].
  destruct b as [|k r]; [discriminate|]. apply bytes_ok_cons in Hb as [_ Hb].
  destruct (kind_of_byte k) as [kd|] eqn:Hk; [|discriminate].
  assert (forall kd' body,
            (forall r2, conv_kind rec n (S d) kd' (body ++ r2) = Ok (kind_byte kd' :: body, r2)) ->
            (forall r2, v1_kind vrec n (S d) kd' (body ++ r2) = Ok (tt, r2)) ->
            reads (conv_body rec n d) (kind_byte kd' :: body) (kind_byte kd' :: body) /\
            reads (v1walk_body vrec n d) (kind_byte kd' :: body) tt) as Fin.
  { intros kd' body H1 H2. split; intros r2; unfold conv_body, v1walk_body; rewrite Hdepth; cbn [app];
      rewrite kind_of_byte_kb; [apply H1|apply H2]. }
  (* a counted container written by the converter: count varint < 2^32, elements that are fixed *)
  assert (forall (celem : list N -> cres) (velem : list N -> result (unit * list N)) kd' cnt outs,
            cnt < 256 ^ N.of_nat 4 -> lenN outs = cnt -> (length outs <= n)%nat ->
            Forall2 (fun o (_ : list N) => reads celem o o /\ reads velem o tt) outs outs ->
            (forall r2, conv_kind rec n (S d) kd' r2 =
                        '(cnt, r1) <- get_varint 4 r2 ;; '(outs, r3) <- loop1 celem n cnt r1 ;;
                        Ok (counted kd' cnt outs, r3)) ->
            (forall r2, v1_kind vrec n (S d) kd' r2 =
                        '(cnt, r1) <- get_varint 4 r2 ;; '(_, r3) <- loop1 velem n cnt r1 ;; Ok (tt, r3)) ->
            reads (conv_body rec n d) (counted kd' cnt outs) (counted kd' cnt outs) /\
            reads (v1walk_body vrec n d) (counted kd' cnt outs) tt) as Cnt.
  { intros celem velem kd' cnt outs Hcnt L Ln F K1 K2. apply Forall2_diag in F.
    unfold counted. apply Fin; intros r2; [rewrite K1|rewrite K2]; rewrite <- app_assoc;
      rewrite varint_roundtrip by (try lia; exact Hcnt); cbn [bind]; rewrite <- L.
    - rewrite loop1_reread_self; [reflexivity| |exact Ln].
      eapply Forall_impl; [|exact F]. cbn beta. tauto.
    - rewrite (loop1_reread_unit velem tt); [reflexivity| |exact Ln].
      eapply Forall_impl; [|exact F]. cbn beta. tauto. }
  assert (forall (celem : list N -> cres) (velem : list N -> result (unit * list N)) kd',
            fixes celem celem velem tt ->
            ('(cnt, r1) <- get_varint 4 r ;; '(outs, r2) <- loop1 celem n cnt r1 ;; Ok (counted kd' cnt outs, r2))
              = Ok (o, rr) ->
            (forall r2, conv_kind rec n (S d) kd' r2 =
                        '(cnt, r1) <- get_varint 4 r2 ;; '(outs, r3) <- loop1 celem n cnt r1 ;;
                        Ok (counted kd' cnt outs, r3)) ->
            (forall r2, v1_kind vrec n (S d) kd' r2 =
                        '(cnt, r1) <- get_varint 4 r2 ;; '(_, r3) <- loop1 velem n cnt r1 ;; Ok (tt, r3)) ->
            bytes_ok rr = true /\ reads (conv_body rec n d) o o /\ reads (v1walk_body vrec n d) o tt) as C1.
  { intros celem velem kd' He H1 K1 K2.
    destruct (get_varint 4 r) as [[cnt r1]|] eqn:E; cbn [bind] in H1; [|discriminate].
    pose proof (varint_bytes_ok _ _ _ _ E Hb) as Hb1.
    apply bind_ok_inv in H1 as ([outs r2] & Ec & H1). okp H1.
    destruct (agree_loop1 _ _ _ (fixes_agree _ _ _ _ He) n cnt _ _ _ _ _ Ec Ec Hb1) as (_ & Hb2 & F & L & Ln).
    split; [exact Hb2|]. eapply Cnt; eauto. eapply get_varint_range; eauto; lia. }
  assert (forall (celem : list N -> cres) (velem : list N -> result (unit * list N)) kd',
            fixes celem celem velem tt ->
            ('(outs, r2) <- loop2 celem n r ;; finish2 kd' outs r2) = Ok (o, rr) ->
            (forall r2, conv_kind rec n (S d) kd' r2 =
                        '(cnt, r1) <- get_varint 4 r2 ;; '(outs, r3) <- loop1 celem n cnt r1 ;;
                        Ok (counted kd' cnt outs, r3)) ->
            (forall r2, v1_kind vrec n (S d) kd' r2 =
                        '(cnt, r1) <- get_varint 4 r2 ;; '(_, r3) <- loop1 velem n cnt r1 ;; Ok (tt, r3)) ->
            bytes_ok rr = true /\ reads (conv_body rec n d) o o /\ reads (v1walk_body vrec n d) o tt) as C2.
  { intros celem velem kd' He H1 K1 K2.
    apply bind_ok_inv in H1 as ([outs r2] & Ec & H1).
    destruct (agree_loop2 _ _ _ (fixes_agree _ _ _ _ He) n _ _ _ _ _ Ec Ec Hb) as (_ & Hb2 & F & Ln).
    unfold finish2 in H1. destruct (lenN outs <=? u32_max) eqn:Hov; [|discriminate]. okp H1.
    split; [exact Hb2|]. eapply Cnt; eauto; [apply u32_fits; exact Hov|lia]. }
  unfold conv_kind in Hc.
  destruct kd as [| | |i|f| |e|e|e kk|e kk|e|].
  - (* None *) okp Hc. split; [exact Hb|]. apply (Fin KNone []); intros r2; reflexivity.
  - (* Some *)
    apply bind_ok_inv in Hc as ([o1 r1] & Ec & Hc). okp Hc.
    destruct (Hr _ _ _ _ Ec Hb) as (Hb1 & R1 & R2). split; [exact Hb1|].
    apply (Fin KSome o1); intros r2; cbn [conv_kind v1_kind]; [rewrite R1; reflexivity|apply R2].
  - (* Bool *)
    destruct r as [|x r]; [discriminate|]. apply bytes_ok_cons in Hb as [_ Hb]. okp Hc.
    split; [exact Hb|].
    apply (Fin KBool [if x =? 0 then 0 else 1]); intros r2; cbn [conv_kind v1_kind app].
    + destruct (N.eqb_spec x 0); reflexivity.
    + change ((if x =? 0 then 0 else 1) :: r2) with ([if x =? 0 then 0 else 1] ++ r2).
      change 1 with (lenN [if x =? 0 then 0 else 1]) at 1. rewrite take_app. reflexivity.
  - (* ints *)
    destruct (get_int i r) as [[z r1]|] eqn:E; cbn [bind] in Hc; [|discriminate]. okp Hc.
    split; [eapply get_int_range; eauto|].
    apply (Fin (KInt_ i) (put_int i z)); intros r2; cbn [conv_kind v1_kind];
      erewrite int_reread by eauto; reflexivity.
  - (* fixed *)
    destruct (take (fix_len f) r) as [[bs r1]|] eqn:E; cbn [bind] in Hc; [|discriminate]. okp Hc.
    apply take_bytes_ok in E as (_ & Hb1 & L); [|exact Hb]. split; [exact Hb1|].
    apply (Fin (KFixed f) bs); intros r2; cbn [conv_kind v1_kind]; rewrite <- L, take_app; reflexivity.
  - (* String *)
    destruct (get_varint 4 r) as [[len r1]|] eqn:E; cbn [bind] in Hc; [|discriminate].
    destruct (take len r1) as [[s r3]|] eqn:E2; cbn [bind] in Hc; [|discriminate]. okp Hc.
    pose proof (varint_bytes_ok _ _ _ _ E Hb) as Hb1.
    apply take_bytes_ok in E2 as (_ & Hb3 & L); [|exact Hb1]. subst len. split; [exact Hb3|].
    apply (Fin KString (put_varint 4 (lenN s) ++ s)); intros r2; cbn [conv_kind v1_kind]; rewrite <- app_assoc;
      erewrite varint_reread by (eauto; lia); cbn [bind]; rewrite take_app; reflexivity.
  - (* Vec *)
    destruct e; [eapply (C1 (rec (S d)) (vrec (S d)) (KVec E1))|eapply (C2 (rec (S d)) (vrec (S d)) (KVec E1))];
      eauto; intros; reflexivity.
  - (* Bytes *)
    destruct e.
    + destruct (get_varint 4 r) as [[cnt r1]|] eqn:E; cbn [bind] in Hc; [|discriminate].
      destruct (take cnt r1) as [[s r3]|] eqn:E2; cbn [bind] in Hc; [|discriminate]. okp Hc.
      pose proof (varint_bytes_ok _ _ _ _ E Hb) as Hb1.
      apply take_bytes_ok in E2 as (_ & Hb3 & L); [|exact Hb1]. subst cnt. split; [exact Hb3|].
      apply (Fin (KBytes E1) (put_varint 4 (lenN s) ++ s)); intros r2; cbn [conv_kind v1_kind]; rewrite <- app_assoc;
        erewrite varint_reread by (eauto; lia); cbn [bind]; rewrite take_app; reflexivity.
    + destruct (get_varint 4 r) as [[len r1]|] eqn:E; cbn [bind] in Hc; [|discriminate].
      destruct (bytes2_loop Invalid n len r1) as [[bs r3]|] eqn:E2; cbn [bind] in Hc; [|discriminate].
      destruct (lenN bs <=? u32_max) eqn:Hov; [|discriminate]. okp Hc.
      pose proof (varint_bytes_ok _ _ _ _ E Hb) as Hb1.
      pose proof (framed_bytes_ok _ (framed_bytes2 Invalid n len) _ _ _ E2 Hb1) as Hb3.
      split; [exact Hb3|].
      apply (Fin (KBytes E1) (put_varint 4 (lenN bs) ++ bs)); intros r2; cbn [conv_kind v1_kind]; rewrite <- app_assoc;
        rewrite varint_roundtrip by (try lia; apply u32_fits; exact Hov); cbn [bind]; rewrite take_app; reflexivity.
  - (* Map *)
    destruct e; [eapply (C1 _ (v1_map_elem kk (vrec (S d))) (KMap E1 kk))
                |eapply (C2 _ (v1_map_elem kk (vrec (S d))) (KMap E1 kk))];
      eauto using fixes_map_elem; intros; reflexivity.
  - (* Set *)
    destruct e; [eapply (C1 _ (v1_key kk) (KSet E1 kk))|eapply (C2 _ (v1_key kk) (KSet E1 kk))];
      eauto using fixes_key; intros; reflexivity.
  - (* Struct *)
    destruct e; [eapply (C1 _ (v1_field_elem (vrec (S d))) (KStruct E1))
                |eapply (C2 _ (v1_field_elem (vrec (S d))) (KStruct E1))];
      eauto using fixes_field_elem; intros; reflexivity.
  - (* Enum *)
    destruct (get_varint 4 r) as [[id r1]|] eqn:E; cbn [bind] in Hc; [|discriminate].
    pose proof (varint_bytes_ok _ _ _ _ E Hb) as Hb1.
    apply bind_ok_inv in Hc as ([o1 r2] & Ec & Hc). okp Hc.
    destruct (Hr _ _ _ _ Ec Hb1) as (Hb2 & R1 & R2). split; [exact Hb2|].
    apply (Fin KEnum (put_varint 4 id ++ o1)); intros r3; cbn [conv_kind v1_kind]; rewrite <- app_assoc;
      erewrite varint_reread by (eauto; lia); cbn [bind]; [rewrite R1; reflexivity|apply R2].
Qed.

Theorem conv_fixes : forall f d, fixes (conv f d) (conv f d) (v1walk f d) tt.
Proof.
  induction f as [|f IH]; intros d; [intros b o r H; discriminate|].
  cbn [conv v1walk]. apply conv_body_fixes. exact IH.
Qed.

(* ---------- v1walk: fuel monotone, accepts a subset of the decoder, total ---------- *)
Lemma v1_body_mono (rec rec' : walker unit) n n' :
  (forall d, le_w (rec d) (rec' d)) -> (n <= n')%nat ->
  forall d b, v1walk_body rec n d b ⊑ v1walk_body rec' n' d b.
Proof.
  intros Hr Hn d b. unfold v1walk_body, v1_kind. destruct (_ <? _)%nat; [apply le_refl|].
  destruct b as [|k r]; [apply le_refl|]. destruct (kind_of_byte k) as [kd|]; [|apply le_refl].
  destruct kd as [| | |i|f| |e|e|e kk|e kk|e|]; try apply le_refl; try (destruct e; try apply le_refl).
  - apply Hr.
  - apply le_bind; [apply le_refl|]. intros [cnt r1].
    apply le_bind; [apply loop1_mono; auto|]. intros [xs r2]. apply le_refl.
  - apply le_bind; [apply le_refl|]. intros [cnt r1].
    apply le_bind; [apply loop1_mono; auto|intros [xs r2]; apply le_refl].
    intros b'. unfold v1_map_elem. apply le_bind; [apply le_refl|]. intros [u r']. apply Hr.
  - apply le_bind; [apply le_refl|]. intros [cnt r1].
    apply le_bind; [apply loop1_mono; auto; intros ?; apply le_refl|]. intros [xs r2]. apply le_refl.
  - apply le_bind; [apply le_refl|]. intros [cnt r1].
    apply le_bind; [apply loop1_mono; auto|intros [xs r2]; apply le_refl].
    intros b'. unfold v1_field_elem. apply le_bind; [apply le_refl|]. intros [u r']. apply Hr.
  - apply le_bind; [apply le_refl|]. intros [id r1]. apply Hr.
Qed.

Theorem v1walk_mono : forall f f', (f <= f')%nat -> forall d b, v1walk f d b ⊑ v1walk f' d b.
Proof.
  induction f as [|f IH]; intros f' Hf d b; [apply le_fuel|].
  destruct f' as [|f']; [lia|]. cbn [v1walk]. apply v1_body_mono; [|lia].
  intros d' b'. apply IH. lia.
Qed.

(* [vsim x y]: v1walk's result x against the non-validating decoder's y: if v1walk accepts so does
   the decoder, leaving the same rest; v1walk runs out of fuel only where the decoder does *)
Definition vsim {U A} (x : result (U * list N)) (y : result (A * list N)) : Prop :=
  match x with
  | Ok (_, r) => exists a, y = Ok (a, r)
  | Err Fuel => y = Err Fuel
  | Err _ => True
  end.

Lemma vsim_bind {U V A B} (e : result (U * list N)) (e' : result (A * list N))
      (k : U * list N -> result (V * list N)) (k' : A * list N -> result (B * list N)) :
  vsim e e' -> (forall u a r, vsim (k (u, r)) (k' (a, r))) -> vsim (bind e k) (bind e' k').
Proof.
  destruct e as [[u r]|er]; cbn [vsim bind].
  - intros [a ->] H. cbn [bind]. apply H.
  - destruct er; intros H _; cbn [vsim]; auto. subst. reflexivity.
Qed.

Lemma vsim_bind_same {X U A} (e : result X) (k : X -> result (U * list N)) (k' : X -> result (A * list N)) :
  e <> Err Fuel -> (forall x, vsim (k x) (k' x)) -> vsim (bind e k) (bind e k').
Proof. destruct e as [x|er]; cbn [bind]; [auto|]. intros H _. destruct er; cbn [vsim]; auto; congruence. Qed.

Lemma vsim_map {U A B} (x : result (U * list N)) (y : result (A * list N)) (g : A -> B) :
  vsim x y -> vsim x ('(v, r') <- y ;; Ok (g v, r')).
Proof.
  destruct x as [[u r]|er]; cbn [vsim].
  - intros [a ->]. cbn [bind]. eauto.
  - destruct er; auto. intros ->. reflexivity.
Qed.

Lemma vsim_take {U A} n b (u : U) (g : list N -> A) :
  vsim ('(_, r) <- take n b ;; Ok (u, r)) ('(bs, r) <- take n b ;; Ok (g bs, r)).
Proof. destruct (take n b) as [[bs r]|e] eqn:E; cbn [bind vsim]; [eauto|]. apply take_err in E as [-> _]. exact I. Qed.

Lemma vsim_key kk b : vsim (v1_key kk b) (get_key false kk b).
Proof.
  destruct kk as [i| |]; cbn [v1_key get_key].
  - apply vsim_bind_same; [apply get_int_nofuel|]. intros [z r]. cbn [vsim]. eauto.
  - apply vsim_bind_same; [apply get_varint_nofuel|]. intros [n r]. cbn [negb orb]. apply (vsim_take n r tt KeyB).
  - apply (vsim_take 16 b tt KeyB).
Qed.

Lemma vsim_loop1 {U A} (elem : list N -> result (U * list N)) (elem' : list N -> result (A * list N)) :
  (forall b, vsim (elem b) (elem' b)) -> forall n cnt b, vsim (loop1 elem n cnt b) (loop1 elem' n cnt b).
Proof.
  intros He. induction n as [|n IH]; intros cnt b; cbn [loop1]; destruct (cnt =? 0); cbn [vsim]; eauto.
  apply vsim_bind; [apply He|]. intros u a r. apply vsim_bind; [apply IH|]. intros us xs r'. cbn [vsim]. eauto.
Qed.

Lemma v1_body_vsim (rec : walker unit) (rec' : walker Value) n :
  (forall d b, vsim (rec d b) (rec' d b)) ->
  forall d b, vsim (v1walk_body rec n d b) (de_body false rec' n d b).
Proof.
  intros Hr d b. unfold v1walk_body, de_body, v1_kind, de_kind. destruct (_ <? _)%nat; [exact I|].
  destruct b as [|k r]; [exact I|]. destruct (kind_of_byte k) as [kd|]; [|exact I].
  destruct kd as [| | |i|f| |e|e|e kk|e kk|e|]; try (destruct e; [|exact I]).
  - cbn [vsim]. eauto.
  - apply vsim_map, Hr.
  - destruct r as [|x r]; [exact I|]. change (x :: r) with ([x] ++ r). change 1 with (lenN [x]).
    rewrite take_app. cbn [bind vsim app]. eauto.
  - apply vsim_bind_same; [apply get_int_nofuel|]. intros [z r']. cbn [vsim]. eauto.
  - apply vsim_take.
  - apply vsim_bind_same; [apply get_varint_nofuel|]. intros [len r1]. cbn [negb orb]. apply (vsim_take len r1 tt VString).
  - apply vsim_bind_same; [apply get_varint_nofuel|]. intros [cnt r1].
    apply vsim_bind; [apply vsim_loop1, Hr|]. intros us xs r2. cbn [vsim]. eauto.
  - apply vsim_bind_same; [apply get_varint_nofuel|]. intros [cnt r1].
    destruct (take cnt r1) as [[bs r2]|e] eqn:E; cbn [bind vsim]; [eauto|].
    apply take_err in E as [-> _]. exact I.
  - apply vsim_bind_same; [apply get_varint_nofuel|]. intros [cnt r1].
    apply vsim_bind; [apply vsim_loop1|intros us xs r2; cbn [vsim]; eauto].
    intros b'. unfold v1_map_elem, map_elem. apply vsim_bind; [apply vsim_key|]. intros u key r'.
    apply vsim_map, Hr.
  - apply vsim_bind_same; [apply get_varint_nofuel|]. intros [cnt r1].
    apply vsim_bind; [apply vsim_loop1, vsim_key|]. intros us xs r2. cbn [vsim]. eauto.
  - apply vsim_bind_same; [apply get_varint_nofuel|]. intros [cnt r1].
    apply vsim_bind; [apply vsim_loop1|intros us xs r2; cbn [vsim]; eauto].
    intros b'. unfold v1_field_elem, field_elem. apply vsim_bind_same; [apply get_varint_nofuel|]. intros [id r'].
    apply vsim_map, Hr.
  - apply vsim_bind_same; [apply get_varint_nofuel|]. intros [id r1]. apply vsim_map, Hr.
Qed.

Theorem v1walk_vsim : forall f d b, vsim (v1walk f d b) (de false f d b).
Proof.
  induction f as [|f IH]; intros d b; cbn [v1walk de vsim]; [reflexivity|].
  apply v1_body_vsim. exact IH.
Qed.

Theorem v1walk_enough f d b : (length b < f)%nat -> v1walk f d b <> Err Fuel.
Proof.
  intros Hb E. pose proof (v1walk_vsim f d b) as S. rewrite E in S. cbn [vsim] in S.
  exact (de_enough false f d b Hb S).
Qed.

(* whatever v1walk accepts, the skip walker accepts (it is a restriction of it) *)
Theorem v1walk_skip f d b u r : v1walk f d b = Ok (u, r) -> skip f d b = Ok r.
Proof.
  intros H. pose proof (v1walk_vsim f d b) as S. rewrite H in S. cbn [vsim] in S. destruct S as [v S].
  pose proof (skip_sim f d b) as S2. rewrite S in S2.
  destruct (skip f d b) as [r0|e]; cbn [sim] in S2; [subst; reflexivity|contradiction].
Qed.

Corollary v1_only_stable b f :
  v1walk f 0%nat b = Ok (tt, []) -> v1_only b = true.
Proof.
  intros H. unfold v1_only.
  assert (v1walk (S (length b)) 0%nat b = Ok (tt, [])) as ->; [|reflexivity].
  destruct (Nat.le_gt_cases f (S (length b))) as [Hle|Hgt].
  - apply le_use; [|congruence]. rewrite <- H. apply v1walk_mono. exact Hle.
  - pose proof (v1walk_mono (S (length b)) f ltac:(lia) 0%nat b) as [E|E].
    + exfalso. eapply v1walk_enough; [|exact E]. lia.
    + congruence.
Qed.

(* ---------- top level ---------- *)
Theorem conv_value_idempotent b b' :
  bytes_ok b = true -> conv_value b = Ok (b', []) -> conv_value b' = Ok (b', []).
Proof.
  intros Hb H. destruct (conv_fixes _ _ _ _ _ H Hb) as (_ & R & _).
  specialize (R []). rewrite app_nil_r in R. eapply conv_value_stable; [exact R|discriminate].
Qed.

Theorem conv_value_v1_only b b' :
  bytes_ok b = true -> conv_value b = Ok (b', []) -> v1_only b' = true.
Proof.
  intros Hb H. destruct (conv_fixes _ _ _ _ _ H Hb) as (_ & _ & R).
  specialize (R []). rewrite app_nil_r in R. eapply v1_only_stable; exact R.
Qed.
