(* Extraction of the packetizer / stream-transport model for the C14 correspondence check
   (ExtrOcamlBasic only; numbers stay Coq's inductive positive/N; no Extract Constant). *)
From Aldrin Require Import Codec.Base Stream.Packetizer Stream.Tokio.
Require Extraction ExtrOcamlBasic.
Extraction Language OCaml.
Extraction "stream_model.ml" this_shape pk_new step spare_asserts drain_all
  tk_new receive_poll recv_fuel send_start send_poll_flush send_poll_ready
  bf_new b_receive_poll b_send_start b_send_poll_ready b_send_poll_flush lenN llen.
