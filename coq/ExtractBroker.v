(* Extraction of the broker model for the correspondence check (ExtrOcamlBasic only). *)
From Aldrin Require Import Broker.Model Broker.GateSpec.
From stdpp Require Import gmap.
Require Extraction ExtrOcamlBasic.
Extraction Language OCaml.
Definition map_size_conns (s : state) : nat := size (conns s).
Definition map_size_objs (s : state) : nat := size (objs s).
Definition map_size_svcs (s : state) : nat := size (svcs s).
Definition map_size_chans (s : state) : nat := size (chans s).
Definition map_size_lis (s : state) : nat := size (listeners s).
Definition map_size_calls (s : state) : nat := size (calls s).
Definition conn_ids (s : state) : list N := (fun p => p.1) <$> map_to_list (conns s).
Extraction "broker_model.ml" init step exits st conn_ids map_size_conns map_size_objs map_size_svcs
  map_size_chans map_size_lis map_size_calls N.of_nat N.to_nat
  min_version_of msg_min_version sm_choice.
