(* Extraction of the handshake model for the C12 correspondence (ExtrOcamlBasic only; numbers
   stay Coq's positive/N; no Extract Constant). *)
From Aldrin Require Import Proto.Accept.
Require Extraction ExtrOcamlBasic.
Extraction Language OCaml.
Extraction "accept_model.ml" select accept client_connect client_connect1 CLIENT_VERSION CLIENT1_VERSION.
