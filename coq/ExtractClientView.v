(* Extraction of the client view for the correspondence check (ExtrOcamlBasic only): the sessions
   observed at the clients' transports by harness `sched` are replayed through [replay_step]. *)
From Aldrin Require Import Broker.Model Proto.ClientView.
From stdpp Require Import gmap.
Require Extraction ExtrOcamlBasic.
Extraction Language OCaml.
Extraction "clientview_model.ml" view0 replay_step N.of_nat N.to_nat.
