(* Extraction of the codec model for the correspondence check (ExtrOcamlBasic only:
   bool/option/list/prod/unit/sumbool mapped to OCaml's; numbers stay Coq's inductive
   positive/N/Z; no Extract Constant). *)
From Aldrin Require Import Codec.Ser Codec.De Codec.Skip Codec.Convert.
Require Extraction ExtrOcamlBasic.
Extraction Language OCaml.
Extraction "codec_model.ml" serialize ser_raw de_as_value de_value skip_value value_len split_off
  de_as_serialized peek_kind kind_byte
  convert_api conv_value v1_only
  N.of_nat N.to_nat Z.of_N Z.to_N N.add N.mul Z.opp lenN.
