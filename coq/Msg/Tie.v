(* Msg/Tie.v — the descriptor table equals what the translator read from the source.
   gen/MsgSig.v lists, per message kind, every path through serialize_message and through
   deserialize_message as the sequence of primitive (de)serializer calls (match arms expanded,
   discriminants resolved through the #[repr(u8)] enums, sorted by the discriminants chosen).
   Here the same paths are computed from the descriptors; a drift on either side breaks
   [msg_sig_tie]. *)
From Aldrin Require Import Msg.Table gen.MsgSig gen.MsgKinds gen.Kinds Codec.Value.
From Coq Require Import String.
Open Scope N_scope.

(* writer paths of a field list *)
Fixpoint wp_field (f : field) : list (list wop) :=
  match f with
  | FU32 => [[WU32]]
  | FId => [[WUuid]]
  | FTag a => wp_alts a
  end
with wp_fields (fs : fields) : list (list wop) :=
  match fs with
  | FNil => [[]]
  | FCons f fs' =>
      let rest := wp_fields fs' in
      flat_map (fun p => map (app p) rest) (wp_field f)
  end
with wp_alts (a : alts) : list (list wop) :=
  match a with
  | ANil => []
  | ACons d fs a' => map (cons (WDisc d)) (wp_fields fs) ++ wp_alts a'
  end.

Fixpoint rp_field (f : field) : list (list rop) :=
  match f with
  | FU32 => [[RU32]]
  | FId => [[RUuid]]
  | FTag a => rp_alts a
  end
with rp_fields (fs : fields) : list (list rop) :=
  match fs with
  | FNil => [[]]
  | FCons f fs' =>
      let rest := rp_fields fs' in
      flat_map (fun p => map (app p) rest) (rp_field f)
  end
with rp_alts (a : alts) : list (list rop) :=
  match a with
  | ANil => []
  | ACons d fs a' => map (cons (RDisc d)) (rp_fields fs) ++ rp_alts a'
  end.

Fixpoint w_first (p : list wop) : option N :=
  match p with [] => None | WDisc d :: _ => Some d | _ :: r => w_first r end.
Fixpoint r_first (p : list rop) : option N :=
  match p with [] => None | RDisc d :: _ => Some d | _ :: r => r_first r end.

Definition branch_has_value (vm : vmode) (first : option N) : bool :=
  match vm with
  | NoValue => false
  | WithValue => true
  | PerBranch sel => match first with Some d => existsb (N.eqb d) sel | None => false end
  end.

(* constructor first (with_value where the branch carries the payload, with_none_value where it
   does not), finish last *)
Definition wpaths (d : desc) : list (list wop) :=
  map (fun p =>
         (match dvmode d with
          | NoValue => WWithout
          | vm => if branch_has_value vm (w_first p) then WWith else WNone
          end) :: p ++ [WFinish])
      (wp_fields (dfields d)).

(* finish() returns the payload, finish_discard_value() drops it *)
Definition rpaths (d : desc) : list (list rop) :=
  map (fun p =>
         (match dvmode d with NoValue => RWithout | _ => RWith end) :: p ++
         [match dvmode d with
          | NoValue => RFinish
          | vm => if branch_has_value vm (r_first p) then RFinish else RFinishDiscard
          end])
      (rp_fields (dfields d)).

Definition sig_of_desc (d : desc) : msg_sig :=
  {| sig_name := dname d; sig_kind := dkind d;
     sig_has_value := match dvmode d with NoValue => false | _ => true end;
     sig_write := wpaths d; sig_read := rpaths d |}.

(* the tie: all 63 kinds, writer and reader *)
Example msg_sig_tie : map sig_of_desc table = msg_sigs.
Proof. vm_compute. reflexivity. Qed.

Example msg_kind_tie : map (fun d => (dname d, dkind d)) table = message_kind_table.
Proof. vm_compute. reflexivity. Qed.

Example msg_has_value_tie :
  map (fun d => (dname d, match dvmode d with NoValue => false | _ => true end)) table
  = message_has_value_table.
Proof. vm_compute. reflexivity. Qed.

(* with_none_value writes SerializedValue::serialize(()): the kind byte of ValueKind::None *)
Example none_value_tie : none_value = [kind_byte KNone].
Proof. reflexivity. Qed.

Example msg_kind_count : List.length table = 63%nat.
Proof. reflexivity. Qed.
