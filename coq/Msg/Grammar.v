(* Msg/Grammar.v — the message codec of core/src/message/*.rs as ONE generic encoder/decoder over
   a small field grammar.  Executable model, no proofs (see GrammarProofs.v / MsgProofs.v).

   Rust transcribed here:
   * core/src/message/serializer.rs   MessageSerializer::{without_value, with_value,
                                      with_none_value, put_*, finish}        -> [ser_with]
   * core/src/message/deserializer.rs Message{Without,With}ValueDeserializer::{new, try_get_*,
                                      finish, finish_discard_value}          -> [parse_with]
   * core/src/buf_ext.rs              MessageBufExt (try_get_discriminant_u8, ensure_discriminant_u8,
                                      try_get_varint_u32_le)                 -> [parse_field], Base.get_varint
   * core/src/message.rs              Message::deserialize_message dispatch  -> [parse_msg_in]
   The 63 per-kind (de)serializers are instances: one descriptor each in Msg/Table.v, tied to the
   source by gen/MsgSig.v (Msg/Tie.v).

   Errors reuse Codec.Base.err:  Eoi = UnexpectedEoi, Invalid = InvalidSerialization (decoding) /
   InvalidValue (encoding), TrailingData, Overflow; see the three aliases below. *)
From Aldrin Require Export Codec.Base.
From Coq Require Import String.
Open Scope N_scope.

(* MessageDeserializeError::UnexpectedMessage *)
Definition EUnexpectedMessage : err := UnexpectedValue.
(* MessageSerializeError::InvalidValue *)
Definition EInvalidValue : err := Invalid.
(* model only: a generic message that does not fit its descriptor (wrong field shapes, value
   present/absent against the kind).  Such a [msg] has no Rust counterpart: the typed structs
   cannot express it. *)
Definition EIllTyped : err := MoreElementsRemain.

(* ---------- the field grammar ----------
   FU32  : put_varint_u32_le / try_get_varint_u32_le
   FId : put_uuid / try_get_uuid (16 raw bytes)
   FTag  : put_discriminant_u8(d) / try_get_discriminant_u8 followed by the fields of the
           alternative numbered d (an enum result, an Option, a filter, a channel end ...). *)
Inductive field := FU32 | FId | FTag (a : alts)
with fields := FNil | FCons (f : field) (fs : fields)
with alts := ANil | ACons (d : N) (fs : fields) (a : alts).

(* field values of a concrete message *)
Inductive fval := VU32 (n : N) | VId (u : list N) | VTag (d : N) (vs : list fval).

(* which messages carry a SerializedValue: never (MessageSerializer::without_value), always
   (with_value), or depending on the alternative of the message's first tagged field: the
   alternatives listed carry the value, the others are written with_none_value and read with
   finish_discard_value (CallFunctionReply, ConnectReply, QueryIntrospectionReply,
   QueryServiceInfoReply). *)
Inductive vmode := NoValue | WithValue | PerBranch (sel : list N).

Record desc := { dname : string; dkind : N; dfields : fields; dvmode : vmode }.

(* a message: kind byte, field values in wire order, payload bytes (the SerializedValue) *)
Record msg := { mkind : N; mfields : list fval; mvalue : option (list N) }.

(* ---------- encoding of fields (value driven) ---------- *)
Fixpoint ser_fval (v : fval) : list N :=
  match v with
  | VU32 n => put_varint 4 n
  | VId u => u
  | VTag d vs => d :: flat_map ser_fval vs
  end.
Definition ser_fvals (vs : list fval) : list N := flat_map ser_fval vs.

(* ---------- typing: does a value list fit a field list (u32 range, 16 uuid bytes, known
   discriminant) ---------- *)
Fixpoint chk_field (f : field) (v : fval) : bool :=
  match f, v with
  | FU32, VU32 n => n <=? u32_max
  | FId, VId u => (lenN u =? 16) && bytes_ok u
  | FTag a, VTag d vs => chk_alts a d vs
  | _, _ => false
  end
with chk_fields (fs : fields) (vs : list fval) : bool :=
  match fs, vs with
  | FNil, [] => true
  | FCons f fs', v :: vs' => chk_field f v && chk_fields fs' vs'
  | _, _ => false
  end
with chk_alts (a : alts) (d : N) (vs : list fval) : bool :=
  match a with
  | ANil => false
  | ACons d' fs a' => if d =? d' then chk_fields fs vs else chk_alts a' d vs
  end.

(* ---------- decoding of fields ---------- *)
Fixpoint parse_field (f : field) (b : list N) : result (fval * list N) :=
  match f with
  | FU32 => '(n, r) <- get_varint 4 b ;; Ok (VU32 n, r)
  | FId => '(u, r) <- take 16 b ;; Ok (VId u, r)
  | FTag a =>
      (* try_get_discriminant_u8: Eoi on empty input, Invalid on a byte that is no variant *)
      match b with [] => Err Eoi | d :: r => parse_alts a d r end
  end
with parse_fields (fs : fields) (b : list N) : result (list fval * list N) :=
  match fs with
  | FNil => Ok ([], b)
  | FCons f fs' =>
      '(v, r) <- parse_field f b ;; '(vs, r') <- parse_fields fs' r ;; Ok (v :: vs, r')
  end
with parse_alts (a : alts) (d : N) (b : list N) : result (fval * list N) :=
  match a with
  | ANil => Err Invalid
  | ACons d' fs a' =>
      if d =? d' then '(vs, r) <- parse_fields fs b ;; Ok (VTag d vs, r) else parse_alts a' d b
  end.

(* ---------- value presence ---------- *)
Fixpoint first_disc (vs : list fval) : option N :=
  match vs with
  | [] => None
  | VTag d _ :: _ => Some d
  | _ :: r => first_disc r
  end.

Definition has_value (vm : vmode) (vs : list fval) : bool :=
  match vm with
  | NoValue => false
  | WithValue => true
  | PerBranch sel =>
      match first_disc vs with Some d => existsb (N.eqb d) sel | None => false end
  end.

(* SerializedValue::serialize(()) : the one byte ValueKind::None (tied in Msg/Tie.v) *)
Definition none_value : list N := [0].

(* ---------- MessageSerializer ---------- *)
(* without_value: BytesMut::zeroed(4) + kind *)
Definition ms_without_value (k : N) : list N := [0; 0; 0; 0; k].

(* with_value: the SerializedValue buffer is 9 reserved bytes + payload; fewer than 10 bytes
   => InvalidValue; payload longer than u32::MAX => Overflow *)
Definition ms_with_value (k : N) (v : list N) : result (list N) :=
  if 9 + lenN v <? 10 then Err EInvalidValue
  else if u32_max <? lenN v then Err Overflow
  else Ok ([0; 0; 0; 0; k] ++ to_le 4 (lenN v) ++ v).

(* finish: total length into the first four bytes, Overflow above u32::MAX *)
Definition ms_finish (buf : list N) : result (list N) :=
  if lenN buf <=? u32_max then Ok (to_le 4 (lenN buf) ++ skipn 4 buf) else Err Overflow.

(* does the kind carry a value on the wire at all (MessageKind::has_value) *)
Definition carries (d : desc) : bool :=
  match dvmode d with NoValue => false | _ => true end.

(* the constructor call: with_value(payload) on a path that carries the payload,
   with_none_value on the other paths of a value-carrying kind, else without_value *)
Definition ser_start (d : desc) (m : msg) : result (list N) :=
  if has_value (dvmode d) (mfields m) then
    match mvalue m with
    | Some v => ms_with_value (dkind d) v
    | None => Err EIllTyped
    end
  else
    match mvalue m with
    | Some _ => Err EIllTyped
    | None => if carries d then ms_with_value (dkind d) none_value   (* with_none_value *)
              else Ok (ms_without_value (dkind d))
    end.

Definition ser_with (d : desc) (m : msg) : result (list N) :=
  if negb (mkind m =? dkind d) then Err EIllTyped else
  if negb (chk_fields (dfields d) (mfields m)) then Err EIllTyped else
  start <- ser_start d m ;;
  ms_finish (start ++ ser_fvals (mfields m)).

(* ---------- Message{Without,With}ValueDeserializer ---------- *)
Definition le32_at (off : nat) (f : list N) : N := from_le (firstn 4 (skipn off f)).

(* MessageWithoutValueDeserializer::new + the field readers + finish.
   [known k]: k converts to a MessageKind (ensure_discriminant_u8 goes through
   try_get_discriminant_u8::<MessageKind>) *)
Definition parse_without (known : N -> bool) (d : desc) (f : list N) : result msg :=
  if lenN f <? 5 then Err Eoi else
  if negb (le32_at 0 f =? lenN f) then Err Invalid else
  let k := nth 4 f 0 in
  if negb (known k) then Err Invalid else
  if negb (k =? dkind d) then Err EUnexpectedMessage else
  '(vs, r) <- parse_fields (dfields d) (skipn 5 f) ;;
  match r with
  | [] => Ok {| mkind := dkind d; mfields := vs; mvalue := None |}
  | _ => Err TrailingData
  end.

(* MessageWithValueDeserializer::new + the field readers + finish / finish_discard_value *)
Definition parse_with_value (d : desc) (f : list N) : result msg :=
  if lenN f <? 10 then Err Eoi else
  if negb (le32_at 0 f =? lenN f) then Err Invalid else
  if negb (nth 4 f 0 =? dkind d) then Err EUnexpectedMessage else
  let vl := le32_at 5 f in
  if vl <? 1 then Err Invalid else
  if lenN f - 9 <? vl then Err Eoi else
  '(v, rest) <- take vl (skipn 9 f) ;;            (* split_off(9 + value_len) *)
  '(vs, r) <- parse_fields (dfields d) rest ;;
  match r with
  | [] => Ok {| mkind := dkind d; mfields := vs;
                mvalue := if has_value (dvmode d) vs then Some v else None |}
  | _ => Err TrailingData
  end.

Definition parse_with (known : N -> bool) (d : desc) (f : list N) : result msg :=
  if carries d then parse_with_value d f else parse_without known d f.

(* ---------- a table of descriptors: Message::{serialize,deserialize}_message ---------- *)
Fixpoint desc_of (table : list desc) (k : N) : option desc :=
  match table with
  | [] => None
  | d :: t => if dkind d =? k then Some d else desc_of t k
  end.

Definition known_in (table : list desc) (k : N) : bool :=
  match desc_of table k with Some _ => true | None => false end.

Definition ser_msg_in (table : list desc) (m : msg) : result (list N) :=
  match desc_of table (mkind m) with
  | Some d => ser_with d m
  | None => Err EIllTyped
  end.

(* Message::deserialize_message *)
Definition parse_msg_in (table : list desc) (f : list N) : result msg :=
  if lenN f <? 5 then Err Eoi else
  match desc_of table (nth 4 f 0) with
  | None => Err Invalid
  | Some d => parse_with (known_in table) d f
  end.

(* <X as MessageOps>::deserialize_message for the kind numbered k *)
Definition parse_as_in (table : list desc) (k : N) (f : list N) : result msg :=
  match desc_of table k with
  | None => Err EIllTyped
  | Some d => parse_with (known_in table) d f
  end.

(* ---------- well-formed messages: what the typed Rust structs can hold and MessageSerializer
   accepts (non-empty payload where there is one, total length within u32) ---------- *)
Definition value_part_len (d : desc) (m : msg) : N :=
  if carries d then 4 + match mvalue m with Some v => lenN v | None => 1 end else 0.

Definition wf_with (d : desc) (m : msg) : bool :=
  (mkind m =? dkind d) &&
  chk_fields (dfields d) (mfields m) &&
  (if has_value (dvmode d) (mfields m)
   then match mvalue m with Some v => (1 <=? lenN v) && bytes_ok v | None => false end
   else match mvalue m with Some _ => false | None => true end) &&
  (5 + value_part_len d m + lenN (ser_fvals (mfields m)) <=? u32_max).

Definition wf_msg_in (table : list desc) (m : msg) : bool :=
  match desc_of table (mkind m) with Some d => wf_with d m | None => false end.
