(* Msg/Table.v — one descriptor per MessageKind (63), in the field order of the per-message
   serialize_message / deserialize_message of core/src/message/<kind>.rs, and the instances of the
   generic codec for this table.  Tied to the source by Msg/Tie.v: the call paths computed from
   these descriptors equal the ones the translator read from the 63 files (gen/MsgSig.v). *)
From Aldrin Require Export Msg.Grammar.
From Coq Require Import String.
Open Scope string_scope.
Open Scope N_scope.

(* list syntax for the mutual grammar *)
Fixpoint fl (l : list field) : fields :=
  match l with [] => FNil | f :: r => FCons f (fl r) end.
Fixpoint al (l : list (N * fields)) : alts :=
  match l with [] => ANil | (d, fs) :: r => ACons d fs (al r) end.
Definition tag (l : list (N * list field)) : field :=
  FTag (al (map (fun p => (fst p, fl (snd p))) l)).

(* OptionKind { None = 0, Some = 1 } around one field *)
Definition opt (f : field) : field := tag [(0, []); (1, [f])].
(* a fieldless #[repr(u8)] enum with discriminants 0..n-1 written by put_discriminant_u8(self.x) *)
Definition enum2 : field := tag [(0, []); (1, [])].
Definition enum3 : field := tag [(0, []); (1, []); (2, [])].
(* ChannelEndWithCapacity: ChannelEnd::Sender = 0 | ChannelEnd::Receiver = 1 + capacity *)
Definition chan_end_cap : field := tag [(0, []); (1, [FU32])].
(* BusListenerFilter::serialize_into_message (core/src/bus_listener.rs), BusListenerFilterKind *)
Definition bl_filter : field :=
  tag [(0, []); (1, [FId]); (2, []); (3, [FId]); (4, [FId]); (5, [FId; FId])].
(* BusEvent, BusEventKind: Object{Created,Destroyed}(uuid, cookie),
   Service{Created,Destroyed}(object uuid, object cookie, uuid, cookie) *)
Definition bus_event : field :=
  tag [(0, [FId; FId]); (1, [FId; FId]); (2, [FId; FId; FId; FId]); (3, [FId; FId; FId; FId])].

Definition D (name : string) (k : N) (vm : vmode) (fs : list field) : desc :=
  {| dname := name; dkind := k; dfields := fl fs; dvmode := vm |}.

Definition table : list desc := [
  D "Connect"                     0 WithValue [FU32];
  D "ConnectReply"                1 (PerBranch [0; 2]) [tag [(0, []); (1, [FU32]); (2, [])]];
  D "Shutdown"                    2 NoValue [];
  D "CreateObject"                3 NoValue [FU32; FId];
  D "CreateObjectReply"           4 NoValue [FU32; tag [(0, [FId]); (1, [])]];
  D "DestroyObject"               5 NoValue [FU32; FId];
  D "DestroyObjectReply"          6 NoValue [FU32; enum3];
  D "CreateService"               7 NoValue [FU32; FId; FId; FU32];
  D "CreateServiceReply"          8 NoValue [FU32; tag [(0, [FId]); (1, []); (2, []); (3, [])]];
  D "DestroyService"              9 NoValue [FU32; FId];
  D "DestroyServiceReply"        10 NoValue [FU32; enum3];
  D "CallFunction"               11 WithValue [FU32; FId; FU32];
  D "CallFunctionReply"          12 (PerBranch [0; 1])
                                    [FU32; tag [(0, []); (1, []); (2, []); (3, []); (4, []); (5, [])]];
  D "SubscribeEvent"             13 NoValue [opt FU32; FId; FU32];
  D "SubscribeEventReply"        14 NoValue [FU32; enum2];
  D "UnsubscribeEvent"           15 NoValue [FId; FU32];
  D "EmitEvent"                  16 WithValue [FId; FU32];
  D "QueryServiceVersion"        17 NoValue [FU32; FId];
  D "QueryServiceVersionReply"   18 NoValue [FU32; tag [(0, [FU32]); (1, [])]];
  D "CreateChannel"              19 NoValue [FU32; chan_end_cap];
  D "CreateChannelReply"         20 NoValue [FU32; FId];
  D "CloseChannelEnd"            21 NoValue [FU32; FId; enum2];
  D "CloseChannelEndReply"       22 NoValue [FU32; enum3];
  D "ChannelEndClosed"           23 NoValue [FId; enum2];
  D "ClaimChannelEnd"            24 NoValue [FU32; FId; chan_end_cap];
  D "ClaimChannelEndReply"       25 NoValue [FU32; tag [(0, [FU32]); (1, []); (2, []); (3, [])]];
  D "ChannelEndClaimed"          26 NoValue [FId; chan_end_cap];
  D "SendItem"                   27 WithValue [FId];
  D "ItemReceived"               28 WithValue [FId];
  D "AddChannelCapacity"         29 NoValue [FId; FU32];
  D "Sync"                       30 NoValue [FU32];
  D "SyncReply"                  31 NoValue [FU32];
  D "ServiceDestroyed"           32 NoValue [FId];
  D "CreateBusListener"          33 NoValue [FU32];
  D "CreateBusListenerReply"     34 NoValue [FU32; FId];
  D "DestroyBusListener"         35 NoValue [FU32; FId];
  D "DestroyBusListenerReply"    36 NoValue [FU32; enum2];
  D "AddBusListenerFilter"       37 NoValue [FId; bl_filter];
  D "RemoveBusListenerFilter"    38 NoValue [FId; bl_filter];
  D "ClearBusListenerFilters"    39 NoValue [FId];
  D "StartBusListener"           40 NoValue [FU32; FId; enum3];
  D "StartBusListenerReply"      41 NoValue [FU32; enum3];
  D "StopBusListener"            42 NoValue [FU32; FId];
  D "StopBusListenerReply"       43 NoValue [FU32; enum3];
  D "EmitBusEvent"               44 NoValue [opt FId; bus_event];
  D "BusListenerCurrentFinished" 45 NoValue [FId];
  D "Connect2"                   46 WithValue [FU32; FU32];
  D "ConnectReply2"              47 WithValue [tag [(0, [FU32]); (1, []); (2, [])]];
  D "AbortFunctionCall"          48 NoValue [FU32];
  D "RegisterIntrospection"      49 WithValue [];
  D "QueryIntrospection"         50 NoValue [FU32; FId];
  D "QueryIntrospectionReply"    51 (PerBranch [0]) [FU32; enum2];
  D "CreateService2"             52 WithValue [FU32; FId; FId];
  D "QueryServiceInfo"           53 NoValue [FU32; FId];
  D "QueryServiceInfoReply"      54 (PerBranch [0]) [FU32; enum2];
  D "SubscribeService"           55 NoValue [FU32; FId];
  D "SubscribeServiceReply"      56 NoValue [FU32; enum2];
  D "UnsubscribeService"         57 NoValue [FId];
  D "SubscribeAllEvents"         58 NoValue [opt FU32; FId];
  D "SubscribeAllEventsReply"    59 NoValue [FU32; enum3];
  D "UnsubscribeAllEvents"       60 NoValue [opt FU32; FId];
  D "UnsubscribeAllEventsReply"  61 NoValue [FU32; enum3];
  D "CallFunction2"              62 WithValue [FU32; FId; FU32; opt FU32]
].

(* Message::serialize_message / Message::deserialize_message / <X>::deserialize_message *)
Definition ser_msg (m : msg) : result (list N) := ser_msg_in table m.
Definition parse_msg (f : list N) : result msg := parse_msg_in table f.
Definition parse_as (k : N) (f : list N) : result msg := parse_as_in table k f.
Definition wf_msg (m : msg) : bool := wf_msg_in table m.
Definition known_kind (k : N) : bool := known_in table k.
