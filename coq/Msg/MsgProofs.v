(* Msg/MsgProofs.v — the three C08 theorems for the generic codec over ANY descriptor table
   (hence for all 63 kinds of Msg/Table.v at once):
   * roundtrip_in : a well-formed message serializes to a frame whose length prefix is its length
                    and that parses back to the same message (fields and payload);
   * strict_in    : an accepted frame has a matching length prefix, a known kind, and splits
                    exactly into header, value part and field bytes with nothing left over;
   * reser_in     : whatever is accepted (from a byte string) is well formed, so it re-serializes
                    to a frame that parses to the same message. *)
From Aldrin Require Import Codec.Base Codec.BaseProofs Msg.Grammar Msg.GrammarProofs.
From Coq Require Import ZifyBool ZifyNat ZifyN.
Ltac Zify.zify_post_hook ::= Z.div_mod_to_equations.
Open Scope N_scope.
Arguments N.add : simpl never.
Arguments N.sub : simpl never.
Arguments N.mul : simpl never.
Arguments N.div : simpl never.
Arguments N.modulo : simpl never.
Arguments N.pow : simpl never.
Arguments N.ltb : simpl never.
Arguments N.leb : simpl never.
Arguments N.eqb : simpl never.

(* ---------- frames: a 4-element header, the kind, the rest ---------- *)
Ltac four h := destruct h as [|? [|? [|? [|? [|? ?]]]]]; try discriminate.

Lemma hdr_firstn (h r : list N) : length h = 4%nat -> firstn 4 (h ++ r) = h.
Proof. intros H. four h. reflexivity. Qed.

Lemma hdr_nth (h : list N) k r : length h = 4%nat -> nth 4 (h ++ k :: r) 0 = k.
Proof. intros H. four h. reflexivity. Qed.

Lemma hdr_skip5 (h : list N) k r : length h = 4%nat -> skipn 5 (h ++ k :: r) = r.
Proof. intros H. four h. reflexivity. Qed.

Lemma hdr_skip9 (h h2 : list N) k r :
  length h = 4%nat -> length h2 = 4%nat -> skipn 9 (h ++ k :: h2 ++ r) = r.
Proof. intros H H2. four h. four h2. reflexivity. Qed.

Lemma hdr_len (h : list N) k r : length h = 4%nat -> lenN (h ++ k :: r) = 5 + lenN r.
Proof. intros H. rewrite lenN_app, lenN_cons. unfold lenN at 1. rewrite H. lia. Qed.

Lemma le32_at0 (h r : list N) : length h = 4%nat -> le32_at 0 (h ++ r) = from_le h.
Proof. intros H. unfold le32_at. cbn [skipn]. rewrite hdr_firstn by exact H. reflexivity. Qed.

Lemma le32_at5 (h h2 : list N) k r :
  length h = 4%nat -> length h2 = 4%nat -> le32_at 5 (h ++ k :: h2 ++ r) = from_le h2.
Proof. intros H H2. unfold le32_at. rewrite hdr_skip5 by exact H. rewrite hdr_firstn by exact H2. reflexivity. Qed.

(* any list of at least 5 elements is header ++ kind :: rest *)
Lemma split5 (f : list N) : 5 <= lenN f ->
  f = firstn 4 f ++ nth 4 f 0 :: skipn 5 f /\ length (firstn 4 f) = 4%nat.
Proof.
  intros H. destruct f as [|a [|b [|c [|e [|k r]]]]]; unfold lenN in H; cbn [length] in H; try lia.
  split; reflexivity.
Qed.

Lemma split4 (g : list N) : 4 <= lenN g ->
  g = firstn 4 g ++ skipn 4 g /\ length (firstn 4 g) = 4%nat.
Proof.
  intros H. destruct g as [|a [|b [|c [|e r]]]]; unfold lenN in H; cbn [length] in H; try lia.
  split; reflexivity.
Qed.

Lemma to_le4_len n : length (to_le 4 n) = 4%nat.
Proof. apply to_le_length. Qed.

Lemma from_to_le4 n : n <= u32_max -> from_le (to_le 4 n) = n.
Proof. intros H. apply from_to_le. change (256 ^ N.of_nat 4) with 4294967296. unfold u32_max in H. lia. Qed.

(* ---------- the frame a well-formed message serializes to ---------- *)
Definition payload_of (m : msg) : list N :=
  match mvalue m with Some v => v | None => none_value end.

(* value length (4 bytes LE) and value bytes, for kinds that carry a value *)
Definition value_bytes (d : desc) (m : msg) : list N :=
  if carries d then to_le 4 (lenN (payload_of m)) ++ payload_of m else [].

Definition frame_of (d : desc) (m : msg) : list N :=
  let body := dkind d :: value_bytes d m ++ ser_fvals (mfields m) in
  to_le 4 (4 + lenN body) ++ body.

Lemma has_value_carries d vs : has_value (dvmode d) vs = true -> carries d = true.
Proof. unfold carries. destruct (dvmode d); cbn [has_value]; [discriminate|reflexivity|reflexivity]. Qed.

Lemma value_bytes_len d m : lenN (value_bytes d m) = if carries d then 4 + lenN (payload_of m) else 0.
Proof.
  unfold value_bytes. destruct (carries d); [|reflexivity].
  rewrite lenN_app. unfold lenN at 1. rewrite to_le4_len. lia.
Qed.

(* facts packed in wf_with *)
Lemma wf_with_inv d m : wf_with d m = true ->
  mkind m = dkind d /\ chk_fields (dfields d) (mfields m) = true /\
  (if has_value (dvmode d) (mfields m)
   then exists v, mvalue m = Some v /\ 1 <= lenN v /\ bytes_ok v = true
   else mvalue m = None) /\
  5 + value_part_len d m + lenN (ser_fvals (mfields m)) <= u32_max.
Proof.
  unfold wf_with. intros H. apply andb_prop in H as [H H4]. apply andb_prop in H as [H H3].
  apply andb_prop in H as [H1 H2]. split; [lia|]. split; [exact H2|]. split; [|lia].
  destruct (has_value _ _).
  - destruct (mvalue m) as [v|]; [|discriminate]. apply andb_prop in H3 as [Ha Hb].
    exists v. split; [reflexivity|]. split; [lia|exact Hb].
  - destruct (mvalue m); [discriminate|reflexivity].
Qed.

Lemma value_part_len_eq d m :
  (if has_value (dvmode d) (mfields m) then exists v, mvalue m = Some v /\ 1 <= lenN v /\ bytes_ok v = true
   else mvalue m = None) ->
  value_part_len d m = lenN (value_bytes d m) /\
  (carries d = true -> 1 <= lenN (payload_of m) /\ lenN (payload_of m) + 4 <= value_part_len d m).
Proof.
  intros Hv. rewrite value_bytes_len. unfold value_part_len, payload_of.
  destruct (carries d); [|split; [reflexivity|discriminate]].
  destruct (has_value _ _).
  - destruct Hv as (v & -> & Hl & _). split; [reflexivity|]. intros _. lia.
  - rewrite Hv. split; [reflexivity|]. intros _. unfold none_value, lenN. cbn [length]. lia.
Qed.

Lemma finish_spec k rest : 5 + lenN rest <= u32_max ->
  ms_finish ([0; 0; 0; 0; k] ++ rest) = Ok (to_le 4 (4 + lenN (k :: rest)) ++ k :: rest).
Proof.
  intros H. unfold ms_finish. cbn [app skipn]. rewrite !lenN_cons.
  destruct (N.leb_spec (1 + (1 + (1 + (1 + (1 + lenN rest))))) u32_max); [|lia].
  f_equal. f_equal. f_equal. lia.
Qed.

Lemma with_value_spec k v : 1 <= lenN v -> lenN v <= u32_max ->
  ms_with_value k v = Ok ([0; 0; 0; 0; k] ++ to_le 4 (lenN v) ++ v).
Proof.
  intros H1 H2. unfold ms_with_value.
  destruct (N.ltb_spec (9 + lenN v) 10); [lia|]. destruct (N.ltb_spec u32_max (lenN v)); [lia|]. reflexivity.
Qed.

Theorem ser_with_frame d m : wf_with d m = true -> ser_with d m = Ok (frame_of d m).
Proof.
  intros Hwf. destruct (wf_with_inv _ _ Hwf) as (Hk & Hc & Hv & Hlen).
  destruct (value_part_len_eq _ _ Hv) as (Hvl & Hpay). rewrite Hvl in Hlen.
  unfold ser_with. rewrite Hk, N.eqb_refl, Hc. cbn [negb].
  assert (ser_start d m = Ok ([0; 0; 0; 0; dkind d] ++ value_bytes d m)) as ->.
  { pose proof Hlen as Hlen2. rewrite value_bytes_len in Hlen2.
    unfold ser_start, value_bytes. destruct (has_value (dvmode d) (mfields m)) eqn:Ehv.
    - rewrite (has_value_carries _ _ Ehv) in *. destruct Hv as (v & Ev & Hl & _).
      unfold payload_of in *. rewrite Ev in *.
      apply with_value_spec; lia.
    - unfold payload_of in *. rewrite Hv in *. destruct (carries d) eqn:Ec.
      + apply with_value_spec; unfold none_value, lenN, u32_max; cbn [length]; lia.
      + reflexivity. }
  cbn [bind]. rewrite <- app_assoc. rewrite finish_spec by (rewrite lenN_app; lia). reflexivity.
Qed.

(* ---------- parsing the frame of a well-formed message ---------- *)
Theorem parse_frame known d m :
  wf_with d m = true -> known (dkind d) = true -> parse_with known d (frame_of d m) = Ok m.
Proof.
  intros Hwf Hknown. destruct (wf_with_inv _ _ Hwf) as (Hk & Hc & Hv & Hlen).
  destruct (value_part_len_eq _ _ Hv) as (Hvl & Hpay). rewrite Hvl in Hlen.
  destruct m as [mk mfs mv]. cbn [mkind mfields mvalue] in *. subst mk.
  unfold frame_of. cbn [mfields].
  set (vb := value_bytes d _) in *. set (fb := ser_fvals mfs) in *.
  set (L := 4 + lenN (dkind d :: vb ++ fb)).
  assert (L = 5 + lenN vb + lenN fb) as HL by (unfold L; rewrite lenN_cons, lenN_app; lia).
  assert (lenN (to_le 4 L ++ dkind d :: vb ++ fb) = L) as Hlenf
    by (rewrite hdr_len by apply to_le4_len; rewrite lenN_app; lia).
  assert (le32_at 0 (to_le 4 L ++ dkind d :: vb ++ fb) = L) as Hle
    by (rewrite le32_at0 by apply to_le4_len; apply from_to_le4; lia).
  pose proof (proj1 (proj2 fields_roundtrip) _ _ [] Hc) as Hrt. rewrite app_nil_r in Hrt. fold fb in Hrt.
  unfold parse_with. destruct (carries d) eqn:Ec.
  - (* with value *)
    specialize (Hpay eq_refl). destruct Hpay as (Hp1 & Hp2).
    unfold vb, value_bytes in *. rewrite Ec in *. cbn [mvalue] in *.
    set (pay := payload_of _) in *.
    unfold parse_with_value. rewrite Hlenf, Hle, N.eqb_refl.
    rewrite hdr_nth by apply to_le4_len. rewrite N.eqb_refl. cbn [negb].
    rewrite <- app_assoc. rewrite le32_at5 by apply to_le4_len.
    rewrite lenN_app in HL. unfold lenN at 1 in HL. rewrite to_le4_len in HL.
    rewrite from_to_le4 by lia.
    destruct (N.ltb_spec L 10); [lia|]. destruct (N.ltb_spec (lenN pay) 1); [lia|].
    destruct (N.ltb_spec (L - 9) (lenN pay)); [lia|].
    rewrite hdr_skip9 by apply to_le4_len. rewrite take_app. cbn [bind]. rewrite Hrt. cbn [bind].
    f_equal. f_equal. unfold pay, payload_of. cbn [mvalue].
    destruct (has_value (dvmode d) mfs).
    + destruct Hv as (v & -> & _). reflexivity.
    + rewrite Hv. reflexivity.
  - (* without value *)
    assert (has_value (dvmode d) mfs = false) as Ehv.
    { destruct (has_value (dvmode d) mfs) eqn:E; [|reflexivity]. apply has_value_carries in E. congruence. }
    rewrite Ehv in Hv. subst mv.
    unfold vb, value_bytes in *. rewrite Ec in *. cbn [app] in *.
    unfold parse_without. rewrite Hlenf, Hle, N.eqb_refl. cbn [negb].
    rewrite hdr_nth by apply to_le4_len. rewrite Hknown, N.eqb_refl. cbn [negb].
    destruct (N.ltb_spec L 5); [lia|].
    rewrite hdr_skip5 by apply to_le4_len. rewrite Hrt. reflexivity.
Qed.

Lemma frame_prefix d m : wf_with d m = true ->
  from_le (firstn 4 (frame_of d m)) = lenN (frame_of d m).
Proof.
  intros Hwf. destruct (wf_with_inv _ _ Hwf) as (_ & _ & Hv & Hlen).
  destruct (value_part_len_eq _ _ Hv) as (Hvl & _). rewrite Hvl in Hlen.
  unfold frame_of. cbn zeta. rewrite hdr_firstn by apply to_le4_len.
  rewrite hdr_len by apply to_le4_len. rewrite lenN_cons, lenN_app.
  rewrite from_to_le4 by lia. lia.
Qed.

(* ---------- C08_roundtrip, any table ---------- *)
Theorem roundtrip_in table m :
  wf_msg_in table m = true ->
  exists f, ser_msg_in table m = Ok f /\ from_le (firstn 4 f) = lenN f /\ parse_msg_in table f = Ok m.
Proof.
  unfold wf_msg_in, ser_msg_in. destruct (desc_of table (mkind m)) as [d|] eqn:Ed; [|discriminate].
  intros Hwf. exists (frame_of d m). split; [apply ser_with_frame; exact Hwf|].
  split; [apply frame_prefix; exact Hwf|].
  pose proof (desc_of_kind _ _ _ Ed) as Hk.
  destruct (wf_with_inv _ _ Hwf) as (_ & _ & Hv & Hlen).
  unfold parse_msg_in.
  assert (5 <= lenN (frame_of d m)) as H5.
  { unfold frame_of. cbn zeta. rewrite hdr_len by apply to_le4_len. lia. }
  destruct (N.ltb_spec (lenN (frame_of d m)) 5); [lia|].
  assert (nth 4 (frame_of d m) 0 = dkind d) as -> by (unfold frame_of; cbn zeta; apply hdr_nth, to_le4_len).
  rewrite Hk, Ed. apply parse_frame; [exact Hwf|]. unfold known_in. rewrite Hk, Ed. reflexivity.
Qed.

(* ---------- inversion of the two deserializers ---------- *)
(* the shape of the value part of an accepted frame *)
Definition value_part_ok (d : desc) (vpart : list N) (m : msg) : Prop :=
  if carries d
  then exists l4 v, vpart = l4 ++ v /\ length l4 = 4%nat /\ from_le l4 = lenN v /\ 1 <= lenN v /\
                    mvalue m = (if has_value (dvmode d) (mfields m) then Some v else None)
  else vpart = [] /\ mvalue m = None.

Lemma parse_with_inv known d f m :
  parse_with known d f = Ok m ->
  5 <= lenN f /\ le32_at 0 f = lenN f /\ nth 4 f 0 = dkind d /\ mkind m = dkind d /\
  (carries d = false -> known (dkind d) = true) /\
  exists vpart fbytes,
    skipn 5 f = vpart ++ fbytes /\
    parse_fields (dfields d) fbytes = Ok (mfields m, []) /\
    value_part_ok d vpart m.
Proof.
  unfold parse_with, value_part_ok. destruct (carries d) eqn:Ec.
  - unfold parse_with_value. intros H.
    destruct (N.ltb_spec (lenN f) 10) as [|H10]; [discriminate|].
    destruct (N.eqb_spec (le32_at 0 f) (lenN f)) as [Hle|]; [|discriminate]. cbn [negb] in H.
    destruct (N.eqb_spec (nth 4 f 0) (dkind d)) as [Hk|]; [|discriminate]. cbn [negb] in H.
    destruct (N.ltb_spec (le32_at 5 f) 1) as [|Hv1]; [discriminate|].
    destruct (N.ltb_spec (lenN f - 9) (le32_at 5 f)) as [|Hv2]; [discriminate|].
    destruct (take (le32_at 5 f) (skipn 9 f)) as [[v rest]|e] eqn:Et; cbn [bind] in H; [|discriminate].
    destruct (parse_fields (dfields d) rest) as [[vs r]|e] eqn:Ep; cbn [bind] in H; [|discriminate].
    destruct r; [|discriminate]. apply Ok_inj in H. subst m. cbn [mkind mfields mvalue].
    apply take_ok in Et as [Es Hl].
    split; [lia|]. split; [exact Hle|]. split; [exact Hk|]. split; [reflexivity|]. split; [discriminate|].
    assert (4 <= lenN (skipn 5 f)) as H4.
    { unfold lenN. rewrite skipn_length. unfold lenN in H10. lia. }
    destruct (split4 _ H4) as (Hs & Hl4).
    exists (firstn 4 (skipn 5 f) ++ v), rest. split.
    + rewrite <- app_assoc, <- Es. replace (skipn 9 f) with (skipn 4 (skipn 5 f)); [exact Hs|].
      destruct f as [|? [|? [|? [|? [|? ?]]]]]; reflexivity.
    + split; [exact Ep|]. exists (firstn 4 (skipn 5 f)), v.
      split; [reflexivity|]. split; [exact Hl4|]. fold (le32_at 5 f). split; [lia|]. split; [lia|reflexivity].
  - unfold parse_without. intros H.
    destruct (N.ltb_spec (lenN f) 5) as [|H5]; [discriminate|].
    destruct (N.eqb_spec (le32_at 0 f) (lenN f)) as [Hle|]; [|discriminate]. cbn [negb] in H.
    destruct (known (nth 4 f 0)) eqn:Ekn; [|discriminate]. cbn [negb] in H.
    destruct (N.eqb_spec (nth 4 f 0) (dkind d)) as [Hk|]; [|discriminate]. cbn [negb] in H.
    destruct (parse_fields (dfields d) (skipn 5 f)) as [[vs r]|e] eqn:Ep; cbn [bind] in H; [|discriminate].
    destruct r; [|discriminate]. apply Ok_inj in H. subst m. cbn [mkind mfields mvalue].
    split; [lia|]. split; [exact Hle|]. split; [exact Hk|]. split; [reflexivity|].
    split; [intros _; rewrite <- Hk; exact Ekn|].
    exists [], (skipn 5 f). split; [reflexivity|]. split; [exact Ep|]. split; reflexivity.
Qed.

(* ---------- C08_strict, any table ---------- *)
Theorem strict_in table f m :
  parse_msg_in table f = Ok m ->
  from_le (firstn 4 f) = lenN f /\
  known_in table (nth 4 f 0) = true /\ mkind m = nth 4 f 0 /\
  exists d vpart fbytes,
    desc_of table (nth 4 f 0) = Some d /\
    f = firstn 4 f ++ [nth 4 f 0] ++ vpart ++ fbytes /\
    parse_fields (dfields d) fbytes = Ok (mfields m, []) /\
    value_part_ok d vpart m.
Proof.
  unfold parse_msg_in. destruct (N.ltb_spec (lenN f) 5) as [|H5]; [discriminate|].
  destruct (desc_of table (nth 4 f 0)) as [d|] eqn:Ed; [|discriminate]. intros H.
  destruct (parse_with_inv _ _ _ _ H) as (_ & Hle & Hk & Hmk & _ & vpart & fbytes & Hs & Hp & Hv).
  split; [exact Hle|]. split; [unfold known_in; rewrite Ed; reflexivity|]. split; [congruence|].
  exists d, vpart, fbytes. split; [reflexivity|]. split; [|split; assumption].
  destruct (split5 f H5) as (Hf & _). rewrite Hs in Hf. exact Hf.
Qed.

(* ---------- what is accepted from bytes is well formed ---------- *)
Lemma lenN_skipn_le {A} n (l : list A) : lenN (skipn n l) <= lenN l.
Proof. unfold lenN. rewrite skipn_length. lia. Qed.

Theorem parse_with_wf known d f m :
  bytes_ok f = true -> parse_with known d f = Ok m -> wf_with d m = true.
Proof.
  intros Hb H. destruct (parse_with_inv _ _ _ _ H) as (H5 & Hle & Hk & Hmk & _ & vpart & fbytes & Hs & Hp & Hv).
  destruct (split5 f H5) as (Hf & Hl4).
  assert (lenN f <= u32_max) as Hfl.
  { rewrite <- Hle. unfold le32_at. cbn [skipn].
    pose proof (from_le_bound (firstn 4 f) (bytes_ok_firstn 4 f Hb)) as Hbd.
    unfold lenN in Hbd at 1. rewrite Hl4 in Hbd. change (256 ^ N.of_nat 4) with 4294967296 in Hbd.
    unfold u32_max. lia. }
  assert (lenN f = 5 + lenN vpart + lenN fbytes) as Hlen.
  { rewrite Hf at 1. rewrite hdr_len by exact Hl4. rewrite Hs, lenN_app. lia. }
  pose proof (bytes_ok_skipn 5 f Hb) as Hb5. rewrite Hs, bytes_ok_app in Hb5.
  apply andb_prop in Hb5 as [Hbv Hbf].
  destruct (proj1 (proj2 parse_sound) _ _ _ _ Hbf Hp) as (Hc & _ & Hfl2).
  change (lenN []) with 0 in Hfl2.
  unfold wf_with. rewrite Hmk, N.eqb_refl, Hc. cbn [andb].
  unfold value_part_ok in Hv. unfold value_part_len. destruct (carries d) eqn:Ec.
  - destruct Hv as (l4 & v & -> & Hl & Hfrom & Hv1 & Hmv). rewrite Hmv.
    rewrite bytes_ok_app in Hbv. apply andb_prop in Hbv as [_ Hbv].
    rewrite lenN_app in Hlen. unfold lenN in Hlen at 2. rewrite Hl in Hlen.
    destruct (has_value (dvmode d) (mfields m)).
    + rewrite Hbv. destruct (N.leb_spec 1 (lenN v)); [|lia]. cbn [andb].
      destruct (N.leb_spec (5 + (4 + lenN v) + lenN (ser_fvals (mfields m))) u32_max); [reflexivity|lia].
    + cbn [andb]. destruct (N.leb_spec (5 + (4 + 1) + lenN (ser_fvals (mfields m))) u32_max); [reflexivity|lia].
  - destruct Hv as (-> & Hmv). rewrite Hmv.
    assert (has_value (dvmode d) (mfields m) = false) as ->.
    { destruct (has_value _ _) eqn:E; [|reflexivity]. apply has_value_carries in E. congruence. }
    cbn [andb]. change (lenN []) with 0 in Hlen.
    destruct (N.leb_spec (5 + 0 + lenN (ser_fvals (mfields m))) u32_max); [reflexivity|lia].
Qed.

Theorem parse_msg_wf table f m :
  bytes_ok f = true -> parse_msg_in table f = Ok m -> wf_msg_in table m = true.
Proof.
  intros Hb H. pose proof (strict_in _ _ _ H) as (_ & _ & Hmk & _).
  unfold parse_msg_in in H. destruct (lenN f <? 5); [discriminate|].
  destruct (desc_of table (nth 4 f 0)) as [d|] eqn:Ed; [|discriminate].
  unfold wf_msg_in. rewrite Hmk, Ed. eapply parse_with_wf; eassumption.
Qed.

(* ---------- C08_reser, any table ---------- *)
Theorem reser_in table f m :
  bytes_ok f = true -> parse_msg_in table f = Ok m ->
  exists f', ser_msg_in table m = Ok f' /\ parse_msg_in table f' = Ok m.
Proof.
  intros Hb H. destruct (roundtrip_in table m (parse_msg_wf _ _ _ Hb H)) as (f' & Hs & _ & Hp).
  exists f'. split; assumption.
Qed.

(* the re-serialized frame is never longer than the accepted one (canonical varints, a discarded
   payload shrinks to the one byte of None) *)
Theorem reser_shorter table f m f' :
  bytes_ok f = true -> parse_msg_in table f = Ok m -> ser_msg_in table m = Ok f' -> lenN f' <= lenN f.
Proof.
  intros Hb H Hs. pose proof (parse_msg_wf _ _ _ Hb H) as Hwf.
  pose proof (strict_in _ _ _ H) as (_ & _ & Hmk & d & vpart & fbytes & Ed & Hf & Hp & Hv).
  unfold wf_msg_in, ser_msg_in in *. rewrite Hmk, Ed in *.
  rewrite (ser_with_frame _ _ Hwf) in Hs. apply Ok_inj in Hs. subst f'.
  assert (5 <= lenN f) as H5.
  { unfold parse_msg_in in H. destruct (N.ltb_spec (lenN f) 5); [discriminate|assumption]. }
  destruct (split5 f H5) as (_ & Hl4).
  rewrite Hf at 1. cbn [app]. rewrite hdr_len by exact Hl4.
  unfold frame_of. cbn zeta. rewrite hdr_len by apply to_le4_len. rewrite !lenN_app.
  assert (bytes_ok fbytes = true) as Hbf.
  { rewrite Hf in Hb. rewrite !bytes_ok_app in Hb. apply andb_prop in Hb as [_ Hb].
    apply andb_prop in Hb as [_ Hb]. apply andb_prop in Hb as [_ Hb]. exact Hb. }
  destruct (proj1 (proj2 parse_sound) _ _ _ _ Hbf Hp) as (_ & _ & Hfl). change (lenN []) with 0 in Hfl.
  rewrite value_bytes_len. unfold value_part_ok in Hv. destruct (carries d).
  - destruct Hv as (l4 & v & -> & Hl & _ & Hv1 & Hmv). rewrite lenN_app. unfold lenN at 3. rewrite Hl.
    unfold payload_of. rewrite Hmv. destruct (has_value _ _); [lia|].
    unfold none_value, lenN at 1. cbn [length]. lia.
  - destruct Hv as (-> & _). change (lenN []) with 0. lia.
Qed.

(* ---------- the frame of a well-formed message is a byte string ---------- *)
Definition desc_bytes (d : desc) : bool := (dkind d <? 256) && disc_ok_fields (dfields d).

Theorem frame_bytes d m : desc_bytes d = true -> wf_with d m = true -> bytes_ok (frame_of d m) = true.
Proof.
  intros Hd Hwf. apply andb_prop in Hd as [Hk Hdf].
  destruct (wf_with_inv _ _ Hwf) as (_ & Hc & Hv & _).
  unfold frame_of. cbn zeta. rewrite bytes_ok_app, to_le_bytes, bytes_ok_cons, Hk, bytes_ok_app.
  rewrite (proj1 (proj2 ser_bytes) _ _ Hdf Hc). cbn [andb]. rewrite andb_true_r.
  unfold value_bytes. destruct (carries d); [|reflexivity].
  rewrite bytes_ok_app, to_le_bytes. cbn [andb]. unfold payload_of.
  destruct (has_value _ _).
  - destruct Hv as (v & -> & _ & Hb). exact Hb.
  - rewrite Hv. reflexivity.
Qed.

Theorem ser_bytes_in table m f :
  forallb desc_bytes table = true -> wf_msg_in table m = true -> ser_msg_in table m = Ok f ->
  bytes_ok f = true.
Proof.
  intros Ht. unfold wf_msg_in, ser_msg_in. destruct (desc_of table (mkind m)) as [d|] eqn:Ed; [|discriminate].
  intros Hwf Hs. rewrite (ser_with_frame _ _ Hwf) in Hs. apply Ok_inj in Hs. subst f.
  apply frame_bytes; [|exact Hwf].
  assert (In d table) as Hin.
  { clear -Ed. revert Ed. induction table as [|d0 t IH]; cbn [desc_of]; [discriminate|].
    destruct (dkind d0 =? mkind m); [intros H; injection H as <-; left; reflexivity|intros H; right; apply IH; exact H]. }
  exact (proj1 (forallb_forall _ _) Ht d Hin).
Qed.

(* ---------- the per-type entry points agree with the dispatching one ---------- *)
Theorem parse_as_msg table k f m : parse_as_in table k f = Ok m -> parse_msg_in table f = Ok m.
Proof.
  unfold parse_as_in, parse_msg_in. destruct (desc_of table k) as [d|] eqn:Ed; [|discriminate]. intros H.
  destruct (parse_with_inv _ _ _ _ H) as (H5 & _ & Hk & _).
  destruct (N.ltb_spec (lenN f) 5); [lia|]. rewrite Hk, (desc_of_kind _ _ _ Ed), Ed. exact H.
Qed.

Theorem parse_msg_as table f m : parse_msg_in table f = Ok m -> parse_as_in table (nth 4 f 0) f = Ok m.
Proof.
  unfold parse_as_in, parse_msg_in. destruct (lenN f <? 5); [discriminate|].
  destruct (desc_of table (nth 4 f 0)); [trivial|discriminate].
Qed.
