(* Msg/GrammarProofs.v — facts about the field grammar of Msg/Grammar.v, by mutual induction over
   field / fields / alts:
   * fields_roundtrip : well-typed values re-parse from their encoding, any rest untouched;
   * parse_sound      : whatever parses from a byte string is well typed, leaves bytes, and its
                        canonical re-encoding is not longer than what was consumed. *)
From Aldrin Require Import Codec.Base Codec.BaseProofs Msg.Grammar.
From Coq Require Import ZifyBool ZifyNat ZifyN.
Ltac Zify.zify_post_hook ::= Z.div_mod_to_equations.
Open Scope N_scope.
Arguments N.add : simpl never.
Arguments N.sub : simpl never.
Arguments N.mul : simpl never.
Arguments N.div : simpl never.
Arguments N.modulo : simpl never.
Arguments N.pow : simpl never.
Arguments N.ltb : simpl never.
Arguments N.leb : simpl never.
Arguments N.eqb : simpl never.

Scheme field_mut := Induction for field Sort Prop
  with fields_mut := Induction for fields Sort Prop
  with alts_mut := Induction for alts Sort Prop.
Combined Scheme grammar_ind from field_mut, fields_mut, alts_mut.

Lemma Ok_inj {A} (a b : A) : Ok a = Ok b -> a = b.
Proof. intros H; inversion H; reflexivity. Qed.

Lemma ser_fvals_cons v vs : ser_fvals (v :: vs) = ser_fval v ++ ser_fvals vs.
Proof. reflexivity. Qed.

Lemma ser_fval_tag d vs : ser_fval (VTag d vs) = d :: ser_fvals vs.
Proof. reflexivity. Qed.

(* ---------- encode then decode ---------- *)
Theorem fields_roundtrip :
  (forall f v r, chk_field f v = true -> parse_field f (ser_fval v ++ r) = Ok (v, r)) /\
  (forall fs vs r, chk_fields fs vs = true -> parse_fields fs (ser_fvals vs ++ r) = Ok (vs, r)) /\
  (forall a d vs r, chk_alts a d vs = true ->
                    parse_alts a d (ser_fvals vs ++ r) = Ok (VTag d vs, r)).
Proof.
  apply grammar_ind.
  - (* FU32 *) intros [n|u|d vs] r H; cbn [chk_field] in H; try discriminate.
    cbn [parse_field ser_fval]. rewrite varint_roundtrip; [reflexivity|lia|apply u32_fits; exact H].
  - (* FId *) intros [n|u|d vs] r H; cbn [chk_field] in H; try discriminate.
    apply andb_prop in H as [Hl _]. cbn [parse_field ser_fval].
    replace 16 with (lenN u) by lia. rewrite take_app. reflexivity.
  - (* FTag *) intros a IH [n|u|d vs] r H; cbn [chk_field] in H; try discriminate.
    rewrite ser_fval_tag. cbn [parse_field app]. apply IH. exact H.
  - (* FNil *) intros [|v vs] r H; cbn [chk_fields] in H; [reflexivity|discriminate].
  - (* FCons *) intros f IHf fs IHfs [|v vs] r H; cbn [chk_fields] in H; [discriminate|].
    apply andb_prop in H as [Hv Hvs]. rewrite ser_fvals_cons, <- app_assoc. cbn [parse_fields].
    rewrite (IHf _ _ Hv). cbn [bind]. rewrite (IHfs _ _ Hvs). reflexivity.
  - (* ANil *) intros d vs r H; discriminate.
  - (* ACons *) intros d' fs IHfs a IHa d vs r H. cbn [chk_alts] in H. cbn [parse_alts].
    destruct (d =? d').
    + rewrite (IHfs _ _ H). reflexivity.
    + apply IHa. exact H.
Qed.

(* ---------- byte strings ---------- *)
Lemma bytes_ok_app a b : bytes_ok (a ++ b) = bytes_ok a && bytes_ok b.
Proof. apply forallb_app. Qed.

Lemma bytes_ok_cons x l : bytes_ok (x :: l) = (x <? 256) && bytes_ok l.
Proof. reflexivity. Qed.

Lemma bytes_ok_skipn n l : bytes_ok l = true -> bytes_ok (skipn n l) = true.
Proof.
  intros H. rewrite <- (firstn_skipn n l), bytes_ok_app in H. apply andb_prop in H as [_ H]. exact H.
Qed.

Lemma bytes_ok_firstn n l : bytes_ok l = true -> bytes_ok (firstn n l) = true.
Proof.
  intros H. rewrite <- (firstn_skipn n l), bytes_ok_app in H. apply andb_prop in H as [H _]. exact H.
Qed.

Lemma from_le_bound l : bytes_ok l = true -> from_le l < 256 ^ lenN l.
Proof.
  induction l as [|x l IH]; intros H.
  - cbn. change (256 ^ lenN []) with 1. lia.
  - rewrite bytes_ok_cons in H. apply andb_prop in H as [Hx Hl]. specialize (IH Hl).
    cbn [from_le]. rewrite lenN_cons. replace (1 + lenN l) with (N.succ (lenN l)) by lia.
    rewrite N.pow_succ_r'. nia.
Qed.

Lemma sig_bytes_le w : forall n c, (1 <= c)%nat -> n < 256 ^ N.of_nat c -> (sig_bytes w n <= c)%nat.
Proof.
  induction w as [|w IH]; intros n c Hc Hn; cbn [sig_bytes]; [lia|].
  destruct (N.ltb_spec n 256) as [H|H]; [lia|].
  destruct c as [|c]; [lia|]. destruct c as [|c].
  - change (256 ^ N.of_nat 1) with 256 in Hn. lia.
  - assert (sig_bytes w (n / 256) <= S c)%nat; [|lia]. apply IH; [lia|].
    replace (N.of_nat (S (S c))) with (N.succ (N.of_nat (S c))) in Hn by lia.
    rewrite N.pow_succ_r' in Hn. apply N.div_lt_upper_bound; lia.
Qed.

Lemma put_varint_len4 n c : (1 <= c <= 4)%nat -> n < 256 ^ N.of_nat c ->
  lenN (put_varint 4 n) <= 1 + N.of_nat c.
Proof.
  intros Hc Hn. unfold put_varint. pose proof (sig_bytes_le (4 - 1) n c ltac:(lia) Hn) as Hk.
  destruct (Nat.leb_spec 2 (sig_bytes (4 - 1) n)).
  - rewrite lenN_cons. unfold lenN. rewrite to_le_length. lia.
  - destruct (_ <? n); unfold lenN; cbn [length]; lia.
Qed.

(* a varint read from bytes: below 2^32, and its canonical form is not longer than what was read *)
Lemma get_varint4_sound b n r :
  bytes_ok b = true -> get_varint 4 b = Ok (n, r) ->
  n <= u32_max /\ bytes_ok r = true /\ lenN (put_varint 4 n) + lenN r <= lenN b.
Proof.
  intros Hb H. destruct b as [|first b]; cbn [get_varint] in H; [discriminate|].
  rewrite bytes_ok_cons in Hb. apply andb_prop in Hb as [Hf Hb].
  change (N.of_nat 4) with 4 in H.
  destruct (N.ltb_spec (255 - 4) first) as [Hgt|Hle].
  - destruct (take (first + 4 - 255) b) as [[bs r']|e] eqn:E; cbn [bind] in H; [|discriminate].
    apply Ok_inj in H. injection H as <- <-. apply take_ok in E as [-> Hl].
    rewrite bytes_ok_app in Hb. apply andb_prop in Hb as [Hbs Hr].
    pose proof (from_le_bound bs Hbs) as Hbound. rewrite Hl in Hbound.
    set (c := N.to_nat (first + 4 - 255)).
    assert (1 <= c <= 4)%nat as Hc by (unfold c; lia).
    assert (first + 4 - 255 = N.of_nat c) as Hcn by (unfold c; lia). rewrite Hcn in Hbound, Hl.
    split; [|split; [exact Hr|]].
    + assert (256 ^ N.of_nat c <= 256 ^ 4) by (apply N.pow_le_mono_r; lia).
      change (256 ^ 4) with 4294967296 in *. unfold u32_max. lia.
    + pose proof (put_varint_len4 _ c Hc Hbound). rewrite lenN_cons, lenN_app. lia.
  - apply Ok_inj in H. injection H as <- <-. split; [unfold u32_max; lia|]. split; [exact Hb|].
    unfold put_varint. cbn [Nat.sub sig_bytes].
    destruct (N.ltb_spec first 256); [|lia]. cbn [Nat.leb].
    change (N.of_nat 4) with 4. destruct (N.ltb_spec (255 - 4) first); [lia|].
    rewrite !lenN_cons. unfold lenN; cbn [length]. lia.
Qed.

(* ---------- decode: typing, bytes, length ---------- *)
Theorem parse_sound :
  (forall f b v r, bytes_ok b = true -> parse_field f b = Ok (v, r) ->
     chk_field f v = true /\ bytes_ok r = true /\ lenN (ser_fval v) + lenN r <= lenN b) /\
  (forall fs b vs r, bytes_ok b = true -> parse_fields fs b = Ok (vs, r) ->
     chk_fields fs vs = true /\ bytes_ok r = true /\ lenN (ser_fvals vs) + lenN r <= lenN b) /\
  (forall a d b v r, bytes_ok b = true -> parse_alts a d b = Ok (v, r) ->
     exists vs, v = VTag d vs /\ chk_alts a d vs = true /\ bytes_ok r = true /\
                lenN (ser_fvals vs) + lenN r <= lenN b).
Proof.
  apply grammar_ind.
  - (* FU32 *) intros b v r Hb H. cbn [parse_field] in H.
    destruct (get_varint 4 b) as [[n r']|e] eqn:E; cbn [bind] in H; [|discriminate].
    apply Ok_inj in H. injection H as <- <-.
    destruct (get_varint4_sound _ _ _ Hb E) as (Hn & Hr & Hl). cbn [chk_field ser_fval].
    split; [lia|]. split; assumption.
  - (* FId *) intros b v r Hb H. cbn [parse_field] in H.
    destruct (take 16 b) as [[u r']|e] eqn:E; cbn [bind] in H; [|discriminate].
    apply Ok_inj in H. injection H as <- <-. apply take_ok in E as [-> Hl].
    rewrite bytes_ok_app in Hb. apply andb_prop in Hb as [Hu Hr]. cbn [chk_field ser_fval].
    rewrite Hu, Hl. split; [reflexivity|]. split; [exact Hr|]. rewrite lenN_app. lia.
  - (* FTag *) intros a IH b v r Hb H. cbn [parse_field] in H. destruct b as [|d b]; [discriminate|].
    rewrite bytes_ok_cons in Hb. apply andb_prop in Hb as [_ Hb].
    destruct (IH _ _ _ _ Hb H) as (vs & -> & Hc & Hr & Hl). cbn [chk_field].
    split; [exact Hc|]. split; [exact Hr|]. rewrite ser_fval_tag, !lenN_cons. lia.
  - (* FNil *) intros b vs r Hb H. cbn [parse_fields] in H. apply Ok_inj in H. injection H as <- <-.
    cbn [chk_fields]. split; [reflexivity|]. split; [exact Hb|]. unfold lenN; cbn [ser_fvals flat_map length]. lia.
  - (* FCons *) intros f IHf fs IHfs b vs r Hb H. cbn [parse_fields] in H.
    destruct (parse_field f b) as [[v r1]|e] eqn:E1; cbn [bind] in H; [|discriminate].
    destruct (IHf _ _ _ Hb E1) as (Hc1 & Hr1 & Hl1).
    destruct (parse_fields fs r1) as [[vs' r2]|e] eqn:E2; cbn [bind] in H; [|discriminate].
    destruct (IHfs _ _ _ Hr1 E2) as (Hc2 & Hr2 & Hl2).
    apply Ok_inj in H. injection H as <- <-. cbn [chk_fields]. rewrite Hc1, Hc2.
    split; [reflexivity|]. split; [exact Hr2|]. rewrite ser_fvals_cons, lenN_app. lia.
  - (* ANil *) intros d b v r Hb H. discriminate.
  - (* ACons *) intros d' fs IHfs a IHa d b v r Hb H. cbn [parse_alts] in H. cbn [chk_alts].
    destruct (d =? d').
    + destruct (parse_fields fs b) as [[vs r']|e] eqn:E; cbn [bind] in H; [|discriminate].
      apply Ok_inj in H. injection H as <- <-. destruct (IHfs _ _ _ Hb E) as (Hc & Hr & Hl).
      exists vs. auto.
    + apply IHa; assumption.
Qed.

(* whatever parses is at least structurally typed, for ANY list N (no byte assumption): used
   where only the shape matters *)
Lemma desc_of_kind table : forall k d, desc_of table k = Some d -> dkind d = k.
Proof.
  induction table as [|d0 t IH]; intros k d H; cbn [desc_of] in H; [discriminate|].
  destruct (N.eqb_spec (dkind d0) k) as [E|E]; [|apply IH; exact H].
  injection H as <-. exact E.
Qed.

(* ---------- encodings are byte strings ---------- *)
Lemma to_le_bytes k : forall n, bytes_ok (to_le k n) = true.
Proof.
  induction k as [|k IH]; intros n; cbn [to_le]; [reflexivity|].
  rewrite bytes_ok_cons, IH. pose proof (N.mod_lt n 256).
  destruct (N.ltb_spec (n mod 256) 256); [reflexivity|lia].
Qed.

Lemma put_varint4_bytes n : bytes_ok (put_varint 4 n) = true.
Proof.
  unfold put_varint. pose proof (sig_bytes_bound (4 - 1) n) as Hb.
  destruct (Nat.leb_spec 2 (sig_bytes (4 - 1) n)) as [Hk|Hk].
  - rewrite bytes_ok_cons, to_le_bytes.
    destruct (N.ltb_spec (255 - N.of_nat (4 - sig_bytes (4 - 1) n)) 256); [reflexivity|lia].
  - assert (sig_bytes (4 - 1) n = 1%nat) as H1 by lia. apply sig_bytes_one in H1 as [H1|H1]; [discriminate|].
    change (N.of_nat 4) with 4.
    assert (byte_ok n = true) as Hn by (unfold byte_ok; destruct (N.ltb_spec n 256); [reflexivity|lia]).
    destruct (255 - 4 <? n); cbn [bytes_ok forallb]; rewrite Hn; reflexivity.
Qed.

(* every discriminant of a grammar fits a byte *)
Fixpoint disc_ok_field (f : field) : bool :=
  match f with FTag a => disc_ok_alts a | _ => true end
with disc_ok_fields (fs : fields) : bool :=
  match fs with FNil => true | FCons f fs' => disc_ok_field f && disc_ok_fields fs' end
with disc_ok_alts (a : alts) : bool :=
  match a with ANil => true | ACons d fs a' => (d <? 256) && disc_ok_fields fs && disc_ok_alts a' end.

Theorem ser_bytes :
  (forall f v, disc_ok_field f = true -> chk_field f v = true -> bytes_ok (ser_fval v) = true) /\
  (forall fs vs, disc_ok_fields fs = true -> chk_fields fs vs = true -> bytes_ok (ser_fvals vs) = true) /\
  (forall a d vs, disc_ok_alts a = true -> chk_alts a d vs = true ->
                  bytes_ok (d :: ser_fvals vs) = true).
Proof.
  apply grammar_ind.
  - intros [n|u|d vs] _ H; cbn [chk_field] in H; try discriminate. apply put_varint4_bytes.
  - intros [n|u|d vs] _ H; cbn [chk_field] in H; try discriminate.
    apply andb_prop in H as [_ H]. exact H.
  - intros a IH [n|u|d vs] Hd H; cbn [chk_field] in H; try discriminate.
    rewrite ser_fval_tag. apply IH; assumption.
  - intros [|v vs] _ H; cbn [chk_fields] in H; [reflexivity|discriminate].
  - intros f IHf fs IHfs [|v vs] Hd H; cbn [chk_fields] in H; [discriminate|].
    cbn [disc_ok_fields] in Hd. apply andb_prop in Hd as [Hd1 Hd2]. apply andb_prop in H as [H1 H2].
    rewrite ser_fvals_cons, bytes_ok_app, (IHf _ Hd1 H1), (IHfs _ Hd2 H2). reflexivity.
  - intros d vs _ H. discriminate.
  - intros d' fs IHfs a IHa d vs Hd H. cbn [disc_ok_alts] in Hd. cbn [chk_alts] in H.
    apply andb_prop in Hd as [Hd Hd3]. apply andb_prop in Hd as [Hd1 Hd2].
    destruct (N.eqb_spec d d') as [->|].
    + rewrite bytes_ok_cons, Hd1, (IHfs _ Hd2 H). reflexivity.
    + apply IHa; assumption.
Qed.
