(* Derive/EvolveRel.v — the evolution relation of Derive/Evolve.v: inversion lemmas, [evolves] +
   [all_fallback] gives [evolves_keeping], reflexivity, the inductive characterisation
   (evolves_iff), and the specification-level fact that the older type accepts whatever the
   newer one accepts (evolves_conforms). *)
From Aldrin Require Import Codec.Base Codec.BaseProofs Codec.Value Codec.Ser Codec.De Codec.Skip
  Codec.RoundTrip Codec.DeProofs Codec.Depth Codec.SkipProofs gen.Consts.
From Aldrin Require Import Derive.Ty Derive.TDe Derive.TSer Derive.Conforms Derive.Evolve Derive.TDeProofs
  Derive.ConformsProofs Derive.TSerProofs.
From Coq Require Import ZifyBool ZifyNat ZifyN.
Open Scope N_scope.
Arguments N.add : simpl never.
Arguments N.sub : simpl never.
Arguments N.mul : simpl never.
Arguments N.ltb : simpl never.
Arguments N.leb : simpl never.
Arguments N.eqb : simpl never.

(* ---------- the relation ---------- *)
Lemma intk_eqb_eq a b : intk_eqb a b = true -> a = b.
Proof. destruct a, b; cbn; congruence. Qed.
Lemma fixk_eqb_eq a b : fixk_eqb a b = true -> a = b.
Proof. destruct a, b; cbn; congruence. Qed.
Lemma intk_eqb_refl a : intk_eqb a a = true. Proof. destruct a; reflexivity. Qed.
Lemma fixk_eqb_refl a : fixk_eqb a a = true. Proof. destruct a; reflexivity. Qed.
Lemma keyk_eqb_refl k : keyk_eqb k k = true.
Proof. destruct k as [i| |]; try reflexivity. destruct i; reflexivity. Qed.

Lemma lty_eqb_eq a b : lty_eqb a b = true -> a = b.
Proof.
  destruct a, b; cbn [lty_eqb]; try discriminate; try reflexivity; intros H.
  - apply intk_eqb_eq in H. congruence.
  - apply fixk_eqb_eq in H. congruence.
  - apply keyk_eqb_eq in H. congruence.
Qed.
Lemma lty_eqb_refl a : lty_eqb a a = true.
Proof. destruct a; cbn [lty_eqb]; auto using intk_eqb_refl, fixk_eqb_refl, keyk_eqb_refl. Qed.

Lemma find_variant_in vs id o : find_variant vs id = Some o -> In (id, o) vs.
Proof.
  unfold find_variant. destruct (find _ vs) as [[i o']|] eqn:E; [|discriminate]. intros H. inversion H; subst o'.
  apply find_some in E as [Hin Hq]. cbn [fst] in Hq. apply N.eqb_eq in Hq. subst i. exact Hin.
Qed.

Lemma find_variant_nodup vs v : ids_nodup (map fst vs) = true -> In v vs -> find_variant vs (fst v) = Some (snd v).
Proof.
  unfold ids_nodup, find_variant. induction vs as [|w vs IH]; cbn [map nodupb find]; [intros _ []|].
  intros H Hin. apply andb_prop in H as [H1 H2]. destruct (N.eqb_spec (fst w) (fst v)) as [E|E].
  - destruct Hin as [->|Hin]; [reflexivity|]. exfalso. apply negb_true_iff in H1.
    assert (existsb (N.eqb (fst w)) (map fst vs) = true) as C.
    { apply existsb_exists. exists (fst v). split; [apply in_map; exact Hin|apply N.eqb_eq; exact E]. }
    congruence.
  - destruct Hin as [->|Hin]; [contradiction|]. apply IH; assumption.
Qed.

Lemma evo_struct_field keep fs1 fb1 fs2 fb2 f1 :
  evo keep (TStruct fs1 fb1) (TStruct fs2 fb2) = true -> In f1 fs1 ->
  exists ft2, find_field fs2 (fst f1) = Some (fst (snd f1), ft2) /\ evo keep (snd (snd f1)) ft2 = true.
Proof.
  cbn [evo]. intros H Hin. apply andb_prop in H as [H _]. rewrite forallb_forall in H. specialize (H _ Hin).
  destruct (find_field fs2 (fst f1)) as [[req2 ft2]|]; [|discriminate]. apply andb_prop in H as [Hr He].
  apply Bool.eqb_prop in Hr. exists ft2. rewrite Hr. split; [reflexivity|exact He].
Qed.

Lemma evo_struct_keep fs1 fb1 fs2 fb2 :
  evo true (TStruct fs1 fb1) (TStruct fs2 fb2) = true ->
  fb1 = true \/ (fb2 = false /\ forall id, known_field fs2 id = true -> known_field fs1 id = true).
Proof.
  cbn [evo negb orb]. intros H. apply andb_prop in H as [_ H]. apply orb_prop in H as [H|H]; [left; exact H|right].
  apply andb_prop in H as [Hfb H]. apply negb_true_iff in Hfb. split; [exact Hfb|].
  rewrite forallb_forall in H. intros id Hk. unfold known_field in Hk.
  destruct (find_field fs2 id) as [[req ft]|] eqn:E; [|discriminate]. apply find_field_in in E.
  exact (H _ E).
Qed.

Lemma evo_enum_variant keep vs1 fb1 vs2 fb2 v1 :
  evo keep (TEnum vs1 fb1) (TEnum vs2 fb2) = true -> In v1 vs1 ->
  match snd v1 with
  | None => find_variant vs2 (fst v1) = Some None
  | Some a => exists b, find_variant vs2 (fst v1) = Some (Some b) /\ evo keep a b = true
  end.
Proof.
  cbn [evo]. intros H Hin. apply andb_prop in H as [H _]. rewrite forallb_forall in H. specialize (H _ Hin).
  destruct (find_variant vs2 (fst v1)) as [p2|]; [|discriminate].
  destruct (snd v1) as [a|], p2 as [b|]; try discriminate; [|reflexivity]. exists b. split; [reflexivity|exact H].
Qed.

Lemma evo_enum_keep vs1 fb1 vs2 fb2 :
  evo true (TEnum vs1 fb1) (TEnum vs2 fb2) = true ->
  fb1 = true \/ (fb2 = false /\ forall id, known_variant vs2 id = true -> known_variant vs1 id = true).
Proof.
  cbn [evo negb orb]. intros H. apply andb_prop in H as [_ H]. apply orb_prop in H as [H|H]; [left; exact H|right].
  apply andb_prop in H as [Hfb H]. apply negb_true_iff in Hfb. split; [exact Hfb|].
  rewrite forallb_forall in H. intros id Hk. unfold known_variant in Hk.
  destruct (find_variant vs2 id) as [o|] eqn:E; [|discriminate]. apply find_variant_in in E.
  exact (H _ E).
Qed.

(* the shape relation alone is weaker; with a fallback everywhere in the old type it is enough *)
Lemma evolves_keeping_evolves t1 : forall t2, evolves_keeping t1 t2 = true -> evolves t1 t2 = true.
Proof.
  unfold evolves_keeping, evolves.
  induction t1 as [l| |a IH|a IH|n a IH|k a IH|a b IHa IHb|fs fb IH|vs fb IH] using ty_ind';
    intros t2; destruct t2 as [l2| |a2|a2|n2 a2|k2 a2|a2 b2|fs2 fb2|vs2 fb2]; cbn [evo]; try discriminate; auto.
  - intros H. apply andb_prop in H as [H1 H2]. rewrite H1, (IH _ H2). reflexivity.
  - intros H. apply andb_prop in H as [H1 H2]. rewrite H1, (IH _ H2). reflexivity.
  - intros H. apply andb_prop in H as [H1 H2]. rewrite (IHa _ H1), (IHb _ H2). reflexivity.
  - intros H. apply andb_prop in H as [H _]. cbn [negb orb]. rewrite andb_true_r.
    rewrite forallb_forall in H |- *. rewrite Forall_forall in IH. intros f Hin. specialize (H _ Hin).
    destruct (find_field fs2 (fst f)) as [[req2 ft2]|]; [|discriminate]. apply andb_prop in H as [Hr He].
    rewrite Hr, (IH _ Hin _ He). reflexivity.
  - intros H. apply andb_prop in H as [H _]. cbn [negb orb]. rewrite andb_true_r.
    rewrite forallb_forall in H |- *. rewrite Forall_forall in IH. intros v Hin. specialize (H _ Hin). specialize (IH _ Hin).
    destruct (find_variant vs2 (fst v)) as [p2|]; [|discriminate].
    destruct (snd v) as [a|], p2 as [b|]; try discriminate; [|reflexivity]. cbn [on_payload] in IH. exact (IH _ H).
Qed.

Lemma evolves_all_fallback t1 : forall t2, evolves t1 t2 = true -> all_fallback t1 = true -> evolves_keeping t1 t2 = true.
Proof.
  unfold evolves_keeping, evolves.
  induction t1 as [l| |a IH|a IH|n a IH|k a IH|a b IHa IHb|fs fb IH|vs fb IH] using ty_ind';
    intros t2; destruct t2 as [l2| |a2|a2|n2 a2|k2 a2|a2 b2|fs2 fb2|vs2 fb2]; cbn [evo all_fallback]; try discriminate; auto.
  - intros H F. apply andb_prop in H as [H1 H2]. rewrite H1, (IH _ H2 F). reflexivity.
  - intros H F. apply andb_prop in H as [H1 H2]. rewrite H1, (IH _ H2 F). reflexivity.
  - intros H F. apply andb_prop in H as [H1 H2]. apply andb_prop in F as [F1 F2]. rewrite (IHa _ H1 F1), (IHb _ H2 F2). reflexivity.
  - intros H F. apply andb_prop in H as [H _]. apply andb_prop in F as [Ffb F]. rewrite Ffb. cbn [negb orb]. rewrite andb_true_r.
    rewrite forallb_forall in H, F |- *. rewrite Forall_forall in IH. intros f Hin. specialize (H _ Hin).
    destruct (find_field fs2 (fst f)) as [[req2 ft2]|]; [|discriminate]. apply andb_prop in H as [Hr He].
    rewrite Hr, (IH _ Hin _ He (F _ Hin)). reflexivity.
  - intros H F. apply andb_prop in H as [H _]. apply andb_prop in F as [Ffb F]. rewrite Ffb. cbn [negb orb]. rewrite andb_true_r.
    rewrite forallb_forall in H, F |- *. rewrite Forall_forall in IH. intros v Hin. specialize (H _ Hin). specialize (IH _ Hin).
    specialize (F _ Hin). destruct (find_variant vs2 (fst v)) as [p2|]; [|discriminate].
    destruct (snd v) as [a|], p2 as [b|]; try discriminate; [|reflexivity]. cbn [on_payload] in IH. exact (IH _ H F).
Qed.

(* every valid type evolves (keeping) to itself: typed_cycle2 contains typed_cycle's last clause *)
Lemma evolves_keeping_refl t : wf_ty t = true -> evolves_keeping t t = true.
Proof.
  unfold evolves_keeping.
  induction t as [l| |a IH|a IH|n a IH|k a IH|a b IHa IHb|fs fb IH|vs fb IH] using ty_ind'; cbn [evo wf_ty]; auto.
  - intros _. apply lty_eqb_refl.
  - intros H. apply andb_prop in H as [_ H]. rewrite N.eqb_refl, (IH H). reflexivity.
  - intros H. rewrite keyk_eqb_refl, (IH H). reflexivity.
  - intros H. apply andb_prop in H as [H1 H2]. rewrite (IHa H1), (IHb H2). reflexivity.
  - intros H. apply andb_prop in H as [Hnd H]. rewrite forallb_forall in H. rewrite Forall_forall in IH.
    apply andb_true_intro. split.
    + apply forallb_forall. intros f Hin. rewrite (find_field_nodup fs f Hnd Hin).
      destruct (snd f) as [req ft] eqn:E. cbn [fst snd]. rewrite Bool.eqb_reflx. cbn [andb].
      specialize (H _ Hin). apply andb_prop in H as [_ H]. specialize (IH _ Hin). rewrite E in *. cbn [snd] in *. exact (IH H).
    + cbn [negb orb]. destruct fb; cbn [orb negb andb]; [reflexivity|]. apply forallb_forall. intros f Hin.
      unfold known_field. rewrite (find_field_nodup fs f Hnd Hin). reflexivity.
  - intros H. apply andb_prop in H as [Hnd H]. rewrite forallb_forall in H. rewrite Forall_forall in IH.
    apply andb_true_intro. split.
    + apply forallb_forall. intros v Hin. rewrite (find_variant_nodup vs v Hnd Hin).
      specialize (H _ Hin). apply andb_prop in H as [_ H]. specialize (IH _ Hin).
      destruct (snd v) as [a|]; [|reflexivity]. cbn [on_payload] in IH. exact (IH H).
    + cbn [negb orb]. destruct fb; cbn [orb negb andb]; [reflexivity|]. apply forallb_forall. intros v Hin.
      unfold known_variant. rewrite (find_variant_nodup vs v Hnd Hin). reflexivity.
Qed.

(* the boolean relation is the inductive one *)
Theorem evolves_iff t1 : forall t2, evolves t1 t2 = true <-> Evolves t1 t2.
Proof.
  unfold evolves.
  induction t1 as [l| |a IH|a IH|n a IH|k a IH|a b IHa IHb|fs fb IH|vs fb IH] using ty_ind'; intros t2;
    (split; [destruct t2 as [l2| |a2|a2|n2 a2|k2 a2|a2 b2|fs2 fb2|vs2 fb2]; cbn [evo]; try discriminate; intros H
            |intros H; inversion H; subst; clear H; cbn [evo]]).
  - apply lty_eqb_eq in H. subst. constructor.
  - apply lty_eqb_refl.
  - constructor.
  - reflexivity.
  - constructor. apply IH. exact H.
  - apply IH. assumption.
  - constructor. apply IH. exact H.
  - apply IH. assumption.
  - apply andb_prop in H as [H1 H2]. apply N.eqb_eq in H1. subst. constructor. apply IH. exact H2.
  - rewrite N.eqb_refl. apply IH. assumption.
  - apply andb_prop in H as [H1 H2]. apply keyk_eqb_eq in H1. subst. constructor. apply IH. exact H2.
  - rewrite keyk_eqb_refl. apply IH. assumption.
  - apply andb_prop in H as [H1 H2]. constructor; [apply IHa|apply IHb]; assumption.
  - apply andb_true_intro. split; [apply IHa|apply IHb]; assumption.
  - constructor. apply Forall_forall. intros f Hin.
    destruct (evo_struct_field false fs fb fs2 fb2 f H Hin) as (ft2 & Hf & He). exists ft2. split; [exact Hf|].
    rewrite Forall_forall in IH. apply (IH _ Hin). exact He.
  - cbn [negb orb]. rewrite andb_true_r. apply forallb_forall. intros f Hin.
    rewrite Forall_forall in IH. match goal with F : Forall _ fs |- _ => rewrite Forall_forall in F; destruct (F _ Hin) as (ft2 & Hf & He) end.
    rewrite Hf. rewrite Bool.eqb_reflx. cbn [andb]. apply (IH _ Hin). exact He.
  - constructor. apply Forall_forall. intros v Hin.
    pose proof (evo_enum_variant false vs fb vs2 fb2 v H Hin) as E. rewrite Forall_forall in IH. specialize (IH _ Hin).
    destruct (snd v) as [a|]; [right|left; auto]. destruct E as (b & Hf & He). exists a, b. repeat split; auto.
    cbn [on_payload] in IH. apply IH. exact He.
  - cbn [negb orb]. rewrite andb_true_r. apply forallb_forall. intros v Hin.
    rewrite Forall_forall in IH. specialize (IH _ Hin).
    match goal with F : Forall _ vs |- _ => rewrite Forall_forall in F; destruct (F _ Hin) as [(E1 & E2)|(a & b & E1 & E2 & E3)] end.
    + rewrite E2, E1. reflexivity.
    + rewrite E2, E1. rewrite E1 in IH. cbn [on_payload] in IH. apply IH. exact E3.
Qed.

(* ---------- specification level: what the newer type accepts, the older one accepts ---------- *)
Lemma conforms_opt_field ft x :
  match x with VNone => true | VSome y => conforms ft y | _ => false end = conforms (TOption ft) x.
Proof. destruct x; reflexivity. Qed.

Theorem evolves_conforms : forall v t1 t2, evolves_keeping t1 t2 = true -> conforms t2 v = true -> conforms t1 v = true.
Proof.
  unfold evolves_keeping.
  induction v as [|x IH|b|i z|fk fbs|s|l IH|bs0|k l IH|k l|l IH|id x IH] using Value_ind';
    intros t1 t2 Hev Hc;
    destruct t1 as [l1| |a1|a1|n1 a1|k1 a1|a1 b1|fs1 fb1|vs1 fb1];
    destruct t2 as [l2| |a2|a2|n2 a2|k2 a2|a2 b2|fs2 fb2|vs2 fb2]; cbn [evo] in Hev; try discriminate Hev;
    try (apply lty_eqb_eq in Hev; subst; exact Hc); try reflexivity; cbn [conforms] in Hc |- *; try discriminate Hc.
  - (* Some / Option *) eapply IH; eauto.
  - (* Vec / Vec *)
    rewrite forallb_forall in Hc |- *. rewrite Forall_forall in IH. intros x Hin. eapply IH; eauto.
  - (* Vec / Array *)
    apply andb_prop in Hev as [Hn Hev]. apply N.eqb_eq in Hn. subst n2. apply andb_prop in Hc as [Hl Hc]. rewrite Hl. cbn [andb].
    rewrite forallb_forall in Hc |- *. rewrite Forall_forall in IH. intros x Hin. eapply IH; eauto.
  - (* Map / Map *)
    apply andb_prop in Hev as [Hk Hev]. apply keyk_eqb_eq in Hk. subst k2. apply andb_prop in Hc as [Hl Hc]. rewrite Hl. cbn [andb].
    rewrite forallb_forall in Hc |- *. rewrite Forall_forall in IH. intros p Hin. eapply IH; eauto.
  - (* Struct / Struct *)
    apply andb_prop in Hc as [Hc1 Hc2]. rewrite forallb_forall in Hc1, Hc2. rewrite Forall_forall in IH.
    apply andb_true_intro. split; apply forallb_forall.
    + intros p Hin. specialize (Hc1 _ Hin). specialize (IH _ Hin).
      destruct (find_field fs1 (fst p)) as [[req ft1]|] eqn:F1; [|reflexivity].
      destruct (evo_struct_field true _ _ _ _ _ Hev (find_field_in _ _ _ _ F1)) as (ft2 & F2 & He). cbn [fst snd] in F2, He.
      rewrite F2 in Hc1. destruct req.
      * eapply IH; eauto.
      * rewrite conforms_opt_field in Hc1 |- *. eapply (IH (TOption ft1) (TOption ft2)); eauto.
    + intros f Hin.
      destruct (evo_struct_field true _ _ _ _ _ Hev Hin) as (ft2 & F2 & _). apply find_field_in in F2.
      specialize (Hc2 _ F2). cbn [fst snd] in Hc2. exact Hc2.
  - (* Enum / Result *)
    apply andb_prop in Hev as [H1 H2]. destruct (id =? 0); [eapply IH; eauto|]. destruct (id =? 1); [eapply IH; eauto|discriminate].
  - (* Enum / Enum *)
    destruct (find_variant vs1 id) as [[vt1|]|] eqn:F1.
    + pose proof (evo_enum_variant true _ _ _ _ _ Hev (find_variant_in _ _ _ F1)) as E. cbn [fst snd] in E.
      destruct E as (vt2 & F2 & He). rewrite F2 in Hc. eapply IH; eauto.
    + pose proof (evo_enum_variant true _ _ _ _ _ Hev (find_variant_in _ _ _ F1)) as E. cbn [fst snd] in E.
      rewrite E in Hc. exact Hc.
    + destruct (evo_enum_keep _ _ _ _ Hev) as [K|[K1 K2]]; [exact K|]. exfalso.
      destruct (find_variant vs2 id) as [o|] eqn:F2.
      * specialize (K2 id). unfold known_variant in K2. rewrite F2, F1 in K2. specialize (K2 eq_refl). discriminate.
      * congruence.
Qed.
