(* Derive/TSer.v — what `derive(Serialize)` expands to (macros/src/derive/serialize.rs):
   structs always through serialize_struct2 / serialize_struct2_with_unknown_fields (unknown
   fields first, then the declared fields in declaration order, optional ones through
   serialize_if_some), enums through serialize_enum / serialize_unit_enum /
   serialize_unknown_variant, library types through their `Serialize` impls (always the
   encoding-2 containers).  Captured SerializedValues are copied verbatim
   (Serializer::copy_from_serialized_value). *)
From Aldrin Require Export Derive.Ty.
From Aldrin Require Import gen.Consts.
Open Scope N_scope.

Definition too_deep (d : nat) : bool := (MAX_VALUE_DEPTH <? S d)%nat.

(* Struct2Serializer::serialize of an already serialized value: Some, id, Serializer::new *)
Definition raw_field (d : nat) (p : N * list N) : result (list N) :=
  if too_deep (S d) then Err TooDeep else Ok (kb KSome :: put_varint 4 (fst p) ++ snd p).

(* [tser t d x] = Serializer::new(buf, d)?.serialize(x) for x of the generated type t *)
Fixpoint tser (t : ty) (d : nat) (x : tval) {struct x} : result (list N) :=
  if too_deep d then Err TooDeep else
  match t, x with
  | TLeaf _, XLeaf v => ser E2 d v
  | TValue, XRaw bs => Ok bs
  | TOption _, XOpt None => Ok [kb KNone]
  | TOption a, XOpt (Some y) => b <- tser a (S d) y ;; Ok (kb KSome :: b)
  | TVec a, XVec l | TArray _ a, XVec l =>
      bs <- mapM (fun y => b <- tser a (S d) y ;; Ok (kb KSome :: b)) l ;;
      Ok (kb (KVec E2) :: concat bs ++ [kb KNone])
  | TMap k a, XMap l =>
      bs <- mapM (fun p => kbs <- put_key k (fst p) ;; b <- tser a (S d) (snd p) ;;
                           Ok (kb KSome :: kbs ++ b)) l ;;
      Ok (kb (KMap E2 k) :: concat bs ++ [kb KNone])
  | TResult a b, XEnum id y =>
      if id =? 0 then bs <- tser a (S d) y ;; Ok (kb KEnum :: put_varint 4 0 ++ bs)
      else if id =? 1 then bs <- tser b (S d) y ;; Ok (kb KEnum :: put_varint 4 1 ++ bs)
      else Err Invalid
  | TEnum vs _, XEnum id y =>
      match find_variant vs id with
      | Some (Some vt) => bs <- tser vt (S d) y ;; Ok (kb KEnum :: put_varint 4 id ++ bs)
      | Some None => bs <- tser (TLeaf LUnit) (S d) y ;; Ok (kb KEnum :: put_varint 4 id ++ bs)
      | None => Err Invalid
      end
  | TEnum _ true, XUnknown id raw =>
      if too_deep (S d) then Err TooDeep else Ok (kb KEnum :: put_varint 4 id ++ raw)
  | TStruct fs _, XStruct slots unk =>
      ub <- mapM (raw_field d) unk ;;
      kbs <- (fix go (fs : list (N * (bool * ty))) (slots : list (option tval)) {struct slots}
                : result (list N) :=
                match fs, slots with
                | [], [] => Ok []
                | (id, (req, ft)) :: fs', o :: slots' =>
                    match o with
                    | None => if req then Err Invalid else go fs' slots'
                    | Some y =>
                        b <- (if req then tser ft (S d) y
                              else (* Option<T>::Some through serialize_some: one level deeper *)
                                if too_deep (S d) then Err TooDeep else
                                b <- tser ft (S (S d)) y ;; Ok (kb KSome :: b)) ;;
                        rest <- go fs' slots' ;;
                        Ok (kb KSome :: put_varint 4 id ++ b ++ rest)
                    end
                | _, _ => Err Invalid
                end) fs slots ;;
      Ok (kb (KStruct E2) :: concat ub ++ kbs ++ [kb KNone])
  | _, _ => Err Invalid   (* ill-typed: not constructible in Rust *)
  end.

(* SerializedValue::serialize(&x) *)
Definition tser_top (t : ty) (x : tval) : result (list N) := tser t 0%nat x.
