(* Derive/EvolveProofs.v — the old/new clause of C16 across two DIFFERENT types.

   typed_cycle2: for t_old, t_new with [evolves_keeping t_old t_new] and a value v that both
   accept: what derive(Serialize) of t_old emits for its typed value of v is read by the
   generated decoder of t_new as EXACTLY the typed value t_new reads from v's own bytes
   (captured SerializedValues included: they are bytes of the input's encoding in both).
   So code generated from the older schema is transparent for the newer one.
   It generalises the last clause of TSerProofs.typed_cycle (t_old = t_new) and reuses its
   struct bookkeeping; fields the old type does not know are decided by tde_ser on the captured
   bytes. *)
From Aldrin Require Import Codec.Base Codec.BaseProofs Codec.Value Codec.Ser Codec.De Codec.Skip
  Codec.RoundTrip Codec.DeProofs Codec.Depth Codec.SkipProofs gen.Consts.
From Aldrin Require Import Derive.Ty Derive.TDe Derive.TSer Derive.Conforms Derive.Evolve Derive.TDeProofs
  Derive.ConformsProofs Derive.TSerProofs Derive.EvolveRel.
From Coq Require Import ZifyBool ZifyNat ZifyN.
Open Scope N_scope.
Arguments N.add : simpl never.
Arguments N.sub : simpl never.
Arguments N.mul : simpl never.
Arguments N.ltb : simpl never.
Arguments N.leb : simpl never.
Arguments N.eqb : simpl never.

(* ---------- the event a struct value's field produces, as a function ---------- *)
Definition ev_of (e : epoch) (fs : list (N * (bool * ty))) (fb : bool) (d : nat) (p : N * Value) : option fevent :=
  match find_field fs (fst p) with
  | Some (true, ft) =>
      match typed e ft (S d) (snd p) with Some y => Some (FKnown (fst p) (Some y)) | None => None end
  | Some (false, ft) =>
      match typed e (TOption ft) (S d) (snd p) with
      | Some (XOpt o) => Some (FKnown (fst p) o)
      | _ => None
      end
  | None =>
      match raw_of e (S d) (snd p) with
      | Some bs => Some (if fb then FUnknown (fst p) bs else FSkipped)
      | None => None
      end
  end.

Lemma typed_struct e fs fb d l :
  typed e (TStruct fs fb) d (VStruct l) =
  match opt_all (map (ev_of e fs fb d) l) with
  | Some evs => match build_slots fs evs with
                | Ok slots => Some (XStruct slots (unknowns evs))
                | Err _ => None
                end
  | None => None
  end.
Proof. reflexivity. Qed.

Definition ev_tag (ev : fevent) (id : N) : Prop :=
  match ev with FKnown i _ | FUnknown i _ => i = id | FSkipped => True end.

Lemma ev_of_tag e fs fb d p ev : ev_of e fs fb d p = Some ev -> ev_tag ev (fst p).
Proof.
  unfold ev_of. destruct (find_field fs (fst p)) as [[[|] ft]|].
  - destruct (typed e ft (S d) (snd p)); intros H; inversion H; reflexivity.
  - destruct (typed e (TOption ft) (S d) (snd p)) as [[]|]; intros H; inversion H; reflexivity.
  - destruct (raw_of e (S d) (snd p)); [destruct fb|]; intros H; inversion H; reflexivity.
Qed.

(* the generated per-field code on the serialization of one field of a value *)
Lemma sfield_ser e fs fb d p vb f r' : wf true (snd p) = true -> (fst p <=? u32_max) = true ->
  ser e (S d) (snd p) = Ok vb -> (fuel2 (snd p) <= f)%nat ->
  dec_res (sfield (tde f) fs fb (S d) ((put_varint 4 (fst p) ++ vb) ++ r')) (ev_of e fs fb d p) r'.
Proof.
  intros Hv Hk Ev Hf.
  assert (forall t', dec_res (tde f t' (S d) (vb ++ r')) (typed e t' (S d) (snd p)) r') as D
    by (intros t'; apply tde_ser; auto).
  unfold sfield. rewrite <- app_assoc, varint_roundtrip by (try lia; apply u32_fits; exact Hk). cbn [bind].
  unfold ev_of. destruct (find_field fs (fst p)) as [[[|] ft]|].
  - specialize (D ft). destruct (typed e ft (S d) (snd p)) as [y|]; cbn [dec_res] in *.
    + rewrite D. reflexivity.
    + destruct D as [err D]. rewrite D. eexists; reflexivity.
  - specialize (D (TOption ft)). destruct (typed e (TOption ft) (S d) (snd p)) as [y|]; cbn [dec_res] in *.
    + rewrite D. cbn [bind]. destruct y; cbn [dec_res]; first [reflexivity|eexists; reflexivity].
    + destruct D as [err D]. rewrite D. eexists; reflexivity.
  - unfold raw_of. rewrite Ev. destruct fb; cbn [dec_res].
    + rewrite (capture_ser e _ _ _ r' Hv Ev). reflexivity.
    + rewrite (skip_at_ser e _ _ _ r' Hv Ev). reflexivity.
Qed.

Lemma varint4_roundtrip id r : (id <=? u32_max) = true -> get_varint 4 (put_varint 4 id ++ r) = Ok (id, r).
Proof. intros H. apply varint_roundtrip; [lia|apply u32_fits; exact H]. Qed.

(* ---------- lists with unique ids ---------- *)
Lemma find_self {Y} (l : list (N * Y)) p : ids_nodup (map fst l) = true -> In p l ->
  find (fun q => fst q =? fst p) l = Some p.
Proof.
  unfold ids_nodup. induction l as [|w l IH]; cbn [map nodupb find]; [intros _ []|].
  intros H Hin. apply andb_prop in H as [H1 H2]. destruct (N.eqb_spec (fst w) (fst p)) as [E|E].
  - destruct Hin as [->|Hin]; [reflexivity|]. exfalso. apply negb_true_iff in H1.
    assert (existsb (N.eqb (fst w)) (map fst l) = true) as C.
    { apply existsb_exists. exists (fst p). split; [apply in_map; exact Hin|apply N.eqb_eq; exact E]. }
    congruence.
  - destruct Hin as [->|Hin]; [contradiction|]. apply IH; assumption.
Qed.

Lemma nodup_fst_inj {Y} (l : list (N * Y)) p q : ids_nodup (map fst l) = true -> In p l -> In q l -> fst p = fst q -> p = q.
Proof.
  intros Hnd Hp Hq E. pose proof (find_self l p Hnd Hp) as Fp. pose proof (find_self l q Hnd Hq) as Fq.
  rewrite E in Fp. rewrite Fp in Fq. congruence.
Qed.

Lemma flat_map_map {A B C} (g : A -> B) (h : B -> list C) l : flat_map h (map g l) = flat_map (fun x => h (g x)) l.
Proof. induction l as [|x l IH]; cbn [map flat_map]; [reflexivity|]. rewrite IH. reflexivity. Qed.

Lemma flat_map_nil {A B} (h : A -> list B) l : (forall x, In x l -> h x = []) -> flat_map h l = [].
Proof.
  induction l as [|x l IH]; intros H; cbn [flat_map]; [reflexivity|].
  rewrite (H x (or_introl eq_refl)), IH; [reflexivity|]. intros y Hy. apply H. right. exact Hy.
Qed.

Lemma flat_map_filter {A B} (P : A -> bool) (h : A -> list B) l :
  (forall x, In x l -> P x = false -> h x = []) -> flat_map h (filter P l) = flat_map h l.
Proof.
  induction l as [|x l IH]; intros H; cbn [filter flat_map]; [reflexivity|].
  rewrite <- IH by (intros y Hy; apply H; right; exact Hy).
  destruct (P x) eqn:E; cbn [flat_map]; [reflexivity|]. rewrite (H x (or_introl eq_refl) E). reflexivity.
Qed.

Lemma map_filter_flat {A B} (P : A -> bool) (g : A -> B) l :
  map g (filter P l) = flat_map (fun x => if P x then [g x] else []) l.
Proof. induction l as [|x l IH]; cbn [filter flat_map map]; [reflexivity|]. destruct (P x); cbn [map app]; rewrite IH; reflexivity. Qed.

Lemma Forall2_in_l {A B} (R : A -> B -> Prop) l l' x : Forall2 R l l' -> In x l -> exists y, In y l' /\ R x y.
Proof.
  induction 1 as [|a b l l' Hab _ IH]; intros Hin; [destruct Hin|].
  destruct Hin as [->|Hin]; [exists b; split; [left; reflexivity|exact Hab]|].
  destruct (IH Hin) as (y & Hy & Hr). exists y. split; [right; exact Hy|exact Hr].
Qed.

Lemma Forall2_map_fun {A B} (g : A -> B) (l : list A) (l' : list B) :
  Forall2 (fun x y => g x = y) l l' -> l' = map g l.
Proof. induction 1; cbn [map]; congruence. Qed.

(* ---------- event lists that are the image of a field list under a tagged event function ---------- *)
Definition tagged (g : N * Value -> fevent) : Prop := forall p, ev_tag (g p) (fst p).

Lemma slot_map g (L : list (N * Value)) id : tagged g -> ids_nodup (map fst L) = true ->
  slot_of (map g L) id =
  match find (fun p => fst p =? id) L with
  | Some p => match g p with FKnown _ o => o | _ => None end
  | None => None
  end.
Proof.
  intros Htag Hnd. unfold slot_of. rewrite last_known_unfold.
  rewrite (lk_find (fun p => Some (g p)) L (map g L) id).
  - destruct (find _ L) as [p|]; [|reflexivity]. cbn [ev_known]. destruct (g p); reflexivity.
  - intros p i o H. inversion H as [H1]. pose proof (Htag p) as T. rewrite H1 in T. exact T.
  - clear. induction L; cbn [map]; constructor; auto.
  - exact Hnd.
Qed.

Lemma unknowns_map g (L : list (N * Value)) : tagged g -> ids_nodup (map fst L) = true ->
  unknowns (map g L) = flat_map (fun p => ev_unknown (g p)) L.
Proof.
  intros Htag Hnd. rewrite unknowns_flat; rewrite flat_map_map; [reflexivity|].
  apply (nodup_select fst); [|exact Hnd]. intros p. pose proof (Htag p) as T.
  destruct (g p) as [i o|i raw|]; cbn [ev_unknown ev_tag] in *; [left; reflexivity|right|left; reflexivity].
  subst i. eexists; reflexivity.
Qed.

(* a struct decoder that sees only some of the fields, in another order, ends in the same state
   provided the fields it does not see would have assigned nothing *)
Lemma events_kept g (l K : list (N * Value)) (A : N * Value -> bool) :
  tagged g -> ids_nodup (map fst l) = true -> ids_nodup (map fst (filter A l ++ K)) = true ->
  incl K l ->
  (forall p, In p K -> ev_unknown (g p) = []) ->
  (forall p, In p l -> A p = false -> ev_unknown (g p) = []) ->
  (forall p, In p l -> ~ In p (filter A l ++ K) -> match g p with FKnown _ (Some _) => False | _ => True end) ->
  (forall id, slot_of (map g (filter A l ++ K)) id = slot_of (map g l) id) /\
  unknowns (map g (filter A l ++ K)) = unknowns (map g l).
Proof.
  intros Htag Hnd Hnd' HK HKu HAu Hin. split.
  - intros id. rewrite (slot_map g _ id Htag Hnd'), (slot_map g _ id Htag Hnd).
    assert (incl (filter A l ++ K) l) as Hincl.
    { intros p Hp. apply in_app_or in Hp as [Hp|Hp]; [apply filter_In in Hp as [Hp _]; exact Hp|apply HK; exact Hp]. }
    destruct (find (fun p => fst p =? id) l) as [p|] eqn:F.
    + apply find_some in F as [Hp Hq]. apply N.eqb_eq in Hq.
      destruct (find (fun p => fst p =? id) (filter A l ++ K)) as [q|] eqn:F'.
      * apply find_some in F' as [Hq' Hq'']. apply N.eqb_eq in Hq''.
        assert (q = p) as -> by (apply (nodup_fst_inj l); auto; congruence). reflexivity.
      * assert (~ In p (filter A l ++ K)) as Hn.
        { intros C. pose proof (find_none _ _ F' p C) as H. cbn beta in H. rewrite Hq, N.eqb_refl in H. discriminate. }
        specialize (Hin p Hp Hn). destruct (g p) as [i [y|]| |]; try reflexivity. contradiction.
    + destruct (find (fun p => fst p =? id) (filter A l ++ K)) as [q|] eqn:F'; [|reflexivity].
      apply find_some in F' as [Hq' Hq'']. pose proof (find_none _ _ F q (Hincl q Hq')) as H. cbn beta in H. congruence.
  - rewrite (unknowns_map g _ Htag Hnd'), (unknowns_map g _ Htag Hnd). rewrite flat_map_app.
    rewrite (flat_map_nil _ K HKu), app_nil_r. apply flat_map_filter. exact HAu.
Qed.

(* ---------- encode with t1, decode with t2 ---------- *)
Definition cyc2 (e : epoch) (t1 t2 : ty) (d : nat) (v : Value) (x1 x2 : tval) : Prop :=
  exists bs', tser t1 d x1 = Ok bs' /\
    forall f r, (fuel2 v <= f)%nat -> tde f t2 d (bs' ++ r) = Ok (x2, r).

Lemma cyc2_same e t d v bs x : wf true v = true -> wf_ty t = true -> ser e d v = Ok bs ->
  typed e t d v = Some x -> cyc2 e t t d v x x.
Proof.
  intros Hwf Hty Hs Ht. destruct (typed_cycle e v t d bs x Hwf Hty Hs Ht) as (bs' & A & _ & C).
  exists bs'. split; assumption.
Qed.

Lemma cyc2_elems e a1 a2 d (l : list Value) : forall ys1 ys2,
  Forall2 (fun x y => typed e a1 d x = Some y) l ys1 -> Forall2 (fun x y => typed e a2 d x = Some y) l ys2 ->
  (forall x y1 y2, In x l -> typed e a1 d x = Some y1 -> typed e a2 d x = Some y2 -> cyc2 e a1 a2 d x y1 y2) ->
  exists inners, mapM (tser a1 d) ys1 = Ok inners /\ length inners = length l /\
    Forall2 (fun b xy => forall f r, (fuel2 (fst xy) <= f)%nat -> tde f a2 d (b ++ r) = Ok (snd xy, r))
            inners (combine l ys2).
Proof.
  induction l as [|x l IH]; intros ys1 ys2 H1 H2 HC.
  - inversion H1; subst. inversion H2; subst. exists []. repeat split; constructor.
  - inversion H1 as [|? y1 ? ys1' Hy1 H1']; subst. inversion H2 as [|? y2 ? ys2' Hy2 H2']; subst.
    destruct (HC x y1 y2 (or_introl eq_refl) Hy1 Hy2) as (b & Hb & Htde).
    destruct (IH ys1' ys2' H1' H2' (fun x' z1 z2 Hin => HC x' z1 z2 (or_intror Hin))) as (inners & Hm & Hl & F).
    exists (b :: inners). cbn [mapM combine length]. rewrite Hb, Hm. cbn [bind]. split; [reflexivity|].
    split; [congruence|]. constructor; [exact Htde|exact F].
Qed.

Lemma cyc2_entries e k a1 a2 d (l : list (keyv * Value)) : forall ys1 ys2 : list (keyv * tval),
  Forall2 (fun p q => fst q = fst p /\ typed e a1 d (snd p) = Some (snd q)) l ys1 ->
  Forall2 (fun p q => fst q = fst p /\ typed e a2 d (snd p) = Some (snd q)) l ys2 ->
  (forall p, In p l -> key_ok true k (fst p) = true) ->
  (forall p y1 y2, In p l -> typed e a1 d (snd p) = Some y1 -> typed e a2 d (snd p) = Some y2 ->
     cyc2 e a1 a2 d (snd p) y1 y2) ->
  exists chunks,
    mapM (fun q => kbs <- put_key k (fst q) ;; b <- tser a1 d (snd q) ;; Ok (kb KSome :: kbs ++ b)) ys1 = Ok chunks /\
    length chunks = length l /\
    (forall f, (forall p, In p l -> (fuel2 (snd p) <= f)%nat) ->
       Forall2 (chunk_ok (tmap_elem k (tde f a2 d))) chunks ys2).
Proof.
  induction l as [|p l IH]; intros ys1 ys2 H1 H2 HK HC.
  - inversion H1; subst. inversion H2; subst. exists []. repeat split; intros; constructor.
  - inversion H1 as [|? q1 ? ys1' [Hk1 Hy1] H1']; subst. inversion H2 as [|? q2 ? ys2' [Hk2 Hy2] H2']; subst.
    destruct (HC p (snd q1) (snd q2) (or_introl eq_refl) Hy1 Hy2) as (b & Hb & Htde).
    destruct (IH ys1' ys2' H1' H2' (fun p' Hin => HK p' (or_intror Hin))
                (fun p' z1 z2 Hin => HC p' z1 z2 (or_intror Hin))) as (chunks & Hm & Hl & F).
    pose proof (HK p (or_introl eq_refl)) as Hok.
    destruct (put_key_ok true k (fst p) Hok) as (kbs & Hkb & _).
    exists ((kb KSome :: kbs ++ b) :: chunks). cbn [mapM length]. rewrite Hk1, Hkb, Hb, Hm. cbn [bind].
    split; [reflexivity|]. split; [congruence|]. intros f Hf. constructor.
    + exists (kbs ++ b). split; [reflexivity|]. intros r'. unfold tmap_elem.
      rewrite <- app_assoc, (key_roundtrip _ _ _ _ _ Hok Hkb). cbn [bind].
      rewrite Htde by (apply Hf; left; reflexivity). destruct q2 as [qk qy]. cbn [fst snd] in *. subst qk. reflexivity.
    + apply F. intros p' Hp'. apply Hf. right. exact Hp'.
Qed.

Lemma combine_snd {A B} (R : A -> B -> Prop) l ys : Forall2 R l ys -> map snd (combine l ys) = ys.
Proof. induction 1; cbn [combine map snd]; [reflexivity|]. f_equal. assumption. Qed.

Theorem typed_cycle2 e : forall v t1 t2 d bs x1 x2, wf true v = true -> wf_ty t1 = true -> wf_ty t2 = true ->
  evo true t1 t2 = true -> ser e d v = Ok bs ->
  typed e t1 d v = Some x1 -> typed e t2 d v = Some x2 -> cyc2 e t1 t2 d v x1 x2.
Proof.
  induction v as [|x0 IH|b|i z|fk fbs|s|l IH|bs0|k l IH|k l|l IH|id x0 IH] using Value_ind';
    intros t1 t2 d bs x1 x2 Hwf Hty1 Hty2 Hev Hser Ht1 Ht2;
    (destruct t1 as [lt1| |a1|a1|len1 a1|kt1 a1|ta1 tb1|fs1 fb1|vs1 fb1];
     destruct t2 as [lt2| |a2|a2|len2 a2|kt2 a2|ta2 tb2|fs2 fb2|vs2 fb2]; cbn [evo] in Hev; try discriminate Hev;
     [apply lty_eqb_eq in Hev; subst lt2; rewrite Ht1 in Ht2; inversion Ht2; subst x2; eapply cyc2_same; eauto
     |rewrite Ht1 in Ht2; inversion Ht2; subst x2; eapply cyc2_same; eauto
     |..]); cbn [typed] in Ht1, Ht2; try discriminate Ht1.
  all: pose proof (too_deep_ser _ _ _ _ Hser) as Hd.
  - (* None / Option *)
    inversion Ht1; subst x1. inversion Ht2; subst x2. exists [kb KNone]. split.
    + cbn [tser]. rewrite Hd. reflexivity.
    + intros f r Hf. destruct f as [|f]; [cbn in Hf; lia|]. cbn [app]. rewrite tde_step by (congruence || exact Hd). reflexivity.
  - (* Some / Option *)
    cbn [ser] in Hser. depth_ok Hser. bind_ok Hser b0 E. cbn [wf] in Hwf. cbn [wf_ty] in Hty1, Hty2.
    destruct (typed e a1 (S d) x0) as [y1|] eqn:Ty1; [|discriminate]. inversion Ht1; subst x1.
    destruct (typed e a2 (S d) x0) as [y2|] eqn:Ty2; [|discriminate]. inversion Ht2; subst x2.
    destruct (IH a1 a2 (S d) b0 y1 y2 Hwf Hty1 Hty2 Hev E Ty1 Ty2) as (b' & Hb & Htde).
    exists (kb KSome :: b'). split.
    + cbn [tser]. rewrite Hd, Hb. reflexivity.
    + intros f r Hf. cbn [fuel2] in Hf. destruct f as [|f]; [lia|]. cbn [app].
      rewrite tde_step by (congruence || exact Hd). cbn [tde_kind]. rewrite Htde by lia. reflexivity.
  - (* Vec / Vec *)
    cbn [wf] in Hwf. apply andb_prop in Hwf as [Hlen Hwf]. rewrite forallb_forall in Hwf. rewrite Forall_forall in IH.
    cbn [wf_ty] in Hty1, Hty2.
    destruct (opt_all (map (typed e a1 (S d)) l)) as [ys1|] eqn:Eo1; [|discriminate]. inversion Ht1; subst x1.
    destruct (opt_all (map (typed e a2 (S d)) l)) as [ys2|] eqn:Eo2; [|discriminate]. inversion Ht2; subst x2.
    apply opt_all_forall2 in Eo1. apply opt_all_forall2 in Eo2.
    destruct (cyc2_elems e a1 a2 (S d) l ys1 ys2 Eo1 Eo2) as (inners & Hm & Hl & F2).
    { intros x y1 y2 Hin Hy1 Hy2. destruct (ser_vec_child _ _ _ _ x Hser Hin) as [b0 Hb0]. eapply IH; eauto. }
    exists (kb (KVec E2) :: concat (map (cons (kb KSome)) inners) ++ [kb KNone]). split.
    + cbn [tser]. rewrite Hd. rewrite (mapM_cons_of _ _ _ _ Hm). reflexivity.
    + intros f r Hf. cbn [fuel2] in Hf. destruct f as [|f]; [lia|]. cbn [app].
      rewrite tde_step by (congruence || exact Hd). cbn [tde_kind]. rewrite <- app_assoc. cbn [app].
      pose proof (combine_snd _ _ _ Eo2) as MS.
      erewrite (loop2_spec (tde f a2 (S d)) _ (map snd (combine l ys2))); [rewrite MS; reflexivity| |].
      * apply chunks_some. eapply Forall2_impl_in2; [exact F2|]. cbn beta. intros b0 xy _ Hin Hx r'. apply Hx.
        apply in_combine_both in Hin as [Hin _].
        pose proof (fuel2_in fuel2 (fst xy) l Hin). lia.
      * rewrite map_length. lia.
  - (* Vec / Array *)
    cbn [wf] in Hwf. apply andb_prop in Hwf as [Hlen Hwf]. rewrite forallb_forall in Hwf. rewrite Forall_forall in IH.
    cbn [wf_ty] in Hty1, Hty2. apply andb_prop in Hty1 as [_ Hty1]. apply andb_prop in Hty2 as [_ Hty2].
    apply andb_prop in Hev as [Hn Hev]. apply N.eqb_eq in Hn. subst len2.
    destruct (lenN l =? len1) eqn:El; [|discriminate].
    destruct (opt_all (map (typed e a1 (S d)) l)) as [ys1|] eqn:Eo1; [|discriminate]. inversion Ht1; subst x1.
    destruct (opt_all (map (typed e a2 (S d)) l)) as [ys2|] eqn:Eo2; [|discriminate]. inversion Ht2; subst x2.
    apply opt_all_forall2 in Eo1. apply opt_all_forall2 in Eo2.
    destruct (cyc2_elems e a1 a2 (S d) l ys1 ys2 Eo1 Eo2) as (inners & Hm & Hl & F2).
    { intros x y1 y2 Hin Hy1 Hy2. destruct (ser_vec_child _ _ _ _ x Hser Hin) as [b0 Hb0]. eapply IH; eauto. }
    exists (kb (KVec E2) :: concat (map (cons (kb KSome)) inners) ++ [kb KNone]). split.
    + cbn [tser]. rewrite Hd. rewrite (mapM_cons_of _ _ _ _ Hm). reflexivity.
    + intros f r Hf. cbn [fuel2] in Hf. destruct f as [|f]; [lia|]. cbn [app].
      rewrite tde_step by (congruence || exact Hd). cbn [tde_kind]. rewrite <- app_assoc. cbn [app].
      pose proof (combine_snd _ _ _ Eo2) as MS.
      assert (Forall2 (el_dec (tde f a2 (S d))) inners (map Some ys2)) as FD.
      { rewrite <- MS, map_map. apply Forall2_map_r. eapply Forall2_impl_in2; [exact F2|]. cbn beta.
        intros b0 xy _ Hin Hx r'. cbn [dec_res]. apply Hx. apply in_combine_both in Hin as [Hin _].
        pose proof (fuel2_in fuel2 (fst xy) l Hin). lia. }
      pose proof (arr2_dec _ _ _ r FD (N.to_nat len1)) as L. rewrite opt_all_map_some in L.
      assert ((length inners =? N.to_nat len1)%nat = true) as EL.
      { apply N.eqb_eq in El. unfold lenN in El. apply Nat.eqb_eq. lia. }
      rewrite EL in L. cbn [dec_res] in L. rewrite L. reflexivity.
  - (* Map / Map *)
    cbn [wf] in Hwf. apply andb_prop in Hwf as [Hwf Hall]. apply andb_prop in Hwf as [Hlen Hnd].
    rewrite forallb_forall in Hall. rewrite Forall_forall in IH. cbn [wf_ty] in Hty1, Hty2.
    apply andb_prop in Hev as [Hkk Hev]. apply keyk_eqb_eq in Hkk. subst kt2.
    destruct (keyk_eqb kt1 k) eqn:Ek; [|discriminate]. apply keyk_eqb_eq in Ek. subst kt1.
    match type of Ht1 with match opt_all (map ?g l) with _ => _ end = _ => set (spec1 := g) in * end.
    match type of Ht2 with match opt_all (map ?g l) with _ => _ end = _ => set (spec2 := g) in * end.
    destruct (opt_all (map spec1 l)) as [ys1|] eqn:Eo1; [|discriminate]. inversion Ht1; subst x1.
    destruct (opt_all (map spec2 l)) as [ys2|] eqn:Eo2; [|discriminate]. inversion Ht2; subst x2.
    pose proof (opt_all_keys _ fst _ _ Eo2) as Hkeys.
    apply opt_all_forall2 in Eo1. apply opt_all_forall2 in Eo2.
    assert (Forall2 (fun p q => fst q = fst p /\ typed e a1 (S d) (snd p) = Some (snd q)) l ys1) as FC1.
    { eapply Forall2_impl_in; [exact Eo1|]. cbn beta. intros p q Hin Hq. unfold spec1 in Hq.
      destruct (typed e a1 (S d) (snd p)) as [y|]; [|discriminate]. inversion Hq; subst q. split; reflexivity. }
    assert (Forall2 (fun p q => fst q = fst p /\ typed e a2 (S d) (snd p) = Some (snd q)) l ys2) as FC2.
    { eapply Forall2_impl_in; [exact Eo2|]. cbn beta. intros p q Hin Hq. unfold spec2 in Hq.
      destruct (typed e a2 (S d) (snd p)) as [y|]; [|discriminate]. inversion Hq; subst q. split; reflexivity. }
    destruct (cyc2_entries e k a1 a2 (S d) l ys1 ys2 FC1 FC2) as (chunks & Hm & Hl & F2).
    { intros p Hin. specialize (Hall _ Hin). apply andb_prop in Hall as [Hk _]. exact Hk. }
    { intros p y1 y2 Hin Hy1 Hy2. specialize (Hall _ Hin). apply andb_prop in Hall as [_ Hv].
      destruct (ser_map_child _ _ _ _ _ p Hser Hin) as [b0 Hb0]. eapply IH; eauto. }
    exists (kb (KMap E2 k) :: concat chunks ++ [kb KNone]). split.
    + cbn [tser]. rewrite Hd, Hm. reflexivity.
    + intros f r Hf. cbn [fuel2] in Hf. destruct f as [|f]; [lia|]. cbn [app].
      rewrite tde_step by (congruence || exact Hd). cbn [tde_kind]. rewrite keyk_eqb_refl.
      rewrite <- app_assoc. cbn [app].
      assert (forall p, In p l -> (fuel2 (snd p) <= f)%nat) as HF.
      { intros p Hin. pose proof (fuel2_in (fun p => fuel2 (snd p)) p l Hin). cbn beta in *. lia. }
      erewrite loop2_spec; [cbn [bind]; rewrite dedup_tmap_id; [reflexivity|]| |].
      * rewrite Hkeys. exact Hnd.
      * apply F2. exact HF.
      * lia.
  - (* Struct / Struct *)
    cbn [wf] in Hwf. apply andb_prop in Hwf as [Hwf Hall]. apply andb_prop in Hwf as [Hlen Hnd].
    rewrite forallb_forall in Hall. rewrite Forall_forall in IH.
    pose proof Hty1 as Hty10. pose proof Hty2 as Hty20.
    cbn [wf_ty] in Hty1, Hty2. apply andb_prop in Hty1 as [Hfn1 Hfall1]. rewrite forallb_forall in Hfall1.
    apply andb_prop in Hty2 as [Hfn2 Hfall2]. rewrite forallb_forall in Hfall2.
    change (typed e (TStruct fs1 fb1) d (VStruct l) = Some x1) in Ht1. rewrite typed_struct in Ht1.
    change (typed e (TStruct fs2 fb2) d (VStruct l) = Some x2) in Ht2. rewrite typed_struct in Ht2.
    set (spec1 := ev_of e fs1 fb1 d) in *. set (spec2 := ev_of e fs2 fb2 d) in *.
    destruct (opt_all (map spec1 l)) as [evs1|] eqn:Eo1; [|discriminate].
    destruct (build_slots fs1 evs1) as [slots1|] eqn:Eb1; [|discriminate]. inversion Ht1; subst x1. clear Ht1.
    apply opt_all_forall2 in Eo1. rewrite build_slots_spec in Eb1.
    destruct (forallb _ fs1) eqn:RQ1 in Eb1; [|discriminate]. apply Ok_inj in Eb1. subst slots1.
    rewrite forallb_forall in RQ1.
    destruct (opt_all (map spec2 l)) as [evs2|] eqn:Eo2; [|discriminate].
    destruct (build_slots fs2 evs2) as [slots2|] eqn:Eb2; [|discriminate]. inversion Ht2; subst x2. clear Ht2.
    apply opt_all_forall2 in Eo2. rewrite build_slots_spec in Eb2.
    destruct (forallb _ fs2) eqn:RQ2 in Eb2; [|discriminate]. apply Ok_inj in Eb2. subst slots2.
    rewrite forallb_forall in RQ2.
    pose proof (evo_struct_keep fs1 fb1 fs2 fb2 Hev) as KEEP.
    (* facts per field of the value *)
    assert (forall p, In p l -> exists raw, ser e (S d) (snd p) = Ok raw /\ wf true (snd p) = true /\
              (fst p <=? u32_max) = true /\
              (forall t1' t2' y1 y2, wf_ty t1' = true -> wf_ty t2' = true -> evo true t1' t2' = true ->
                 typed e t1' (S d) (snd p) = Some y1 -> typed e t2' (S d) (snd p) = Some y2 ->
                 cyc2 e t1' t2' (S d) (snd p) y1 y2)) as PF.
    { intros p Hin. destruct (ser_struct_child _ _ _ _ p Hser Hin) as [raw Hraw]. exists raw.
      specialize (Hall _ Hin). apply andb_prop in Hall as [Hk Hv]. repeat split; auto.
      intros t1' t2' y1 y2 W1 W2 He Y1 Y2. eapply IH; eauto. }
    assert (forall p i o, spec1 p = Some (FKnown i o) -> i = fst p) as Hid1
      by (intros p i o H; exact (ev_of_tag _ _ _ _ _ _ H)).
    assert (l <> [] -> too_deep (S d) = false) as HdS.
    { destruct l as [|p l']; [congruence|]. intros _. destruct (PF p (or_introl eq_refl)) as (raw & Hr & _).
      eapply too_deep_ser; eauto. }
    set (sl1 := fun f : N * (bool * ty) => slot_of evs1 (fst f)).
    assert (forall f, In f fs1 -> sl1 f = match find (fun p => fst p =? fst f) l with
                                          | Some p => match spec1 p with Some (FKnown _ o) => o | _ => None end
                                          | None => None end) as SL1.
    { intros f Hf. unfold sl1, slot_of. rewrite last_known_unfold, (lk_find spec1 l evs1 (fst f) Hid1 Eo1 Hnd None).
      destruct (find _ l) as [p|]; [|reflexivity]. destruct (spec1 p) as [[i o| |]|]; reflexivity. }
    assert (forall f, In f fs1 -> wf_ty (fty f) = true /\ (fst f <=? u32_max) = true) as WT1.
    { intros f Hf. specialize (Hfall1 _ Hf). apply andb_prop in Hfall1 as [K W]. split; [|exact K].
      unfold fty. destruct (fst (snd f)); exact W. }
    (* a set slot of the old type: its source field and typed value *)
    assert (forall f y, In f fs1 -> sl1 f = Some y ->
              exists p, find (fun p => fst p =? fst f) l = Some p /\ In p l /\ fst p = fst f /\
                        typed e (fty f) (S d) (snd p) = Some (fval f y)) as SRC1.
    { intros f y Hf Hs. rewrite (SL1 f Hf) in Hs. destruct (find _ l) as [p|] eqn:Fd; [|discriminate].
      exists p. split; [reflexivity|].
      apply find_some in Fd as [Hin Hq]. apply N.eqb_eq in Hq. split; [exact Hin|]. split; [exact Hq|].
      pose proof (find_field_nodup fs1 f Hfn1 Hf) as FF. rewrite <- Hq in FF.
      unfold spec1, ev_of in Hs. rewrite FF in Hs. unfold fty, fval in *. destruct (snd f) as [[|] ft]; cbn [fst snd] in *.
      - destruct (typed e ft (S d) (snd p)) as [y'|] eqn:Ty; [|discriminate]. inversion Hs; subst y'. reflexivity.
      - destruct (typed e (TOption ft) (S d) (snd p)) as [[| |o| | | | |]|] eqn:Ty; try discriminate.
        subst o. reflexivity. }
    (* the unknown fields of the old type *)
    set (isunk1 := fun p : N * Value => fb1 && match find_field fs1 (fst p) with None => true | Some _ => false end).
    set (rawf := fun p : N * Value => match raw_of e (S d) (snd p) with Some b => b | None => [] end).
    assert (forall p, In p l -> match spec1 p with Some ev => ev_unknown ev | None => [] end =
                                  if isunk1 p then [(fst p, rawf p)] else []) as UK1.
    { intros p Hin. destruct (PF p Hin) as (raw & Hr & _). unfold spec1, ev_of, isunk1, rawf, raw_of. rewrite Hr.
      destruct (find_field fs1 (fst p)) as [[[|] ft]|].
      - rewrite andb_false_r. destruct (typed e ft (S d) (snd p)); reflexivity.
      - rewrite andb_false_r. destruct (typed e (TOption ft) (S d) (snd p)) as [[]|]; reflexivity.
      - rewrite andb_true_r. destruct fb1; reflexivity. }
    set (U1 := flat_map (fun p => if isunk1 p then [(fst p, rawf p)] else []) l).
    assert (unknowns evs1 = U1) as EU1.
    { assert (flat_map ev_unknown evs1 = U1) as E1'.
      { rewrite (flat_map_forall2 ev_unknown spec1 l evs1 Eo1). unfold U1.
        clear -UK1. induction l as [|p l IHl]; cbn [flat_map]; [reflexivity|].
        rewrite (UK1 p (or_introl eq_refl)), IHl; [reflexivity|]. intros q Hq. apply UK1. right. exact Hq. }
      rewrite unknowns_flat; rewrite E1'; [reflexivity|]. unfold U1.
      apply (nodup_select fst); [|exact Hnd]. intros p. destruct (isunk1 p); [right; eexists; reflexivity|left; reflexivity]. }
    rewrite EU1.
    (* serialization by the old type succeeds *)
    assert (forall f, In f fs1 -> match sl1 f with
                                  | Some y => exists b, ser_field d f y = Ok b
                                  | None => fst (snd f) = false end) as SF1.
    { intros f Hf. destruct (sl1 f) as [y|] eqn:Es.
      - destruct (SRC1 f y Hf Es) as (p & _ & Hin & _ & Ty). destruct (PF p Hin) as (raw & Hr & Hv & _).
        destruct (typed_cycle e (snd p) (fty f) (S d) raw (fval f y) Hv (proj1 (WT1 f Hf)) Hr Ty) as (b' & Hb & _).
        rewrite ser_field_eq, Hb. eexists; reflexivity.
      - specialize (RQ1 f Hf). fold (sl1 f) in RQ1. rewrite Es in RQ1. cbn [is_some] in RQ1. rewrite orb_false_r in RQ1.
        apply negb_true_iff in RQ1. exact RQ1. }
    set (kch1 := flat_map (fun f => match sl1 f with Some y => [chunk_of d f y] | None => [] end) fs1).
    exists (kb (KStruct E2) :: concat (map rawchunk U1) ++ concat kch1 ++ [kb KNone]). split.
    + rewrite tser_struct, Hd. rewrite raw_fields_ok.
      * cbn [bind]. fold sl1. change (map (fun f => slot_of evs1 (fst f)) fs1) with (map sl1 fs1).
        rewrite (ser_fields_map d sl1 fs1 SF1). reflexivity.
      * intros HU. apply HdS. intros ->. apply HU. reflexivity.
    + (* the decoder of the new type reads its own typed value *)
      intros f0 r Hf. cbn [fuel2] in Hf.
      set (g := fun p => match spec2 p with Some ev => ev | None => FSkipped end).
      assert (tagged g) as Htag.
      { intros p. unfold g. destruct (spec2 p) as [ev|] eqn:Sp; [exact (ev_of_tag _ _ _ _ _ _ Sp)|exact I]. }
      assert (forall p, In p l -> spec2 p = Some (g p)) as G2.
      { intros p Hin. destruct (Forall2_in_l _ _ _ p Eo2 Hin) as (ev & _ & Sp). unfold g. rewrite Sp. reflexivity. }
      assert (evs2 = map g l) as EM2.
      { apply Forall2_map_fun. eapply Forall2_impl_in; [exact Eo2|]. cbn beta. intros p ev Hin Sp. unfold g. rewrite Sp. reflexivity. }
      (* every old field is a field of the new type *)
      assert (forall f, In f fs1 -> exists ft2, find_field fs2 (fst f) = Some (fst (snd f), ft2) /\
                 evo true (snd (snd f)) ft2 = true /\ wf_ty ft2 = true) as CO.
      { intros f Hf0. destruct (evo_struct_field true fs1 fb1 fs2 fb2 f Hev Hf0) as (ft2 & F2 & He).
        exists ft2. repeat split; auto. eapply wf_ty_field; [exact Hty20|exact F2]. }
      (* a set slot of the old type, seen from the new type *)
      assert (forall f y, In f fs1 -> sl1 f = Some y ->
                exists p ft2 y2, find (fun p => fst p =? fst f) l = Some p /\ In p l /\ fst p = fst f /\
                  find_field fs2 (fst f) = Some (fst (snd f), ft2) /\
                  g p = FKnown (fst f) (Some y2) /\
                  cyc2 e (fty f) (fty (fst f, (fst (snd f), ft2))) (S d) (snd p)
                       (fval f y) (fval (fst f, (fst (snd f), ft2)) y2)) as SRC2.
      { intros f y Hf0 Es. destruct (SRC1 f y Hf0 Es) as (p & Fd & Hin & Hq & Ty1).
        destruct (CO f Hf0) as (ft2 & F2 & He & W2). destruct (PF p Hin) as (raw & Hr & Hv & Hk & CY).
        pose proof (G2 p Hin) as Sp. unfold spec2, ev_of in Sp. rewrite Hq, F2 in Sp.
        pose proof (proj1 (WT1 f Hf0)) as W1.
        destruct f as [id [req ft1]]. unfold fty, fval in *. cbn [fst snd] in *. destruct req.
        - destruct (typed e ft2 (S d) (snd p)) as [y2|] eqn:Ty2; [|discriminate]. inversion Sp as [Sg].
          exists p, ft2, y2. repeat split; auto.
        - destruct (typed_option_some _ _ _ _ _ Ty1) as [v0 Ev0].
          destruct (typed e (TOption ft2) (S d) (snd p)) as [[| |o| | | | |]|] eqn:Ty2; try discriminate.
          inversion Sp as [Sg]. rewrite Ev0 in Ty2. cbn [typed] in Ty2.
          destruct (typed e ft2 (S (S d)) v0) as [y2|] eqn:Ty2'; [|discriminate]. inversion Ty2; subst o.
          exists p, ft2, y2. repeat split; auto. apply CY; auto. rewrite Ev0. cbn [typed]. rewrite Ty2'. reflexivity. }
      (* the fields the old type passes on: its unknown ones (raw), then its set slots *)
      set (K := flat_map (fun f => match sl1 f with
                                   | Some _ => match find (fun p => fst p =? fst f) l with Some p => [p] | None => [] end
                                   | None => [] end) fs1).
      assert (forall f1, (forall p, In p l -> (fuel2 (snd p) <= f1)%nat) ->
                Forall2 (chunk_ok (sfield (tde f1) fs2 fb2 (S d))) (map rawchunk U1 ++ kch1)
                        (map g (filter isunk1 l ++ K))) as CH.
      { intros f1 HF. rewrite map_app. apply Forall2_app.
        - unfold U1. rewrite map_flat_map, map_filter_flat. apply Forall2_flat_map. intros p Hin.
          destruct (isunk1 p) eqn:Iu; cbn [map]; constructor; [|constructor].
          destruct (PF p Hin) as (raw & Hr & Hv & Hk & _).
          exists (put_varint 4 (fst p) ++ rawf p). split; [reflexivity|]. intros r'.
          pose proof (sfield_ser e fs2 fb2 d p raw f1 r' Hv Hk Hr (HF p Hin)) as D. fold spec2 in D.
          rewrite (G2 p Hin) in D. cbn [dec_res] in D. unfold rawf, raw_of. rewrite Hr. exact D.
        - unfold kch1, K. rewrite map_flat_map. apply Forall2_flat_map. intros f Hf0.
          destruct (sl1 f) as [y|] eqn:Es; [|constructor].
          destruct (SRC2 f y Hf0 Es) as (p & ft2 & y2 & Fd & Hin & Hq & F2 & Gp & (b' & Hb & Htde)).
          rewrite Fd. cbn [map]. constructor; [|constructor].
          unfold chunk_of. rewrite ser_field_eq, Hb. cbn [bind].
          exists (put_varint 4 (fst f) ++ b'). split; [reflexivity|]. intros r'. unfold sfield.
          rewrite <- app_assoc, varint4_roundtrip by exact (proj2 (WT1 f Hf0)). cbn [bind].
          rewrite F2. specialize (Htde f1 r' (HF p Hin)). rewrite Gp.
          unfold fty, fval in Htde. cbn [fst snd] in Htde. destruct (fst (snd f)); rewrite Htde; reflexivity. }
      assert (forall p, In p K -> exists f y, In f fs1 /\ sl1 f = Some y /\ find (fun q => fst q =? fst f) l = Some p) as INK.
      { intros p Hp. unfold K in Hp. apply in_flat_map in Hp as (f & Hf0 & Hp). destruct (sl1 f) as [y|] eqn:Es; [|destruct Hp].
        destruct (find _ l) as [q|] eqn:Fd; [|destruct Hp]. destruct Hp as [->|[]]. exists f, y. auto. }
      assert (ids_nodup (map fst (filter isunk1 l ++ K)) = true) as ND.
      { rewrite map_app. apply nodupb_app_disjoint.
        - rewrite filter_flat_map. apply (nodup_select fst); [|exact Hnd]. intros p. destruct (isunk1 p); [right|left; reflexivity].
          exists (snd p). destruct p; reflexivity.
        - unfold K. apply (nodup_select fst); [|exact Hfn1]. intros f. destruct (sl1 f); [|left; reflexivity].
          destruct (find _ l) as [q|] eqn:Fd; [right|left; reflexivity].
          apply find_some in Fd as [_ Hq]. apply N.eqb_eq in Hq. exists (snd q). rewrite <- Hq. destruct q; reflexivity.
        - intros i Hi. apply not_true_is_false. intros C.
          apply in_map_iff in Hi as (p & <- & Hp). apply filter_In in Hp as [Hp Iu].
          apply existsb_exists in C as (j & Hj & Hq). apply N.eqb_eq in Hq. subst j.
          apply in_map_iff in Hj as (q & Hq & HqK). destruct (INK q HqK) as (f & y & Hf0 & _ & Fd).
          apply find_some in Fd as [_ Hqf]. apply N.eqb_eq in Hqf.
          unfold isunk1 in Iu. apply andb_prop in Iu as [_ Iu]. rewrite <- Hq, Hqf in Iu.
          pose proof (find_field_some_in fs1 f Hf0). destruct (find_field fs1 (fst f)); [discriminate|congruence]. }
      assert (incl K l) as INCL.
      { intros p Hp. destruct (INK p Hp) as (f & y & _ & _ & Fd). apply find_some in Fd as [H _]. exact H. }
      assert (forall p, In p K -> ev_unknown (g p) = []) as KU.
      { intros p Hp. destruct (INK p Hp) as (f & y & Hf0 & Es & Fd).
        destruct (SRC2 f y Hf0 Es) as (p' & ft2 & y2 & Fd' & _ & _ & _ & Gp & _).
        rewrite Fd in Fd'. inversion Fd'; subst p'. rewrite Gp. reflexivity. }
      assert (forall p, In p l -> isunk1 p = false -> ev_unknown (g p) = []) as AU.
      { intros p Hin Iu. pose proof (G2 p Hin) as Sp. unfold spec2, ev_of in Sp.
        destruct (find_field fs2 (fst p)) as [[[|] ft2]|] eqn:F2.
        - destruct (typed e ft2 (S d) (snd p)); [|discriminate]. inversion Sp as [Sg]. reflexivity.
        - destruct (typed e (TOption ft2) (S d) (snd p)) as [[| |o| | | | |]|]; try discriminate. inversion Sp as [Sg]. reflexivity.
        - destruct (raw_of e (S d) (snd p)); [|discriminate]. inversion Sp as [Sg].
          destruct fb2; [|reflexivity]. exfalso. destruct KEEP as [K1|[K1 _]]; [|discriminate].
          unfold isunk1 in Iu. rewrite K1 in Iu. cbn [andb] in Iu.
          destruct (find_field fs1 (fst p)) as [[req ft1]|] eqn:F1; [|discriminate].
          destruct (CO _ (find_field_in _ _ _ _ F1)) as (ft2 & F2' & _). cbn [fst] in F2'. congruence. }
      assert (forall p, In p l -> ~ In p (filter isunk1 l ++ K) ->
                match g p with FKnown _ (Some _) => False | _ => True end) as INERT.
      { intros p Hin Hn. pose proof (G2 p Hin) as Sp. unfold spec2, ev_of in Sp.
        destruct (find_field fs1 (fst p)) as [[req ft1]|] eqn:F1.
        - pose proof (find_field_in _ _ _ _ F1) as Hf0.
          destruct (CO _ Hf0) as (ft2 & F2 & _). cbn [fst snd] in F2. rewrite F2 in Sp.
          destruct (sl1 (fst p, (req, ft1))) as [y|] eqn:Es.
          + exfalso. apply Hn. apply in_or_app. right. unfold K. apply in_flat_map. exists (fst p, (req, ft1)). split; [exact Hf0|].
            rewrite Es. cbn [fst]. rewrite (find_self l p Hnd Hin). left. reflexivity.
          + rewrite (SL1 _ Hf0) in Es. cbn [fst] in Es. rewrite (find_self l p Hnd Hin) in Es.
            destruct (Forall2_in_l _ _ _ p Eo1 Hin) as (ev1 & _ & Sp1). rewrite Sp1 in Es.
            unfold spec1, ev_of in Sp1. rewrite F1 in Sp1. destruct req.
            * destruct (typed e ft1 (S d) (snd p)); [|discriminate]. inversion Sp1; subst ev1. discriminate.
            * destruct (typed e (TOption ft1) (S d) (snd p)) as [[| |o| | | | |]|] eqn:Ty1; try discriminate.
              inversion Sp1; subst ev1. subst o. rewrite (typed_option_none _ _ _ _ Ty1) in Sp. cbn [typed] in Sp.
              inversion Sp as [Sg]. exact I.
        - destruct (find_field fs2 (fst p)) as [[req2 ft2]|] eqn:F2.
          + exfalso. destruct KEEP as [K1|[_ K2]].
            * apply Hn. apply in_or_app. left. apply filter_In. split; [exact Hin|]. unfold isunk1. rewrite K1, F1. reflexivity.
            * specialize (K2 (fst p)). unfold known_field in K2. rewrite F2, F1 in K2. specialize (K2 eq_refl). discriminate.
          + destruct (raw_of e (S d) (snd p)); [|discriminate]. inversion Sp as [Sg]. destruct fb2; exact I. }
      destruct (events_kept g l K isunk1 Htag Hnd ND INCL KU AU INERT) as [SLOTS UNK].
      destruct f0 as [|f0]; [exfalso; clear -Hf; lia|]. cbn [app].
      rewrite tde_step by (congruence || exact Hd). cbn [tde_kind].
      replace ((concat (map rawchunk U1) ++ concat kch1 ++ [kb KNone]) ++ r)
        with (concat (map rawchunk U1 ++ kch1) ++ kb KNone :: r) by (rewrite concat_app, <- !app_assoc; reflexivity).
      assert (forall p, In p l -> (fuel2 (snd p) <= f0)%nat) as HF.
      { intros p Hin. pose proof (fuel2_in (fun p => fuel2 (snd p)) p l Hin) as X. cbn beta in X. clear -X Hf. lia. }
      erewrite loop2_spec; [| exact (CH f0 HF) |].
      * cbn [bind]. rewrite build_slots_spec.
        assert (forallb (fun f => negb (fst (snd f)) || is_some (slot_of (map g (filter isunk1 l ++ K)) (fst f))) fs2 = true) as ->.
        { apply forallb_forall. intros f Hf0. rewrite SLOTS, <- EM2. apply RQ2. exact Hf0. }
        cbn [bind]. rewrite UNK, <- EM2.
        assert (map (fun f => slot_of (map g (filter isunk1 l ++ K)) (fst f)) fs2 = map (fun f => slot_of evs2 (fst f)) fs2) as ->.
        { apply map_ext_in. intros f Hf0. rewrite SLOTS, <- EM2. reflexivity. }
        reflexivity.
      * rewrite (Forall2_len _ _ _ (CH f0 HF)), map_length.
        assert (length (filter isunk1 l ++ K) <= length l)%nat as LE.
        { rewrite <- (map_length fst (filter isunk1 l ++ K)), <- (map_length fst l).
          apply NoDup_incl_length; [apply nodupb_NoDup; exact ND|]. apply incl_map.
          intros p Hp. apply in_app_or in Hp as [Hp|Hp]; [apply filter_In in Hp as [Hp _]; exact Hp|apply INCL; exact Hp]. }
        eapply Nat.le_lt_trans; [exact LE|]. clear -Hf. lia.
  - (* Enum / Result *)
    cbn [ser] in Hser. depth_ok Hser. bind_ok Hser b0 E. cbn [wf] in Hwf. apply andb_prop in Hwf as [Hid Hwf].
    cbn [wf_ty] in Hty1, Hty2. apply andb_prop in Hty1 as [Hta1 Htb1]. apply andb_prop in Hty2 as [Hta2 Htb2].
    apply andb_prop in Hev as [Heva Hevb].
    destruct (N.eqb_spec id 0) as [->|N0]; [|destruct (N.eqb_spec id 1) as [->|N1]; [|discriminate]].
    + destruct (typed e ta1 (S d) x0) as [y1|] eqn:Ty1; [|discriminate]. inversion Ht1; subst x1.
      destruct (typed e ta2 (S d) x0) as [y2|] eqn:Ty2; [|discriminate]. inversion Ht2; subst x2.
      destruct (IH ta1 ta2 (S d) b0 y1 y2 Hwf Hta1 Hta2 Heva E Ty1 Ty2) as (b' & Hb & Htde).
      exists (kb KEnum :: put_varint 4 0 ++ b'). split.
      * cbn [tser]. rewrite Hd. change (0 =? 0) with true. cbn iota. rewrite Hb. reflexivity.
      * intros f r Hf. cbn [fuel2] in Hf. destruct f as [|f]; [lia|]. cbn [app].
        rewrite tde_step by (congruence || exact Hd). cbn [tde_kind].
        rewrite <- app_assoc, varint_roundtrip by (try lia; reflexivity). cbn [bind]. change (0 =? 0) with true. cbn iota.
        rewrite Htde by lia. reflexivity.
    + destruct (typed e tb1 (S d) x0) as [y1|] eqn:Ty1; [|discriminate]. inversion Ht1; subst x1.
      destruct (typed e tb2 (S d) x0) as [y2|] eqn:Ty2; [|discriminate]. inversion Ht2; subst x2.
      destruct (IH tb1 tb2 (S d) b0 y1 y2 Hwf Htb1 Htb2 Hevb E Ty1 Ty2) as (b' & Hb & Htde).
      exists (kb KEnum :: put_varint 4 1 ++ b'). split.
      * cbn [tser]. rewrite Hd. change (1 =? 0) with false. change (1 =? 1) with true. cbn iota. rewrite Hb. reflexivity.
      * intros f r Hf. cbn [fuel2] in Hf. destruct f as [|f]; [lia|]. cbn [app].
        rewrite tde_step by (congruence || exact Hd). cbn [tde_kind].
        rewrite <- app_assoc, varint_roundtrip by (try lia; reflexivity). cbn [bind].
        change (1 =? 0) with false. change (1 =? 1) with true. cbn iota.
        rewrite Htde by lia. reflexivity.
  - (* Enum / Enum *)
    cbn [ser] in Hser. depth_ok Hser. bind_ok Hser b0 E. cbn [wf] in Hwf. apply andb_prop in Hwf as [Hid Hwf].
    destruct (find_variant vs1 id) as [[vt1|]|] eqn:Ev1.
    + (* known to both, with a payload *)
      pose proof (evo_enum_variant true vs1 fb1 vs2 fb2 _ Hev (find_variant_in _ _ _ Ev1)) as EV. cbn [fst snd] in EV.
      destruct EV as (vt2 & Ev2 & Hev'). rewrite Ev2 in Ht2.
      destruct (typed e vt1 (S d) x0) as [y1|] eqn:Ty1; [|discriminate]. inversion Ht1; subst x1.
      destruct (typed e vt2 (S d) x0) as [y2|] eqn:Ty2; [|discriminate]. inversion Ht2; subst x2.
      destruct (IH vt1 vt2 (S d) b0 y1 y2 Hwf (wf_ty_variant _ _ _ _ Hty1 Ev1) (wf_ty_variant _ _ _ _ Hty2 Ev2) Hev' E Ty1 Ty2)
        as (b' & Hb & Htde).
      exists (kb KEnum :: put_varint 4 id ++ b'). split.
      * cbn [tser]. rewrite Hd, Ev1, Hb. destruct fb1; reflexivity.
      * intros f r Hf. cbn [fuel2] in Hf. destruct f as [|f]; [lia|]. cbn [app].
        rewrite tde_step by (congruence || exact Hd). cbn [tde_kind].
        rewrite <- app_assoc, varint_roundtrip by (try lia; apply u32_fits; exact Hid). cbn [bind]. rewrite Ev2.
        rewrite Htde by lia. reflexivity.
    + (* a unit variant of both *)
      pose proof (evo_enum_variant true vs1 fb1 vs2 fb2 _ Hev (find_variant_in _ _ _ Ev1)) as Ev2. cbn [fst snd] in Ev2.
      rewrite Ev2 in Ht2. destruct x0; try discriminate. inversion Ht1; subst x1. inversion Ht2; subst x2.
      exists (kb KEnum :: put_varint 4 id ++ [kb KNone]). split.
      * cbn [tser]. rewrite Hd, Ev1. cbn [tser ser]. pose proof (too_deep_ser _ _ _ _ E) as Hd1.
        rewrite Hd1. unfold too_deep in Hd1. rewrite Hd1. destruct fb1; reflexivity.
      * intros f r Hf. cbn [fuel2] in Hf. destruct f as [|f]; [lia|]. cbn [app].
        rewrite tde_step by (congruence || exact Hd). cbn [tde_kind].
        rewrite <- app_assoc, varint_roundtrip by (try lia; apply u32_fits; exact Hid). cbn [bind]. rewrite Ev2.
        destruct f as [|f]; [lia|]. cbn [app]. pose proof (too_deep_ser _ _ _ _ E) as Hd1.
        rewrite tde_step by (congruence || exact Hd1). reflexivity.
    + (* unknown to the old type: captured raw, decided by the new type on the captured bytes *)
      destruct fb1; [|discriminate]. unfold raw_of in Ht1. rewrite E in Ht1. inversion Ht1; subst x1.
      exists (kb KEnum :: put_varint 4 id ++ b0). split.
      * cbn [tser]. rewrite Hd. rewrite (too_deep_ser _ _ _ _ E). reflexivity.
      * intros f r Hf. cbn [fuel2] in Hf. destruct f as [|f]; [lia|]. cbn [app].
        rewrite tde_step by (congruence || exact Hd). cbn [tde_kind].
        rewrite <- app_assoc, varint_roundtrip by (try lia; apply u32_fits; exact Hid). cbn [bind].
        assert (forall t', dec_res (tde f t' (S d) (b0 ++ r)) (typed e t' (S d) x0) r) as D
          by (intros t'; apply tde_ser; auto; lia).
        destruct (find_variant vs2 id) as [[vt2|]|] eqn:Ev2.
        -- specialize (D vt2). destruct (typed e vt2 (S d) x0) as [y2|]; [|discriminate]. inversion Ht2; subst x2.
           cbn [dec_res] in D. rewrite D. reflexivity.
        -- specialize (D (TLeaf LUnit)). destruct x0; try discriminate. inversion Ht2; subst x2.
           cbn [typed leaf_of dec_res] in D. rewrite D. reflexivity.
        -- destruct fb2; [|discriminate]. unfold raw_of in Ht2. rewrite E in Ht2. inversion Ht2; subst x2.
           rewrite (capture_ser e x0 (S d) b0 r Hwf E). reflexivity.
Qed.
