(* Derive/TDe.v — what `derive(Deserialize)` expands to (macros/src/derive/deserialize.rs) for
   generated structs, enums and newtypes, together with the library impls the generated field
   types use (core/src/impls/*.rs, core/src/deserializer/{struct_,enum_,vec,map}.rs), over the
   codec model.  Error kinds and their precedence are part of the model.

   Fuelled by open recursion exactly like Codec/De.v: [tde_body rec] is not recursive; fuel
   [length b + 1] suffices because every level consumes at least the kind byte. *)
From Aldrin Require Export Derive.Ty.
From Aldrin Require Import gen.Consts.
Open Scope N_scope.

Definition twalker := nat -> list N -> result (tval * list N).

(* Deserializer::split_off_serialized_value at depth d: len() re-runs Deserializer::new at the
   same depth and skips; the prefix is the SerializedValue *)
Definition capture (d : nat) (b : list N) : result (list N * list N) :=
  r <- skip (S (length b)) d b ;;
  Ok (firstn (length b - length r)%nat b, r).

(* FieldDeserializer::skip *)
Definition skip_at (d : nat) (b : list N) : result (list N) := skip (S (length b)) d b.

(* one wire field of a struct, as the generated `match _deserializer.id()` handles it *)
Inductive fevent :=
| FKnown (id : N) (o : option tval)    (* `var = ...` : required fields store Some *)
| FUnknown (id : N) (raw : list N)     (* add_to_unknown_fields *)
| FSkipped.                            (* _deserializer.skip() *)

Definition sfield (rec : ty -> twalker) (fs : list (N * (bool * ty))) (fb : bool) (d' : nat) (b : list N)
  : result (fevent * list N) :=
  '(id, r) <- get_varint 4 b ;;
  match find_field fs id with
  | Some (true, ft) => '(x, r') <- rec ft d' r ;; Ok (FKnown id (Some x), r')
  | Some (false, ft) =>
      (* deserialize::<As<Option<T>>, _>() *)
      '(x, r') <- rec (TOption ft) d' r ;;
      match x with XOpt o => Ok (FKnown id o, r') | _ => Err Invalid end
  | None =>
      if fb then '(raw, r') <- capture d' r ;; Ok (FUnknown id raw, r')
      else r' <- skip_at d' r ;; Ok (FSkipped, r')
  end.

(* the local variables after the field loop: the last assignment wins *)
Definition last_known (evs : list fevent) (id : N) : option (option tval) :=
  fold_left (fun acc e => match e with FKnown i o => if i =? id then Some o else acc | _ => acc end) evs None.

(* UnknownFields is a HashMap<u32, SerializedValue>: insert replaces *)
Definition unknowns (evs : list fevent) : list (N * list N) :=
  fold_left (fun acc e => match e with FUnknown i raw => assoc_insert N.eqb i raw acc | _ => acc end) evs [].

(* finish_with(|_fallback| Ok(Self { a: a.ok_or(InvalidSerialization)?, b, .. })) *)
Fixpoint build_slots (fs : list (N * (bool * ty))) (evs : list fevent) : result (list (option tval)) :=
  match fs with
  | [] => Ok []
  | (id, (req, _)) :: rest =>
      let o := match last_known evs id with Some o => o | None => None end in
      match o, req with
      | None, true => Err Invalid
      | _, _ => slots <- build_slots rest evs ;; Ok (o :: slots)
      end
  end.

(* impl Deserialize<tags::Vec<T>> for [U; N]: exactly N elements, then finish *)
Fixpoint arr1 (elem : list N -> result (tval * list N)) (k : nat) (cnt : N) (b : list N)
  : result (list tval * list N) :=
  match k with
  | O => if cnt =? 0 then Ok ([], b) else Err MoreElementsRemain
  | S k' =>
      if cnt =? 0 then Err NoMoreElements else
      '(x, r) <- elem b ;; '(xs, r') <- arr1 elem k' (cnt - 1) r ;; Ok (x :: xs, r')
  end.

Fixpoint arr2 (elem : list N -> result (tval * list N)) (k : nat) (b : list N)
  : result (list tval * list N) :=
  match b with
  | [] => Err Eoi
  | kb :: r =>
      match k with
      | O => (* Vec2Deserializer::finish_with *)
          match kind_of_byte kb with
          | Some KNone => Ok ([], r)
          | Some KSome => Err MoreElementsRemain
          | _ => Err Invalid
          end
      | S k' =>
          match kind_of_byte kb with
          | Some KNone => Err NoMoreElements
          | Some KSome => '(x, r1) <- elem r ;; '(xs, r2) <- arr2 elem k' r1 ;; Ok (x :: xs, r2)
          | _ => Err Invalid
          end
      end
  end.

Definition dedup_tmap (l : list (keyv * tval)) : list (keyv * tval) :=
  fold_left (fun acc p => assoc_insert key_eqb (fst p) (snd p) acc) l [].

Definition tmap_elem (k : keyk) (rec : list N -> result (tval * list N)) (b : list N)
  : result ((keyv * tval) * list N) :=
  '(key, r) <- get_key true k b ;; '(x, r') <- rec r ;; Ok ((key, x), r').

Definition no_rec : walker Value := fun _ _ => Err Invalid.  (* leaf kinds never recurse *)

(* after the depth check and the kind byte; [d'] is the depth of this value *)
Definition tde_kind (rec : ty -> twalker) (n : nat) (t : ty) (d' : nat) (kd : kind) (r : list N)
  : result (tval * list N) :=
  match t with
  | TLeaf l =>
      if leaf_accepts l kd then '(v, r') <- de_kind true no_rec n d' kd r ;; Ok (XLeaf v, r')
      else Err UnexpectedValue
  | TValue => Err Invalid (* handled before the kind byte is read *)
  | TOption a =>
      match kd with
      | KNone => Ok (XOpt None, r)
      | KSome => '(x, r') <- rec a d' r ;; Ok (XOpt (Some x), r')
      | _ => Err UnexpectedValue
      end
  | TVec a =>
      match kd with
      | KVec E1 => '(cnt, r1) <- get_varint 4 r ;; '(xs, r2) <- loop1 (rec a d') n cnt r1 ;; Ok (XVec xs, r2)
      | KVec E2 => '(xs, r2) <- loop2 (rec a d') n r ;; Ok (XVec xs, r2)
      | _ => Err UnexpectedValue
      end
  | TArray len a =>
      match kd with
      | KVec E1 => '(cnt, r1) <- get_varint 4 r ;;
                   '(xs, r2) <- arr1 (rec a d') (N.to_nat len) cnt r1 ;; Ok (XVec xs, r2)
      | KVec E2 => '(xs, r2) <- arr2 (rec a d') (N.to_nat len) r ;; Ok (XVec xs, r2)
      | _ => Err UnexpectedValue
      end
  | TMap k a =>
      match kd with
      | KMap E1 k' =>
          if keyk_eqb k k' then
            '(cnt, r1) <- get_varint 4 r ;;
            '(xs, r2) <- loop1 (tmap_elem k (rec a d')) n cnt r1 ;; Ok (XMap (dedup_tmap xs), r2)
          else Err UnexpectedValue
      | KMap E2 k' =>
          if keyk_eqb k k' then
            '(xs, r2) <- loop2 (tmap_elem k (rec a d')) n r ;; Ok (XMap (dedup_tmap xs), r2)
          else Err UnexpectedValue
      | _ => Err UnexpectedValue
      end
  | TResult a b =>
      match kd with
      | KEnum =>
          '(id, r1) <- get_varint 4 r ;;
          if id =? 0 then '(x, r2) <- rec a d' r1 ;; Ok (XEnum 0 x, r2)
          else if id =? 1 then '(x, r2) <- rec b d' r1 ;; Ok (XEnum 1 x, r2)
          else Err Invalid
      | _ => Err UnexpectedValue
      end
  | TStruct fs fb =>
      let finish evs r2 := slots <- build_slots fs evs ;; Ok (XStruct slots (unknowns evs), r2) in
      match kd with
      | KStruct E1 => '(cnt, r1) <- get_varint 4 r ;;
                      '(evs, r2) <- loop1 (sfield rec fs fb d') n cnt r1 ;; finish evs r2
      | KStruct E2 => '(evs, r2) <- loop2 (sfield rec fs fb d') n r ;; finish evs r2
      | _ => Err UnexpectedValue
      end
  | TEnum vs fb =>
      match kd with
      | KEnum =>
          '(id, r1) <- get_varint 4 r ;;
          match find_variant vs id with
          | Some (Some vt) => '(x, r2) <- rec vt d' r1 ;; Ok (XEnum id x, r2)
          | Some None => '(x, r2) <- rec (TLeaf LUnit) d' r1 ;; Ok (XEnum id x, r2)   (* deserialize_unit *)
          | None =>
              if fb then '(raw, r2) <- capture d' r1 ;; Ok (XUnknown id raw, r2)     (* into_unknown_variant *)
              else Err Invalid
          end
      | _ => Err UnexpectedValue
      end
  end.

Definition tde_body (rec : ty -> twalker) (n : nat) (t : ty) : twalker := fun d b =>
  match t with
  | TValue => '(raw, r) <- capture d b ;; Ok (XRaw raw, r)
  | _ =>
      if (MAX_VALUE_DEPTH <? S d)%nat then Err TooDeep else
      match b with
      | [] => Err Eoi
      | k :: r =>
          match kind_of_byte k with
          | None => Err Invalid
          | Some kd => tde_kind rec n t (S d) kd r
          end
      end
  end.

Fixpoint tde (fuel : nat) : ty -> twalker :=
  match fuel with
  | O => fun _ _ _ => Err Fuel
  | S f => tde_body (tde f) f
  end.

(* SerializedValueSlice::deserialize::<T>(): Deserializer::new(&mut buf, 0), then the trailing
   data check *)
Definition tde_value (t : ty) (b : list N) : result (tval * list N) := tde (S (length b)) t 0%nat b.
Definition tde_top (t : ty) (b : list N) : result tval :=
  '(x, r) <- tde_value t b ;; match r with [] => Ok x | _ => Err TrailingData end.
