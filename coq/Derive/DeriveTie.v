(* Derive/DeriveTie.v — ties between the derive-contract model and the Rust sources through the
   translator output gen/DeriveConsts.v (tools/rs2v_derive.py):
   * the wire ids of Result<T, E> (the model uses the literals 0 and 1 in Derive/TDe.v, TSer.v,
     Conforms.v);
   * the call sequences inside the derive macros' generator functions that Derive/TDe.v and
     Derive/TSer.v transcribe.  If upstream changes what the macros emit, the list changes and the
     second Example no longer holds: the model has to be re-read against the new macro. *)
From Coq Require Import NArith List String.
From Aldrin Require Import gen.DeriveConsts.
Import ListNotations.
Open Scope string_scope.

(* codegen/src/rust.rs: no emission site of #[aldrin(doc = ...)] pastes the text unescaped any more
   (all of them format it with {doc:?}); see Derive/DocAttr.v and C16_doc_attr_current *)
Example doc_attr_tie : DOC_ATTR_SITES_RAW = 0%N /\ DOC_ATTR_SITES_ESCAPED <> 0%N.
Proof. split; [reflexivity | discriminate]. Qed.

Example result_ids_tie : RESULT_OK_ID = 0%N /\ RESULT_ERR_ID = 1%N.
Proof. split; reflexivity. Qed.

Definition derive_calls_model : list (string * list string) := [
  ("deserialize.rs:gen_deserialize_regular#0", ["map"; "map"; "deserialize_struct"; "deserialize"; "skip"; "finish_with"]);
  ("deserialize.rs:gen_deserialize_regular#1", ["add_to_unknown_fields"; "deserialize"; "deserialize"; "map"]);
  ("deserialize.rs:gen_deserialize_newtype#0", []);
  ("deserialize.rs:gen_deserialize_newtype#1", ["deserialize"; "map"]);
  ("deserialize.rs:deserialize_finish#0", ["into"; "ok_or"]);
  ("deserialize.rs:gen_deserialize#0", []);
  ("deserialize.rs:gen_deserialize#1", []);
  ("deserialize.rs:gen_deserialize#2", ["map"; "deserialize_enum"]);
  ("deserialize.rs:gen_deserialize#3", ["into_unknown_variant"; "map"; "into"; "deserialize"; "map"; "deserialize_unit"; "map"]);
  ("serialize.rs:gen_serialize_for_regular_ref#0", ["serialize_struct2_with_unknown_fields"; "serialize_struct2"; "finish"]);
  ("serialize.rs:gen_serialize_for_regular_ref#1", ["serialize|serialize_if_some"]);
  ("serialize.rs:gen_serialize_for_newtype_ref#0", []);
  ("serialize.rs:gen_serialize_for_newtype_ref#1", ["serialize"]);
  ("serialize.rs:gen_serialize_for_ref#0", []);
  ("serialize.rs:gen_serialize_for_ref#1", ["map"]);
  ("serialize.rs:gen_serialize_for_ref#2", ["serialize_unknown_variant"; "serialize_enum"; "serialize_unit_enum"])
].

Example derive_calls_tie : DERIVE_CALLS = derive_calls_model.
Proof. reflexivity. Qed.
