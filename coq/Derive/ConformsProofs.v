(* Derive/ConformsProofs.v — the typed value exists exactly for conforming values
   ([typed_conforms]); bookkeeping lemmas about the struct field events (last assignment wins,
   required fields) under unique ids. *)
From Aldrin Require Import Codec.Base Codec.BaseProofs Codec.Value Codec.Ser Codec.De Codec.Skip
  Codec.RoundTrip Codec.DeProofs Codec.SkipProofs gen.Consts.
From Aldrin Require Import Derive.Ty Derive.TDe Derive.Conforms Derive.TDeProofs.
From Coq Require Import ZifyBool ZifyNat ZifyN.
Open Scope N_scope.
Arguments N.add : simpl never.
Arguments N.sub : simpl never.
Arguments N.mul : simpl never.
Arguments N.ltb : simpl never.
Arguments N.leb : simpl never.
Arguments N.eqb : simpl never.

Definition is_some {A} (o : option A) : bool := match o with Some _ => true | None => false end.

Lemma opt_all_is_some {A} (os : list (option A)) : is_some (opt_all os) = forallb is_some os.
Proof.
  induction os as [|o os IH]; [reflexivity|]. rewrite opt_all_cons. cbn [forallb]. rewrite <- IH.
  destruct o, (opt_all os); reflexivity.
Qed.

Lemma opt_all_forall2 {A B} (g : A -> option B) l ys : opt_all (map g l) = Some ys -> Forall2 (fun x y => g x = Some y) l ys.
Proof.
  revert ys. induction l as [|x l IH]; intros ys; cbn [map]; [intros H; inversion H; constructor|].
  rewrite opt_all_cons. destruct (g x) as [y|] eqn:E; [|discriminate].
  destruct (opt_all (map g l)) as [ys'|]; [|discriminate]. intros H; inversion H; subst. constructor; auto.
Qed.

(* ---------- ids ---------- *)
Lemma find_field_in fs id req ft : find_field fs id = Some (req, ft) -> In (id, (req, ft)) fs.
Proof.
  unfold find_field. destruct (find _ fs) as [p|] eqn:E; [|discriminate]. intros H. inversion H; subst.
  apply find_some in E as [Hin He]. apply N.eqb_eq in He. subst. destruct p as [i [rq t]]. exact Hin.
Qed.

Lemma find_field_nodup fs f : ids_nodup (map fst fs) = true -> In f fs -> find_field fs (fst f) = Some (snd f).
Proof.
  unfold find_field, ids_nodup. induction fs as [|g fs IH]; cbn [map nodupb In find]; [tauto|].
  intros H Hin. apply andb_prop in H as [H1 H2]. destruct Hin as [->|Hin].
  - rewrite N.eqb_refl. reflexivity.
  - destruct (N.eqb_spec (fst g) (fst f)) as [E|_]; [|apply IH; assumption].
    exfalso. apply negb_true_iff in H1.
    assert (existsb (N.eqb (fst g)) (map fst fs) = true) as C
      by (apply existsb_exists; exists (fst f); split; [apply in_map; exact Hin|apply N.eqb_eq; exact E]).
    congruence.
Qed.

Lemma has_id_in id (l : list (N * Value)) : has_id id l = true <-> exists x, In (id, x) l.
Proof.
  unfold has_id. rewrite existsb_exists. split.
  - intros ((i, x) & Hin & He). apply N.eqb_eq in He. cbn in He. subst. eauto.
  - intros (x & Hin). exists (id, x). split; [exact Hin|apply N.eqb_refl].
Qed.

(* ---------- last_known ---------- *)
Definition lk_step (id : N) (acc : option (option tval)) (ev : fevent) : option (option tval) :=
  match ev with FKnown i o => if i =? id then Some o else acc | _ => acc end.

Lemma last_known_unfold evs id : last_known evs id = fold_left (lk_step id) evs None.
Proof. reflexivity. Qed.

Lemma lk_none evs id acc : (forall o, ~ In (FKnown id o) evs) -> fold_left (lk_step id) evs acc = acc.
Proof.
  revert acc. induction evs as [|ev evs IH]; intros acc H; cbn [fold_left]; [reflexivity|].
  rewrite IH by (intros o Ho; apply (H o); right; exact Ho).
  destruct ev as [i o| |]; cbn [lk_step]; try reflexivity.
  destruct (N.eqb_spec i id) as [->|_]; [|reflexivity]. exfalso. apply (H o). left. reflexivity.
Qed.

Lemma lk_in evs id acc o : fold_left (lk_step id) evs acc = Some o -> acc = Some o \/ In (FKnown id o) evs.
Proof.
  revert acc. induction evs as [|ev evs IH]; intros acc; cbn [fold_left]; [auto|].
  intros H. apply IH in H as [H|H]; [|right; right; exact H].
  destruct ev as [i o'| |]; cbn [lk_step] in H; auto.
  destruct (N.eqb_spec i id) as [->|_]; auto. inversion H; subst. right; left; reflexivity.
Qed.

(* the events of a struct value whose ids are unique: the assignment to id comes from the one
   field of the value that carries id *)
Lemma find_none_nodup (l : list (N * Value)) id :
  negb (existsb (N.eqb id) (map fst l)) = true -> find (fun p => fst p =? id) l = None.
Proof.
  induction l as [|p l IH]; cbn [map existsb find]; [reflexivity|]. intros H.
  apply negb_true_iff in H. apply orb_false_elim in H as [H1 H2]. rewrite N.eqb_sym, H1. apply IH.
  rewrite H2. reflexivity.
Qed.

Definition ev_known (o : option fevent) (acc : option (option tval)) : option (option tval) :=
  match o with Some (FKnown _ x) => Some x | _ => acc end.

Lemma lk_find (spec : N * Value -> option fevent) l evs id :
  (forall p i o, spec p = Some (FKnown i o) -> i = fst p) ->
  Forall2 (fun p ev => spec p = Some ev) l evs -> ids_nodup (map fst l) = true ->
  forall acc, fold_left (lk_step id) evs acc =
              match find (fun p => fst p =? id) l with Some p => ev_known (spec p) acc | None => acc end.
Proof.
  intros Hid H. induction H as [|p ev l evs Hp _ IH]; intros Hnd acc; cbn [fold_left find]; [reflexivity|].
  unfold ids_nodup in Hnd. cbn [map nodupb] in Hnd. apply andb_prop in Hnd as [H1 H2].
  destruct (N.eqb_spec (fst p) id) as [E|E].
  - rewrite IH by exact H2. subst id. rewrite (find_none_nodup l (fst p) H1). rewrite Hp. cbn [ev_known].
    destruct ev as [i o| |]; cbn [lk_step]; try reflexivity.
    rewrite (Hid _ _ _ Hp), N.eqb_refl. reflexivity.
  - rewrite IH by exact H2. destruct ev as [i o| |]; cbn [lk_step]; try reflexivity.
    rewrite (Hid _ _ _ Hp). destruct (N.eqb_spec (fst p) id); [contradiction|reflexivity].
Qed.

Definition slot_of (evs : list fevent) (id : N) : option tval :=
  match last_known evs id with Some o => o | None => None end.

Lemma build_slots_spec fs evs :
  build_slots fs evs =
  if forallb (fun f => negb (fst (snd f)) || is_some (slot_of evs (fst f))) fs
  then Ok (map (fun f => slot_of evs (fst f)) fs) else Err Invalid.
Proof.
  induction fs as [|[id [req ft]] fs IH]; cbn [build_slots forallb map fst snd]; [reflexivity|].
  fold (slot_of evs id). rewrite IH. destruct (slot_of evs id) as [y|], req; cbn [negb orb is_some andb bind];
    try reflexivity; destruct (forallb _ fs); reflexivity.
Qed.

(* ---------- children of a serializable value are serializable ---------- *)
Lemma mapM_in {A B} (f : A -> result B) l bs x : mapM f l = Ok bs -> In x l -> exists b, f x = Ok b.
Proof.
  intros H Hin. apply mapM_ok in H. induction H as [|y b l bs Hy _ IH]; [inversion Hin|].
  destruct Hin as [->|Hin]; eauto.
Qed.

Lemma ser_vec_child e d l bs x : ser e d (VVec l) = Ok bs -> In x l -> exists b, ser e (S d) x = Ok b.
Proof.
  intros H Hin. cbn [ser] in H. depth_ok H. destruct e.
  - destruct (lenN l <=? u32_max); [|discriminate]. bind_ok H bss E. eapply mapM_in; eauto.
  - bind_ok H bss E. destruct (mapM_in _ _ _ x E Hin) as [b Hb]. destruct (ser E2 (S d) x); [eauto|discriminate].
Qed.

Lemma ser_map_child e d k l bs p : ser e d (VMap k l) = Ok bs -> In p l -> exists b, ser e (S d) (snd p) = Ok b.
Proof.
  intros H Hin. cbn [ser] in H. depth_ok H. destruct e.
  - destruct (lenN l <=? u32_max); [|discriminate]. bind_ok H bss E. destruct (mapM_in _ _ _ p E Hin) as [b Hb].
    destruct (put_key k (fst p)); [|discriminate]. cbn [bind] in Hb. destruct (ser E1 (S d) (snd p)); [eauto|discriminate].
  - bind_ok H bss E. destruct (mapM_in _ _ _ p E Hin) as [b Hb].
    destruct (put_key k (fst p)); [|discriminate]. cbn [bind] in Hb. destruct (ser E2 (S d) (snd p)); [eauto|discriminate].
Qed.

Lemma ser_struct_child e d l bs p : ser e d (VStruct l) = Ok bs -> In p l -> exists b, ser e (S d) (snd p) = Ok b.
Proof.
  intros H Hin. cbn [ser] in H. depth_ok H. destruct e.
  - destruct (lenN l <=? u32_max); [|discriminate]. bind_ok H bss E. destruct (mapM_in _ _ _ p E Hin) as [b Hb].
    destruct (ser E1 (S d) (snd p)); [eauto|discriminate].
  - bind_ok H bss E. destruct (mapM_in _ _ _ p E Hin) as [b Hb].
    destruct (ser E2 (S d) (snd p)); [eauto|discriminate].
Qed.

Lemma typed_option_shape e a d v y : typed e (TOption a) d v = Some y -> exists o, y = XOpt o.
Proof.
  destruct v; cbn [typed]; try discriminate.
  - intros H; inversion H; eauto.
  - destruct (typed e a (S d) v); intros H; inversion H; eauto.
Qed.

Lemma forallb_map {A B} (g : A -> B) (P : B -> bool) l : forallb P (map g l) = forallb (fun x => P (g x)) l.
Proof. induction l as [|x l IH]; cbn [map forallb]; [reflexivity|]. rewrite IH. reflexivity. Qed.

Lemma forallb_ext_in {A} (P Q : A -> bool) l : (forall x, In x l -> P x = Q x) -> forallb P l = forallb Q l.
Proof.
  induction l as [|x l IH]; cbn [forallb]; [reflexivity|]. intros H. rewrite (H x (or_introl eq_refl)), IH; [reflexivity|].
  intros y Hy. apply H. right. exact Hy.
Qed.

Lemma wf_ty_field fs fb id req ft : wf_ty (TStruct fs fb) = true -> find_field fs id = Some (req, ft) -> wf_ty ft = true.
Proof.
  cbn [wf_ty]. intros H Hf. apply andb_prop in H as [_ H]. rewrite forallb_forall in H.
  apply find_field_in in Hf. specialize (H _ Hf). cbn [fst snd] in H. apply andb_prop in H as [_ H]. exact H.
Qed.

Lemma wf_ty_variant vs fb id vt : wf_ty (TEnum vs fb) = true -> find_variant vs id = Some (Some vt) -> wf_ty vt = true.
Proof.
  cbn [wf_ty]. intros H Hf. apply andb_prop in H as [_ H]. rewrite forallb_forall in H.
  unfold find_variant in Hf. destruct (find _ vs) as [p|] eqn:E; [|discriminate]. inversion Hf as [Hp].
  apply find_some in E as [Hin _]. specialize (H _ Hin). rewrite Hp in H. apply andb_prop in H as [_ H]. exact H.
Qed.

Theorem typed_conforms e : forall v t d bs, wf true v = true -> wf_ty t = true -> ser e d v = Ok bs ->
  is_some (typed e t d v) = conforms t v.
Proof.
  induction v as [|x IH|b|i z|fk fbs|s|l IH|bs0|k l IH|k l|l IH|id x IH] using Value_ind';
    intros t d bs Hwf Hty Hser;
    (destruct t as [lt| |a|a|len a|kt a|ta tb|fs fb|vs fb]; cbn [typed conforms]; try reflexivity;
     [destruct (leaf_of lt _); reflexivity|unfold raw_of; rewrite Hser; reflexivity|..]).
  - (* Some / Option *)
    cbn [ser] in Hser. depth_ok Hser. bind_ok Hser b E. cbn [wf] in Hwf. cbn [wf_ty] in Hty.
    rewrite <- (IH a (S d) b Hwf Hty E). destruct (typed e a (S d) x); reflexivity.
  - (* Vec / Vec *)
    cbn [wf] in Hwf. apply andb_prop in Hwf as [_ Hwf]. rewrite forallb_forall in Hwf. rewrite Forall_forall in IH.
    cbn [wf_ty] in Hty.
    transitivity (is_some (opt_all (map (typed e a (S d)) l))); [destruct (opt_all _); reflexivity|].
    rewrite opt_all_is_some, forallb_map. apply forallb_ext_in. intros x Hin.
    destruct (ser_vec_child _ _ _ _ x Hser Hin) as [b Hb]. eapply IH; eauto.
  - (* Vec / Array *)
    cbn [wf] in Hwf. apply andb_prop in Hwf as [_ Hwf]. rewrite forallb_forall in Hwf. rewrite Forall_forall in IH.
    cbn [wf_ty] in Hty. apply andb_prop in Hty as [_ Hty].
    destruct (lenN l =? len); cbn [andb]; [|reflexivity].
    transitivity (is_some (opt_all (map (typed e a (S d)) l))); [destruct (opt_all _); reflexivity|].
    rewrite opt_all_is_some, forallb_map. apply forallb_ext_in. intros x Hin.
    destruct (ser_vec_child _ _ _ _ x Hser Hin) as [b Hb]. eapply IH; eauto.
  - (* Map / Map *)
    cbn [wf] in Hwf. apply andb_prop in Hwf as [_ Hwf]. rewrite forallb_forall in Hwf. rewrite Forall_forall in IH.
    cbn [wf_ty] in Hty. destruct (keyk_eqb kt k); cbn [andb]; [|reflexivity].
    match goal with |- is_some (match opt_all (map ?g l) with _ => _ end) = _ =>
      transitivity (is_some (opt_all (map g l))); [destruct (opt_all _); reflexivity|] end.
    rewrite opt_all_is_some, forallb_map. apply forallb_ext_in. intros p Hin.
    destruct (ser_map_child _ _ _ _ _ p Hser Hin) as [b Hb].
    specialize (Hwf _ Hin). apply andb_prop in Hwf as [_ Hv].
    rewrite <- (IH _ Hin a (S d) b Hv Hty Hb). destruct (typed e a (S d) (snd p)); reflexivity.
  - (* Struct / Struct *)
    cbn [wf] in Hwf. apply andb_prop in Hwf as [Hwf Hall]. apply andb_prop in Hwf as [_ Hnd].
    rewrite forallb_forall in Hall. rewrite Forall_forall in IH.
    match goal with |- is_some (match opt_all (map ?ev l) with _ => _ end) = _ => set (spec := ev) end.
    match goal with |- _ = andb (forallb ?g _) _ => set (fieldok := g) end.
    assert (forall p, In p l -> is_some (spec p) = fieldok p) as EL.
    { intros p Hin. destruct (ser_struct_child _ _ _ _ p Hser Hin) as [b Hb].
      specialize (Hall _ Hin). apply andb_prop in Hall as [_ Hv].
      unfold spec, fieldok. destruct (find_field fs (fst p)) as [[[|] ft]|] eqn:Ef.
      - rewrite <- (IH _ Hin ft (S d) b Hv (wf_ty_field _ _ _ _ _ Hty Ef) Hb). destruct (typed e ft (S d) (snd p)); reflexivity.
      - pose proof (IH _ Hin (TOption ft) (S d) b Hv (wf_ty_field _ _ _ _ _ Hty Ef) Hb) as I.
        cbn [conforms] in I.
        assert (conforms (TOption ft) (snd p) = match snd p with VNone => true | VSome y => conforms ft y | _ => false end) as C
          by (destruct (snd p); reflexivity).
        rewrite <- C, <- I. destruct (typed e (TOption ft) (S d) (snd p)) as [y|] eqn:Ty; [|reflexivity].
        destruct (typed_option_shape _ _ _ _ _ Ty) as [o ->]. reflexivity.
      - unfold raw_of. rewrite Hb. reflexivity. }
    assert (forall p i o, spec p = Some (FKnown i o) -> i = fst p) as Hid.
    { intros p i o. unfold spec. destruct (find_field fs (fst p)) as [[[|] ft]|].
      - destruct (typed e ft (S d) (snd p)); intros H; inversion H; reflexivity.
      - destruct (typed e (TOption ft) (S d) (snd p)) as [[]|]; intros H; inversion H; reflexivity.
      - destruct (raw_of e (S d) (snd p)); [destruct fb|]; intros H; inversion H. }
    destruct (opt_all (map spec l)) as [evs|] eqn:Eo.
    + assert (forallb fieldok l = true) as F1.
      { rewrite <- (forallb_ext_in _ _ l EL), <- forallb_map, <- opt_all_is_some, Eo. reflexivity. }
      rewrite F1. cbn [andb]. rewrite build_slots_spec.
      pose proof (opt_all_forall2 _ _ _ Eo) as F2.
      match goal with |- context [if ?c then Ok _ else Err Invalid] => transitivity c; [destruct c; reflexivity|] end.
      apply forallb_ext_in. intros f Hf. destruct (fst (snd f)) eqn:Rq; cbn [negb orb]; [|reflexivity].
      unfold slot_of. rewrite last_known_unfold, (lk_find spec l evs (fst f) Hid F2 Hnd None).
      unfold has_id. destruct (find (fun p => fst p =? fst f) l) as [p|] eqn:Fd.
      * apply find_some in Fd as [Hin Hq]. apply N.eqb_eq in Hq.
        assert (existsb (fun p0 : N * Value => fst p0 =? fst f) l = true) as ->
          by (apply existsb_exists; exists p; split; [exact Hin|apply N.eqb_eq; exact Hq]).
        cbn [wf_ty] in Hty. apply andb_prop in Hty as [Hfn _].
        pose proof (find_field_nodup fs f Hfn Hf) as FF. rewrite <- Hq in FF.
        pose proof (EL p Hin) as Sp. rewrite forallb_forall in F1. rewrite (F1 p Hin) in Sp.
        unfold spec in Sp |- *. rewrite FF in Sp |- *. destruct (snd f) as [rq ft]. cbn [fst] in Rq. subst rq.
        destruct (typed e ft (S d) (snd p)); [reflexivity|discriminate].
      * cbn [ev_known is_some]. symmetry. apply not_true_is_false. intros Ex. apply existsb_exists in Ex as (p & Hin & Hq).
        pose proof (find_none _ _ Fd p Hin) as Hq'. cbn beta in Hq'. congruence.
    + assert (forallb fieldok l = false) as ->; [|reflexivity].
      rewrite <- (forallb_ext_in _ _ l EL), <- forallb_map, <- opt_all_is_some, Eo. reflexivity.
  - (* Enum / Result *)
    cbn [ser] in Hser. depth_ok Hser. bind_ok Hser b E. cbn [wf] in Hwf. apply andb_prop in Hwf as [_ Hwf].
    cbn [wf_ty] in Hty. apply andb_prop in Hty as [Ha Hb].
    destruct (id =? 0); [|destruct (id =? 1); [|reflexivity]].
    + rewrite <- (IH ta (S d) b Hwf Ha E). destruct (typed e ta (S d) x); reflexivity.
    + rewrite <- (IH tb (S d) b Hwf Hb E). destruct (typed e tb (S d) x); reflexivity.
  - (* Enum / Enum *)
    cbn [ser] in Hser. depth_ok Hser. bind_ok Hser b E. cbn [wf] in Hwf. apply andb_prop in Hwf as [_ Hwf].
    destruct (find_variant vs id) as [[vt|]|] eqn:Ev.
    + rewrite <- (IH vt (S d) b Hwf (wf_ty_variant _ _ _ _ Hty Ev) E). destruct (typed e vt (S d) x); reflexivity.
    + destruct x; reflexivity.
    + unfold raw_of. rewrite E. destruct fb; reflexivity.
Qed.
