(* Derive/TSerProofs.v — a decode/encode cycle through a generated type (typed_cycle): for the
   typed value x of a conforming value v, derive(Serialize) succeeds, the generic decoder reads
   [norm t v] from the re-encoded bytes, and the generated decoder reads x itself back — captured
   SerializedValues (unknown fields, unknown variants, `value` fields) included, byte for byte. *)
From Aldrin Require Import Codec.Base Codec.BaseProofs Codec.Value Codec.Ser Codec.De Codec.Skip
  Codec.RoundTrip Codec.DeProofs Codec.Depth Codec.SkipProofs gen.Consts.
From Aldrin Require Import Derive.Ty Derive.TDe Derive.TSer Derive.Conforms Derive.TDeProofs Derive.ConformsProofs.
From Coq Require Import ZifyBool ZifyNat ZifyN.
Open Scope N_scope.
Arguments N.add : simpl never.
Arguments N.sub : simpl never.
Arguments N.mul : simpl never.
Arguments N.ltb : simpl never.
Arguments N.leb : simpl never.
Arguments N.eqb : simpl never.

(* the declared fields of a struct, as derive(Serialize) emits them *)
Definition ser_field (d : nat) (f : N * (bool * ty)) (y : tval) : result (list N) :=
  b <- (if fst (snd f) then tser (snd (snd f)) (S d) y
        else if too_deep (S d) then Err TooDeep else b <- tser (snd (snd f)) (S (S d)) y ;; Ok (kb KSome :: b)) ;;
  Ok (kb KSome :: put_varint 4 (fst f) ++ b).

Fixpoint ser_fields (d : nat) (fs : list (N * (bool * ty))) (slots : list (option tval)) {struct slots} : result (list N) :=
  match fs, slots with
  | [], [] => Ok []
  | f :: fs', o :: slots' =>
      match o with
      | None => if fst (snd f) then Err Invalid else ser_fields d fs' slots'
      | Some y => b <- ser_field d f y ;; rest <- ser_fields d fs' slots' ;; Ok (b ++ rest)
      end
  | _, _ => Err Invalid
  end.

Lemma tser_struct fs fb d slots unk :
  tser (TStruct fs fb) d (XStruct slots unk) =
  if too_deep d then Err TooDeep else
  ub <- mapM (raw_field d) unk ;; kbs <- ser_fields d fs slots ;;
  Ok (kb (KStruct E2) :: concat ub ++ kbs ++ [kb KNone]).
Proof.
  cbn [tser]. destruct (too_deep d); [reflexivity|]. destruct (mapM (raw_field d) unk); cbn [bind]; [|reflexivity].
  f_equal.
  revert fs. induction slots as [|o slots IH]; intros [|[id [req ft]] fs]; cbn [ser_fields]; try reflexivity.
  destruct o as [y|].
  - unfold ser_field. cbn [fst snd]. destruct req.
    + destruct (tser ft (S d) y); cbn [bind]; [|reflexivity]. rewrite IH. destruct (ser_fields d fs slots); cbn [bind]; [|reflexivity].
      cbn [app]. rewrite <- ?app_assoc. reflexivity.
    + destruct (too_deep (S d)); [reflexivity|]. destruct (tser ft (S (S d)) y); cbn [bind]; [|reflexivity].
      rewrite IH. destruct (ser_fields d fs slots); cbn [bind]; [|reflexivity]. cbn [app]. rewrite <- ?app_assoc. reflexivity.
  - destruct req; [reflexivity|]. apply IH.
Qed.

(* ---------- the cycle: typed value -> bytes -> (generic decoder: norm) and (typed decoder: same value) ---------- *)
Definition cyc (e : epoch) (t : ty) (d : nat) (v : Value) (x : tval) : Prop :=
  exists bs', tser t d x = Ok bs' /\
    (forall f r, (fuel_of (norm t v) <= f)%nat -> de true f d (bs' ++ r) = Ok (norm t v, r)) /\
    (forall f r, (fuel2 v <= f)%nat -> tde f t d (bs' ++ r) = Ok (x, r)).

Lemma ser_E2_ok e d v bs : wf true v = true -> ser e d v = Ok bs -> exists bs2, ser E2 d v = Ok bs2.
Proof.
  intros Hwf Hs. destruct (ser_total true e v d Hwf) as [_ Hno]. destruct (ser_total true E2 v d Hwf) as [Hyes _].
  destruct (le_dec (d + depth v) 32) as [L|L]; [apply Hyes; exact L|].
  rewrite (Hno L) in Hs. discriminate.
Qed.

Lemma norm_leaf l v : norm (TLeaf l) v = v. Proof. destruct v; reflexivity. Qed.
Lemma norm_value v : norm TValue v = v. Proof. destruct v; reflexivity. Qed.

Lemma too_deep_ser e d v bs : ser e d v = Ok bs -> too_deep d = false.
Proof. intros H. destruct (ser_head _ _ _ _ H) as [Hd _]. exact Hd. Qed.

Lemma tser_unfold_depth t d x : too_deep d = true -> tser t d x = Err TooDeep.
Proof. intros H. destruct x; cbn [tser]; rewrite H; reflexivity. Qed.

Lemma cyc_leaf e l d v bs : wf true v = true -> ser e d v = Ok bs -> leaf_of l v = true -> cyc e (TLeaf l) d v (XLeaf v).
Proof.
  intros Hwf Hs Hl. destruct (ser_E2_ok _ _ _ _ Hwf Hs) as [bs2 H2]. exists bs2. split; [|split].
  - pose proof (too_deep_ser _ _ _ _ Hs) as Hd. cbn [tser]. rewrite Hd. exact H2.
  - intros f r Hf. rewrite norm_leaf in *. eapply ser_de; eauto.
  - intros f r Hf. eapply tde_leaf; eauto. rewrite (fuel2_leaf _ _ Hl). exact Hf.
Qed.

Lemma cyc_value e d v bs : wf true v = true -> ser e d v = Ok bs -> cyc e TValue d v (XRaw bs).
Proof.
  intros Hwf Hs. exists bs. split; [|split].
  - cbn [tser]. rewrite (too_deep_ser _ _ _ _ Hs). reflexivity.
  - intros f r Hf. rewrite norm_value in *. eapply ser_de; eauto.
  - intros f r Hf. pose proof (tde_ser e v TValue d bs Hwf Hs f r Hf) as D.
    assert (typed e TValue d v = Some (XRaw bs)) as T by (destruct v; cbn [typed]; unfold raw_of; rewrite Hs; reflexivity).
    rewrite T in D. exact D.
Qed.

Lemma mapM_cons_of {A} (g : A -> result (list N)) (c : N) l inners :
  mapM g l = Ok inners -> mapM (fun x => b <- g x ;; Ok (c :: b)) l = Ok (map (cons c) inners).
Proof.
  revert inners. induction l as [|x l IH]; intros inners; cbn [mapM].
  - intros H. apply Ok_inj in H. subst. reflexivity.
  - destruct (g x) as [b|]; cbn [bind]; [|discriminate]. destruct (mapM g l) as [bs|]; cbn [bind]; [|discriminate].
    intros H. apply Ok_inj in H. subst. rewrite (IH _ eq_refl). reflexivity.
Qed.

(* element-wise cycles assembled *)
Lemma cyc_elems e a d l ys : Forall2 (fun x y => cyc e a d x y) l ys ->
  exists inners, mapM (tser a d) ys = Ok inners /\
    Forall2 (fun b x => forall f r, (fuel_of (norm a x) <= f)%nat -> de true f d (b ++ r) = Ok (norm a x, r)) inners l /\
    Forall2 (fun b xy => forall f r, (fuel2 (fst xy) <= f)%nat -> tde f a d (b ++ r) = Ok (snd xy, r)) inners (combine l ys).
Proof.
  induction 1 as [|x y l ys (b & Hb & Hde & Htde) _ (inners & Hm & F1 & F2)].
  - exists []. repeat split; constructor.
  - exists (b :: inners). cbn [mapM combine]. rewrite Hb, Hm. cbn [bind]. repeat split; constructor; auto.
Qed.

Lemma Forall2_len {A B} (R : A -> B -> Prop) l l' : Forall2 R l l' -> length l = length l'.
Proof. induction 1; cbn [length]; congruence. Qed.

Lemma fuel_sum_map {A} (g : A -> nat) x l : In x l -> (g x <= fold_right (fun y m => g y + m) 0 l)%nat.
Proof. apply fuel_in_sum. Qed.

Lemma fold_sum_map {A B} (h : A -> B) (g : B -> nat) l :
  fold_right (fun y m => (g y + m)%nat) 0%nat (map h l) = fold_right (fun x m => (g (h x) + m)%nat) 0%nat l.
Proof. induction l as [|x l IH]; cbn [map fold_right]; [reflexivity|]. rewrite IH. reflexivity. Qed.

(* chunks of a terminated container *)
Definition chunk_ok {A} (elem : list N -> result (A * list N)) (c : list N) (o : A) : Prop :=
  exists inner, c = kb KSome :: inner /\ forall r', elem (inner ++ r') = Ok (o, r').

Lemma chunks_some {A X} (elem : list N -> result (A * list N)) (out : X -> A) inners (xs : list X) :
  Forall2 (fun b x => forall r', elem (b ++ r') = Ok (out x, r')) inners xs ->
  Forall2 (chunk_ok elem) (map (cons (kb KSome)) inners) (map out xs).
Proof. induction 1; cbn [map]; constructor; auto. eexists; split; [reflexivity|assumption]. Qed.

Lemma opt_all_map_some {A} (l : list A) : opt_all (map Some l) = Some l.
Proof. induction l as [|x l IH]; [reflexivity|]. cbn [map]. rewrite opt_all_cons, IH. reflexivity. Qed.

Lemma Forall2_impl_in2 {A B} (R R' : A -> B -> Prop) l l' :
  Forall2 R l l' -> (forall x y, In x l -> In y l' -> R x y -> R' x y) -> Forall2 R' l l'.
Proof.
  induction 1 as [|x y l l' Hxy _ IH]; intros H; constructor.
  - apply H; [left; reflexivity|left; reflexivity|exact Hxy].
  - apply IH. intros; apply H; [right|right|]; assumption.
Qed.

Lemma in_combine_both {A B} (l : list A) (l' : list B) p : In p (combine l l') -> In (fst p) l /\ In (snd p) l'.
Proof. destruct p as [a b]. intros H. split; [eapply in_combine_l|eapply in_combine_r]; eauto. Qed.

Lemma cyc_entries e k a d (l : list (keyv * Value)) (ys : list (keyv * tval)) :
  Forall2 (fun p q => fst q = fst p /\ key_ok true k (fst p) = true /\ cyc e a d (snd p) (snd q)) l ys ->
  exists chunks,
    mapM (fun q => kbs <- put_key k (fst q) ;; b <- tser a d (snd q) ;; Ok (kb KSome :: kbs ++ b)) ys = Ok chunks /\
    (forall f, (forall p, In p l -> (fuel_of (norm a (snd p)) <= f)%nat) ->
       Forall2 (chunk_ok (map_elem true k (de true f d))) chunks (map (fun p => (fst p, norm a (snd p))) l)) /\
    (forall f, (forall p, In p l -> (fuel2 (snd p) <= f)%nat) ->
       Forall2 (chunk_ok (tmap_elem k (tde f a d))) chunks ys).
Proof.
  induction 1 as [|p q l ys (Hk & Hok & (b & Hb & Hde & Htde)) _ (chunks & Hm & F1 & F2)].
  - exists []. repeat split; intros; constructor.
  - destruct (put_key_ok true k (fst p) Hok) as (kbs & Hkb & _).
    exists ((kb KSome :: kbs ++ b) :: chunks). cbn [mapM]. rewrite Hk, Hkb, Hb, Hm. cbn [bind]. split; [reflexivity|]. split.
    + intros f Hf. cbn [map]. constructor.
      * exists (kbs ++ b). split; [reflexivity|]. intros r'. unfold map_elem.
        rewrite <- app_assoc, (key_roundtrip _ _ _ _ _ Hok Hkb). cbn [bind].
        rewrite Hde by (apply Hf; left; reflexivity). reflexivity.
      * apply F1. intros p' Hp'. apply Hf. right. exact Hp'.
    + intros f Hf. constructor.
      * exists (kbs ++ b). split; [reflexivity|]. intros r'. unfold tmap_elem.
        rewrite <- app_assoc, (key_roundtrip _ _ _ _ _ Hok Hkb). cbn [bind].
        rewrite Htde by (apply Hf; left; reflexivity). destruct q as [qk qy]. cbn [fst snd] in *. subst qk. reflexivity.
      * apply F2. intros p' Hp'. apply Hf. right. exact Hp'.
Qed.

(* ---------- unknown fields: HashMap insertion of fresh keys appends ---------- *)
Definition ev_unknown (ev : fevent) : list (N * list N) :=
  match ev with FUnknown i raw => [(i, raw)] | _ => [] end.

Lemma unknowns_fold evs acc :
  fold_left (fun acc e => match e with FUnknown i raw => assoc_insert N.eqb i raw acc | _ => acc end) evs acc =
  fold_left (fun a p => assoc_insert N.eqb (fst p) (snd p) a) (flat_map ev_unknown evs) acc.
Proof.
  revert acc. induction evs as [|ev evs IH]; intros acc; cbn [fold_left flat_map]; [reflexivity|].
  rewrite fold_left_app, IH. destruct ev; reflexivity.
Qed.

Lemma unknowns_flat evs : ids_nodup (map fst (flat_map ev_unknown evs)) = true -> unknowns evs = flat_map ev_unknown evs.
Proof. intros H. unfold unknowns. rewrite unknowns_fold. apply (dedup_assoc_id N.eqb N.eqb_sym). exact H. Qed.

(* a selection of a duplicate-free id list is duplicate-free *)
Lemma nodup_select {X Y} (idx : X -> N) (g : X -> list (N * Y)) (l : list X) :
  (forall x, g x = [] \/ exists y, g x = [(idx x, y)]) ->
  ids_nodup (map idx l) = true -> ids_nodup (map fst (flat_map g l)) = true.
Proof.
  intros Hg. unfold ids_nodup. induction l as [|x l IH]; cbn [map flat_map nodupb]; [reflexivity|].
  intros H. apply andb_prop in H as [H1 H2]. specialize (IH H2).
  destruct (Hg x) as [E|[y E]]; rewrite E; cbn [app map fst nodupb]; [exact IH|].
  rewrite IH, andb_true_r. apply negb_true_iff. apply negb_true_iff in H1.
  apply not_true_is_false. intros C. apply existsb_exists in C as (i & Hi & Hq). apply N.eqb_eq in Hq. subst i.
  apply in_map_iff in Hi as ((i', y') & Hi' & Hin). cbn [fst] in Hi'. subst i'.
  apply in_flat_map in Hin as (x' & Hx' & Hin).
  destruct (Hg x') as [E'|[y'' E']]; rewrite E' in Hin; [inversion Hin|].
  destruct Hin as [Hin|[]]. inversion Hin as [Hq].
  assert (existsb (N.eqb (idx x)) (map idx l) = true) as C2.
  { apply existsb_exists. exists (idx x'). split; [apply in_map; exact Hx'|apply N.eqb_eq; symmetry; exact Hq]. }
  congruence.
Qed.

Lemma flat_map_forall2 {X Y Z} (g : Y -> list Z) (h : X -> option Y) l ys :
  Forall2 (fun x y => h x = Some y) l ys ->
  flat_map g ys = flat_map (fun x => match h x with Some y => g y | None => [] end) l.
Proof. induction 1 as [|x y l ys Hxy _ IH]; cbn [flat_map]; [reflexivity|]. rewrite Hxy, IH. reflexivity. Qed.

(* with unique ids, selecting by id is find *)
Lemma flat_map_find {Y} (g : N * Value -> list Y) (l : list (N * Value)) id :
  ids_nodup (map fst l) = true ->
  flat_map (fun p => if fst p =? id then g p else []) l =
  match find (fun p => fst p =? id) l with Some p => g p | None => [] end.
Proof.
  unfold ids_nodup. induction l as [|p l IH]; cbn [map nodupb flat_map find]; [reflexivity|].
  intros H. apply andb_prop in H as [H1 H2]. destruct (N.eqb_spec (fst p) id) as [E|E].
  - subst id. rewrite IH by exact H2. rewrite (find_none_nodup l (fst p) H1). apply app_nil_r.
  - cbn [app]. apply IH. exact H2.
Qed.

(* ---------- the declared fields ---------- *)
Definition fty (f : N * (bool * ty)) : ty := if fst (snd f) then snd (snd f) else TOption (snd (snd f)).
Definition fval (f : N * (bool * ty)) (y : tval) : tval := if fst (snd f) then y else XOpt (Some y).

Lemma ser_field_eq d f y :
  ser_field d f y = b <- tser (fty f) (S d) (fval f y) ;; Ok (kb KSome :: put_varint 4 (fst f) ++ b).
Proof.
  unfold ser_field, fty, fval. destruct f as [id [[|] ft]]; cbn [fst snd]; [reflexivity|].
  cbn [tser]. destruct (too_deep (S d)); reflexivity.
Qed.

Definition chunk_of (d : nat) (f : N * (bool * ty)) (y : tval) : list N :=
  match ser_field d f y with Ok b => b | Err _ => [] end.

Lemma ser_fields_map d (sl : N * (bool * ty) -> option tval) fs :
  (forall f, In f fs -> match sl f with
                        | Some y => exists b, ser_field d f y = Ok b
                        | None => fst (snd f) = false
                        end) ->
  ser_fields d fs (map sl fs) =
  Ok (concat (flat_map (fun f => match sl f with Some y => [chunk_of d f y] | None => [] end) fs)).
Proof.
  induction fs as [|f fs IH]; intros H; cbn [map ser_fields flat_map concat]; [reflexivity|].
  pose proof (H f (or_introl eq_refl)) as Hf. rewrite (IH (fun g Hg => H g (or_intror Hg))).
  destruct (sl f) as [y|].
  - destruct Hf as [b Hb]. unfold chunk_of. rewrite Hb. cbn [bind app concat]. reflexivity.
  - rewrite Hf. reflexivity.
Qed.

Definition rawchunk (q : N * list N) : list N := kb KSome :: put_varint 4 (fst q) ++ snd q.

Lemma raw_fields_ok d (U : list (N * list N)) : (U <> [] -> too_deep (S d) = false) ->
  mapM (raw_field d) U = Ok (map rawchunk U).
Proof.
  intros H. destruct U as [|q U]; [reflexivity|]. specialize (H ltac:(discriminate)).
  generalize (q :: U). intros l. induction l as [|x l IH]; cbn [mapM map]; [reflexivity|].
  unfold raw_field at 1. rewrite H, IH. reflexivity.
Qed.

Lemma filter_flat_map {X} (P : X -> bool) (l : list X) : filter P l = flat_map (fun x => if P x then [x] else []) l.
Proof. induction l as [|x l IH]; cbn [filter flat_map]; [reflexivity|]. rewrite IH. destruct (P x); reflexivity. Qed.

Lemma Forall2_flat_map {X A B} (R : A -> B -> Prop) (g : X -> list A) (h : X -> list B) (l : list X) :
  (forall x, In x l -> Forall2 R (g x) (h x)) -> Forall2 R (flat_map g l) (flat_map h l).
Proof.
  induction l as [|x l IH]; intros H; cbn [flat_map]; [constructor|].
  apply Forall2_app; [apply H; left; reflexivity|apply IH; intros y Hy; apply H; right; exact Hy].
Qed.

(* events after the cycle: the unknown ones first, then one assignment per set slot *)
Lemma lk_known_list (sl : N * (bool * ty) -> option tval) fs id acc :
  ids_nodup (map fst fs) = true ->
  fold_left (lk_step id)
    (flat_map (fun f => match sl f with Some y => [FKnown (fst f) (Some y)] | None => [] end) fs) acc =
  match find (fun f => fst f =? id) fs with
  | Some f => match sl f with Some y => Some (Some y) | None => acc end
  | None => acc
  end.
Proof.
  unfold ids_nodup. revert acc. induction fs as [|f fs IH]; intros acc; cbn [map nodupb flat_map find fold_left]; [reflexivity|].
  intros H. apply andb_prop in H as [H1 H2]. rewrite fold_left_app. destruct (N.eqb_spec (fst f) id) as [E|E].
  - subst id. rewrite IH by exact H2.
    assert (find (fun g : N * (bool * ty) => fst g =? fst f) fs = None) as ->.
    { clear -H1. induction fs as [|g fs IH]; cbn [map existsb find] in *; [reflexivity|].
      apply negb_true_iff in H1. apply orb_false_elim in H1 as [A B]. rewrite N.eqb_sym, A. apply IH.
      rewrite B. reflexivity. }
    destruct (sl f) as [y|]; cbn [fold_left lk_step]; [rewrite N.eqb_refl|]; reflexivity.
  - rewrite IH by exact H2. destruct (sl f) as [y|]; cbn [fold_left lk_step]; [|reflexivity].
    destruct (N.eqb_spec (fst f) id); [contradiction|reflexivity].
Qed.

Lemma lk_unknown_prefix id (U : list (N * list N)) evs acc :
  fold_left (lk_step id) (map (fun q => FUnknown (fst q) (snd q)) U ++ evs) acc = fold_left (lk_step id) evs acc.
Proof. rewrite fold_left_app. f_equal. induction U as [|q U IH]; cbn [map fold_left lk_step]; [reflexivity|exact IH]. Qed.

Lemma map_flat_map {X A B} (h : A -> B) (g : X -> list A) (l : list X) :
  map h (flat_map g l) = flat_map (fun x => map h (g x)) l.
Proof. induction l as [|x l IH]; cbn [flat_map map]; [reflexivity|]. rewrite map_app, IH. reflexivity. Qed.

Lemma nodupb_app_disjoint (a b : list N) :
  nodupb N.eqb a = true -> nodupb N.eqb b = true -> (forall x, In x a -> existsb (N.eqb x) b = false) ->
  nodupb N.eqb (a ++ b) = true.
Proof.
  induction a as [|x a IH]; intros Ha Hb Hd; cbn [app nodupb] in *; [exact Hb|].
  apply andb_prop in Ha as [H1 H2]. rewrite IH; auto; [|intros y Hy; apply Hd; right; exact Hy].
  rewrite andb_true_r. rewrite existsb_app. apply negb_true_iff in H1. rewrite H1, (Hd x (or_introl eq_refl)). reflexivity.
Qed.

Lemma typed_option_some e a d v y : typed e (TOption a) d v = Some (XOpt (Some y)) -> exists v0, v = VSome v0.
Proof. destruct v; cbn [typed]; try discriminate; eauto. Qed.

Lemma typed_option_none e a d v : typed e (TOption a) d v = Some (XOpt None) -> v = VNone.
Proof.
  destruct v; cbn [typed]; try discriminate; [reflexivity|]. destruct (typed e a (S d) v); discriminate.
Qed.

Lemma find_field_some_in fs f : In f fs -> find_field fs (fst f) <> None.
Proof.
  intros Hin. unfold find_field. destruct (find (fun p => fst p =? fst f) fs) eqn:E; [discriminate|].
  exfalso. pose proof (find_none _ _ E f Hin) as H. cbn beta in H. rewrite N.eqb_refl in H. discriminate.
Qed.

Lemma nodupb_NoDup (l : list N) : nodupb N.eqb l = true -> NoDup l.
Proof.
  induction l as [|x l IH]; cbn [nodupb]; [constructor|]. intros H. apply andb_prop in H as [H1 H2].
  constructor; [|apply IH; exact H2]. intros Hin. apply negb_true_iff in H1.
  assert (existsb (N.eqb x) l = true) as C by (apply existsb_exists; exists x; split; [exact Hin|apply N.eqb_refl]).
  congruence.
Qed.

Lemma NoDup_map_filter {X} (g : X -> N) (P : X -> bool) l : NoDup (map g l) -> NoDup (map g (filter P l)).
Proof.
  induction l as [|x l IH]; cbn [map filter]; [auto|]. intros H. inversion H as [|? ? Hn Hd]; subst.
  destruct (P x); cbn [map]; [|apply IH; exact Hd]. constructor; [|apply IH; exact Hd].
  intros Hin. apply Hn. apply in_map_iff in Hin as (y & Hy & Hf). apply filter_In in Hf as [Hf _].
  apply in_map_iff. exists y. split; assumption.
Qed.

Lemma filter_split_length {X} (P : X -> bool) (l : list X) :
  (length (filter P l) + length (filter (fun x => negb (P x)) l) = length l)%nat.
Proof. induction l as [|x l IH]; cbn [filter length]; [reflexivity|]. destruct (P x); cbn [negb length]; lia. Qed.

Lemma flat_map_sel_length {X Y} (P : X -> bool) (g : X -> Y) (l : list X) :
  length (flat_map (fun x => if P x then [g x] else []) l) = length (filter P l).
Proof. induction l as [|x l IH]; cbn [flat_map filter]; [reflexivity|]. destruct (P x); cbn [app length]; rewrite IH; reflexivity. Qed.

Theorem typed_cycle e : forall v t d bs x, wf true v = true -> wf_ty t = true -> ser e d v = Ok bs ->
  typed e t d v = Some x -> cyc e t d v x.
Proof.
  induction v as [|x0 IH|b|i z|fk fbs|s|l IH|bs0|k l IH|k l|l IH|id x0 IH] using Value_ind';
    intros t d bs x Hwf Hty Hser Ht;
    (destruct t as [lt| |a|a|len a|kt a|ta tb|fs fb|vs fb]; cbn [typed] in Ht; try discriminate;
     [destruct (leaf_of lt _) eqn:L; [|discriminate]; apply Ok_inj in Ht || (inversion Ht; subst x); eapply cyc_leaf; eauto
     |unfold raw_of in Ht; rewrite Hser in Ht; inversion Ht; subst x; eapply cyc_value; eauto
     |..]).
  all: pose proof (too_deep_ser _ _ _ _ Hser) as Hd.
  - (* None / Option *)
    inversion Ht; subst x. exists [kb KNone]. split; [|split].
    + cbn [tser]. rewrite Hd. reflexivity.
    + intros f r Hf. destruct f as [|f]; [cbn in Hf; lia|]. cbn [norm de app]. unfold de_body. unfold too_deep in Hd. rewrite Hd. reflexivity.
    + intros f r Hf. destruct f as [|f]; [cbn in Hf; lia|]. cbn [app]. rewrite tde_step by (congruence || exact Hd). reflexivity.
  - (* Some / Option *)
    cbn [ser] in Hser. depth_ok Hser. bind_ok Hser b0 E. cbn [wf] in Hwf. cbn [wf_ty] in Hty.
    destruct (typed e a (S d) x0) as [y|] eqn:Ty; [|discriminate]. inversion Ht; subst x.
    destruct (IH a (S d) b0 y Hwf Hty E Ty) as (b' & Hb & Hde & Htde).
    exists (kb KSome :: b'). split; [|split].
    + cbn [tser]. rewrite Hd, Hb. reflexivity.
    + intros f r Hf. cbn [norm fuel_of] in *. destruct f as [|f]; [lia|]. cbn [de app]. unfold de_body, de_kind.
      unfold too_deep in Hd. rewrite Hd. change (kind_of_byte (kb KSome)) with (Some KSome). cbn iota.
      rewrite Hde by lia. reflexivity.
    + intros f r Hf. cbn [fuel2] in Hf. destruct f as [|f]; [lia|]. cbn [app].
      rewrite tde_step by (congruence || exact Hd). cbn [tde_kind]. rewrite Htde by lia. reflexivity.
  - (* Vec / Vec *)
    cbn [wf] in Hwf. apply andb_prop in Hwf as [Hlen Hwf]. rewrite forallb_forall in Hwf. rewrite Forall_forall in IH.
    cbn [wf_ty] in Hty.
    destruct (opt_all (map (typed e a (S d)) l)) as [ys|] eqn:Eo; [|discriminate]. inversion Ht; subst x.
    apply opt_all_forall2 in Eo.
    assert (Forall2 (fun x y => cyc e a (S d) x y) l ys) as FC.
    { eapply Forall2_impl_in; [exact Eo|]. cbn beta. intros x0 y Hin Hy.
      destruct (ser_vec_child _ _ _ _ x0 Hser Hin) as [b0 Hb0]. eapply IH; eauto. }
    destruct (cyc_elems _ _ _ _ _ FC) as (inners & Hm & F1 & F2).
    exists (kb (KVec E2) :: concat (map (cons (kb KSome)) inners) ++ [kb KNone]). split; [|split].
    + cbn [tser]. rewrite Hd. rewrite (mapM_cons_of _ _ _ _ Hm). reflexivity.
    + intros f r Hf. cbn [norm fuel_of] in *. destruct f as [|f]; [lia|]. cbn [de app]. unfold de_body, de_kind.
      unfold too_deep in Hd. rewrite Hd. change (kind_of_byte (kb (KVec E2))) with (Some (KVec E2)). cbn iota.
      rewrite <- app_assoc. cbn [app]. rewrite map_length in Hf. rewrite fold_sum_map in Hf.
      erewrite loop2_spec; [reflexivity| |].
      * apply chunks_some. eapply Forall2_impl_in2; [exact F1|]. cbn beta. intros b0 x0 _ Hin Hx r'. apply Hx.
        pose proof (fuel_in_sum (fun x => fuel_of (norm a x)) x0 l Hin) as S. cbn beta in S. lia.
      * rewrite map_length. apply Forall2_len in F1. lia.
    + intros f r Hf. cbn [fuel2] in Hf. destruct f as [|f]; [lia|]. cbn [app].
      rewrite tde_step by (congruence || exact Hd). cbn [tde_kind]. rewrite <- app_assoc. cbn [app].
      assert (map snd (combine l ys) = ys) as MS.
      { clear -Eo. induction Eo; cbn [combine map snd]; [reflexivity|]. f_equal. assumption. }
      erewrite (loop2_spec (tde f a (S d)) _ (map snd (combine l ys))); [rewrite MS; reflexivity| |].
      * apply chunks_some. eapply Forall2_impl_in2; [exact F2|]. cbn beta. intros b0 xy _ Hin Hx r'. apply Hx.
        apply in_combine_both in Hin as [Hin _].
        pose proof (fuel2_in fuel2 (fst xy) l Hin). lia.
      * rewrite map_length. apply Forall2_len in F1. lia.
  - (* Vec / Array *)
    cbn [wf] in Hwf. apply andb_prop in Hwf as [Hlen Hwf]. rewrite forallb_forall in Hwf. rewrite Forall_forall in IH.
    cbn [wf_ty] in Hty. apply andb_prop in Hty as [_ Hty].
    destruct (lenN l =? len) eqn:El; [|discriminate].
    destruct (opt_all (map (typed e a (S d)) l)) as [ys|] eqn:Eo; [|discriminate]. inversion Ht; subst x.
    apply opt_all_forall2 in Eo.
    assert (Forall2 (fun x y => cyc e a (S d) x y) l ys) as FC.
    { eapply Forall2_impl_in; [exact Eo|]. cbn beta. intros x0 y Hin Hy.
      destruct (ser_vec_child _ _ _ _ x0 Hser Hin) as [b0 Hb0]. eapply IH; eauto. }
    destruct (cyc_elems _ _ _ _ _ FC) as (inners & Hm & F1 & F2).
    exists (kb (KVec E2) :: concat (map (cons (kb KSome)) inners) ++ [kb KNone]). split; [|split].
    + cbn [tser]. rewrite Hd. rewrite (mapM_cons_of _ _ _ _ Hm). reflexivity.
    + intros f r Hf. cbn [norm fuel_of] in *. destruct f as [|f]; [lia|]. cbn [de app]. unfold de_body, de_kind.
      unfold too_deep in Hd. rewrite Hd. change (kind_of_byte (kb (KVec E2))) with (Some (KVec E2)). cbn iota.
      rewrite <- app_assoc. cbn [app]. rewrite map_length in Hf. rewrite fold_sum_map in Hf.
      erewrite loop2_spec; [reflexivity| |].
      * apply chunks_some. eapply Forall2_impl_in2; [exact F1|]. cbn beta. intros b0 x0 _ Hin Hx r'. apply Hx.
        pose proof (fuel_in_sum (fun x => fuel_of (norm a x)) x0 l Hin) as S. cbn beta in S. lia.
      * rewrite map_length. apply Forall2_len in F1. lia.
    + intros f r Hf. cbn [fuel2] in Hf. destruct f as [|f]; [lia|]. cbn [app].
      rewrite tde_step by (congruence || exact Hd). cbn [tde_kind]. rewrite <- app_assoc. cbn [app].
      assert (map snd (combine l ys) = ys) as MS.
      { clear -Eo. induction Eo; cbn [combine map snd]; [reflexivity|]. f_equal. assumption. }
      assert (Forall2 (el_dec (tde f a (S d))) inners (map Some ys)) as FD.
      { rewrite <- MS, map_map. apply Forall2_map_r. eapply Forall2_impl_in2; [exact F2|]. cbn beta.
        intros b0 xy _ Hin Hx r'. cbn [dec_res]. apply Hx. apply in_combine_both in Hin as [Hin _].
        pose proof (fuel2_in fuel2 (fst xy) l Hin). lia. }
      pose proof (arr2_dec _ _ _ r FD (N.to_nat len)) as L. rewrite opt_all_map_some in L.
      assert ((length inners =? N.to_nat len)%nat = true) as EL.
      { apply Forall2_len in F1. apply N.eqb_eq in El. unfold lenN in El. apply Nat.eqb_eq. lia. }
      rewrite EL in L. cbn [dec_res] in L. rewrite L. reflexivity.
  - (* Map / Map *)
    cbn [wf] in Hwf. apply andb_prop in Hwf as [Hwf Hall]. apply andb_prop in Hwf as [Hlen Hnd].
    rewrite forallb_forall in Hall. rewrite Forall_forall in IH. cbn [wf_ty] in Hty.
    destruct (keyk_eqb kt k) eqn:Ek; [|discriminate]. apply keyk_eqb_eq in Ek. subst kt.
    match type of Ht with match opt_all (map ?g l) with _ => _ end = _ => set (spec := g) in * end.
    destruct (opt_all (map spec l)) as [ys|] eqn:Eo; [|discriminate]. inversion Ht; subst x.
    pose proof (opt_all_keys _ fst _ _ Eo) as Hkeys.
    apply opt_all_forall2 in Eo.
    assert (Forall2 (fun p q => fst q = fst p /\ key_ok true k (fst p) = true /\ cyc e a (S d) (snd p) (snd q)) l ys) as FC.
    { eapply Forall2_impl_in; [exact Eo|]. cbn beta. intros p q Hin Hq. unfold spec in Hq.
      destruct (typed e a (S d) (snd p)) as [y|] eqn:Ty; [|discriminate]. inversion Hq; subst q. cbn [fst snd].
      specialize (Hall _ Hin). apply andb_prop in Hall as [Hk Hv].
      destruct (ser_map_child _ _ _ _ _ p Hser Hin) as [b0 Hb0]. repeat split; auto. eapply IH; eauto. }
    destruct (cyc_entries _ _ _ _ _ _ FC) as (chunks & Hm & F1 & F2).
    exists (kb (KMap E2 k) :: concat chunks ++ [kb KNone]). split; [|split].
    + cbn [tser]. rewrite Hd, Hm. reflexivity.
    + intros f r Hf. cbn [norm fuel_of] in *. destruct f as [|f]; [lia|]. cbn [de app]. unfold de_body, de_kind.
      unfold too_deep in Hd. rewrite Hd. unfold kb at 1. rewrite kind_of_byte_kb. cbn iota.
      rewrite <- app_assoc. cbn [app]. rewrite map_length in Hf.
      erewrite loop2_spec; [cbn [bind]; rewrite dedup_map_id; [reflexivity|]| |].
      * rewrite map_map. cbn [fst]. exact Hnd.
      * apply F1. intros p Hin.
        pose proof (fuel_in_sum (fun q => fuel_of (snd q)) (fst p, norm a (snd p)) (map (fun p => (fst p, norm a (snd p))) l)
                      (in_map _ _ _ Hin)) as S. cbn [snd] in S. cbn beta in S. lia.
      * pose proof (Forall2_len _ _ _ (F1 f (fun p Hin => ltac:(
          pose proof (fuel_in_sum (fun q => fuel_of (snd q)) (fst p, norm a (snd p)) (map (fun p => (fst p, norm a (snd p))) l)
                      (in_map _ _ _ Hin)) as S; cbn [snd] in S; cbn beta in S; lia)))) as HL.
        rewrite map_length in HL. lia.
    + intros f r Hf. cbn [fuel2] in Hf. destruct f as [|f]; [lia|]. cbn [app].
      rewrite tde_step by (congruence || exact Hd). cbn [tde_kind].
      assert (keyk_eqb k k = true) as Hkk by (destruct k as [i'| |]; try reflexivity; destruct i'; reflexivity).
      rewrite Hkk. rewrite <- app_assoc. cbn [app].
      assert (forall p, In p l -> (fuel2 (snd p) <= f)%nat) as HF.
      { intros p Hin. pose proof (fuel2_in (fun p => fuel2 (snd p)) p l Hin). cbn beta in *. lia. }
      erewrite loop2_spec; [cbn [bind]; rewrite dedup_tmap_id; [reflexivity|]| |].
      * rewrite Hkeys. exact Hnd.
      * apply F2. exact HF.
      * pose proof (Forall2_len _ _ _ (F2 f HF)) as HL. apply Forall2_len in FC. lia.
  - (* Struct / Struct *)
    cbn [wf] in Hwf. apply andb_prop in Hwf as [Hwf Hall]. apply andb_prop in Hwf as [Hlen Hnd].
    rewrite forallb_forall in Hall. rewrite Forall_forall in IH.
    pose proof Hty as Hty0. cbn [wf_ty] in Hty. apply andb_prop in Hty as [Hfn Hfall]. rewrite forallb_forall in Hfall.
    match type of Ht with match opt_all (map ?g l) with _ => _ end = _ => set (spec := g) in * end.
    destruct (opt_all (map spec l)) as [evs|] eqn:Eo; [|discriminate].
    destruct (build_slots fs evs) as [slots|] eqn:Eb; [|discriminate]. inversion Ht; subst x. clear Ht.
    apply opt_all_forall2 in Eo. rewrite build_slots_spec in Eb.
    destruct (forallb _ fs) eqn:RQ in Eb; [|discriminate]. apply Ok_inj in Eb. subst slots.
    rewrite forallb_forall in RQ.
    (* facts per field of the value *)
    assert (forall p, In p l -> exists raw, ser e (S d) (snd p) = Ok raw /\ wf true (snd p) = true /\
              (fst p <=? u32_max) = true /\
              (forall t' y, wf_ty t' = true -> typed e t' (S d) (snd p) = Some y -> cyc e t' (S d) (snd p) y)) as PF.
    { intros p Hin. destruct (ser_struct_child _ _ _ _ p Hser Hin) as [raw Hraw]. exists raw.
      specialize (Hall _ Hin). apply andb_prop in Hall as [Hk Hv]. repeat split; auto.
      intros t' y Ht' Hy. eapply IH; eauto. }
    assert (forall p i o, spec p = Some (FKnown i o) -> i = fst p) as Hid.
    { intros p i o. unfold spec. destruct (find_field fs (fst p)) as [[[|] ft]|].
      - destruct (typed e ft (S d) (snd p)); intros H; inversion H; reflexivity.
      - destruct (typed e (TOption ft) (S d) (snd p)) as [[]|]; intros H; inversion H; reflexivity.
      - destruct (raw_of e (S d) (snd p)); [destruct fb|]; intros H; inversion H. }
    assert (l <> [] -> too_deep (S d) = false) as HdS.
    { destruct l as [|p l']; [congruence|]. intros _. destruct (PF p (or_introl eq_refl)) as (raw & Hr & _).
      eapply too_deep_ser; eauto. }
    set (sl := fun f : N * (bool * ty) => slot_of evs (fst f)).
    (* the slot of a declared field comes from the one value field with that id *)
    assert (forall f, In f fs -> sl f = match find (fun p => fst p =? fst f) l with
                                         | Some p => match spec p with Some (FKnown _ o) => o | _ => None end
                                         | None => None end) as SL.
    { intros f Hf. unfold sl, slot_of. rewrite last_known_unfold, (lk_find spec l evs (fst f) Hid Eo Hnd None).
      destruct (find _ l) as [p|]; [|reflexivity]. destruct (spec p) as [[i o| |]|]; reflexivity. }
    (* a set slot: source field, its typed value and the cycle of that value *)
    assert (forall f y, In f fs -> sl f = Some y ->
              exists p, find (fun p => fst p =? fst f) l = Some p /\
                        In p l /\ fst p = fst f /\ typed e (fty f) (S d) (snd p) = Some (fval f y) /\
                        cyc e (fty f) (S d) (snd p) (fval f y)) as SRC.
    { intros f y Hf Hs. rewrite (SL f Hf) in Hs. destruct (find _ l) as [p|] eqn:Fd; [|discriminate].
      exists p. split; [reflexivity|].
      apply find_some in Fd as [Hin Hq]. apply N.eqb_eq in Hq. split; [exact Hin|]. split; [exact Hq|].
      pose proof (find_field_nodup fs f Hfn Hf) as FF. rewrite <- Hq in FF.
      destruct (PF p Hin) as (raw & _ & _ & _ & CY).
      assert (wf_ty (fty f) = true) as WT.
      { specialize (Hfall _ Hf). apply andb_prop in Hfall as [_ W]. unfold fty. destruct (fst (snd f)); exact W. }
      unfold spec in Hs. rewrite FF in Hs. unfold fty, fval in *. destruct (snd f) as [[|] ft]; cbn [fst snd] in *.
      - destruct (typed e ft (S d) (snd p)) as [y'|] eqn:Ty; [|discriminate]. inversion Hs; subst y'.
        split; [reflexivity|]. apply CY; auto.
      - destruct (typed e (TOption ft) (S d) (snd p)) as [[| |o| | | | |]|] eqn:Ty; try discriminate.
        subst o. split; [reflexivity|]. apply CY; auto. }
    (* the unknown fields *)
    set (isunk := fun p : N * Value => fb && match find_field fs (fst p) with None => true | Some _ => false end).
    set (rawf := fun p : N * Value => match raw_of e (S d) (snd p) with Some b => b | None => [] end).
    assert (forall p, In p l -> match spec p with Some ev => ev_unknown ev | None => [] end =
                                  if isunk p then [(fst p, rawf p)] else []) as UK.
    { intros p Hin. destruct (PF p Hin) as (raw & Hr & _). unfold spec, isunk, rawf, raw_of. rewrite Hr.
      destruct (find_field fs (fst p)) as [[[|] ft]|].
      - rewrite andb_false_r. destruct (typed e ft (S d) (snd p)); reflexivity.
      - rewrite andb_false_r. destruct (typed e (TOption ft) (S d) (snd p)) as [[]|]; reflexivity.
      - rewrite andb_true_r. destruct fb; reflexivity. }
    set (U := flat_map (fun p => if isunk p then [(fst p, rawf p)] else []) l).
    assert (unknowns evs = U) as EU.
    { assert (flat_map ev_unknown evs = U) as E1.
      { rewrite (flat_map_forall2 ev_unknown spec l evs Eo). unfold U.
        clear -UK. induction l as [|p l IHl]; cbn [flat_map]; [reflexivity|].
        rewrite (UK p (or_introl eq_refl)), IHl; [reflexivity|]. intros q Hq. apply UK. right. exact Hq. }
      rewrite unknowns_flat; rewrite E1; [reflexivity|]. unfold U.
      apply (nodup_select fst); [|exact Hnd]. intros p. destruct (isunk p); [right; eexists; reflexivity|left; reflexivity]. }
    rewrite EU.
    (* serialization succeeds *)
    assert (forall f, In f fs -> match sl f with
                                 | Some y => exists b, ser_field d f y = Ok b
                                 | None => fst (snd f) = false end) as SF.
    { intros f Hf. destruct (sl f) as [y|] eqn:Es.
      - destruct (SRC f y Hf Es) as (p & _ & _ & _ & _ & (b' & Hb & _)). rewrite ser_field_eq, Hb. eexists; reflexivity.
      - specialize (RQ f Hf). fold (sl f) in RQ. rewrite Es in RQ. cbn [is_some] in RQ. rewrite orb_false_r in RQ.
        apply negb_true_iff in RQ. exact RQ. }
    set (kch := flat_map (fun f => match sl f with Some y => [chunk_of d f y] | None => [] end) fs).
    exists (kb (KStruct E2) :: concat (map rawchunk U) ++ concat kch ++ [kb KNone]). split; [|split].
    + rewrite tser_struct, Hd. rewrite raw_fields_ok.
      * cbn [bind]. fold sl. change (map (fun f => slot_of evs (fst f)) fs) with (map sl fs).
        rewrite (ser_fields_map d sl fs SF). reflexivity.
      * intros HU. apply HdS. intros ->. apply HU. reflexivity.
    + (* the generic decoder reads the normalised value *)
      intros f0 r Hf. cbn [norm] in *.
      match type of Hf with context [VStruct (?a ++ ?b)] => set (UPn := a) in *; set (KOn := b) in * end.
      assert (UPn = flat_map (fun p => if isunk p then [p] else []) l) as EUP.
      { unfold UPn, isunk. case fb; cbn [andb].
        - apply filter_flat_map.
        - clear. induction l as [|p l IHl]; cbn [flat_map]; [reflexivity|exact IHl]. }
      assert (forall f, In f fs ->
                flat_map (fun p : N * Value =>
                   if fst p =? fst f
                   then if fst (snd f) then [(fst p, norm (snd (snd f)) (snd p))]
                        else match snd p with VSome y => [(fst p, VSome (norm (snd (snd f)) y))] | _ => [] end
                   else []) l =
                match sl f with
                | Some y => match find (fun p => fst p =? fst f) l with
                            | Some p => [(fst f, norm (fty f) (snd p))] | None => [] end
                | None => [] end) as KOf.
      { intros f Hf0. rewrite (flat_map_find _ l (fst f) Hnd).
        destruct (sl f) as [y|] eqn:Es.
        - destruct (SRC f y Hf0 Es) as (p & Fd & Hin & Hq & Ty & _). rewrite Fd.
          unfold fty, fval in *. destruct (snd f) as [[|] ft]; cbn [fst snd] in *; [rewrite Hq; reflexivity|].
          destruct (typed_option_some _ _ _ _ _ Ty) as [v0 Ev0]. rewrite Ev0, Hq. reflexivity.
        - rewrite (SL f Hf0) in Es. destruct (find (fun p => fst p =? fst f) l) as [p|] eqn:Fd; [|reflexivity].
          apply find_some in Fd as [Hin Hq]. apply N.eqb_eq in Hq.
          pose proof (find_field_nodup fs f Hfn Hf0) as FF. rewrite <- Hq in FF.
          assert (exists ev, spec p = Some ev) as [ev Sp].
          { clear -Eo Hin. induction Eo as [|p0 ev0 l0 evs0 H0 _ IH0]; [inversion Hin|].
            destruct Hin as [->|Hin]; eauto. }
          unfold spec in Es, Sp. rewrite FF in Es, Sp. destruct (snd f) as [[|] ft]; cbn [fst snd] in *.
          + destruct (typed e ft (S d) (snd p)) as [y|]; [discriminate Es|discriminate Sp].
          + destruct (typed e (TOption ft) (S d) (snd p)) as [[| |o| | | | |]|] eqn:Ty; try discriminate Sp.
            subst o. rewrite (typed_option_none _ _ _ _ Ty). reflexivity. }
      assert (KOn = flat_map (fun f => match sl f with
                                       | Some y => match find (fun p => fst p =? fst f) l with
                                                   | Some p => [(fst f, norm (fty f) (snd p))] | None => [] end
                                       | None => [] end) fs) as EKO.
      { unfold KOn. clear -KOf. induction fs as [|f fs IHfs]; cbn [flat_map]; [reflexivity|].
        rewrite (KOf f (or_introl eq_refl)), IHfs; [reflexivity|]. intros g Hg. apply KOf. right. exact Hg. }
      (* chunks decode, for any sufficient element fuel *)
      assert (Forall2 (fun c q => forall f1, (fuel_of (snd q) <= f1)%nat ->
                         chunk_ok (field_elem (de true f1 (S d))) c q)
                      (map rawchunk U ++ kch) (UPn ++ KOn)) as CH.
      { apply Forall2_app.
        - rewrite EUP. unfold U. rewrite map_flat_map. apply Forall2_flat_map. intros p Hin.
          destruct (isunk p); cbn [map]; constructor; [|constructor].
          intros f1 Hf1. destruct (PF p Hin) as (raw & Hr & Hv & Hk & _).
          exists (put_varint 4 (fst p) ++ rawf p). split; [reflexivity|]. intros r'. unfold field_elem.
          rewrite <- app_assoc, varint_roundtrip by (try lia; apply u32_fits; exact Hk). cbn [bind].
          unfold rawf, raw_of. rewrite Hr. rewrite (ser_de true e (snd p) (S d) raw Hv Hr f1 r' Hf1).
          destruct p; reflexivity.
        - rewrite EKO. unfold kch. apply Forall2_flat_map. intros f Hf0.
          destruct (sl f) as [y|] eqn:Es; [|constructor].
          destruct (SRC f y Hf0 Es) as (p & Fd & Hin & Hq & Ty & (b' & Hb & Hde & _)). rewrite Fd.
          constructor; [|constructor]. intros f1 Hf1. cbn [snd] in Hf1.
          unfold chunk_of. rewrite ser_field_eq, Hb. cbn [bind].
          exists (put_varint 4 (fst f) ++ b'). split; [reflexivity|]. intros r'. unfold field_elem.
          assert ((fst f <=? u32_max) = true) as Hk by (specialize (Hfall _ Hf0); apply andb_prop in Hfall as [K _]; exact K).
          rewrite <- app_assoc, varint_roundtrip by (try lia; apply u32_fits; exact Hk). cbn [bind].
          rewrite Hde by exact Hf1. reflexivity. }
      assert (ids_nodup (map fst (UPn ++ KOn)) = true) as ND.
      { rewrite map_app. apply nodupb_app_disjoint.
        - rewrite EUP. apply (nodup_select fst); [|exact Hnd]. intros p. destruct (isunk p); [right|left; reflexivity].
          exists (snd p). destruct p; reflexivity.
        - rewrite EKO. apply (nodup_select fst); [|exact Hfn]. intros f. destruct (sl f); [|left; reflexivity].
          destruct (find _ l); [right; eexists; reflexivity|left; reflexivity].
        - intros i Hi. apply not_true_is_false. intros C.
          rewrite EUP in Hi. apply in_map_iff in Hi as (p & <- & Hp). apply in_flat_map in Hp as (p' & Hp' & Hin).
          destruct (isunk p') eqn:Iu; [|inversion Hin]. destruct Hin as [->|[]].
          apply existsb_exists in C as (j & Hj & Hq). apply N.eqb_eq in Hq. subst j.
          rewrite EKO in Hj. apply in_map_iff in Hj as (q & Hq & Hin). apply in_flat_map in Hin as (f & Hf0 & Hin).
          assert (fst q = fst f) as Q.
          { destruct (sl f); [|inversion Hin]. destruct (find _ l); [|inversion Hin]. destruct Hin as [<-|[]]. reflexivity. }
          unfold isunk in Iu. apply andb_prop in Iu as [_ Iu]. rewrite <- Hq, Q in Iu.
          pose proof (find_field_some_in fs f Hf0). destruct (find_field fs (fst f)); [discriminate|congruence]. }
      destruct f0 as [|f0]; [cbn [fuel_of] in Hf; lia|]. cbn [de app]. unfold de_body, de_kind.
      unfold too_deep in Hd. rewrite Hd. change (kind_of_byte (kb (KStruct E2))) with (Some (KStruct E2)). cbn iota.
      replace ((concat (map rawchunk U) ++ concat kch ++ [kb KNone]) ++ r)
        with (concat (map rawchunk U ++ kch) ++ kb KNone :: r) by (rewrite concat_app, <- !app_assoc; reflexivity).
      cbn [fuel_of] in Hf.
      erewrite loop2_spec; [cbn [bind]; rewrite dedup_struct_id by exact ND; reflexivity| |].
      * eapply Forall2_impl_in2; [exact CH|]. cbn beta. intros c q _ Hin Hc. apply Hc.
        pose proof (fuel_in_sum (fun p => fuel_of (snd p)) q _ Hin) as S. cbn beta in S. lia.
      * rewrite (Forall2_len _ _ _ CH). lia.
    + (* the generated decoder reads the same typed value back *)
      intros f0 r Hf. cbn [fuel2] in Hf.
      set (EVk := flat_map (fun f => match sl f with Some y => [FKnown (fst f) (Some y)] | None => [] end) fs).
      set (EV' := map (fun q : N * list N => FUnknown (fst q) (snd q)) U ++ EVk).
      assert (forall f1, (forall p, In p l -> (fuel2 (snd p) <= f1)%nat) ->
                Forall2 (chunk_ok (sfield (tde f1) fs fb (S d))) (map rawchunk U ++ kch) EV') as CH.
      { intros f1 HF. apply Forall2_app.
        - unfold U. rewrite !map_flat_map. apply Forall2_flat_map. intros p Hin.
          destruct (isunk p) eqn:Iu; cbn [map]; constructor; [|constructor]. cbn [fst snd].
          destruct (PF p Hin) as (raw & Hr & Hv & Hk & _).
          exists (put_varint 4 (fst p) ++ rawf p). split; [reflexivity|]. intros r'. unfold sfield.
          rewrite <- app_assoc, varint_roundtrip by (try lia; apply u32_fits; exact Hk). cbn [bind].
          unfold isunk in Iu. apply andb_prop in Iu as [Ifb Iu].
          destruct (find_field fs (fst p)); [discriminate|]. rewrite Ifb.
          unfold rawf, raw_of. rewrite Hr. rewrite (capture_ser e _ _ _ r' Hv Hr). reflexivity.
        - unfold kch, EVk. apply Forall2_flat_map. intros f Hf0.
          destruct (sl f) as [y|] eqn:Es; [|constructor].
          destruct (SRC f y Hf0 Es) as (p & Fd & Hin & Hq & Ty & (b' & Hb & _ & Htde)).
          constructor; [|constructor].
          unfold chunk_of. rewrite ser_field_eq, Hb. cbn [bind].
          exists (put_varint 4 (fst f) ++ b'). split; [reflexivity|]. intros r'. unfold sfield.
          assert ((fst f <=? u32_max) = true) as Hk by (specialize (Hfall _ Hf0); apply andb_prop in Hfall as [K _]; exact K).
          rewrite <- app_assoc, varint_roundtrip by (try lia; apply u32_fits; exact Hk). cbn [bind].
          rewrite (find_field_nodup fs f Hfn Hf0). specialize (Htde f1 r' (HF p Hin)).
          unfold fty, fval in Htde. destruct (snd f) as [[|] ft]; cbn [fst snd] in *; rewrite Htde; reflexivity. }
      assert (forall f, In f fs -> slot_of EV' (fst f) = sl f) as SL'.
      { intros f Hf0. unfold slot_of, EV'. rewrite last_known_unfold, lk_unknown_prefix.
        unfold EVk. rewrite (lk_known_list sl fs (fst f) None Hfn).
        destruct (find (fun g => fst g =? fst f) fs) as [g|] eqn:Fg.
        - apply find_some in Fg as [_ Hq]. apply N.eqb_eq in Hq.
          assert (sl g = sl f) as -> by (unfold sl; rewrite Hq; reflexivity). destruct (sl f); reflexivity.
        - exfalso. pose proof (find_none _ _ Fg f Hf0) as H. cbn beta in H. rewrite N.eqb_refl in H. discriminate. }
      assert (unknowns EV' = U) as EU'.
      { assert (flat_map ev_unknown EV' = U) as E1.
        { unfold EV'. rewrite flat_map_app.
          assert (flat_map ev_unknown EVk = []) as ->.
          { unfold EVk. clear. induction fs as [|f fs IHfs]; cbn [flat_map]; [reflexivity|].
            rewrite flat_map_app, IHfs. destruct (sl f); reflexivity. }
          rewrite app_nil_r. clear. induction U as [|q U' IHU]; cbn [map flat_map ev_unknown]; [reflexivity|].
          rewrite IHU. destruct q; reflexivity. }
        rewrite unknowns_flat; rewrite E1; [reflexivity|]. unfold U.
        apply (nodup_select fst); [|exact Hnd]. intros p. destruct (isunk p); [right; eexists; reflexivity|left; reflexivity]. }
      destruct f0 as [|f0]; [lia|]. cbn [app].
      rewrite tde_step by (congruence || exact Hd). cbn [tde_kind].
      replace ((concat (map rawchunk U) ++ concat kch ++ [kb KNone]) ++ r)
        with (concat (map rawchunk U ++ kch) ++ kb KNone :: r) by (rewrite concat_app, <- !app_assoc; reflexivity).
      assert (forall p, In p l -> (fuel2 (snd p) <= f0)%nat) as HF.
      { intros p Hin. pose proof (fuel2_in (fun p => fuel2 (snd p)) p l Hin). cbn beta in *. lia. }
      erewrite loop2_spec; [| exact (CH f0 HF) |].
      * cbn [bind]. rewrite build_slots_spec.
        assert (forallb (fun f => negb (fst (snd f)) || is_some (slot_of EV' (fst f))) fs = true) as ->.
        { apply forallb_forall. intros f Hf0. rewrite (SL' f Hf0). apply RQ. exact Hf0. }
        cbn [bind]. rewrite EU'.
        assert (map (fun f => slot_of EV' (fst f)) fs = map (fun f => slot_of evs (fst f)) fs) as ->.
        { apply map_ext_in. intros f Hf0. apply SL'. exact Hf0. }
        reflexivity.
      * (* at most one chunk per field of the value *)
        rewrite app_length, map_length. unfold U. rewrite (flat_map_sel_length isunk (fun p => (fst p, rawf p)) l).
        assert (length kch = length (filter (fun f => is_some (sl f)) fs)) as ->.
        { unfold kch. clear. induction fs as [|f fs IHfs]; cbn [flat_map filter]; [reflexivity|].
          rewrite app_length, IHfs. destruct (sl f); cbn [is_some length]; reflexivity. }
        pose proof (filter_split_length isunk l) as SPL.
        assert (length (filter (fun f => is_some (sl f)) fs) <= length (filter (fun p => negb (isunk p)) l))%nat as LE.
        { rewrite <- (map_length fst (filter (fun f => is_some (sl f)) fs)).
          rewrite <- (map_length fst (filter (fun p => negb (isunk p)) l)).
          apply NoDup_incl_length.
          - apply NoDup_map_filter. apply nodupb_NoDup. exact Hfn.
          - intros i Hi. apply in_map_iff in Hi as (f & <- & Hf0). apply filter_In in Hf0 as [Hf0 Hs].
            destruct (sl f) as [y|] eqn:Es; [|discriminate].
            destruct (SRC f y Hf0 Es) as (p & _ & Hin & Hq & _). apply in_map_iff. exists p. split; [exact Hq|].
            apply filter_In. split; [exact Hin|]. unfold isunk. rewrite Hq.
            pose proof (find_field_some_in fs f Hf0). destruct (find_field fs (fst f)); [|congruence].
            rewrite andb_false_r. reflexivity. }
        lia.
  - (* Enum / Result *)
    cbn [ser] in Hser. depth_ok Hser. bind_ok Hser b0 E. cbn [wf] in Hwf. apply andb_prop in Hwf as [Hid Hwf].
    cbn [wf_ty] in Hty. apply andb_prop in Hty as [Hta Htb].
    assert (forall tt y, wf_ty tt = true -> typed e tt (S d) x0 = Some y ->
              exists b', tser tt (S d) y = Ok b' /\
                (forall f r, (fuel_of (norm tt x0) <= f)%nat -> de true f (S d) (b' ++ r) = Ok (norm tt x0, r)) /\
                (forall f r, (fuel2 x0 <= f)%nat -> tde f tt (S d) (b' ++ r) = Ok (y, r))) as C
      by (intros tt y Htt Hy; exact (IH tt (S d) b0 y Hwf Htt E Hy)).
    destruct (N.eqb_spec id 0) as [->|N0]; [|destruct (N.eqb_spec id 1) as [->|N1]; [|discriminate]].
    + destruct (typed e ta (S d) x0) as [y|] eqn:Ty; [|discriminate]. inversion Ht; subst x.
      destruct (C ta y Hta Ty) as (b' & Hb & Hde & Htde).
      exists (kb KEnum :: put_varint 4 0 ++ b'). split; [|split].
      * cbn [tser]. rewrite Hd. change (0 =? 0) with true. cbn iota. rewrite Hb. reflexivity.
      * intros f r Hf. cbn [norm fuel_of] in *. change (0 =? 0) with true in *. cbn iota in *.
        destruct f as [|f]; [lia|]. cbn [de app]. unfold de_body, de_kind. unfold too_deep in Hd. rewrite Hd.
        change (kind_of_byte (kb KEnum)) with (Some KEnum). cbn iota.
        rewrite <- app_assoc, varint_roundtrip by (try lia; reflexivity). cbn [bind]. rewrite Hde by lia. reflexivity.
      * intros f r Hf. cbn [fuel2] in Hf. destruct f as [|f]; [lia|]. cbn [app].
        rewrite tde_step by (congruence || exact Hd). cbn [tde_kind].
        rewrite <- app_assoc, varint_roundtrip by (try lia; reflexivity). cbn [bind]. change (0 =? 0) with true. cbn iota.
        rewrite Htde by lia. reflexivity.
    + destruct (typed e tb (S d) x0) as [y|] eqn:Ty; [|discriminate]. inversion Ht; subst x.
      destruct (C tb y Htb Ty) as (b' & Hb & Hde & Htde).
      exists (kb KEnum :: put_varint 4 1 ++ b'). split; [|split].
      * cbn [tser]. rewrite Hd. change (1 =? 0) with false. change (1 =? 1) with true. cbn iota. rewrite Hb. reflexivity.
      * intros f r Hf. cbn [norm fuel_of] in *. change (1 =? 0) with false in *. cbn iota in *.
        destruct f as [|f]; [lia|]. cbn [de app]. unfold de_body, de_kind. unfold too_deep in Hd. rewrite Hd.
        change (kind_of_byte (kb KEnum)) with (Some KEnum). cbn iota.
        rewrite <- app_assoc, varint_roundtrip by (try lia; reflexivity). cbn [bind]. rewrite Hde by lia. reflexivity.
      * intros f r Hf. cbn [fuel2] in Hf. destruct f as [|f]; [lia|]. cbn [app].
        rewrite tde_step by (congruence || exact Hd). cbn [tde_kind].
        rewrite <- app_assoc, varint_roundtrip by (try lia; reflexivity). cbn [bind].
        change (1 =? 0) with false. change (1 =? 1) with true. cbn iota.
        rewrite Htde by lia. reflexivity.
  - (* Enum / Enum *)
    cbn [ser] in Hser. depth_ok Hser. bind_ok Hser b0 E. cbn [wf] in Hwf. apply andb_prop in Hwf as [Hid Hwf].
    destruct (find_variant vs id) as [[vt|]|] eqn:Ev.
    + destruct (typed e vt (S d) x0) as [y|] eqn:Ty; [|discriminate]. inversion Ht; subst x.
      destruct (IH vt (S d) b0 y Hwf (wf_ty_variant _ _ _ _ Hty Ev) E Ty) as (b' & Hb & Hde & Htde).
      exists (kb KEnum :: put_varint 4 id ++ b'). split; [|split].
      * cbn [tser]. rewrite Hd, Ev, Hb. destruct fb; reflexivity.
      * intros f r Hf. cbn [norm fuel_of] in *. rewrite Ev in *. cbn [fuel_of] in Hf.
        destruct f as [|f]; [lia|]. cbn [de app]. unfold de_body, de_kind. unfold too_deep in Hd. rewrite Hd.
        change (kind_of_byte (kb KEnum)) with (Some KEnum). cbn iota.
        rewrite <- app_assoc, varint_roundtrip by (try lia; apply u32_fits; exact Hid). cbn [bind]. rewrite Hde by lia. reflexivity.
      * intros f r Hf. cbn [fuel2] in Hf. destruct f as [|f]; [lia|]. cbn [app].
        rewrite tde_step by (congruence || exact Hd). cbn [tde_kind].
        rewrite <- app_assoc, varint_roundtrip by (try lia; apply u32_fits; exact Hid). cbn [bind]. rewrite Ev.
        rewrite Htde by lia. reflexivity.
    + destruct x0; try discriminate. inversion Ht; subst x.
      exists (kb KEnum :: put_varint 4 id ++ [kb KNone]). split; [|split].
      * cbn [tser]. rewrite Hd, Ev. cbn [tser ser]. pose proof (too_deep_ser _ _ _ _ E) as Hd1.
        rewrite Hd1. unfold too_deep in Hd1. rewrite Hd1. destruct fb; reflexivity.
      * intros f r Hf. cbn [norm fuel_of] in *. rewrite Ev in *. cbn [fuel_of] in Hf.
        destruct f as [|f]; [lia|]. cbn [de app]. unfold de_body, de_kind. unfold too_deep in Hd. rewrite Hd.
        change (kind_of_byte (kb KEnum)) with (Some KEnum). cbn iota.
        rewrite <- app_assoc, varint_roundtrip by (try lia; apply u32_fits; exact Hid). cbn [bind].
        destruct f as [|f]; [lia|]. cbn [de app]. unfold de_body. pose proof (too_deep_ser _ _ _ _ E) as Hd1.
        unfold too_deep in Hd1. rewrite Hd1. reflexivity.
      * intros f r Hf. cbn [fuel2] in Hf. destruct f as [|f]; [lia|]. cbn [app].
        rewrite tde_step by (congruence || exact Hd). cbn [tde_kind].
        rewrite <- app_assoc, varint_roundtrip by (try lia; apply u32_fits; exact Hid). cbn [bind]. rewrite Ev.
        destruct f as [|f]; [lia|]. cbn [app]. pose proof (too_deep_ser _ _ _ _ E) as Hd1.
        rewrite tde_step by (congruence || exact Hd1). reflexivity.
    + destruct fb; [|discriminate]. unfold raw_of in Ht. rewrite E in Ht. inversion Ht; subst x.
      exists (kb KEnum :: put_varint 4 id ++ b0). split; [|split].
      * cbn [tser]. rewrite Hd. rewrite (too_deep_ser _ _ _ _ E). reflexivity.
      * intros f r Hf. cbn [norm fuel_of] in *. rewrite Ev in *. cbn [fuel_of] in Hf.
        destruct f as [|f]; [lia|]. cbn [de app]. unfold de_body, de_kind. unfold too_deep in Hd. rewrite Hd.
        change (kind_of_byte (kb KEnum)) with (Some KEnum). cbn iota.
        rewrite <- app_assoc, varint_roundtrip by (try lia; apply u32_fits; exact Hid). cbn [bind].
        rewrite (ser_de true e x0 (S d) b0 Hwf E f r ltac:(lia)). reflexivity.
      * intros f r Hf. cbn [fuel2] in Hf. destruct f as [|f]; [lia|]. cbn [app].
        rewrite tde_step by (congruence || exact Hd). cbn [tde_kind].
        rewrite <- app_assoc, varint_roundtrip by (try lia; apply u32_fits; exact Hid). cbn [bind]. rewrite Ev.
        rewrite (capture_ser e x0 (S d) b0 r Hwf E). reflexivity.
Qed.
