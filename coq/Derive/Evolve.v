(* Derive/Evolve.v — schema evolution as the last clause of C16 means it ("data of a newer schema
   version survives code generated from an older one"), on wire types.

   [evolves t_old t_new]: t_new is t_old with fields added to structs (optional or required, any
   position — vlib/c16gen.py [evolve] appends and shuffles) and variants added to enums, at every
   nesting level (inside fields, variant payloads, option/vec/array/map/result); a field or
   variant that exists in t_old exists in t_new with the same id, the same required flag resp.
   unit/payload shape and an evolved type; leaves, array lengths and key kinds are unchanged.
   The fallback flags of t_new are free.

   [all_fallback t_old]: every struct and enum of t_old has a fallback — the condition under
   which harness/src/bin/derive.rs labels a pair case KEEPS ([all_fallback] there).

   [evolves_keeping t_old t_new]: [evolves] plus exactly what the cycle through t_old needs at
   each struct/enum: a fallback in t_old, UNLESS t_new neither added anything there nor has a
   fallback itself (then t_old drops only what t_new would have dropped as well).  It follows
   from [evolves] + [all_fallback] (EvolveProofs.v: evolves_all_fallback) and is reflexive. *)
From Aldrin Require Export Derive.Ty.
Open Scope N_scope.

Definition lty_eqb (a b : lty) : bool :=
  match a, b with
  | LUnit, LUnit | LBool, LBool | LString, LString | LBytes, LBytes => true
  | LInt i, LInt j => intk_eqb i j
  | LFixed f, LFixed g => fixk_eqb f g
  | LSet k, LSet k' => keyk_eqb k k'
  | _, _ => false
  end.

Definition known_field (fs : list (N * (bool * ty))) (id : N) : bool :=
  match find_field fs id with Some _ => true | None => false end.
Definition known_variant (vs : list (N * option ty)) (id : N) : bool :=
  match find_variant vs id with Some _ => true | None => false end.

(* [keep = false]: the shape relation alone; [keep = true]: with the fallback side condition *)
Fixpoint evo (keep : bool) (t1 t2 : ty) {struct t1} : bool :=
  match t1, t2 with
  | TLeaf a, TLeaf b => lty_eqb a b
  | TValue, TValue => true
  | TOption a, TOption b => evo keep a b
  | TVec a, TVec b => evo keep a b
  | TArray n a, TArray m b => (n =? m) && evo keep a b
  | TMap ka a, TMap kb b => keyk_eqb ka kb && evo keep a b
  | TResult a a', TResult b b' => evo keep a b && evo keep a' b'
  | TStruct fs1 fb1, TStruct fs2 fb2 =>
      forallb (fun f1 : N * (bool * ty) =>
                 match find_field fs2 (fst f1) with
                 | Some (req2, ft2) => Bool.eqb (fst (snd f1)) req2 && evo keep (snd (snd f1)) ft2
                 | None => false
                 end) fs1 &&
      (negb keep || fb1 || (negb fb2 && forallb (fun f2 => known_field fs1 (fst f2)) fs2))
  | TEnum vs1 fb1, TEnum vs2 fb2 =>
      forallb (fun v1 : N * option ty =>
                 match find_variant vs2 (fst v1) with
                 | Some p2 =>
                     match snd v1, p2 with
                     | None, None => true
                     | Some a, Some b => evo keep a b
                     | _, _ => false
                     end
                 | None => false
                 end) vs1 &&
      (negb keep || fb1 || (negb fb2 && forallb (fun v2 => known_variant vs1 (fst v2)) vs2))
  | _, _ => false
  end.

Definition evolves : ty -> ty -> bool := evo false.
Definition evolves_keeping : ty -> ty -> bool := evo true.

(* derive.rs [all_fallback] *)
Fixpoint all_fallback (t : ty) : bool :=
  match t with
  | TLeaf _ | TValue => true
  | TOption a | TVec a | TArray _ a | TMap _ a => all_fallback a
  | TResult a b => all_fallback a && all_fallback b
  | TStruct fs fb => fb && forallb (fun f : N * (bool * ty) => all_fallback (snd (snd f))) fs
  | TEnum vs fb => fb && forallb (fun v : N * option ty =>
                                    match snd v with Some a => all_fallback a | None => true end) vs
  end.

(* the same relation as a proposition (EvolveProofs.v: evolves_iff) *)
Inductive Evolves : ty -> ty -> Prop :=
| EvLeaf l : Evolves (TLeaf l) (TLeaf l)
| EvValue : Evolves TValue TValue
| EvOption a b : Evolves a b -> Evolves (TOption a) (TOption b)
| EvVec a b : Evolves a b -> Evolves (TVec a) (TVec b)
| EvArray n a b : Evolves a b -> Evolves (TArray n a) (TArray n b)
| EvMap k a b : Evolves a b -> Evolves (TMap k a) (TMap k b)
| EvResult a a' b b' : Evolves a b -> Evolves a' b' -> Evolves (TResult a a') (TResult b b')
| EvStruct fs1 fb1 fs2 fb2 :
    (* every old field is still there: same id, same required flag, evolved type *)
    Forall (fun f1 : N * (bool * ty) =>
              exists ft2, find_field fs2 (fst f1) = Some (fst (snd f1), ft2) /\ Evolves (snd (snd f1)) ft2) fs1 ->
    Evolves (TStruct fs1 fb1) (TStruct fs2 fb2)
| EvEnum vs1 fb1 vs2 fb2 :
    (* every old variant is still there: same id, unit stays unit, a payload type evolves *)
    Forall (fun v1 : N * option ty =>
              (snd v1 = None /\ find_variant vs2 (fst v1) = Some None) \/
              (exists a b, snd v1 = Some a /\ find_variant vs2 (fst v1) = Some (Some b) /\ Evolves a b)) vs1 ->
    Evolves (TEnum vs1 fb1) (TEnum vs2 fb2).

(* nested induction over wire types *)
Definition on_payload (P : ty -> Prop) (o : option ty) : Prop := match o with Some a => P a | None => True end.

Section TyInd.
  Variable P : ty -> Prop.
  Hypothesis HLeaf : forall l, P (TLeaf l).
  Hypothesis HValue : P TValue.
  Hypothesis HOption : forall a, P a -> P (TOption a).
  Hypothesis HVec : forall a, P a -> P (TVec a).
  Hypothesis HArray : forall n a, P a -> P (TArray n a).
  Hypothesis HMap : forall k a, P a -> P (TMap k a).
  Hypothesis HResult : forall a b, P a -> P b -> P (TResult a b).
  Hypothesis HStruct : forall fs fb, Forall (fun f : N * (bool * ty) => P (snd (snd f))) fs -> P (TStruct fs fb).
  Hypothesis HEnum : forall vs fb, Forall (fun v : N * option ty => on_payload P (snd v)) vs -> P (TEnum vs fb).

  Fixpoint ty_ind' (t : ty) : P t :=
    match t with
    | TLeaf l => HLeaf l
    | TValue => HValue
    | TOption a => HOption a (ty_ind' a)
    | TVec a => HVec a (ty_ind' a)
    | TArray n a => HArray n a (ty_ind' a)
    | TMap k a => HMap k a (ty_ind' a)
    | TResult a b => HResult a b (ty_ind' a) (ty_ind' b)
    | TStruct fs fb =>
        HStruct fs fb
          ((fix go (l : list (N * (bool * ty))) : Forall (fun f => P (snd (snd f))) l :=
              match l with
              | [] => Forall_nil _
              | f :: r => Forall_cons _ (ty_ind' (snd (snd f))) (go r)
              end) fs)
    | TEnum vs fb =>
        HEnum vs fb
          ((fix go (l : list (N * option ty)) : Forall (fun v => on_payload P (snd v)) l :=
              match l with
              | [] => Forall_nil _
              | (id, o) :: r =>
                  Forall_cons (id, o)
                    (match o as o' return on_payload P o' with
                     | Some a => ty_ind' a
                     | None => I
                     end : on_payload P (snd (id, o))) (go r)
              end) vs)
    end.
End TyInd.
