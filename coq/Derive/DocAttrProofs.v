(* Derive/DocAttrProofs.v — the unescaped emission is refuted by the one-character doc line `''`;
   the escaping emission lexes back to the doc text for every byte string. *)
From Aldrin Require Import Derive.DocAttr.
From Coq Require Import ZifyBool ZifyNat ZifyN.
Open Scope N_scope.
Arguments N.eqb : simpl never.

(* ---------- refutation on the unchanged tree ---------- *)
Lemma doc_attr_quote : rust_string_literal (emit_doc_attr [q]) = None.
Proof. vm_compute. reflexivity. Qed.

Lemma doc_attr_backslash : rust_string_literal (emit_doc_attr [bs; 100]) = None.
Proof. vm_compute. reflexivity. Qed.

(* worse than an error: a backslash followed by an escape letter changes the text silently *)
Lemma doc_attr_silent_change :
  rust_string_literal (emit_doc_attr [67; 58; bs; 110; 101; 119]) = Some [67; 58; lf; 101; 119].
Proof. vm_compute. reflexivity. Qed.

Lemma doc_attr_refuted : exists d, rust_string_literal (emit_doc_attr d) <> Some d.
Proof. exists [q]. rewrite doc_attr_quote. discriminate. Qed.

(* where it does hold today: no quote, backslash or CR in the line *)
Definition plain_char (c : N) : bool := negb (c =? q) && negb (c =? bs) && negb (c =? cr).

Lemma strip_prefix_app p s : strip_prefix p (p ++ s) = Some s.
Proof. induction p as [|x p IH]; cbn [strip_prefix app]; [reflexivity|]. rewrite N.eqb_refl. exact IH. Qed.

Lemma list_eqb_refl l : list_eqb l l = true.
Proof.
  unfold list_eqb. rewrite Nat.eqb_refl. cbn [andb].
  induction l as [|x l IH]; cbn [combine forallb fst snd]; [reflexivity|]. rewrite N.eqb_refl. exact IH.
Qed.

Lemma lit_body_plain d rest : forallb plain_char d = true -> lit_body (d ++ q :: rest) = Some (d, rest).
Proof.
  induction d as [|c d IH]; cbn [forallb app lit_body]; intros H.
  - rewrite N.eqb_refl. reflexivity.
  - apply andb_prop in H as [Hc Hd]. unfold plain_char in Hc.
    destruct (c =? q) eqn:E1; [discriminate|]. destruct (c =? bs) eqn:E2; [cbn in Hc; discriminate|].
    destruct (c =? cr) eqn:E3; [cbn in Hc; discriminate|]. rewrite (IH Hd). reflexivity.
Qed.

Theorem doc_attr_plain d : forallb plain_char d = true -> rust_string_literal (emit_doc_attr d) = Some d.
Proof.
  intros H. unfold rust_string_literal, emit_doc_attr. rewrite strip_prefix_app. rewrite N.eqb_refl.
  rewrite (lit_body_plain d attr_suffix H). unfold list_eqbN. rewrite list_eqb_refl. reflexivity.
Qed.

(* ---------- after the repair: every doc line ---------- *)
Lemma lit_body_esc_char c s :
  lit_body (esc_char c ++ s) = match lit_body s with Some (v, rest) => Some (c :: v, rest) | None => None end.
Proof.
  unfold esc_char.
  destruct (c =? q) eqn:E1; [apply N.eqb_eq in E1; subst c; reflexivity|].
  destruct (c =? bs) eqn:E2; [apply N.eqb_eq in E2; subst c; reflexivity|].
  destruct (c =? cr) eqn:E3; [apply N.eqb_eq in E3; subst c; reflexivity|].
  destruct (c =? lf) eqn:E4; [apply N.eqb_eq in E4; subst c; reflexivity|].
  destruct (c =? tab) eqn:E5; [apply N.eqb_eq in E5; subst c; reflexivity|].
  cbn [app lit_body]. rewrite E1, E3, E2. reflexivity.
Qed.

Lemma lit_body_esc d rest : lit_body (flat_map esc_char d ++ q :: rest) = Some (d, rest).
Proof.
  induction d as [|c d IH]; cbn [flat_map app].
  - cbn [lit_body]. rewrite N.eqb_refl. reflexivity.
  - rewrite <- app_assoc, lit_body_esc_char, IH. reflexivity.
Qed.

Theorem doc_attr_fixed d : rust_string_literal (emit_doc_attr_fixed d) = Some d.
Proof.
  unfold rust_string_literal, emit_doc_attr_fixed. rewrite strip_prefix_app. rewrite N.eqb_refl.
  rewrite (lit_body_esc d attr_suffix). unfold list_eqbN. rewrite list_eqb_refl. reflexivity.
Qed.
