(* Derive/Ty.v — schema types as the wire sees them, and the values of generated Rust types.

   A schema type (parser/src/ast/type_name.rs) is reduced to its wire shape the way the code
   generator (codegen/src/rust.rs [type_name]) and the `PrimaryTag` impls decide it:
     bool, u8..i64, f32, f64, string, uuid, object_id, service_id, bytes, unit, set<K>   leaves
     vec<u8>             -> Bytes (rust.rs maps it to core::Bytes)
     lifetime            -> ObjectId (aldrin/src/lifetime.rs: Tag = tags::ObjectId)
     sender<T>/receiver<T> -> the 16-byte cookie (UnboundSender/UnboundReceiver)
     box<T>, newtype N = T -> T (impl Deserialize<T> for Box<U>; derive(..)+#[aldrin(newtype)]
                              forwards to the single field with the same Deserializer)
     value               -> SerializedValue (captured raw)
   Named struct/enum references are inlined (recursive schemas are unfolded by the driver as far
   as the nesting limit allows a value to reach). *)
From Aldrin Require Export Codec.Base Codec.Value Codec.Ser Codec.De Codec.Skip.
Open Scope N_scope.

(* leaves: decoded by exactly the code `impl Deserialize for Value` uses for that kind *)
Inductive lty := LUnit | LBool | LInt (i : intk) | LFixed (f : fixk) | LString | LBytes | LSet (k : keyk).

Inductive ty :=
| TLeaf (l : lty)
| TValue
| TOption (t : ty)
| TVec (t : ty)
| TArray (n : N) (t : ty)
| TMap (k : keyk) (t : ty)
| TResult (a b : ty)
| TStruct (fs : list (N * (bool * ty))) (fb : bool)   (* (id, (required, type)), fallback field? *)
| TEnum (vs : list (N * option ty)) (fb : bool).      (* (id, payload type or unit), fallback variant? *)

(* what a generated type holds after decoding.  [XRaw] is a SerializedValue: the exact bytes. *)
Inductive tval :=
| XLeaf (v : Value)
| XRaw (bs : list N)
| XOpt (o : option tval)
| XVec (l : list tval)
| XMap (l : list (keyv * tval))
| XStruct (slots : list (option tval)) (unk : list (N * list N))
    (* one slot per declared field in declaration order (None: Option::None of an optional
       field); [unk]: the UnknownFields fallback, (id, raw bytes) in insertion order *)
| XEnum (id : N) (x : tval)
| XUnknown (id : N) (raw : list N).  (* UnknownVariant fallback *)

Definition find_field (fs : list (N * (bool * ty))) (id : N) : option (bool * ty) :=
  match find (fun p => fst p =? id) fs with Some p => Some (snd p) | None => None end.
Definition find_variant (vs : list (N * option ty)) (id : N) : option (option ty) :=
  match find (fun p => fst p =? id) vs with Some p => Some (snd p) | None => None end.

(* the kinds a leaf type's deserializer accepts (deserialize_u8 .. ensure_discriminant_u8;
   BytesDeserializer::new / SetDeserializer::new accept both encodings) *)
Definition leaf_accepts (l : lty) (kd : kind) : bool :=
  match l, kd with
  | LUnit, KNone | LBool, KBool | LString, KString | LBytes, KBytes _ => true
  | LInt i, KInt_ j => intk_eqb i j
  | LFixed f, KFixed g => fixk_eqb f g
  | LSet k, KSet _ k' => keyk_eqb k k'
  | _, _ => false
  end.

(* schema validity as far as the wire contract needs it: ids are u32 and unique per struct/enum
   (parser errors DuplicateStructFieldId / DuplicateEnumVariantId / Invalid*Id otherwise) *)
Fixpoint wf_ty (t : ty) : bool :=
  match t with
  | TLeaf _ | TValue => true
  | TOption a | TVec a | TMap _ a => wf_ty a
  | TArray n a => (0 <? n) && (n <=? u32_max) && wf_ty a
  | TResult a b => wf_ty a && wf_ty b
  | TStruct fs _ => ids_nodup (map fst fs) && forallb (fun p => (fst p <=? u32_max) && wf_ty (snd (snd p))) fs
  | TEnum vs _ => ids_nodup (map fst vs) &&
                  forallb (fun p => (fst p <=? u32_max) && match snd p with Some a => wf_ty a | None => true end) vs
  end.
