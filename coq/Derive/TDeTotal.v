(* Derive/TDeTotal.v — the generated decoder as a function of the bytes alone: monotone in the
   fuel (tde_mono), consumes input (tde_consumes), never out of fuel with fuel = length + 1
   (tde_enough, tde_total), hence stable at the canonical fuel (tde_value_stable). *)
From Aldrin Require Import Codec.Base Codec.BaseProofs Codec.Value Codec.Ser Codec.De Codec.Skip
  Codec.RoundTrip Codec.DeProofs Codec.SkipProofs gen.Consts.
From Aldrin Require Import Derive.Ty Derive.TDe.
From Coq Require Import ZifyBool ZifyNat ZifyN.
Open Scope N_scope.
Arguments N.add : simpl never.
Arguments N.sub : simpl never.
Arguments N.mul : simpl never.
Arguments N.ltb : simpl never.
Arguments N.leb : simpl never.
Arguments N.eqb : simpl never.
Infix "⊑" := le_res (at level 70).

(* ---------- skip / capture: own fuel, always sufficient ---------- *)
Lemma skip_enough f d b : (length b < f)%nat -> skip f d b <> Err Fuel.
Proof.
  intros H E. pose proof (skip_sim f d b) as S. rewrite E in S.
  destruct (de false f d b) as [[v r]|e'] eqn:D; cbn [sim] in S; [contradiction|].
  apply (de_enough false f d b H). rewrite D. f_equal. apply S. reflexivity.
Qed.

Lemma skip_shrinks f d b r : skip f d b = Ok r -> (length r < length b)%nat.
Proof.
  intros E. pose proof (skip_sim f d b) as S. rewrite E in S.
  destruct (de false f d b) as [[v r']|e'] eqn:D; cbn [sim] in S; [|contradiction]. subst r'.
  eapply de_consumes; eauto.
Qed.

Lemma capture_nofuel d b : capture d b <> Err Fuel.
Proof.
  unfold capture. apply bind_nofuel; [apply skip_enough; lia|]. intros r _. discriminate.
Qed.

Lemma capture_shrinks d b x r : capture d b = Ok (x, r) -> (length r < length b)%nat.
Proof.
  unfold capture. destruct (skip _ d b) as [r0|] eqn:E; cbn [bind]; [|discriminate].
  intros H. inversion H; subst. eapply skip_shrinks; eauto.
Qed.

Lemma skip_at_nofuel d b : skip_at d b <> Err Fuel.
Proof. unfold skip_at. apply skip_enough. lia. Qed.

Lemma skip_at_shrinks d b r : skip_at d b = Ok r -> (length r < length b)%nat.
Proof. unfold skip_at. apply skip_shrinks. Qed.

(* ---------- the leaf decoders through de_body ---------- *)
Lemma de_kind_as_body u rec n d kd r : (MAX_VALUE_DEPTH <? S d)%nat = false ->
  de_kind u rec n (S d) kd r = de_body u rec n d (kb kd :: r).
Proof. intros H. unfold de_body. rewrite H. unfold kb. rewrite kind_of_byte_kb. reflexivity. Qed.

Lemma no_rec_shrinks d : shrinks (no_rec d).
Proof. intros b x r H. discriminate. Qed.

(* ---------- monotonicity in the fuel ---------- *)
Definition le_tw (w w' : ty -> twalker) := forall t d b, w t d b ⊑ w' t d b.

Lemma arr1_mono (elem elem' : list N -> result (tval * list N)) :
  le_w elem elem' -> forall k cnt b, arr1 elem k cnt b ⊑ arr1 elem' k cnt b.
Proof.
  intros He. induction k as [|k IH]; intros cnt b; cbn [arr1]; [apply DeProofs.le_refl|].
  destruct (cnt =? 0); [apply DeProofs.le_refl|]. apply le_bind; [apply He|]. intros [x r].
  apply le_bind; [apply IH|]. intros [xs r']. apply DeProofs.le_refl.
Qed.

Lemma arr2_mono (elem elem' : list N -> result (tval * list N)) :
  le_w elem elem' -> forall k b, arr2 elem k b ⊑ arr2 elem' k b.
Proof.
  intros He. induction k as [|k IH]; intros b; cbn [arr2]; destruct b as [|kb0 r]; try apply DeProofs.le_refl.
  destruct (kind_of_byte kb0) as [[]|]; try apply DeProofs.le_refl.
  apply le_bind; [apply He|]. intros [x r1]. apply le_bind; [apply IH|]. intros [xs r2]. apply DeProofs.le_refl.
Qed.

Lemma tmap_elem_mono k (rec rec' : list N -> result (tval * list N)) :
  le_w rec rec' -> le_w (tmap_elem k rec) (tmap_elem k rec').
Proof.
  intros H b. unfold tmap_elem. apply le_bind; [apply DeProofs.le_refl|]. intros [key r].
  apply le_bind; [apply H|]. intros [v r']. apply DeProofs.le_refl.
Qed.

Lemma sfield_mono (rec rec' : ty -> twalker) fs fb d' : le_tw rec rec' -> le_w (sfield rec fs fb d') (sfield rec' fs fb d').
Proof.
  intros H b. unfold sfield. apply le_bind; [apply DeProofs.le_refl|]. intros [id r].
  destruct (find_field fs id) as [[[|] ft]|].
  - apply le_bind; [apply H|]. intros [x r']. apply DeProofs.le_refl.
  - apply le_bind; [apply H|]. intros [x r']. apply DeProofs.le_refl.
  - apply DeProofs.le_refl.
Qed.

Lemma tde_body_mono (rec rec' : ty -> twalker) n n' : le_tw rec rec' -> (n <= n')%nat ->
  forall t d b, tde_body rec n t d b ⊑ tde_body rec' n' t d b.
Proof.
  intros Hr Hn t d b. unfold tde_body.
  destruct t as [l| |a|a|len a|k a|ta tb|fs fb|vs fb]; try apply DeProofs.le_refl;
    (destruct (_ <? _)%nat eqn:Hd; [apply DeProofs.le_refl|]; destruct b as [|kb0 r]; [apply DeProofs.le_refl|];
     destruct (kind_of_byte kb0) as [kd|] eqn:Ek; [|apply DeProofs.le_refl]); cbn [tde_kind].
  - destruct (leaf_accepts l kd); [|apply DeProofs.le_refl].
    apply le_bind; [|intros [v r']; apply DeProofs.le_refl].
    rewrite !(de_kind_as_body _ _ _ _ _ _ Hd). apply de_body_mono; [intros ? ?; apply DeProofs.le_refl|exact Hn].
  - destruct kd; try apply DeProofs.le_refl. apply le_bind; [apply Hr|]. intros [x r']. apply DeProofs.le_refl.
  - destruct kd as [| | | | | |e|e|e k|e k|e|]; try apply DeProofs.le_refl. destruct e.
    + apply le_bind; [apply DeProofs.le_refl|]. intros [cnt r1].
      apply le_bind; [apply loop1_mono; auto; intros ?; apply Hr|]. intros [xs r2]. apply DeProofs.le_refl.
    + apply le_bind; [apply loop2_mono; auto; intros ?; apply Hr|]. intros [xs r2]. apply DeProofs.le_refl.
  - destruct kd as [| | | | | |e|e|e k|e k|e|]; try apply DeProofs.le_refl. destruct e.
    + apply le_bind; [apply DeProofs.le_refl|]. intros [cnt r1].
      apply le_bind; [apply arr1_mono; intros ?; apply Hr|]. intros [xs r2]. apply DeProofs.le_refl.
    + apply le_bind; [apply arr2_mono; intros ?; apply Hr|]. intros [xs r2]. apply DeProofs.le_refl.
  - destruct kd as [| | | | | |e|e|e k'|e k'|e|]; try apply DeProofs.le_refl. destruct e; destruct (keyk_eqb k k'); try apply DeProofs.le_refl.
    + apply le_bind; [apply DeProofs.le_refl|]. intros [cnt r1].
      apply le_bind; [apply loop1_mono; auto; apply tmap_elem_mono; intros ?; apply Hr|]. intros [xs r2]. apply DeProofs.le_refl.
    + apply le_bind; [apply loop2_mono; auto; apply tmap_elem_mono; intros ?; apply Hr|]. intros [xs r2]. apply DeProofs.le_refl.
  - destruct kd; try apply DeProofs.le_refl. apply le_bind; [apply DeProofs.le_refl|]. intros [id r1].
    destruct (id =? 0); [|destruct (id =? 1); [|apply DeProofs.le_refl]];
      (apply le_bind; [apply Hr|]; intros [x r2]; apply DeProofs.le_refl).
  - destruct kd as [| | | | | |e|e|e k|e k|e|]; try apply DeProofs.le_refl. destruct e.
    + apply le_bind; [apply DeProofs.le_refl|]. intros [cnt r1].
      apply le_bind; [apply loop1_mono; auto; apply sfield_mono; exact Hr|]. intros [evs r2]. apply DeProofs.le_refl.
    + apply le_bind; [apply loop2_mono; auto; apply sfield_mono; exact Hr|]. intros [evs r2]. apply DeProofs.le_refl.
  - destruct kd; try apply DeProofs.le_refl. apply le_bind; [apply DeProofs.le_refl|]. intros [id r1].
    destruct (find_variant vs id) as [[vt|]|]; try apply DeProofs.le_refl;
      (apply le_bind; [apply Hr|]; intros [x r2]; apply DeProofs.le_refl).
Qed.

Theorem tde_mono : forall f f', (f <= f')%nat -> forall t d b, tde f t d b ⊑ tde f' t d b.
Proof.
  induction f as [|f IH]; intros f' Hf t d b; [apply DeProofs.le_fuel|].
  destruct f' as [|f']; [lia|]. cbn [tde]. apply tde_body_mono; [|lia].
  intros t' d' b'. apply IH. lia.
Qed.

(* ---------- consumption ---------- *)
Lemma arr1_len (elem : list N -> result (tval * list N)) : shrinks elem ->
  forall k cnt b xs r, arr1 elem k cnt b = Ok (xs, r) -> (length r <= length b)%nat.
Proof.
  intros He. induction k as [|k IH]; intros cnt b xs r; cbn [arr1]; destruct (cnt =? 0);
    try (intros H; inversion H; subst; lia); try discriminate.
  destruct (elem b) as [[x r1]|] eqn:E; cbn [bind]; [|discriminate].
  destruct (arr1 elem k (cnt - 1) r1) as [[ys r2]|] eqn:E2; cbn [bind]; [|discriminate].
  intros H; inversion H; subst. apply He in E. apply IH in E2. lia.
Qed.

Lemma arr2_len (elem : list N -> result (tval * list N)) : shrinks elem ->
  forall k b xs r, arr2 elem k b = Ok (xs, r) -> (length r < length b)%nat.
Proof.
  intros He. induction k as [|k IH]; intros b xs r; cbn [arr2]; destruct b as [|kb0 b]; try discriminate;
    destruct (kind_of_byte kb0) as [[]|]; try discriminate.
  - intros H; inversion H; subst. cbn [length]. lia.
  - destruct (elem b) as [[x r1]|] eqn:E; cbn [bind]; [|discriminate].
    destruct (arr2 elem k r1) as [[ys r2]|] eqn:E2; cbn [bind]; [|discriminate].
    intros H; inversion H; subst. apply He in E. apply IH in E2. cbn [length]. lia.
Qed.

Lemma tmap_elem_shrinks k rec : shrinks rec -> shrinks (tmap_elem k rec).
Proof.
  intros Hr b [key v] r. unfold tmap_elem.
  destruct (get_key true k b) as [[key' r1]|] eqn:E; cbn [bind]; [|discriminate].
  destruct (rec r1) as [[v' r2]|] eqn:E2; cbn [bind]; [|discriminate].
  intros H; inversion H; subst. apply get_key_consumes in E. apply Hr in E2. lia.
Qed.

Definition tshrinks (rec : ty -> twalker) := forall t d, shrinks (rec t d).

Lemma sfield_shrinks rec fs fb d' : tshrinks rec -> shrinks (sfield rec fs fb d').
Proof.
  intros Hr b ev r. unfold sfield.
  destruct (get_varint 4 b) as [[id r1]|] eqn:E; cbn [bind]; [|discriminate]. apply get_varint_consumes in E.
  destruct (find_field fs id) as [[[|] ft]|].
  - destruct (rec ft d' r1) as [[x r2]|] eqn:E2; cbn [bind]; [|discriminate].
    intros H; inversion H; subst. apply Hr in E2. lia.
  - destruct (rec (TOption ft) d' r1) as [[x r2]|] eqn:E2; cbn [bind]; [|discriminate].
    apply Hr in E2. destruct x; try discriminate. intros H; inversion H; subst. lia.
  - destruct fb.
    + destruct (capture d' r1) as [[raw r2]|] eqn:E2; cbn [bind]; [|discriminate].
      intros H; inversion H; subst. apply capture_shrinks in E2. lia.
    + destruct (skip_at d' r1) as [r2|] eqn:E2; cbn [bind]; [|discriminate].
      intros H; inversion H; subst. apply skip_at_shrinks in E2. lia.
Qed.

Lemma tde_body_shrinks (rec : ty -> twalker) n : tshrinks rec -> tshrinks (tde_body rec n).
Proof.
  intros Hr t d b x r. unfold tde_body.
  destruct t as [l| |a|a|len a|k a|ta tb|fs fb|vs fb];
    try (destruct (_ <? _)%nat eqn:Hd; [discriminate|]; destruct b as [|kb0 b]; [discriminate|];
         destruct (kind_of_byte kb0) as [kd|] eqn:Ek; [|discriminate]; cbn [length tde_kind]).
  - destruct (leaf_accepts l kd); [|discriminate].
    destruct (de_kind true no_rec n (S d) kd b) as [[v r']|] eqn:E; cbn [bind]; [|discriminate].
    intros H; inversion H; subst. rewrite (de_kind_as_body _ _ _ _ _ _ Hd) in E.
    apply (de_body_shrinks true no_rec n no_rec_shrinks d) in E. cbn [length] in E. lia.
  - destruct (capture d b) as [[raw r']|] eqn:E; cbn [bind]; [|discriminate].
    intros H; inversion H; subst. eapply capture_shrinks; eauto.
  - destruct kd; try discriminate.
    + intros H; inversion H; subst. lia.
    + destruct (rec a (S d) b) as [[y r']|] eqn:E; cbn [bind]; [|discriminate].
      intros H; inversion H; subst. apply Hr in E. lia.
  - destruct kd as [| | | | | |e|e|e k|e k|e|]; try discriminate. destruct e.
    + destruct (get_varint 4 b) as [[cnt r1]|] eqn:E; cbn [bind]; [|discriminate]. apply get_varint_consumes in E.
      destruct (loop1 _ n cnt r1) as [[xs r2]|] eqn:E2; cbn [bind]; [|discriminate].
      intros H; inversion H; subst. apply loop1_len in E2; [lia|apply Hr].
    + destruct (loop2 _ n b) as [[xs r2]|] eqn:E2; cbn [bind]; [|discriminate].
      intros H; inversion H; subst. apply loop2_len in E2; [lia|apply Hr].
  - destruct kd as [| | | | | |e|e|e k|e k|e|]; try discriminate. destruct e.
    + destruct (get_varint 4 b) as [[cnt r1]|] eqn:E; cbn [bind]; [|discriminate]. apply get_varint_consumes in E.
      destruct (arr1 _ _ cnt r1) as [[xs r2]|] eqn:E2; cbn [bind]; [|discriminate].
      intros H; inversion H; subst. apply arr1_len in E2; [lia|apply Hr].
    + destruct (arr2 _ _ b) as [[xs r2]|] eqn:E2; cbn [bind]; [|discriminate].
      intros H; inversion H; subst. apply arr2_len in E2; [lia|apply Hr].
  - destruct kd as [| | | | | |e|e|e k'|e k'|e|]; try discriminate. destruct e; destruct (keyk_eqb k k'); try discriminate.
    + destruct (get_varint 4 b) as [[cnt r1]|] eqn:E; cbn [bind]; [|discriminate]. apply get_varint_consumes in E.
      destruct (loop1 _ n cnt r1) as [[xs r2]|] eqn:E2; cbn [bind]; [|discriminate].
      intros H; inversion H; subst. apply loop1_len in E2; [lia|apply tmap_elem_shrinks, Hr].
    + destruct (loop2 _ n b) as [[xs r2]|] eqn:E2; cbn [bind]; [|discriminate].
      intros H; inversion H; subst. apply loop2_len in E2; [lia|apply tmap_elem_shrinks, Hr].
  - destruct kd; try discriminate.
    destruct (get_varint 4 b) as [[id r1]|] eqn:E; cbn [bind]; [|discriminate]. apply get_varint_consumes in E.
    destruct (id =? 0); [|destruct (id =? 1); [|discriminate]].
    + destruct (rec ta (S d) r1) as [[y r2]|] eqn:E2; cbn [bind]; [|discriminate].
      intros H; inversion H; subst. apply Hr in E2. lia.
    + destruct (rec tb (S d) r1) as [[y r2]|] eqn:E2; cbn [bind]; [|discriminate].
      intros H; inversion H; subst. apply Hr in E2. lia.
  - destruct kd as [| | | | | |e|e|e k|e k|e|]; try discriminate. destruct e.
    + destruct (get_varint 4 b) as [[cnt r1]|] eqn:E; cbn [bind]; [|discriminate]. apply get_varint_consumes in E.
      destruct (loop1 _ n cnt r1) as [[evs r2]|] eqn:E2; cbn [bind]; [|discriminate].
      destruct (build_slots fs evs); cbn [bind]; [|discriminate].
      intros H; inversion H; subst. apply loop1_len in E2; [lia|apply sfield_shrinks, Hr].
    + destruct (loop2 _ n b) as [[evs r2]|] eqn:E2; cbn [bind]; [|discriminate].
      destruct (build_slots fs evs); cbn [bind]; [|discriminate].
      intros H; inversion H; subst. apply loop2_len in E2; [lia|apply sfield_shrinks, Hr].
  - destruct kd; try discriminate.
    destruct (get_varint 4 b) as [[id r1]|] eqn:E; cbn [bind]; [|discriminate]. apply get_varint_consumes in E.
    destruct (find_variant vs id) as [[vt|]|].
    + destruct (rec vt (S d) r1) as [[y r2]|] eqn:E2; cbn [bind]; [|discriminate].
      intros H; inversion H; subst. apply Hr in E2. lia.
    + destruct (rec (TLeaf LUnit) (S d) r1) as [[y r2]|] eqn:E2; cbn [bind]; [|discriminate].
      intros H; inversion H; subst. apply Hr in E2. lia.
    + destruct fb; [|discriminate]. destruct (capture (S d) r1) as [[raw r2]|] eqn:E2; cbn [bind]; [|discriminate].
      intros H; inversion H; subst. apply capture_shrinks in E2. lia.
Qed.

Theorem tde_consumes : forall f, tshrinks (tde f).
Proof.
  induction f as [|f IH]; [intros t d b x r; discriminate|]. cbn [tde]. apply tde_body_shrinks. exact IH.
Qed.

(* ---------- enough fuel ---------- *)
Definition tnofuel (m : nat) (rec : ty -> twalker) := forall t d, nofuel_upto m (rec t d).

Lemma arr1_nofuel (elem : list N -> result (tval * list N)) m : shrinks elem -> nofuel_upto m elem ->
  forall k cnt b, (length b < m)%nat -> arr1 elem k cnt b <> Err Fuel.
Proof.
  intros Hs He. induction k as [|k IH]; intros cnt b Hm; cbn [arr1]; destruct (cnt =? 0); try discriminate.
  apply bind_nofuel; [apply He; lia|]. intros [x r] E. apply Hs in E.
  apply bind_nofuel; [apply IH; lia|]. intros [xs r'] _. discriminate.
Qed.

Lemma arr2_nofuel (elem : list N -> result (tval * list N)) m : shrinks elem -> nofuel_upto m elem ->
  forall k b, (length b <= m)%nat -> arr2 elem k b <> Err Fuel.
Proof.
  intros Hs He. induction k as [|k IH]; intros b Hm; cbn [arr2]; destruct b as [|kb0 b]; try discriminate;
    destruct (kind_of_byte kb0) as [[]|]; try discriminate. cbn [length] in Hm.
  apply bind_nofuel; [apply He; lia|]. intros [x r] E. apply Hs in E.
  apply bind_nofuel; [apply IH; lia|]. intros [xs r'] _. discriminate.
Qed.

Lemma tmap_elem_nofuel k rec m : nofuel_upto m rec -> nofuel_upto m (tmap_elem k rec).
Proof.
  intros Hr b Hb. unfold tmap_elem. apply bind_nofuel; [apply get_key_nofuel|]. intros [key r] E.
  apply get_key_consumes in E. apply bind_nofuel; [apply Hr; lia|]. intros [v r'] _. discriminate.
Qed.

Lemma sfield_nofuel rec fs fb d' m : tnofuel m rec -> nofuel_upto m (sfield rec fs fb d').
Proof.
  intros Hr b Hb. unfold sfield. apply bind_nofuel; [apply get_varint_nofuel|]. intros [id r] E.
  apply get_varint_consumes in E. destruct (find_field fs id) as [[[|] ft]|].
  - apply bind_nofuel; [apply Hr; lia|]. intros [x r'] _. discriminate.
  - apply bind_nofuel; [apply Hr; lia|]. intros [x r'] _. destruct x; discriminate.
  - destruct fb.
    + apply bind_nofuel; [apply capture_nofuel|]. intros [raw r'] _. discriminate.
    + apply bind_nofuel; [apply skip_at_nofuel|]. intros r' _. discriminate.
Qed.

Lemma no_rec_nofuel n d : nofuel_upto n (no_rec d).
Proof. intros b _. discriminate. Qed.

Lemma build_nofuel fs evs (r : list N) :
  (slots <- build_slots fs evs ;; Ok (XStruct slots (unknowns evs), r)) <> Err Fuel.
Proof.
  assert (build_slots fs evs <> Err Fuel) as H.
  { induction fs as [|[id [req ft]] fs IH]; cbn [build_slots]; [discriminate|].
    destruct (match last_known evs id with Some o => o | None => None end), req; try discriminate;
      (apply bind_nofuel; [exact IH|]; intros; discriminate). }
  destruct (build_slots fs evs) as [s|e]; cbn [bind]; [discriminate|congruence].
Qed.

Lemma tde_body_nofuel (rec : ty -> twalker) n : tshrinks rec -> tnofuel n rec ->
  forall t d b, (length b <= n)%nat -> tde_body rec n t d b <> Err Fuel.
Proof.
  intros Hs Hr t d b Hb. unfold tde_body.
  destruct t as [l| |a|a|len a|k a|ta tb|fs fb|vs fb];
    try (destruct (_ <? _)%nat eqn:Hd; [discriminate|]; destruct b as [|kb0 b]; [discriminate|];
         destruct (kind_of_byte kb0) as [kd|] eqn:Ek; [|discriminate]; cbn [length tde_kind] in * ).
  - destruct (leaf_accepts l kd); [|discriminate].
    apply bind_nofuel; [|intros [v r'] _; discriminate].
    rewrite (de_kind_as_body _ _ _ _ _ _ Hd). apply de_body_nofuel; [apply no_rec_shrinks|apply no_rec_nofuel|].
    cbn [length]. lia.
  - apply bind_nofuel; [apply capture_nofuel|]. intros [raw r] _. discriminate.
  - destruct kd; try discriminate. apply bind_nofuel; [apply Hr; lia|]. intros [x r'] _. discriminate.
  - destruct kd as [| | | | | |e|e|e k|e k|e|]; try discriminate. destruct e.
    + apply bind_nofuel; [apply get_varint_nofuel|]. intros [cnt r1] E. apply get_varint_consumes in E.
      apply bind_nofuel; [eapply loop1_nofuel; [apply Hs|apply Hr|lia|lia]|]. intros [xs r2] _. discriminate.
    + apply bind_nofuel; [eapply loop2_nofuel; [apply Hs|apply Hr|lia|lia]|]. intros [xs r2] _. discriminate.
  - destruct kd as [| | | | | |e|e|e k|e k|e|]; try discriminate. destruct e.
    + apply bind_nofuel; [apply get_varint_nofuel|]. intros [cnt r1] E. apply get_varint_consumes in E.
      apply bind_nofuel; [eapply arr1_nofuel; [apply Hs|apply Hr|lia]|]. intros [xs r2] _. discriminate.
    + apply bind_nofuel; [eapply (arr2_nofuel _ n); [apply Hs|apply Hr|lia]|]. intros [xs r2] _. discriminate.
  - destruct kd as [| | | | | |e|e|e k'|e k'|e|]; try discriminate. destruct e; destruct (keyk_eqb k k'); try discriminate.
    + apply bind_nofuel; [apply get_varint_nofuel|]. intros [cnt r1] E. apply get_varint_consumes in E.
      apply bind_nofuel; [eapply loop1_nofuel; [apply tmap_elem_shrinks, Hs|apply tmap_elem_nofuel, Hr|lia|lia]|].
      intros [xs r2] _. discriminate.
    + apply bind_nofuel; [eapply loop2_nofuel; [apply tmap_elem_shrinks, Hs|apply tmap_elem_nofuel, Hr|lia|lia]|].
      intros [xs r2] _. discriminate.
  - destruct kd; try discriminate. apply bind_nofuel; [apply get_varint_nofuel|]. intros [id r1] E.
    apply get_varint_consumes in E. destruct (id =? 0); [|destruct (id =? 1); [|discriminate]];
      (apply bind_nofuel; [apply Hr; lia|]; intros [x r2] _; discriminate).
  - destruct kd as [| | | | | |e|e|e k|e k|e|]; try discriminate. destruct e.
    + apply bind_nofuel; [apply get_varint_nofuel|]. intros [cnt r1] E. apply get_varint_consumes in E.
      apply bind_nofuel; [eapply loop1_nofuel; [apply sfield_shrinks, Hs|apply sfield_nofuel, Hr|lia|lia]|].
      intros [evs r2] _. apply build_nofuel.
    + apply bind_nofuel; [eapply loop2_nofuel; [apply sfield_shrinks, Hs|apply sfield_nofuel, Hr|lia|lia]|].
      intros [evs r2] _. apply build_nofuel.
  - destruct kd; try discriminate. apply bind_nofuel; [apply get_varint_nofuel|]. intros [id r1] E.
    apply get_varint_consumes in E. destruct (find_variant vs id) as [[vt|]|].
    + apply bind_nofuel; [apply Hr; lia|]. intros [x r2] _. discriminate.
    + apply bind_nofuel; [apply Hr; lia|]. intros [x r2] _. discriminate.
    + destruct fb; [|discriminate]. apply bind_nofuel; [apply capture_nofuel|]. intros [raw r2] _. discriminate.
Qed.

Theorem tde_enough : forall f t d b, (length b < f)%nat -> tde f t d b <> Err Fuel.
Proof.
  induction f as [|f IH]; intros t d b Hb; [lia|]. cbn [tde].
  apply tde_body_nofuel; [apply tde_consumes| |lia].
  intros t' d' b' Hb'. apply IH. exact Hb'.
Qed.

(* the result at the canonical fuel is the result at any fuel that does not run out *)
Corollary tde_value_stable t b f x : tde f t 0%nat b = x -> x <> Err Fuel -> tde_value t b = x.
Proof.
  intros H Hx. unfold tde_value.
  destruct (Nat.le_gt_cases f (S (length b))) as [Hle|Hgt].
  - apply le_use; [|congruence]. rewrite <- H. apply tde_mono. exact Hle.
  - pose proof (tde_mono (S (length b)) f ltac:(lia) t 0%nat b) as [E|E].
    + exfalso. eapply tde_enough; [|exact E]. lia.
    + congruence.
Qed.

Theorem tde_total t b : tde_top t b <> Err Fuel.
Proof.
  unfold tde_top, tde_value. apply bind_nofuel; [apply tde_enough; lia|]. intros [x r] _. destruct r; discriminate.
Qed.
