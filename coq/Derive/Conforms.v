(* Derive/Conforms.v — the specification side of C16, stated on dynamic Values only:
   [conforms t v]  : v is a value of schema type t (unknown struct field ids are tolerated,
                     unknown enum variants only when the enum has a fallback);
   [norm t v]      : the value a decode/encode cycle through the generated type yields: unknown
                     fields are dropped unless the struct has a fallback, an optional field holding
                     None is the same as an absent one, fields come out in the order
                     "unknown fields (as received), then declared fields (as declared)";
   [typed e d t v] : the generated type's value for v when v arrives in container encoding e at
                     depth d (the raw parts are the bytes of that encoding). *)
From Aldrin Require Export Derive.Ty Derive.TDe.
Open Scope N_scope.

Definition leaf_of (l : lty) (v : Value) : bool :=
  match l, v with
  | LUnit, VNone | LBool, VBool _ | LString, VString _ | LBytes, VBytes _ => true
  | LInt i, VInt j _ => intk_eqb i j
  | LFixed f, VFixed g _ => fixk_eqb f g
  | LSet k, VSet k' _ => keyk_eqb k k'
  | _, _ => false
  end.

Definition has_id (id : N) (l : list (N * Value)) : bool := existsb (fun p => fst p =? id) l.

Fixpoint conforms (t : ty) (v : Value) {struct v} : bool :=
  match t, v with
  | TLeaf l, _ => leaf_of l v
  | TValue, _ => true
  | TOption _, VNone => true
  | TOption a, VSome x => conforms a x
  | TVec a, VVec l => forallb (conforms a) l
  | TArray n a, VVec l => (lenN l =? n) && forallb (conforms a) l
  | TMap k a, VMap k' l => keyk_eqb k k' && forallb (fun p => conforms a (snd p)) l
  | TResult a b, VEnum id x => if id =? 0 then conforms a x else if id =? 1 then conforms b x else false
  | TStruct fs _, VStruct l =>
      forallb (fun p => match find_field fs (fst p) with
                        | Some (true, ft) => conforms ft (snd p)
                        | Some (false, ft) =>
                            match snd p with VNone => true | VSome y => conforms ft y | _ => false end
                        | None => true
                        end) l &&
      forallb (fun f => negb (fst (snd f)) || has_id (fst f) l) fs
  | TEnum vs fb, VEnum id x =>
      match find_variant vs id with
      | Some (Some vt) => conforms vt x
      | Some None => match x with VNone => true | _ => false end
      | None => fb
      end
  | _, _ => false
  end.

Fixpoint norm (t : ty) (v : Value) {struct v} : Value :=
  match t, v with
  | TOption a, VSome x => VSome (norm a x)
  | TVec a, VVec l | TArray _ a, VVec l => VVec (map (norm a) l)
  | TMap _ a, VMap k l => VMap k (map (fun p => (fst p, norm a (snd p))) l)
  | TResult a b, VEnum id x => VEnum id (if id =? 0 then norm a x else norm b x)
  | TStruct fs fb, VStruct l =>
      VStruct
        ((if fb then filter (fun p : N * Value => match find_field fs (fst p) with None => true | Some _ => false end) l
          else []) ++
         flat_map (fun f : N * (bool * ty) =>
           flat_map (fun p : N * Value =>
             if fst p =? fst f then
               if fst (snd f) then [(fst p, norm (snd (snd f)) (snd p))]
               else match snd p with
                    | VSome y => [(fst p, VSome (norm (snd (snd f)) y))]
                    | _ => []
                    end
             else []) l) fs)
  | TEnum vs _, VEnum id x =>
      match find_variant vs id with
      | Some (Some vt) => VEnum id (norm vt x)
      | _ => v
      end
  | _, _ => v
  end.

(* the typed value; None iff v does not conform (or a raw part cannot be serialized) *)
Definition opt_all {A} (l : list (option A)) : option (list A) :=
  fold_right (fun o acc => match o, acc with Some x, Some xs => Some (x :: xs) | _, _ => None end) (Some []) l.

Definition raw_of (e : epoch) (d : nat) (v : Value) : option (list N) :=
  match ser e d v with Ok bs => Some bs | Err _ => None end.

Fixpoint typed (e : epoch) (t : ty) (d : nat) (v : Value) {struct v} : option tval :=
  match t, v with
  | TLeaf l, _ => if leaf_of l v then Some (XLeaf v) else None
  | TValue, _ => match raw_of e d v with Some bs => Some (XRaw bs) | None => None end
  | TOption _, VNone => Some (XOpt None)
  | TOption a, VSome x => match typed e a (S d) x with Some y => Some (XOpt (Some y)) | None => None end
  | TVec a, VVec l =>
      match opt_all (map (typed e a (S d)) l) with Some ys => Some (XVec ys) | None => None end
  | TArray n a, VVec l =>
      if lenN l =? n then
        match opt_all (map (typed e a (S d)) l) with Some ys => Some (XVec ys) | None => None end
      else None
  | TMap k a, VMap k' l =>
      if keyk_eqb k k' then
        match opt_all (map (fun p => match typed e a (S d) (snd p) with
                                     | Some y => Some (fst p, y) | None => None end) l) with
        | Some ys => Some (XMap ys) | None => None end
      else None
  | TResult a b, VEnum id x =>
      if id =? 0 then match typed e a (S d) x with Some y => Some (XEnum 0 y) | None => None end
      else if id =? 1 then match typed e b (S d) x with Some y => Some (XEnum 1 y) | None => None end
      else None
  | TStruct fs fb, VStruct l =>
      (* the event each wire field produces (None: that field is rejected), then the same
         bookkeeping as the generated code: last assignment wins, required fields must be set *)
      let event (p : N * Value) : option fevent :=
        match find_field fs (fst p) with
        | Some (true, ft) =>
            match typed e ft (S d) (snd p) with Some y => Some (FKnown (fst p) (Some y)) | None => None end
        | Some (false, ft) =>
            match typed e (TOption ft) (S d) (snd p) with
            | Some (XOpt o) => Some (FKnown (fst p) o)
            | _ => None
            end
        | None =>
            match raw_of e (S d) (snd p) with
            | Some bs => Some (if fb then FUnknown (fst p) bs else FSkipped)
            | None => None
            end
        end in
      match opt_all (map event l) with
      | Some evs =>
          match build_slots fs evs with
          | Ok slots => Some (XStruct slots (unknowns evs))
          | Err _ => None
          end
      | None => None
      end
  | TEnum vs fb, VEnum id x =>
      match find_variant vs id with
      | Some (Some vt) => match typed e vt (S d) x with Some y => Some (XEnum id y) | None => None end
      | Some None => match x with VNone => Some (XEnum id (XLeaf VNone)) | _ => None end
      | None => if fb then match raw_of e (S d) x with Some bs => Some (XUnknown id bs) | None => None end
                else None
      end
  | _, _ => None
  end.
