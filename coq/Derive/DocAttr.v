(* Derive/DocAttr.v — the one place where free text of a schema reaches Rust *syntax*:
   codegen/src/rust.rs emits, at 12 sites,
       codeln!(self, ''#[aldrin(doc = \''{doc}\'')]'')
   with doc = DocString::value_inner(), i.e. the doc line pasted between two quote characters.
   Strings are UTF-8 byte lists (N < 256) as everywhere in this development.

   [rust_string_literal] is a lexer for the Rust tokens of that attribute: the fixed prefix, one
   string literal (Rust reference, ''String literals'': quote, then characters or escapes, then an
   unescaped quote; a bare CR is rejected by rustc; an unknown escape is an error), the fixed
   suffix, nothing else.  It returns the literal's value.  Only the single-character escapes are
   modelled (\\ \'' \' \n \r \t \0); \x.. and \u{..} and line continuations yield None. *)
From Aldrin Require Export Codec.Base.
Open Scope N_scope.

Definition q : N := 34.        (* '' *)
Definition bs : N := 92.       (* \ *)
Definition cr : N := 13.
Definition lf : N := 10.
Definition tab : N := 9.

(* ''#[aldrin(doc = '' and '')]'' *)
Definition attr_prefix : list N := [35; 91; 97; 108; 100; 114; 105; 110; 40; 100; 111; 99; 32; 61; 32].
Definition attr_suffix : list N := [41; 93].

(* what the generator does today *)
Definition emit_doc_attr (d : list N) : list N := attr_prefix ++ q :: d ++ q :: attr_suffix.

(* the recommended repair: escape the characters that cannot stand for themselves in a literal
   (what `{doc:?}` does for them) *)
Definition esc_char (c : N) : list N :=
  if c =? q then [bs; q]
  else if c =? bs then [bs; bs]
  else if c =? cr then [bs; 114]
  else if c =? lf then [bs; 110]
  else if c =? tab then [bs; 116]
  else [c].
Definition emit_doc_attr_fixed (d : list N) : list N :=
  attr_prefix ++ q :: flat_map esc_char d ++ q :: attr_suffix.

Fixpoint strip_prefix (p s : list N) : option (list N) :=
  match p, s with
  | [], _ => Some s
  | x :: p', y :: s' => if x =? y then strip_prefix p' s' else None
  | _ :: _, [] => None
  end.

Definition unescape (c : N) : option N :=
  if c =? q then Some q            (* \'' *)
  else if c =? bs then Some bs     (* \\ *)
  else if c =? 39 then Some 39     (* \' *)
  else if c =? 110 then Some lf    (* \n *)
  else if c =? 114 then Some cr    (* \r *)
  else if c =? 116 then Some tab   (* \t *)
  else if c =? 48 then Some 0      (* \0 *)
  else None.                       (* unknown character escape *)

(* the body of a string literal after the opening quote: (value, rest after the closing quote) *)
Fixpoint lit_body (s : list N) : option (list N * list N) :=
  match s with
  | [] => None                                   (* unterminated double quote string *)
  | c :: r =>
      if c =? q then Some ([], r)
      else if c =? cr then None                  (* bare CR not allowed in string *)
      else if c =? bs then
        match r with
        | [] => None
        | e :: r' =>
            match unescape e with
            | None => None
            | Some x => match lit_body r' with Some (v, rest) => Some (x :: v, rest) | None => None end
            end
        end
      else match lit_body r with Some (v, rest) => Some (c :: v, rest) | None => None end
  end.

Definition list_eqbN (a b : list N) : bool := list_eqb a b.

Definition rust_string_literal (s : list N) : option (list N) :=
  match strip_prefix attr_prefix s with
  | None => None
  | Some s1 =>
      match s1 with
      | c :: s2 =>
          if c =? q then
            match lit_body s2 with
            | Some (v, rest) => if list_eqbN rest attr_suffix then Some v else None
            | None => None
            end
          else None
      | [] => None
      end
  end.
