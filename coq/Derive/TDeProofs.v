(* Derive/TDeProofs.v — the generated decoder decides conformance on serialized values:
   for every well-formed value v serialized in either container encoding, [tde t] succeeds with
   [typed e t d v] when that is defined and fails otherwise (tde_ser).  Built on the codec round
   trip (ser_de), the skip/decode simulation (skip_sim) and fuel monotonicity. *)
From Aldrin Require Import Codec.Base Codec.BaseProofs Codec.Value Codec.Ser Codec.De Codec.Skip
  Codec.RoundTrip Codec.DeProofs Codec.SkipProofs gen.Consts.
From Aldrin Require Import Derive.Ty Derive.TDe Derive.Conforms.
From Coq Require Import ZifyBool ZifyNat ZifyN.
Open Scope N_scope.
Arguments N.add : simpl never.
Arguments N.sub : simpl never.
Arguments N.mul : simpl never.
Arguments N.ltb : simpl never.
Arguments N.leb : simpl never.
Arguments N.eqb : simpl never.

(* ---------- first byte of a serialization ---------- *)
Definition kind_of (e : epoch) (v : Value) : kind :=
  match v with
  | VNone => KNone | VSome _ => KSome | VBool _ => KBool | VInt i _ => KInt_ i | VFixed f _ => KFixed f
  | VString _ => KString | VVec _ => KVec e | VBytes _ => KBytes e | VMap k _ => KMap e k
  | VSet k _ => KSet e k | VStruct _ => KStruct e | VEnum _ _ => KEnum
  end.

Ltac ser_inv H :=
  repeat match type of H with
         | bind ?x _ = Ok _ => let E := fresh "E" in destruct x eqn:E; cbn [bind] in H; [|discriminate H]
         | (if ?c then _ else _) = Ok _ => let E := fresh "E" in destruct c eqn:E; [|try discriminate H]
         | Ok _ = Ok _ => apply Ok_inj in H; subst
         end.

Lemma ser_head e d v bs : ser e d v = Ok bs ->
  (MAX_VALUE_DEPTH <? S d)%nat = false /\ exists rest, bs = kb (kind_of e v) :: rest.
Proof.
  intros H. destruct v; cbn [ser] in H; depth_ok H; (split; [reflexivity|]); cbn [kind_of];
    try (destruct e); unfold hdr1, bytes2_body in H; ser_inv H; try (eexists; reflexivity).
  all: destruct bs0; ser_inv H; eexists; reflexivity.
Qed.

Lemma fuel_of_pos v : (1 <= fuel_of v)%nat.
Proof. destruct v; cbn [fuel_of]; lia. Qed.

(* ---------- one step of tde ---------- *)
Lemma tde_step f t d k rest : t <> TValue -> (MAX_VALUE_DEPTH <? S d)%nat = false ->
  tde (S f) t d (kb k :: rest) = tde_kind (tde f) f t (S d) k rest.
Proof.
  intros Ht Hd. cbn [tde]. unfold tde_body. destruct t; try congruence; rewrite Hd; unfold kb;
    rewrite kind_of_byte_kb; reflexivity.
Qed.

(* ---------- a value's serialization is skipped / captured exactly ---------- *)
Lemma de_any_fuel e v d bs r : wf true v = true -> ser e d v = Ok bs ->
  de true (S (length (bs ++ r))) d (bs ++ r) = Ok (v, r).
Proof.
  intros Hwf Hs. pose proof (ser_de true e v d bs Hwf Hs (fuel_of v) r (le_n _)) as H0.
  destruct (Nat.le_ge_cases (fuel_of v) (S (length (bs ++ r)))) as [L|L].
  - destruct (de_mono true _ _ L d (bs ++ r)) as [F|F]; [rewrite H0 in F; discriminate|]. rewrite <- F. exact H0.
  - destruct (de_mono true _ _ L d (bs ++ r)) as [F|F].
    + exfalso. eapply (de_enough true); [|exact F]. lia.
    + rewrite F. exact H0.
Qed.

Lemma skip_ser e v d bs r : wf true v = true -> ser e d v = Ok bs ->
  skip (S (length (bs ++ r))) d (bs ++ r) = Ok r.
Proof.
  intros Hwf Hs. pose proof (de_any_fuel e v d bs r Hwf Hs) as H.
  apply de_true_false in H. pose proof (skip_sim (S (length (bs ++ r))) d (bs ++ r)) as S.
  rewrite H in S. destruct (skip _ d (bs ++ r)) as [r0|e0]; cbn [sim] in S; [subst; reflexivity|contradiction].
Qed.

Lemma firstn_app_exact {A} (a b : list A) : firstn (length (a ++ b) - length b) (a ++ b) = a.
Proof.
  rewrite app_length. replace (length a + length b - length b)%nat with (length a) by lia.
  rewrite firstn_app, Nat.sub_diag, firstn_all. cbn [firstn]. apply app_nil_r.
Qed.

Lemma capture_ser e v d bs r : wf true v = true -> ser e d v = Ok bs -> capture d (bs ++ r) = Ok (bs, r).
Proof.
  intros Hwf Hs. unfold capture. rewrite (skip_ser e v d bs r Hwf Hs). cbn [bind].
  rewrite firstn_app_exact. reflexivity.
Qed.

Lemma skip_at_ser e v d bs r : wf true v = true -> ser e d v = Ok bs -> skip_at d (bs ++ r) = Ok r.
Proof. intros. unfold skip_at. eapply skip_ser; eauto. Qed.

(* ---------- what a decision looks like ---------- *)
Definition dec_res {A} (res : result (A * list N)) (o : option A) (r : list N) : Prop :=
  match o with
  | Some x => res = Ok (x, r)
  | None => exists err, res = Err err
  end.

(* element-level: the bytes b of one element, whatever follows *)
Definition el_dec {A} (elem : list N -> result (A * list N)) (b : list N) (o : option A) : Prop :=
  forall r', dec_res (elem (b ++ r')) o r'.

Lemma opt_all_cons {A} (o : option A) os :
  opt_all (o :: os) = match o, opt_all os with Some x, Some xs => Some (x :: xs) | _, _ => None end.
Proof. reflexivity. Qed.

Lemma loop1_dec {A} (elem : list N -> result (A * list N)) bss os r :
  Forall2 (el_dec elem) bss os -> forall n, (length bss <= n)%nat ->
  dec_res (loop1 elem n (lenN bss) (concat bss ++ r)) (opt_all os) r.
Proof.
  induction 1 as [|b o bss os Hb _ IH]; intros n Hn.
  - destruct n; cbn; reflexivity.
  - destruct n as [|n]; [cbn in Hn; lia|]. cbn [loop1].
    destruct (N.eqb_spec (lenN (b :: bss)) 0) as [E|_]; [rewrite lenN_cons in E; lia|].
    cbn [concat]. rewrite <- app_assoc. specialize (Hb (concat bss ++ r)). rewrite opt_all_cons.
    replace (lenN (b :: bss) - 1) with (lenN bss) by (rewrite lenN_cons; lia).
    destruct o as [y|]; cbn [dec_res] in Hb.
    + rewrite Hb. cbn [bind]. specialize (IH n ltac:(cbn in Hn; lia)).
      destruct (opt_all os) as [ys|]; cbn [dec_res] in *.
      * rewrite IH. reflexivity.
      * destruct IH as [err IH]. rewrite IH. eexists; reflexivity.
    + destruct Hb as [err Hb]. rewrite Hb. cbn [bind]. eexists; reflexivity.
Qed.

Lemma loop2_dec {A} (elem : list N -> result (A * list N)) inners os r :
  Forall2 (el_dec elem) inners os -> forall n, (length inners < n)%nat ->
  dec_res (loop2 elem n (concat (map (cons (kb KSome)) inners) ++ kb KNone :: r)) (opt_all os) r.
Proof.
  induction 1 as [|b o bss os Hb _ IH]; intros n Hn.
  - destruct n; [cbn in Hn; lia|]. cbn. reflexivity.
  - destruct n as [|n]; [cbn in Hn; lia|]. cbn [loop2 map concat app].
    change (kind_of_byte (kb KSome)) with (Some KSome). cbn iota.
    rewrite <- app_assoc. specialize (Hb (concat (map (cons (kb KSome)) bss) ++ kb KNone :: r)).
    rewrite opt_all_cons. destruct o as [y|]; cbn [dec_res] in Hb.
    + rewrite Hb. cbn [bind]. specialize (IH n ltac:(cbn in Hn; lia)).
      destruct (opt_all os) as [ys|]; cbn [dec_res] in *.
      * rewrite IH. reflexivity.
      * destruct IH as [err IH]. rewrite IH. eexists; reflexivity.
    + destruct Hb as [err Hb]. rewrite Hb. cbn [bind]. eexists; reflexivity.
Qed.

(* arrays: exactly k elements *)
Lemma arr1_dec (elem : list N -> result (tval * list N)) bss os r :
  Forall2 (el_dec elem) bss os -> forall k,
  dec_res (arr1 elem k (lenN bss) (concat bss ++ r))
          (if (length bss =? k)%nat then opt_all os else None) r.
Proof.
  induction 1 as [|b o bss os Hb _ IH]; intros k.
  - destruct k; cbn; [reflexivity|eexists; reflexivity].
  - destruct k as [|k]; cbn [arr1 length Nat.eqb].
    + destruct (N.eqb_spec (lenN (b :: bss)) 0) as [E|_]; [rewrite lenN_cons in E; lia|]. eexists; reflexivity.
    + destruct (N.eqb_spec (lenN (b :: bss)) 0) as [E|_]; [rewrite lenN_cons in E; lia|].
      cbn [concat]. rewrite <- app_assoc. specialize (Hb (concat bss ++ r)). rewrite opt_all_cons.
      replace (lenN (b :: bss) - 1) with (lenN bss) by (rewrite lenN_cons; lia).
      specialize (IH k).
      destruct o as [y|]; cbn [dec_res] in Hb.
      * rewrite Hb. cbn [bind]. destruct (length bss =? k)%nat.
        -- destruct (opt_all os) as [ys|]; cbn [dec_res] in *.
           ++ rewrite IH. reflexivity.
           ++ destruct IH as [err IH]. rewrite IH. eexists; reflexivity.
        -- destruct IH as [err IH]. rewrite IH. eexists; reflexivity.
      * destruct Hb as [err Hb]. rewrite Hb. cbn [bind].
        destruct (length bss =? k)%nat; eexists; reflexivity.
Qed.

Lemma arr2_dec (elem : list N -> result (tval * list N)) inners os r :
  Forall2 (el_dec elem) inners os -> forall k,
  dec_res (arr2 elem k (concat (map (cons (kb KSome)) inners) ++ kb KNone :: r))
          (if (length inners =? k)%nat then opt_all os else None) r.
Proof.
  induction 1 as [|b o bss os Hb _ IH]; intros k.
  - destruct k; cbn; [reflexivity|eexists; reflexivity].
  - destruct k as [|k]; cbn [arr2 map concat app length Nat.eqb];
      change (kind_of_byte (kb KSome)) with (Some KSome); cbn iota.
    + eexists; reflexivity.
    + rewrite <- app_assoc. specialize (Hb (concat (map (cons (kb KSome)) bss) ++ kb KNone :: r)).
      rewrite opt_all_cons. specialize (IH k).
      destruct o as [y|]; cbn [dec_res] in Hb.
      * rewrite Hb. cbn [bind]. destruct (length bss =? k)%nat.
        -- destruct (opt_all os) as [ys|]; cbn [dec_res] in *.
           ++ rewrite IH. reflexivity.
           ++ destruct IH as [err IH]. rewrite IH. eexists; reflexivity.
        -- destruct IH as [err IH]. rewrite IH. eexists; reflexivity.
      * destruct Hb as [err Hb]. rewrite Hb. cbn [bind].
        destruct (length bss =? k)%nat; eexists; reflexivity.
Qed.

(* ---------- mapM helpers ---------- *)
Lemma mapM_ext {A B} (f g : A -> result B) l : (forall x, f x = g x) -> mapM f l = mapM g l.
Proof. intros H. induction l as [|x l IH]; cbn [mapM]; [reflexivity|]. rewrite H, IH. reflexivity. Qed.

Lemma mapM_cons_inner {A} (g : A -> result (list N)) (c : N) l bss :
  mapM (fun x => b <- g x ;; Ok (c :: b)) l = Ok bss ->
  exists inners, mapM g l = Ok inners /\ bss = map (cons c) inners.
Proof.
  revert bss. induction l as [|x l IH]; intros bss; cbn [mapM].
  - intros H. apply Ok_inj in H. subst. exists []. split; reflexivity.
  - destruct (g x) as [b|]; cbn [bind]; [|discriminate].
    destruct (mapM (fun x => b <- g x ;; Ok (c :: b)) l) as [bs|] eqn:E; cbn [bind]; [|discriminate].
    intros H. apply Ok_inj in H. subst. destruct (IH _ eq_refl) as (inn & Hi & ->).
    exists (b :: inn). rewrite Hi. split; reflexivity.
Qed.

Lemma Forall2_map_r {A B C} (R : A -> C -> Prop) (g : B -> C) (l : list A) (l' : list B) :
  Forall2 (fun a b => R a (g b)) l l' -> Forall2 R l (map g l').
Proof. induction 1; cbn [map]; constructor; auto. Qed.

Lemma Forall2_swap {A B} (R : A -> B -> Prop) l l' : Forall2 R l l' -> Forall2 (fun b a => R a b) l' l.
Proof. induction 1; constructor; auto. Qed.

(* elements: from the serialized pieces and a per-element decision to Forall2 el_dec *)
Lemma elems_dec {A X} (g : X -> result (list N)) (elem : list N -> result (A * list N)) (spec : X -> option A)
      (l : list X) inners :
  mapM g l = Ok inners ->
  (forall x b, In x l -> g x = Ok b -> el_dec elem b (spec x)) ->
  Forall2 (el_dec elem) inners (map spec l).
Proof.
  intros Hm H. apply mapM_ok in Hm. apply Forall2_map_r. apply Forall2_swap.
  eapply Forall2_impl_in; [exact Hm|]. cbn beta. intros x b Hin Hg. apply H; assumption.
Qed.

(* ---------- kinds a type accepts ---------- *)
Definition accepts (t : ty) (kd : kind) : bool :=
  match t, kd with
  | TLeaf l, _ => leaf_accepts l kd
  | TValue, _ => true
  | TOption _, (KNone | KSome) => true
  | TVec _, KVec _ | TArray _ _, KVec _ => true
  | TMap k _, KMap _ k' => keyk_eqb k k'
  | TResult _ _, KEnum | TEnum _ _, KEnum => true
  | TStruct _ _, KStruct _ => true
  | _, _ => false
  end.

Lemma tde_kind_mismatch rec n t d' kd r : t <> TValue -> accepts t kd = false ->
  tde_kind rec n t d' kd r = Err UnexpectedValue.
Proof.
  intros Ht H. destruct t; try congruence; cbn [accepts] in H; cbn [tde_kind].
  - rewrite H. reflexivity.
  - destruct kd; try reflexivity; discriminate.
  - destruct kd as [| | | | | |e|e|e k|e k|e|]; try reflexivity; discriminate.
  - destruct kd as [| | | | | |e|e|e k|e k|e|]; try reflexivity; discriminate.
  - destruct kd as [| | | | | |e|e|e k'|e k'|e|]; try reflexivity. destruct e; rewrite H; reflexivity.
  - destruct kd; try reflexivity; discriminate.
  - destruct kd as [| | | | | |e|e|e k|e k|e|]; try reflexivity; discriminate.
  - destruct kd; try reflexivity; discriminate.
Qed.

Lemma leaf_of_accepts e l v : leaf_of l v = leaf_accepts l (kind_of e v).
Proof. destruct l, v; reflexivity. Qed.

Lemma typed_mismatch e t d v : t <> TValue -> accepts t (kind_of e v) = false -> typed e t d v = None.
Proof.
  intros Ht H. destruct t; try congruence.
  - cbn [accepts] in H. rewrite <- (leaf_of_accepts e) in H. destruct v; cbn [typed]; rewrite H; reflexivity.
  - destruct v; cbn [accepts kind_of] in H; try discriminate; reflexivity.
  - destruct v; cbn [accepts kind_of] in H; try discriminate; reflexivity.
  - destruct v; cbn [accepts kind_of] in H; try discriminate; reflexivity.
  - destruct v; cbn [accepts kind_of] in H; try discriminate; try reflexivity. cbn [typed]. rewrite H. reflexivity.
  - destruct v; cbn [accepts kind_of] in H; try discriminate; reflexivity.
  - destruct v; cbn [accepts kind_of] in H; try discriminate; reflexivity.
  - destruct v; cbn [accepts kind_of] in H; try discriminate; reflexivity.
Qed.

(* ---------- leaves: the generic decoder's own code for that kind ---------- *)
Definition leaf_kind (kd : kind) : bool :=
  match kd with
  | KNone | KBool | KInt_ _ | KFixed _ | KString | KBytes _ | KSet _ _ => true
  | _ => false
  end.

Lemma de_kind_norec u rec rec' n d' kd r : leaf_kind kd = true ->
  de_kind u rec n d' kd r = de_kind u rec' n d' kd r.
Proof. destruct kd as [| | | | | |e|e|e k|e k|e|]; try discriminate; intros _; try reflexivity; destruct e; reflexivity. Qed.

Lemma leaf_accepts_kind l kd : leaf_accepts l kd = true -> leaf_kind kd = true.
Proof. destruct l, kd; try discriminate; reflexivity. Qed.

Lemma tde_leaf e v d bs l : wf true v = true -> ser e d v = Ok bs -> leaf_of l v = true ->
  forall f r, (fuel_of v <= f)%nat -> tde f (TLeaf l) d (bs ++ r) = Ok (XLeaf v, r).
Proof.
  intros Hwf Hs Hl f r Hf. destruct f as [|f]; [pose proof (fuel_of_pos v); lia|].
  destruct (ser_head _ _ _ _ Hs) as (Hd & rest & ->).
  pose proof (ser_de true e v d _ Hwf Hs (S f) r Hf) as Hde.
  cbn [app] in *. rewrite tde_step by (congruence || exact Hd).
  cbn [de] in Hde. unfold de_body in Hde. rewrite Hd in Hde. unfold kb in Hde. rewrite kind_of_byte_kb in Hde.
  unfold tde_kind. rewrite (leaf_of_accepts e) in Hl. rewrite Hl.
  rewrite (de_kind_norec true no_rec (de true f)) by (eapply leaf_accepts_kind; exact Hl).
  rewrite Hde. reflexivity.
Qed.

(* ---------- a tight fuel measure: nesting and element counts, not their sum ---------- *)
Fixpoint fuel2 (v : Value) : nat :=
  match v with
  | VSome x | VEnum _ x => S (fuel2 x)
  | VVec l => S (Nat.max (S (length l)) (fold_right (fun x m => Nat.max (fuel2 x) m) 0%nat l))
  | VMap _ l => S (Nat.max (S (length l)) (fold_right (fun p m => Nat.max (fuel2 (snd p)) m) 0%nat l))
  | VStruct l => S (Nat.max (S (length l)) (fold_right (fun p m => Nat.max (fuel2 (snd p)) m) 0%nat l))
  | VSet _ l => S (S (length l))
  | VBytes _ => 3%nat
  | _ => 1%nat
  end.

Lemma fuel2_pos v : (1 <= fuel2 v)%nat.
Proof. destruct v; cbn [fuel2]; lia. Qed.

Lemma fuel2_in {A} (g : A -> nat) x l : In x l -> (g x <= fold_right (fun y m => Nat.max (g y) m) 0 l)%nat.
Proof.
  induction l as [|y l IH]; cbn [In fold_right]; [tauto|]. intros [->|H]; [lia|]. apply IH in H. lia.
Qed.

Lemma fuel2_leaf l v : leaf_of l v = true -> fuel_of v = fuel2 v.
Proof. destruct l, v; try discriminate; reflexivity. Qed.

(* ---------- the decision theorem ---------- *)
Lemma ty_value_dec t : t = TValue \/ t <> TValue.
Proof. destruct t; (left; reflexivity) || (right; congruence). Qed.

Lemma tde_ser_value e v d bs f r : wf true v = true -> ser e d v = Ok bs -> (1 <= f)%nat ->
  dec_res (tde f TValue d (bs ++ r)) (typed e TValue d v) r.
Proof.
  intros Hwf Hs Hf. destruct f as [|f]; [lia|].
  assert (typed e TValue d v = Some (XRaw bs)) as ->.
  { destruct v; cbn [typed]; unfold raw_of; rewrite Hs; reflexivity. }
  cbn [dec_res tde]. unfold tde_body. rewrite (capture_ser e v d bs r Hwf Hs). reflexivity.
Qed.

Lemma tde_ser_mismatch e v t d bs f r : t <> TValue -> ser e d v = Ok bs ->
  accepts t (kind_of e v) = false -> (1 <= f)%nat ->
  dec_res (tde f t d (bs ++ r)) (typed e t d v) r.
Proof.
  intros Ht Hs Ha Hf. destruct f as [|f]; [lia|].
  destruct (ser_head _ _ _ _ Hs) as (Hd & rest & ->). cbn [app].
  rewrite tde_step by assumption. rewrite tde_kind_mismatch by assumption.
  rewrite typed_mismatch by assumption. eexists; reflexivity.
Qed.

Lemma tde_ser_leaf e v l d bs f r : wf true v = true -> ser e d v = Ok bs -> (fuel2 v <= f)%nat ->
  dec_res (tde f (TLeaf l) d (bs ++ r)) (typed e (TLeaf l) d v) r.
Proof.
  intros Hwf Hs Hf. destruct (leaf_of l v) eqn:L.
  - assert (typed e (TLeaf l) d v = Some (XLeaf v)) as -> by (destruct v; cbn [typed]; rewrite L; reflexivity).
    cbn [dec_res]. eapply tde_leaf; eauto. rewrite (fuel2_leaf _ _ L). exact Hf.
  - apply tde_ser_mismatch; [congruence|assumption| |pose proof (fuel2_pos v); lia].
    cbn [accepts]. rewrite <- (leaf_of_accepts e). exact L.
Qed.


Lemma keyk_eqb_eq a b : keyk_eqb a b = true -> a = b.
Proof. destruct a as [i| |], b as [j| |]; try discriminate; try reflexivity. destruct i, j; try discriminate; reflexivity. Qed.

Lemma opt_all_keys {X Y} (g : X -> option Y) (key : X -> keyv) l ys :
  opt_all (map (fun p => match g p with Some y => Some (key p, y) | None => None end) l) = Some ys ->
  map fst ys = map key l.
Proof.
  revert ys. induction l as [|p l IH]; intros ys; cbn [map]; [intros H; inversion H; reflexivity|].
  rewrite opt_all_cons. destruct (g p) as [y|]; [|discriminate].
  destruct (opt_all _) as [ys'|]; [|discriminate]. intros H; inversion H; subst. cbn [map fst]. f_equal. apply IH. reflexivity.
Qed.

Lemma dedup_tmap_id ys : keys_nodup (map fst ys) = true -> dedup_tmap ys = ys.
Proof. apply (dedup_assoc_id key_eqb key_eqb_sym). Qed.

(* dec_res through a continuation that cannot fail *)
Lemma dec_res_map {A B} (res : result (A * list N)) (o : option A) r (g : A -> B) :
  dec_res res o r ->
  dec_res ('(x, r') <- res ;; Ok (g x, r')) (match o with Some x => Some (g x) | None => None end) r.
Proof.
  destruct o as [x|]; cbn [dec_res]; [intros ->; reflexivity|intros [err ->]; eexists; reflexivity].
Qed.

Ltac mism := apply tde_ser_mismatch; [congruence|assumption|reflexivity|
  match goal with H : (fuel2 ?v <= _)%nat |- _ => pose proof (fuel2_pos v); lia end].

Ltac head f :=
  destruct f as [|f]; [match goal with H : (fuel2 ?v <= 0)%nat |- _ => pose proof (fuel2_pos v); lia end|].

Theorem tde_ser e : forall v t d bs, wf true v = true -> ser e d v = Ok bs ->
  forall f r, (fuel2 v <= f)%nat -> dec_res (tde f t d (bs ++ r)) (typed e t d v) r.
Proof.
  induction v as [|x IH|b|i z|fk fbs|s|l IH|bs0|k l IH|k l|l IH|id x IH] using Value_ind';
    intros t d bs Hwf Hser f r Hf;
    (destruct t as [lt| |a|a|len a|kt a|ta tb|fs fb|vs fb];
     [eapply tde_ser_leaf; eassumption
     |eapply tde_ser_value; [eassumption|eassumption|match goal with H : (fuel2 ?v <= _)%nat |- _ => pose proof (fuel2_pos v); lia end]
     |..]); try mism.
  - (* None / Option *)
    head f. cbn [ser] in Hser. depth_ok Hser. ok_inv Hser. cbn [app].
    rewrite tde_step by (congruence || assumption). reflexivity.
  - (* Some / Option *)
    head f. cbn [ser] in Hser. depth_ok Hser. bind_ok Hser b E. ok_inv Hser. cbn [app].
    rewrite tde_step by (congruence || assumption). cbn [tde_kind typed].
    cbn [wf] in Hwf. cbn [fuel2] in Hf.
    specialize (IH a (S d) b Hwf E f r ltac:(lia)).
    destruct (typed e a (S d) x) as [y|]; cbn [dec_res] in *.
    + rewrite IH. reflexivity.
    + destruct IH as [err IH]. rewrite IH. eexists; reflexivity.
  - (* Vec / Vec *)
    head f. cbn [ser] in Hser. depth_ok Hser. cbn [wf] in Hwf. apply andb_prop in Hwf as [Hlen Hwf].
    rewrite forallb_forall in Hwf. rewrite Forall_forall in IH. cbn [fuel2] in Hf. cbn [typed].
    assert (forall inners, mapM (ser e (S d)) l = Ok inners ->
              Forall2 (el_dec (tde f a (S d))) inners (map (typed e a (S d)) l)) as EL.
    { intros inners Hi. eapply elems_dec; [exact Hi|]. intros x b Hin Hx r'.
      apply IH; auto. pose proof (fuel2_in fuel2 x l Hin). lia. }
    destruct e.
    + rewrite Hlen in Hser. bind_ok Hser inners E. ok_inv Hser. cbn [app].
      rewrite tde_step by (congruence || assumption). cbn [tde_kind].
      pose proof (Forall2_length _ _ _ (mapM_ok _ _ _ E)) as Hl.
      rewrite <- !app_assoc, varint_roundtrip by (try lia; apply u32_fits; exact Hlen). cbn [bind].
      replace (lenN l) with (lenN inners) by (unfold lenN; rewrite Hl; reflexivity).
      pose proof (loop1_dec _ _ _ r (EL _ eq_refl) f ltac:(lia)) as L.
      destruct (opt_all _) as [ys|]; cbn [dec_res] in *.
      * rewrite L. reflexivity.
      * destruct L as [err L]. rewrite L. eexists; reflexivity.
    + bind_ok Hser bss E. ok_inv Hser. apply mapM_cons_inner in E as (inners & E & ->). cbn [app].
      rewrite tde_step by (congruence || assumption). cbn [tde_kind].
      pose proof (Forall2_length _ _ _ (mapM_ok _ _ _ E)) as Hl.
      rewrite <- !app_assoc. cbn [app].
      pose proof (loop2_dec _ _ _ r (EL _ E) f ltac:(lia)) as L.
      destruct (opt_all _) as [ys|]; cbn [dec_res] in *.
      * rewrite L. reflexivity.
      * destruct L as [err L]. rewrite L. eexists; reflexivity.
  - (* Vec / Array *)
    head f. cbn [ser] in Hser. depth_ok Hser. cbn [wf] in Hwf. apply andb_prop in Hwf as [Hlen Hwf].
    rewrite forallb_forall in Hwf. rewrite Forall_forall in IH. cbn [fuel2] in Hf. cbn [typed].
    assert (forall inners, mapM (ser e (S d)) l = Ok inners ->
              Forall2 (el_dec (tde f a (S d))) inners (map (typed e a (S d)) l)) as EL.
    { intros inners Hi. eapply elems_dec; [exact Hi|]. intros x b Hin Hx r'.
      apply IH; auto. pose proof (fuel2_in fuel2 x l Hin). lia. }
    assert (forall inners : list (list N), length l = length inners ->
              (length inners =? N.to_nat len)%nat = (lenN l =? len)) as LEN.
    { intros inners Hl. unfold lenN. rewrite Hl.
      destruct (Nat.eqb_spec (length inners) (N.to_nat len)), (N.eqb_spec (N.of_nat (length inners)) len); try reflexivity; lia. }
    destruct e.
    + rewrite Hlen in Hser. bind_ok Hser inners E. ok_inv Hser. cbn [app].
      rewrite tde_step by (congruence || assumption). cbn [tde_kind].
      pose proof (Forall2_length _ _ _ (mapM_ok _ _ _ E)) as Hl.
      rewrite <- !app_assoc, varint_roundtrip by (try lia; apply u32_fits; exact Hlen). cbn [bind].
      replace (lenN l) with (lenN inners) at 1 by (unfold lenN; rewrite Hl; reflexivity).
      pose proof (arr1_dec _ _ _ r (EL _ eq_refl) (N.to_nat len)) as L. rewrite (LEN _ Hl) in L.
      destruct (lenN l =? len); [destruct (opt_all _) as [ys|]|]; cbn [dec_res] in *.
      * rewrite L. reflexivity.
      * destruct L as [err L]. rewrite L. eexists; reflexivity.
      * destruct L as [err L]. rewrite L. eexists; reflexivity.
    + bind_ok Hser bss E. ok_inv Hser. apply mapM_cons_inner in E as (inners & E & ->). cbn [app].
      rewrite tde_step by (congruence || assumption). cbn [tde_kind].
      pose proof (Forall2_length _ _ _ (mapM_ok _ _ _ E)) as Hl.
      rewrite <- !app_assoc. cbn [app].
      pose proof (arr2_dec _ _ _ r (EL _ E) (N.to_nat len)) as L. rewrite (LEN _ Hl) in L.
      destruct (lenN l =? len); [destruct (opt_all _) as [ys|]|]; cbn [dec_res] in *.
      * rewrite L. reflexivity.
      * destruct L as [err L]. rewrite L. eexists; reflexivity.
      * destruct L as [err L]. rewrite L. eexists; reflexivity.
  - (* Map / Map *)
    destruct (keyk_eqb kt k) eqn:Ek;
      [|apply tde_ser_mismatch; [congruence|assumption|cbn [accepts kind_of]; exact Ek|pose proof (fuel2_pos (VMap k l)); lia]].
    apply keyk_eqb_eq in Ek. subst kt.
    head f. cbn [ser] in Hser. depth_ok Hser. cbn [wf] in Hwf.
    apply andb_prop in Hwf as [Hwf Hall]. apply andb_prop in Hwf as [Hlen Hnd].
    rewrite forallb_forall in Hall. rewrite Forall_forall in IH. cbn [fuel2] in Hf. cbn [typed].
    assert (keyk_eqb k k = true) as Hkk by (destruct k as [i| |]; try reflexivity; destruct i; reflexivity).
    rewrite Hkk.
    set (g := fun p : keyv * Value => kbs <- put_key k (fst p) ;; b <- ser e (S d) (snd p) ;; Ok (kbs ++ b)).
    set (spec := fun p : keyv * Value => match typed e a (S d) (snd p) with Some y => Some (fst p, y) | None => None end).
    assert (forall inners, mapM g l = Ok inners ->
              Forall2 (el_dec (tmap_elem k (tde f a (S d)))) inners (map spec l)) as EL.
    { intros inners Hi. eapply elems_dec; [exact Hi|]. intros p b Hin Hp r'. unfold g in Hp.
      bind_ok Hp kbs Ekb. bind_ok Hp vb Ev. ok_inv Hp.
      specialize (Hall _ Hin). apply andb_prop in Hall as [Hk Hv].
      unfold tmap_elem. rewrite <- app_assoc, (key_roundtrip _ _ _ _ _ Hk Ekb). cbn [bind].
      assert (dec_res (tde f a (S d) (vb ++ r')) (typed e a (S d) (snd p)) r') as D.
      { apply IH; auto. pose proof (fuel2_in (fun p => fuel2 (snd p)) p l Hin). cbn beta in *. lia. }
      unfold spec. destruct (typed e a (S d) (snd p)) as [y|]; cbn [dec_res] in *.
      - rewrite D. reflexivity.
      - destruct D as [err D]. rewrite D. eexists; reflexivity. }
    assert (forall ys, opt_all (map spec l) = Some ys -> dedup_tmap ys = ys) as DD.
    { intros ys Hy. apply dedup_tmap_id. unfold spec in Hy. rewrite (opt_all_keys _ fst _ _ Hy). exact Hnd. }
    destruct e.
    + rewrite Hlen in Hser. fold g in Hser. bind_ok Hser inners E. ok_inv Hser. cbn [app].
      rewrite tde_step by (congruence || assumption). cbn [tde_kind]. rewrite Hkk.
      pose proof (Forall2_length _ _ _ (mapM_ok _ _ _ E)) as Hl.
      rewrite <- !app_assoc, varint_roundtrip by (try lia; apply u32_fits; exact Hlen). cbn [bind].
      replace (lenN l) with (lenN inners) by (unfold lenN; rewrite Hl; reflexivity).
      pose proof (loop1_dec _ _ _ r (EL _ eq_refl) f ltac:(lia)) as L. fold spec.
      destruct (opt_all (map spec l)) as [ys|] eqn:Ey; cbn [dec_res] in *.
      * rewrite L. cbn [bind]. rewrite (DD _ eq_refl). reflexivity.
      * destruct L as [err L]. rewrite L. eexists; reflexivity.
    + assert (mapM (fun p => kbs <- put_key k (fst p) ;; b <- ser E2 (S d) (snd p) ;; Ok (kb KSome :: kbs ++ b)) l =
              mapM (fun p => b <- g p ;; Ok (kb KSome :: b)) l) as EQ.
      { apply mapM_ext. intros p. unfold g. destruct (put_key k (fst p)); cbn [bind]; [|reflexivity].
        destruct (ser E2 (S d) (snd p)); reflexivity. }
      rewrite EQ in Hser. bind_ok Hser bss E. ok_inv Hser. apply mapM_cons_inner in E as (inners & E & ->). cbn [app].
      rewrite tde_step by (congruence || assumption). cbn [tde_kind]. rewrite Hkk.
      pose proof (Forall2_length _ _ _ (mapM_ok _ _ _ E)) as Hl.
      rewrite <- !app_assoc. cbn [app].
      pose proof (loop2_dec _ _ _ r (EL _ E) f ltac:(lia)) as L. fold spec.
      destruct (opt_all (map spec l)) as [ys|] eqn:Ey; cbn [dec_res] in *.
      * rewrite L. cbn [bind]. rewrite (DD _ eq_refl). reflexivity.
      * destruct L as [err L]. rewrite L. eexists; reflexivity.
  - (* Struct / Struct *)
    head f. cbn [ser] in Hser. depth_ok Hser. cbn [wf] in Hwf.
    apply andb_prop in Hwf as [Hwf Hall]. apply andb_prop in Hwf as [Hlen Hnd].
    rewrite forallb_forall in Hall. rewrite Forall_forall in IH. cbn [fuel2] in Hf. cbn [typed].
    set (g := fun p : N * Value => b <- ser e (S d) (snd p) ;; Ok (put_varint 4 (fst p) ++ b)).
    match goal with |- dec_res _ (match opt_all (map ?ev l) with _ => _ end) _ => set (spec := ev) end.
    assert (forall inners, mapM g l = Ok inners ->
              Forall2 (el_dec (sfield (tde f) fs fb (S d))) inners (map spec l)) as EL.
    { intros inners Hi. eapply elems_dec; [exact Hi|]. intros p b Hin Hp r'. unfold g in Hp.
      bind_ok Hp vb Ev. ok_inv Hp.
      specialize (Hall _ Hin). apply andb_prop in Hall as [Hk Hv].
      assert (forall t', dec_res (tde f t' (S d) (vb ++ r')) (typed e t' (S d) (snd p)) r') as D.
      { intros t'. apply IH; auto. pose proof (fuel2_in (fun p => fuel2 (snd p)) p l Hin). cbn beta in *. lia. }
      unfold sfield. rewrite <- app_assoc, varint_roundtrip by (try lia; apply u32_fits; exact Hk). cbn [bind].
      unfold spec. destruct (find_field fs (fst p)) as [[[|] ft]|].
      - specialize (D ft). destruct (typed e ft (S d) (snd p)) as [y|]; cbn [dec_res] in *.
        + rewrite D. reflexivity.
        + destruct D as [err D]. rewrite D. eexists; reflexivity.
      - specialize (D (TOption ft)). destruct (typed e (TOption ft) (S d) (snd p)) as [y|]; cbn [dec_res] in *.
        + rewrite D. cbn [bind]. destruct y; cbn [dec_res]; first [reflexivity|eexists; reflexivity].
        + destruct D as [err D]. rewrite D. eexists; reflexivity.
      - unfold raw_of. rewrite Ev. destruct fb; cbn [dec_res].
        + rewrite (capture_ser e _ _ _ r' Hv Ev). reflexivity.
        + rewrite (skip_at_ser e _ _ _ r' Hv Ev). reflexivity. }
    destruct e.
    + rewrite Hlen in Hser. fold g in Hser. bind_ok Hser inners E. ok_inv Hser. cbn [app].
      rewrite tde_step by (congruence || assumption). cbn [tde_kind].
      pose proof (Forall2_length _ _ _ (mapM_ok _ _ _ E)) as Hl.
      rewrite <- !app_assoc, varint_roundtrip by (try lia; apply u32_fits; exact Hlen). cbn [bind].
      replace (lenN l) with (lenN inners) by (unfold lenN; rewrite Hl; reflexivity).
      pose proof (loop1_dec _ _ _ r (EL _ eq_refl) f ltac:(lia)) as L.
      destruct (opt_all (map spec l)) as [evs|]; cbn [dec_res] in *.
      * rewrite L. cbn [bind]. destruct (build_slots fs evs); cbn [bind dec_res]; [reflexivity|eexists; reflexivity].
      * destruct L as [err L]. rewrite L. eexists; reflexivity.
    + assert (mapM (fun p => b <- ser E2 (S d) (snd p) ;; Ok (kb KSome :: put_varint 4 (fst p) ++ b)) l =
              mapM (fun p => b <- g p ;; Ok (kb KSome :: b)) l) as EQ.
      { apply mapM_ext. intros p. unfold g. destruct (ser E2 (S d) (snd p)); reflexivity. }
      rewrite EQ in Hser. bind_ok Hser bss E. ok_inv Hser. apply mapM_cons_inner in E as (inners & E & ->). cbn [app].
      rewrite tde_step by (congruence || assumption). cbn [tde_kind].
      pose proof (Forall2_length _ _ _ (mapM_ok _ _ _ E)) as Hl.
      rewrite <- !app_assoc. cbn [app].
      pose proof (loop2_dec _ _ _ r (EL _ E) f ltac:(lia)) as L.
      destruct (opt_all (map spec l)) as [evs|]; cbn [dec_res] in *.
      * rewrite L. cbn [bind]. destruct (build_slots fs evs); cbn [bind dec_res]; [reflexivity|eexists; reflexivity].
      * destruct L as [err L]. rewrite L. eexists; reflexivity.
  - (* Enum / Result *)
    head f. cbn [ser] in Hser. depth_ok Hser. bind_ok Hser b E. ok_inv Hser. cbn [app].
    rewrite tde_step by (congruence || assumption). cbn [tde_kind typed].
    cbn [wf] in Hwf. apply andb_prop in Hwf as [Hid Hwf]. cbn [fuel2] in Hf.
    rewrite <- app_assoc, varint_roundtrip by (try lia; apply u32_fits; exact Hid). cbn [bind].
    assert (forall t', dec_res (tde f t' (S d) (b ++ r)) (typed e t' (S d) x) r) as D
      by (intros t'; apply IH; auto; lia).
    destruct (id =? 0); [|destruct (id =? 1)].
    + specialize (D ta). destruct (typed e ta (S d) x); cbn [dec_res] in *;
        [rewrite D; reflexivity|destruct D as [err D]; rewrite D; eexists; reflexivity].
    + specialize (D tb). destruct (typed e tb (S d) x); cbn [dec_res] in *;
        [rewrite D; reflexivity|destruct D as [err D]; rewrite D; eexists; reflexivity].
    + eexists; reflexivity.
  - (* Enum / Enum *)
    head f. cbn [ser] in Hser. depth_ok Hser. bind_ok Hser b E. ok_inv Hser. cbn [app].
    rewrite tde_step by (congruence || assumption). cbn [tde_kind typed].
    cbn [wf] in Hwf. apply andb_prop in Hwf as [Hid Hwf]. cbn [fuel2] in Hf.
    rewrite <- app_assoc, varint_roundtrip by (try lia; apply u32_fits; exact Hid). cbn [bind].
    assert (forall t', dec_res (tde f t' (S d) (b ++ r)) (typed e t' (S d) x) r) as D
      by (intros t'; apply IH; auto; lia).
    destruct (find_variant vs id) as [[vt|]|].
    + specialize (D vt). destruct (typed e vt (S d) x); cbn [dec_res] in *;
        [rewrite D; reflexivity|destruct D as [err D]; rewrite D; eexists; reflexivity].
    + specialize (D (TLeaf LUnit)).
      assert (typed e (TLeaf LUnit) (S d) x = match x with VNone => Some (XLeaf VNone) | _ => None end) as T
        by (destruct x; reflexivity).
      rewrite T in D. destruct x; cbn [dec_res] in *;
        try (destruct D as [err D]; rewrite D; eexists; reflexivity). rewrite D. reflexivity.
    + unfold raw_of. rewrite E. destruct fb; cbn [dec_res]; [|eexists; reflexivity].
      rewrite (capture_ser e _ _ _ r Hwf E). reflexivity.
Qed.

(* ---------- the tight measure is bounded by the size of the serialization ---------- *)
Lemma ser_nonempty e d v bs : ser e d v = Ok bs -> (1 <= length bs)%nat.
Proof. intros H. destruct (ser_head _ _ _ _ H) as (_ & rest & ->). cbn [length]. lia. Qed.

(* sizes of concatenated pieces *)
Lemma concat_len_ge {X} (g : X -> nat) (l : list X) (bss : list (list N)) (c : nat) :
  Forall2 (fun x b => (1 <= length b)%nat /\ (g x <= S (length b))%nat) l bss ->
  (length l <= length (concat bss))%nat /\
  (fold_right (fun x m => Nat.max (g x) m) 0%nat l <= S (length (concat bss)))%nat.
Proof.
  induction 1 as [|x b l bss [H1 H2] _ [IH1 IH2]]; cbn [length concat fold_right]; [lia|].
  rewrite app_length. lia.
Qed.

Lemma put_varint_len W n : (1 <= length (put_varint W n))%nat.
Proof. pose proof (put_varint_nonempty W n). destruct (put_varint W n); [congruence|cbn [length]; lia]. Qed.

Lemma concat_cons_len (inners : list (list N)) :
  (length (concat inners) <= length (concat (map (cons (kb KSome)) inners)))%nat.
Proof. induction inners as [|b bs IH]; cbn [map concat length]; [lia|]. rewrite !app_length. cbn [length]. lia. Qed.

Lemma keys_len k (l : list keyv) inners : (forall x, In x l -> key_ok true k x = true) ->
  mapM (put_key k) l = Ok inners -> (length l <= length (concat inners))%nat.
Proof.
  intros Hall Hi. apply mapM_ok in Hi. induction Hi as [|x b l' bs' Hx _ IHl]; cbn [length concat]; [lia|].
  rewrite app_length. destruct (put_key_ok true k x (Hall x (or_introl eq_refl))) as (b' & Hb' & Hne').
  rewrite Hx in Hb'. apply Ok_inj in Hb'. subst b'. specialize (IHl (fun y Hy => Hall y (or_intror Hy))).
  destruct b; [congruence|]. cbn [length]. lia.
Qed.

Theorem fuel2_len e : forall v d bs, wf true v = true -> ser e d v = Ok bs -> (fuel2 v <= S (length bs))%nat.
Proof.
  induction v as [|x IH|b|i z|fk fbs|s|l IH|bs0|k l IH|k l|l IH|id x IH] using Value_ind';
    intros d bs Hwf Hser; pose proof (ser_nonempty _ _ _ _ Hser) as Hne; cbn [fuel2]; try lia;
    cbn [ser] in Hser; depth_ok Hser.
  - (* Some *) bind_ok Hser b E. ok_inv Hser. cbn [wf] in Hwf. specialize (IH _ _ Hwf E). cbn [length]. lia.
  - (* Vec *)
    cbn [wf] in Hwf. apply andb_prop in Hwf as [Hlen Hwf]. rewrite forallb_forall in Hwf. rewrite Forall_forall in IH.
    assert (forall inners, mapM (ser e (S d)) l = Ok inners ->
       (length l <= length (concat inners))%nat /\
       (fold_right (fun x m => Nat.max (fuel2 x) m) 0%nat l <= S (length (concat inners)))%nat) as C.
    { intros inners Hi. apply (concat_len_ge fuel2 l inners 0). apply mapM_ok in Hi.
      eapply Forall2_impl_in; [exact Hi|]. cbn beta. intros x b Hin Hx. split; [eapply ser_nonempty; eauto|eapply IH; eauto]. }
    destruct e.
    + rewrite Hlen in Hser. bind_ok Hser inners E. ok_inv Hser. destruct (C _ eq_refl) as [C1 C2].
      cbn [length]. rewrite app_length. pose proof (put_varint_len 4 (lenN l)). lia.
    + bind_ok Hser bss E. ok_inv Hser. apply mapM_cons_inner in E as (inners & E & ->). destruct (C _ E) as [C1 C2].
      cbn [length]. rewrite app_length. cbn [length].
      assert (length (concat inners) <= length (concat (map (cons (kb KSome)) inners)))%nat.
      { clear. induction inners as [|b bs IH]; cbn [map concat length]; [lia|]. rewrite !app_length. cbn [length]. lia. }
      lia.
  - (* Bytes *)
    destruct e; unfold hdr1, bytes2_body in Hser.
    + destruct (lenN bs0 <=? u32_max); [|discriminate]. ok_inv Hser. cbn [length]. rewrite app_length.
      pose proof (put_varint_len 4 (lenN bs0)). lia.
    + destruct bs0 as [|b0 bs0].
      * cbn [bind] in Hser. ok_inv Hser. cbn [length]. pose proof (put_varint_len 4 0). lia.
      * destruct (lenN (b0 :: bs0) <=? u32_max); [|discriminate]. cbn [bind] in Hser. ok_inv Hser.
        cbn [length]. rewrite app_length. pose proof (put_varint_len 4 (lenN (b0 :: bs0))). lia.
  - (* Map *)
    cbn [wf] in Hwf. apply andb_prop in Hwf as [Hwf Hall]. apply andb_prop in Hwf as [Hlen Hnd].
    rewrite forallb_forall in Hall. rewrite Forall_forall in IH.
    set (g := fun p : keyv * Value => kbs <- put_key k (fst p) ;; b <- ser e (S d) (snd p) ;; Ok (kbs ++ b)).
    assert (forall inners, mapM g l = Ok inners ->
       (length l <= length (concat inners))%nat /\
       (fold_right (fun p m => Nat.max (fuel2 (snd p)) m) 0%nat l <= S (length (concat inners)))%nat) as C.
    { intros inners Hi. apply (concat_len_ge (fun p => fuel2 (snd p)) l inners 0). apply mapM_ok in Hi.
      eapply Forall2_impl_in; [exact Hi|]. cbn beta. intros p b Hin Hp. unfold g in Hp.
      bind_ok Hp kbs Ek. bind_ok Hp vb Ev. ok_inv Hp. rewrite app_length.
      specialize (Hall _ Hin). apply andb_prop in Hall as [_ Hv].
      pose proof (ser_nonempty _ _ _ _ Ev). pose proof (IH _ Hin _ _ Hv Ev). lia. }
    destruct e.
    + rewrite Hlen in Hser. fold g in Hser. bind_ok Hser inners E. ok_inv Hser. destruct (C _ eq_refl) as [C1 C2].
      cbn [length]. rewrite app_length. pose proof (put_varint_len 4 (lenN l)). lia.
    + assert (mapM (fun p => kbs <- put_key k (fst p) ;; b <- ser E2 (S d) (snd p) ;; Ok (kb KSome :: kbs ++ b)) l =
              mapM (fun p => b <- g p ;; Ok (kb KSome :: b)) l) as EQ.
      { apply mapM_ext. intros p. unfold g. destruct (put_key k (fst p)); cbn [bind]; [|reflexivity].
        destruct (ser E2 (S d) (snd p)); reflexivity. }
      rewrite EQ in Hser. bind_ok Hser bss E. ok_inv Hser. apply mapM_cons_inner in E as (inners & E & ->).
      destruct (C _ E) as [C1 C2]. cbn [length]. rewrite app_length. cbn [length].
      pose proof (concat_cons_len inners). lia.
  - (* Set *)
    cbn [wf] in Hwf. apply andb_prop in Hwf as [Hwf Hall]. apply andb_prop in Hwf as [Hlen Hnd].
    rewrite forallb_forall in Hall.
    pose proof (fun inners => keys_len k l inners Hall) as C.
    destruct e.
    + rewrite Hlen in Hser. bind_ok Hser inners E. ok_inv Hser. pose proof (C _ eq_refl).
      cbn [length]. rewrite app_length. pose proof (put_varint_len 4 (lenN l)). lia.
    + assert (mapM (fun x => kbs <- put_key k x ;; Ok (kb KSome :: kbs)) l =
              mapM (fun x => b <- put_key k x ;; Ok (kb KSome :: b)) l) as EQ by reflexivity.
      bind_ok Hser bss E. ok_inv Hser. apply mapM_cons_inner in E as (inners & E & ->).
      pose proof (C _ E). cbn [length]. rewrite app_length. cbn [length]. pose proof (concat_cons_len inners). lia.
  - (* Struct *)
    cbn [wf] in Hwf. apply andb_prop in Hwf as [Hwf Hall]. apply andb_prop in Hwf as [Hlen Hnd].
    rewrite forallb_forall in Hall. rewrite Forall_forall in IH.
    set (g := fun p : N * Value => b <- ser e (S d) (snd p) ;; Ok (put_varint 4 (fst p) ++ b)).
    assert (forall inners, mapM g l = Ok inners ->
       (length l <= length (concat inners))%nat /\
       (fold_right (fun p m => Nat.max (fuel2 (snd p)) m) 0%nat l <= S (length (concat inners)))%nat) as C.
    { intros inners Hi. apply (concat_len_ge (fun p => fuel2 (snd p)) l inners 0). apply mapM_ok in Hi.
      eapply Forall2_impl_in; [exact Hi|]. cbn beta. intros p b Hin Hp. unfold g in Hp.
      bind_ok Hp vb Ev. ok_inv Hp. rewrite app_length.
      specialize (Hall _ Hin). apply andb_prop in Hall as [_ Hv].
      pose proof (ser_nonempty _ _ _ _ Ev). pose proof (IH _ Hin _ _ Hv Ev). lia. }
    destruct e.
    + rewrite Hlen in Hser. fold g in Hser. bind_ok Hser inners E. ok_inv Hser. destruct (C _ eq_refl) as [C1 C2].
      cbn [length]. rewrite app_length. pose proof (put_varint_len 4 (lenN l)). lia.
    + assert (mapM (fun p => b <- ser E2 (S d) (snd p) ;; Ok (kb KSome :: put_varint 4 (fst p) ++ b)) l =
              mapM (fun p => b <- g p ;; Ok (kb KSome :: b)) l) as EQ.
      { apply mapM_ext. intros p. unfold g. destruct (ser E2 (S d) (snd p)); reflexivity. }
      rewrite EQ in Hser. bind_ok Hser bss E. ok_inv Hser. apply mapM_cons_inner in E as (inners & E & ->).
      destruct (C _ E) as [C1 C2]. cbn [length]. rewrite app_length. cbn [length].
      pose proof (concat_cons_len inners). lia.
  - (* Enum *)
    bind_ok Hser b E. ok_inv Hser. cbn [wf] in Hwf. apply andb_prop in Hwf as [_ Hwf]. specialize (IH _ _ Hwf E).
    cbn [length]. rewrite app_length. lia.
Qed.
