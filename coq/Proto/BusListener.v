(* Proto/BusListener.v — the broker's BusListener struct (broker/src/bus_listener.rs) WITH its two
   cached flags and the flag-driven enumeration of start_bus_listener (broker/src/broker.rs):
   `matches_all_objects` / `matches_specific_services` are maintained incrementally by
   add_filter (|=, &=), recomputed by remove_filter, reset by clear_filters; `specific_objects` /
   `specific_services` select between the "look up the named entities" path and the "scan
   everything" path and contain unreachable!() arms that rely on the flags being right.
   The abstract machine (Broker/Model.v) has no flags: it keeps the filter set and scans.
   Proto/BusListenerProofs.v shows the two agree after every add/remove/clear history. *)
From stdpp Require Import gmap list.
From Aldrin Require Import gen.BrokerConsts Broker.Model.
Local Open Scope N_scope.

Record blis := {
  b_filters : list bfilter;       (* HashSet<BusListenerFilter>: a duplicate-free list *)
  b_scope : option scope;
  b_all_obj : bool;               (* matches_all_objects *)
  b_spec_svc : bool }.            (* matches_specific_services *)

(* BusListener::new *)
Definition blis_new : blis :=
  {| b_filters := []; b_scope := None; b_all_obj := false; b_spec_svc := true |}.

(* matches!(filter, Service { object: Some(_), service: Some(_) }) *)
Definition is_specific (f : bfilter) : bool :=
  match f with FService (Some _) (Some _) => true | _ => false end.
(* filter == BusListenerFilter::Object(None) *)
Definition is_all_objects (f : bfilter) : bool :=
  match f with FObject None => true | _ => false end.

Definition blis_add (f : bfilter) (b : blis) : blis :=
  {| b_filters := filters_insert f (b_filters b);
     b_scope := b_scope b;
     b_all_obj := b_all_obj b || is_all_objects f;
     b_spec_svc := b_spec_svc b && is_specific f |}.

Definition blis_remove (f : bfilter) (b : blis) : blis :=
  let fs := filters_remove f (b_filters b) in
  {| b_filters := fs;
     b_scope := b_scope b;
     b_all_obj := existsb is_all_objects fs;
     b_spec_svc := forallb is_specific fs |}.

Definition blis_clear (b : blis) : blis :=
  {| b_filters := []; b_scope := b_scope b; b_all_obj := false; b_spec_svc := true |}.

(* start / stop: the new struct and the returned bool *)
Definition blis_start (sc : scope) (b : blis) : blis * bool :=
  match b_scope b with
  | None => ({| b_filters := b_filters b; b_scope := Some sc; b_all_obj := b_all_obj b; b_spec_svc := b_spec_svc b |}, true)
  | Some _ => (b, false)
  end.
Definition blis_stop (b : blis) : blis * bool :=
  ({| b_filters := b_filters b; b_scope := None; b_all_obj := b_all_obj b; b_spec_svc := b_spec_svc b |},
   match b_scope b with Some _ => true | None => false end).

(* matches_object: the flag short-cuts the scan of the filters *)
Definition blis_matches_object (b : blis) (u : uuid) : bool :=
  b_all_obj b || existsb (fun f => matches_object f u) (b_filters b).
Definition blis_matches_service (b : blis) (ou su : uuid) : bool :=
  existsb (fun f => matches_service f ou su) (b_filters b).
Definition blis_matches_new_event (b : blis) (ev : bus_event) : bool :=
  match b_scope b with Some sc => includes_new sc | None => false end &&
  existsb (fun f => matches_event f ev) (b_filters b).

(* specific_objects / specific_services: None = take the scan path; the inner option is None
   when an unreachable!() arm would be hit *)
Fixpoint spec_objs (fs : list bfilter) : option (list uuid) :=
  match fs with
  | [] => Some []
  | FObject (Some u) :: r => cons u <$> spec_objs r
  | FObject None :: _ => None                         (* unreachable!() *)
  | FService _ _ :: r => spec_objs r
  end.
Definition blis_specific_objects (b : blis) : option (option (list uuid)) :=
  if b_all_obj b then None else Some (spec_objs (b_filters b)).

Fixpoint spec_svcs (fs : list bfilter) : option (list (uuid * uuid)) :=
  match fs with
  | [] => Some []
  | FService (Some o) (Some s) :: r => cons (o, s) <$> spec_svcs r
  | FObject _ :: r => spec_svcs r
  | FService _ _ :: _ => None                          (* unreachable!() *)
  end.
Definition blis_specific_services (b : blis) : option (option (list (uuid * uuid))) :=
  if b_spec_svc b then Some (spec_svcs (b_filters b)) else None.

(* the enumeration of start_bus_listener for a current-including scope: the (uuid, object) and
   ((object uuid, service uuid), service) pairs reported, in order; None = a panic site *)
Definition current_objects (b : blis) (os : gmap uuid obj) : option (list (uuid * obj)) :=
  match blis_specific_objects b with
  | Some None => None
  | Some (Some us) => Some (omap (fun u => (fun o => (u, o)) <$> os !! u) us)
  | None => Some (List.filter (fun p : uuid * obj => blis_matches_object b p.1) (map_to_list os))
  end.
Definition current_services (b : blis) (ss : gmap (uuid * uuid) svc) : option (list ((uuid * uuid) * svc)) :=
  match blis_specific_services b with
  | Some None => None
  | Some (Some ks) => Some (omap (fun k => (fun s => (k, s)) <$> ss !! k) ks)
  | None => Some (List.filter (fun p : (uuid * uuid) * svc => blis_matches_service b p.1.1 p.1.2) (map_to_list ss))
  end.

(* histories of filter operations *)
Inductive fop := OpAdd (f : bfilter) | OpRemove (f : bfilter) | OpClear.
Definition blis_apply (b : blis) (o : fop) : blis :=
  match o with OpAdd f => blis_add f b | OpRemove f => blis_remove f b | OpClear => blis_clear b end.
(* what the abstract machine does with the same operation (AddBusListenerFilter,
   RemoveBusListenerFilter, ClearBusListenerFilters in Model.handle) *)
Definition abs_apply (fs : list bfilter) (o : fop) : list bfilter :=
  match o with OpAdd f => filters_insert f fs | OpRemove f => filters_remove f fs | OpClear => [] end.
