(* Proto/ReplyBroker.v — the reply contract of Proto/ReplyProofs.v holds for the broker machine
   Broker/Model.v: handling a message x of a live connection c appends, among the outputs, exactly
   the reply keys [(c, key)] if x is a request of one of the 17 same-step kinds (rq x = Some key)
   and no such reply otherwise ([handle_reply_keys], when the handler returns Done — a failing
   handler means the broker removes the connection); the work loop appends none ([step_reply_keys]).
   Uses the output-pass framework of the broker family (Broker/GateProofs.v oR, Broker/OutProofs.v
   Ext and the lemmas about the removal cascade, Broker/OutKinds.v for the work loop). *)
From stdpp Require Import gmap list.
From RecordUpdate Require Import RecordSet.
Import RecordSetNotations.
From Aldrin Require Import gen.BrokerConsts Broker.Model Broker.Run Broker.GateProofs Broker.OutProofs Broker.OutKinds
  Proto.ClientView Proto.ReplyProofs.
Local Open Scope N_scope.

Definition Qnr (o : out) : Prop := rp o.1.2 = None.
Definition rkeys (l : list out) : list (conn * (rkind * N)) :=
  omap (fun o : out => (fun key => (o.1.1, key)) <$> rp o.1.2) l.

Lemma rkeys_app l1 l2 : rkeys (l1 ++ l2) = rkeys l1 ++ rkeys l2.
Proof. unfold rkeys. apply omap_app. Qed.

Lemma rkeys_Qnr l : Forall Qnr l -> rkeys l = [].
Proof.
  induction 1 as [|o l Ho _ IH]; [reflexivity|]. unfold rkeys in *. cbn. unfold Qnr in Ho. rewrite Ho. cbn. exact IH.
Qed.

(* on Done: the reply keys appended are exactly l *)
Definition oK (l : list (conn * (rkind * N))) (m : M) (x : outcome M) : Prop :=
  match x with Done m' => exists new, mo m' = mo m ++ new /\ rkeys new = l | _ => True end.

Lemma oK_of_Ext m x : oR (Ext Qnr) m x -> oK [] m x.
Proof. destruct x as [m'| |]; cbn; trivial. intros (new & E & F). exists new. split; [exact E|apply rkeys_Qnr; exact F]. Qed.

Lemma send_alive m c cs x f :
  conns (ms m) !! c = Some cs -> cs_alive cs = true -> send m c x f = Done (m <| mo := mo m ++ [(c, x, f)] |>).
Proof. intros H1 H2. unfold send. rewrite H1, H2. reflexivity. Qed.

Lemma oK_send_bind m mm c cs x key k :
  conns (ms mm) !! c = Some cs -> cs_alive cs = true -> mo mm = mo m -> rp x = Some key ->
  (forall m1, oR (Ext Qnr) m1 (k m1)) -> oK [(c, key)] m (send mm c x None >>> k).
Proof.
  intros H1 H2 Hmo Hk Hcont. rewrite (send_alive _ _ _ _ _ H1 H2). cbn [andThen].
  specialize (Hcont (mm <| mo := mo mm ++ [(c, x, None)] |>)).
  destruct (k (mm <| mo := mo mm ++ [(c, x, None)] |>)) as [m'| |]; cbn in *; trivial.
  destruct Hcont as (new & E & F). exists ((c, x, None) :: new). split.
  - rewrite E. destruct mm; cbn in *. rewrite Hmo, <- app_assoc. reflexivity.
  - unfold rkeys. cbn. rewrite Hk. cbn. f_equal. apply rkeys_Qnr. exact F.
Qed.

Lemma oK_send m mm c cs x key :
  conns (ms mm) !! c = Some cs -> cs_alive cs = true -> mo mm = mo m -> rp x = Some key ->
  oK [(c, key)] m (send mm c x None).
Proof.
  intros H1 H2 Hmo Hk. rewrite (send_alive _ _ _ _ _ H1 H2). cbn.
  exists [(c, x, None)]. split; [destruct mm; cbn in *; rewrite Hmo; reflexivity|].
  unfold rkeys. cbn. rewrite Hk. reflexivity.
Qed.

Lemma gate_oK l m c cs minv k : conns (ms m) !! c = Some cs -> oK l m (k m) -> oK l m (gate m c minv k).
Proof. intros Hc H. unfold gate, ver_of. rewrite Hc. cbn. destruct (cs_ver cs <? minv); [exact I|exact H]. Qed.

(* the output pass of the broker family, for "no reply of the 17 kinds" *)
Ltac ksolve := first [ reflexivity | intros; reflexivity | cbn; reflexivity ].

Ltac kstep :=
  match goal with
  | |- oR _ _ (Panic _) => exact I
  | |- oR (Ext ?Q) ?m (Done ?m) => apply Ext_refl
  | |- oR (Ext ?Q) ?m (Fail ?m) => apply Ext_refl
  | |- oR (Ext ?Q) ?m (Done _) => exists []; rewrite app_nil_r; split; [reflexivity|constructor]
  | |- oR (Ext ?Q) ?m (Fail _) => exists []; rewrite app_nil_r; split; [reflexivity|constructor]
  | |- oR (Ext ?Q) ?m (send ?mm _ _ _) =>
      apply (oExt_pre Q m mm); [reflexivity|apply oExt_of_Rout, send_Ro; ksolve]
  | |- oR (Ext ?Q) ?m (send_or_remove ?mm _ _ _) =>
      apply (oExt_pre Q m mm); [reflexivity|apply oExt_of_Rout, send_or_remove_Ro; ksolve]
  | |- oR (Ext ?Q) ?m (send_ignore ?mm _ _ _) =>
      apply (oExt_pre Q m mm); [reflexivity|apply oExt_of_Rout, send_ignore_Ro; ksolve]
  | |- oR (Ext ?Q) ?m (remove_object ?mm _) =>
      apply (oExt_pre Q m mm); [reflexivity|apply oExt_of_Rout, remove_object_Ro; ksolve]
  | |- oR (Ext ?Q) ?m (remove_service ?mm _) =>
      apply (oExt_pre Q m mm); [reflexivity|apply oExt_of_Rout, remove_service_Ro; ksolve]
  | |- oR (Ext ?Q) ?m (remove_end ?mm _ _) =>
      apply (oExt_pre Q m mm); [reflexivity|apply oExt_of_Rout, remove_end_Ro; ksolve]
  | |- oR (Ext ?Q) ?m (Done (remove_listener ?mm _)) =>
      apply (Ext_trans Q m mm); [exists []; rewrite app_nil_r; split; [reflexivity|constructor]
                                |apply Ext_of_Rout, remove_listener_Ro]
  | |- oR (Ext ?Q) ?m (gate _ _ _ _) => apply gate_Ext
  | |- oR (Ext ?Q) ?m (foldO _ _ ?mm) =>
      apply (oExt_pre Q m mm); [reflexivity|apply oExt_foldO; intros ? ?]
  | |- oR (Ext ?Q) ?m (_ >>> _) => apply oExt_bind; [|intros ?]
  | |- oR _ _ (if ?b then _ else _) => destruct b eqn:?
  | |- oR _ _ (match ?x with _ => _ end) => destruct x eqn:?
  end.

(* a message that is not a request of the 17 kinds *)
Lemma handle_no_reply m c cs x fresh b :
  conns (ms m) !! c = Some cs -> rq x = None -> oR (Ext Qnr) m (Model.handle m c x fresh b).
Proof.
  intros Hc Hx. unfold Model.handle, create_service_impl, call_impl. rewrite !Hc.
  destruct x; try discriminate Hx; try (destruct serial; try discriminate Hx).
  all: repeat kstep.
  all: try congruence.
Qed.

Lemma oK_after_reply m m2 c x key y :
  mo m2 = mo m ++ [(c, x, None)] -> rp x = Some key -> oR (Ext Qnr) m2 y -> oK [(c, key)] m y.
Proof.
  intros Hmo Hk H. destruct y as [m'| |]; cbn in *; trivial. destruct H as (new & E & F).
  exists ((c, x, None) :: new). split; [rewrite E, Hmo, <- app_assoc; reflexivity|].
  unfold rkeys. cbn. rewrite Hk. cbn. f_equal. apply rkeys_Qnr. exact F.
Qed.

Ltac kreq Hc Ha :=
  repeat match goal with
  | |- oK _ _ (Panic _) => exact I
  | |- oK _ _ (Fail _) => exact I
  | |- oK _ ?m (gate _ _ _ _) => eapply gate_oK; [exact Hc|]
  | |- oK _ ?m (send ?mm ?c ?x None >>> ?k) =>
      eapply (oK_send_bind m mm); [first [exact Hc|cbn; exact Hc]|exact Ha|reflexivity|reflexivity|intros ?; repeat kstep]
  | |- oK _ ?m (send ?mm ?c ?x None) =>
      eapply (oK_send m mm); [first [exact Hc|cbn; exact Hc]|exact Ha|reflexivity|reflexivity]
  | |- oK _ _ (if ?b then _ else _) => destruct b eqn:?
  | |- oK _ _ (match ?x with _ => _ end) =>
      lazymatch x with
      | send _ _ _ _ => fail
      | _ => destruct x eqn:?
      end
  end.

(* a request of one of the 17 kinds from a live connection: exactly its reply *)
Lemma handle_request_keys m c cs x key fresh b :
  conns (ms m) !! c = Some cs -> cs_alive cs = true -> rq x = Some key ->
  oK [(c, key)] m (Model.handle m c x fresh b).
Proof.
  intros Hc Ha Hx. unfold Model.handle, create_service_impl. rewrite !Hc.
  destruct x; try discriminate Hx; try (destruct serial as [serial|]; try discriminate Hx);
    cbn in Hx; inversion Hx; subst key; clear Hx.
  all: kreq Hc Ha.
  all: try congruence.
  (* ClaimChannelEnd granted: the reply, then the notice to the other end's owner *)
  all: match goal with
       | Hc' : conns (ms _) !! ?cc = Some ?css, Ha' : cs_alive ?css = true
         |- oK _ _ (match send ?mm ?cc ?x None with _ => _ end) =>
           let H := fresh in
           assert (H : conns (ms mm) !! cc = Some css) by (cbn; exact Hc');
           rewrite (send_alive mm cc css x None H Ha')
       end; cbn iota;
    (eapply oK_after_reply; [| |apply oExt_of_Rout, send_or_remove_Ro; reflexivity]); reflexivity.
Qed.

(* ---------------------------------------------------------------- one broker step *)
Lemma K_settle_Qnr o : K_settle o -> Qnr o.
Proof.
  intros H. apply K_settle_not in H. unfold Qnr. destruct (o.1.2); try reflexivity; contradiction.
Qed.

Definition expected (c : conn) (x : msg) : list (conn * (rkind * N)) :=
  match rq x with Some key => [(c, key)] | None => [] end.

(* the reply contract of Proto/ReplyProofs.v, for the broker machine: when the broker handles a
   message of a live connection without failing (i.e. without removing that connection), the reply
   keys among ALL outputs of the step — handler and work loop, to whichever connection — are
   exactly the one reply the request is owed, addressed to its sender *)
Theorem step_reply_keys s c cs x fresh b s' o :
  conns s !! c = Some cs -> cs_alive cs = true ->
  Model.step s (Message c x) fresh b = Done (s', o) ->
  (exists m1, Model.handle {| ms := s; mw := work0; mo := [] |} c x fresh b = Done m1) ->
  rkeys o = expected c x.
Proof.
  intros Hc Ha Hstep [m1 Hh].
  apply step_Done in Hstep. destruct Hstep as (m & m' & Hsh & Hset & -> & ->).
  unfold step_handler in Hsh. rewrite Hh in Hsh. inversion Hsh; subst m; clear Hsh.
  assert (Hk : oK (expected c x) {| ms := s; mw := work0; mo := [] |} (Done m1)).
  { rewrite <- Hh. unfold expected. destruct (rq x) as [key|] eqn:Erq.
    - eapply handle_request_keys; [exact Hc|exact Ha|exact Erq].
    - apply oK_of_Ext. eapply handle_no_reply; [exact Hc|exact Erq]. }
  destruct Hk as (new & E & Hnew). cbn in E.
  pose proof (settle_ext (fuel_for m1) m1) as He.
  destruct Hset as [Hs|Hs]; rewrite Hs in He; destruct He as (l & El & Fl);
    rewrite El, E, rkeys_app, Hnew, (rkeys_Qnr l), app_nil_r; try reflexivity;
    (eapply Forall_impl; [exact Fl|apply K_settle_Qnr]).
Qed.

(* no other event of the broker (connects, disconnects, shutdown requests) emits such a reply *)
Theorem step_other_no_reply s e fresh b s' o :
  (forall c x, e <> Message c x) -> Model.step s e fresh b = Done (s', o) -> rkeys o = [].
Proof.
  intros Hne Hstep. apply step_Done in Hstep. destruct Hstep as (m & m' & Hsh & Hset & -> & ->).
  assert (Hm : mo m = []).
  { destruct e; cbn in Hsh; try (inversion Hsh; subst; reflexivity).
    - destruct (conns s !! c); inversion Hsh; reflexivity.
    - exfalso. eapply Hne. reflexivity.
    - inversion Hsh; subst. cbn. clear. induction (map_to_list (conns s)) as [|p l IH]; [reflexivity|exact IH].
    - inversion Hsh; subst. destruct (conns s !! c); reflexivity. }
  pose proof (settle_ext (fuel_for m) m) as He.
  destruct Hset as [Hs|Hs]; rewrite Hs in He; destruct He as (l & El & Fl);
    rewrite El, Hm; cbn; apply rkeys_Qnr; (eapply Forall_impl; [exact Fl|apply K_settle_Qnr]).
Qed.
