(* Proto/ClientGateTie.v — the CLIENT's sending gates (aldrin/src/client.rs `self.version >= V1_xx`
   before a message of a later protocol version is sent), read from the source by the translator
   (tools/rs2v_client.py -> gen/ClientConsts.v), against the protocol's version table
   Broker/GateSpec.v (`min_version_of`: the first version in which a client may send the message,
   which is also what the broker enforces, C12_gate_in).  If a gate in client.rs is lowered, the
   client sends a message newer than its negotiated version and the broker closes the connection. *)
From Aldrin Require Import gen.ClientConsts Broker.Model Broker.GateSpec.
From Coq Require Import NArith List.
Import ListNotations.
Local Open Scope N_scope.

(* (gate the client applies, a message of the kind the gate guards) *)
Definition client_send_gates : list (N * msg) :=
  [ (CGATE_req_create_service_0_GE, CreateService2 0 0 0 None);
    (CGATE_req_call_function_0_GE, CallFunction2 0 0 0 None 0);
    (CGATE_req_create_proxy_0_GE, QueryServiceInfo 0 0);
    (CGATE_finish_create_proxy_0_GE, SubscribeService 0 0);
    (CGATE_req_destroy_proxy_0_GE, UnsubscribeService 0);
    (CGATE_req_destroy_proxy_1_GE, UnsubscribeAllEvents None 0);
    (CGATE_req_subscribe_all_events_0_GE, SubscribeAllEvents None 0);
    (CGATE_req_unsubscribe_all_events_0_GE, UnsubscribeAllEvents None 0);
    (CGATE_req_submit_introspection_0_GE, RegisterIntrospection);
    (CGATE_req_query_introspection_0_GE, QueryIntrospection 0);
    (CGATE_abort_function_call_0_GE, AbortFunctionCall 0) ].

Definition gate_admits (p : N * msg) : bool :=
  match min_version_of (snd p) with
  | Some need => need <=? fst p
  | None => true
  end.

(* every gated send happens only at a version at which the protocol (and the broker) admits the kind *)
Lemma client_send_gates_sound : forallb gate_admits client_send_gates = true.
Proof. reflexivity. Qed.

(* and the gates are exactly the introduction versions (no feature is withheld from a version that has it) *)
Lemma client_send_gates_exact :
  map (fun p => Some (fst p)) client_send_gates = map (fun p => min_version_of (snd p)) client_send_gates.
Proof. reflexivity. Qed.

(* subscribe_all in ServiceInfo is sent as given only from 1.18 on *)
Lemma client_subscribe_all_gate : CGATE_req_create_service_1_GE = 18.
Proof. reflexivity. Qed.
