(* Proto/Accept.v — the handshake decision: broker/src/acceptor.rs
   (`select_protocol_version`, the `Connect`/`Connect2` arms of `Acceptor::new`, the replies of
   `new` on an incompatible version and of `accept`) and the client side of
   aldrin/src/client_builder.rs (`connect_with_data` sends Connect2 with 1.20 and accepts
   `ConnectResult::Ok(minor)` unless (1, minor) > 1.20; `connect1_with_data` sends Connect{14}).
   Versions are (major, minor) pairs of u32 values; ProtocolVersion orders lexicographically. *)
From Coq Require Import NArith List.
From Aldrin Require Import gen.AcceptConsts.
Import ListNotations.
Open Scope N_scope.

Definition version := (N * N)%type.

(* fn select_protocol_version(version, connect2) *)
Definition select (major minor : N) (connect2 : bool) : option version :=
  if negb (major =? fst ACCEPT_MIN) then None
  else if connect2 then
    if snd ACCEPT_MIN <=? minor
    then Some (fst ACCEPT_MIN, N.min minor (snd ACCEPT_MAX))
    else None
  else if minor =? snd ACCEPT_LEGACY_CMP then Some ACCEPT_LEGACY_RET
  else None.

(* the first message of a connection, as far as the handshake looks at it *)
Inductive hello :=
| HConnect (version : N)                 (* Message::Connect { version, .. } *)
| HConnect2 (major minor : N)            (* Message::Connect2 { major_version, minor_version, .. } *)
| HOther.                                (* any other message *)

Inductive broker_reply :=
| RNone                                  (* nothing is sent (unexpected message) *)
| RConnectReplyOk                        (* ConnectReply::Ok(data) *)
| RConnectReplyIncompatible (v : N)      (* ConnectReply::IncompatibleVersion(v) *)
| RConnectReply2Ok (minor : N)           (* ConnectReply2 { result: Ok(minor) } *)
| RConnectReply2Incompatible.            (* ConnectReply2 { result: IncompatibleVersion } *)

Inductive accept_result :=
| AUnexpected                            (* AcceptError::UnexpectedMessageReceived *)
| AIncompatible (requested : version)    (* AcceptError::IncompatibleVersion(requested) *)
| AAccepted (connect2 : bool) (v : version).

(* what Acceptor::new computes from the first message *)
Definition requested (h : hello) : option (bool * version) :=
  match h with
  | HConnect v => Some (false, (ACCEPT_CONNECT_MAJOR, v))
  | HConnect2 ma mi => Some (true, (ma, mi))
  | HOther => None
  end.

(* Acceptor::new followed by Acceptor::accept: the result and the reply the client sees *)
Definition accept (h : hello) : accept_result * broker_reply :=
  match requested h with
  | None => (AUnexpected, RNone)
  | Some (c2, (ma, mi)) =>
      match select ma mi c2 with
      | None => (AIncompatible (ma, mi),
                 if c2 then RConnectReply2Incompatible
                 else RConnectReplyIncompatible ACCEPT_INCOMPATIBLE_REPLY)
      | Some v => (AAccepted c2 v, if c2 then RConnectReply2Ok (snd v) else RConnectReplyOk)
      end
  end.

(* ---- client side (aldrin/src/client_builder.rs) *)
Definition CLIENT_VERSION : version := (1, 20).     (* connect_with_data: PROTOCOL_VERSION *)
Definition CLIENT1_VERSION : version := (1, 14).    (* connect1_with_data: PROTOCOL_VERSION *)

Definition version_ltb (a b : version) : bool :=
  (fst a <? fst b) || ((fst a =? fst b) && (snd a <? snd b)).

Inductive client_result :=
| KConnected (v : version)
| KIncompatible
| KUnexpected.

(* connect_with_data after sending Connect2(1,20) *)
Definition client_connect (r : broker_reply) : client_result :=
  match r with
  | RConnectReply2Ok minor =>
      let v := (fst CLIENT_VERSION, minor) in
      if version_ltb CLIENT_VERSION v then KIncompatible else KConnected v
  | RConnectReply2Incompatible => KIncompatible
  | _ => KUnexpected
  end.

(* connect1_with_data after sending Connect{14} *)
Definition client_connect1 (r : broker_reply) : client_result :=
  match r with
  | RConnectReplyOk => KConnected CLIENT1_VERSION
  | RConnectReplyIncompatible _ => KIncompatible
  | _ => KUnexpected
  end.
