(* Proto/AcceptProofs.v — C12, handshake part: the decision of select_protocol_version /
   Acceptor::new characterised with the literal numbers of the property statement. *)
From Coq Require Import NArith List Lia Bool.
From Aldrin Require Import gen.AcceptConsts Proto.Accept.
Open Scope N_scope.

(* tie: the constants the translator read from acceptor.rs are the ones the property names *)
Example accept_consts_tie :
  (ACCEPT_MIN, ACCEPT_MAX, ACCEPT_LEGACY_CMP, ACCEPT_LEGACY_RET, ACCEPT_CONNECT_MAJOR,
   ACCEPT_INCOMPATIBLE_REPLY) = ((1, 14), (1, 20), (1, 14), (1, 14), 1, 14).
Proof. reflexivity. Qed.

Lemma select_spec major minor c2 r :
  select major minor c2 = Some r <->
  major = 1 /\ ((c2 = true /\ 14 <= minor /\ r = (1, N.min minor 20)) \/
                (c2 = false /\ minor = 14 /\ r = (1, 14))).
Proof.
  unfold select. change (fst ACCEPT_MIN) with 1. change (snd ACCEPT_MIN) with 14.
  change (snd ACCEPT_MAX) with 20. change (snd ACCEPT_LEGACY_CMP) with 14.
  change ACCEPT_LEGACY_RET with (1, 14).
  destruct (N.eqb_spec major 1) as [->|Hm]; cbn [negb].
  - destruct c2.
    + destruct (N.leb_spec 14 minor) as [Hle|Hlt]; split.
      * intros [= <-]. split; [reflexivity|]. left. auto.
      * intros [_ [(_ & _ & ->)|(H & _)]]; [reflexivity|discriminate H].
      * discriminate.
      * intros [_ [(_ & H & _)|(H & _)]]; [lia|discriminate H].
    + destruct (N.eqb_spec minor 14) as [->|Hn]; split.
      * intros [= <-]. split; [reflexivity|]. right. auto.
      * intros [_ [(H & _)|(_ & _ & ->)]]; [discriminate H|reflexivity].
      * discriminate.
      * intros [_ [(H & _)|(_ & H & _)]]; [discriminate H|contradiction].
  - split; [discriminate|]. intros [H _]. contradiction.
Qed.

(* "the negotiated version is the minimum of the client's and 1.20", as versions *)
Lemma select_connect2_min minor : 14 <= minor ->
  select 1 minor true = Some (1, N.min minor 20).
Proof. intros H. apply select_spec. split; [reflexivity|]. left. auto. Qed.

Lemma select_none major minor c2 :
  select major minor c2 = None <->
  ~ (major = 1 /\ ((c2 = true /\ 14 <= minor) \/ (c2 = false /\ minor = 14))).
Proof.
  destruct (select major minor c2) as [r|] eqn:E.
  - apply select_spec in E. split; [discriminate|]. intros H. exfalso. apply H.
    destruct E as [E1 [(E2 & E3 & _)|(E2 & E3 & _)]]; split; auto.
  - split; [|reflexivity]. intros _ (H1 & H2).
    assert (exists r, select major minor c2 = Some r) as [r Hr].
    { destruct H2 as [(-> & H)|(-> & H)].
      - exists (1, N.min minor 20). apply select_spec. split; [assumption|]. left. auto.
      - exists (1, 14). apply select_spec. split; [assumption|]. right. auto. }
    rewrite E in Hr. discriminate.
Qed.

(* the whole decision of Acceptor::new + accept on the first message: accepted exactly in the two
   cases, and otherwise the client is told the version is incompatible in the dialect it spoke *)
Lemma accept_connect v :
  accept (HConnect v) =
  if v =? 14 then (AAccepted false (1, 14), RConnectReplyOk)
  else (AIncompatible (1, v), RConnectReplyIncompatible 14).
Proof.
  unfold accept, requested. change ACCEPT_CONNECT_MAJOR with 1.
  change ACCEPT_INCOMPATIBLE_REPLY with 14. unfold select.
  change (fst ACCEPT_MIN) with 1. change (snd ACCEPT_LEGACY_CMP) with 14.
  change ACCEPT_LEGACY_RET with (1, 14). cbn [N.eqb negb Pos.eqb].
  destruct (v =? 14); reflexivity.
Qed.

Lemma accept_connect2 ma mi :
  accept (HConnect2 ma mi) =
  if (ma =? 1) && (14 <=? mi) then (AAccepted true (1, N.min mi 20), RConnectReply2Ok (N.min mi 20))
  else (AIncompatible (ma, mi), RConnectReply2Incompatible).
Proof.
  unfold accept, requested, select.
  change (fst ACCEPT_MIN) with 1. change (snd ACCEPT_MIN) with 14. change (snd ACCEPT_MAX) with 20.
  destruct (ma =? 1); cbn [negb andb]; [|reflexivity].
  destruct (14 <=? mi); reflexivity.
Qed.

Lemma accept_other : accept HOther = (AUnexpected, RNone).
Proof. reflexivity. Qed.

(* the negotiated version always lies in 1.14 .. 1.20 *)
Lemma accepted_range h c2 v r : accept h = (AAccepted c2 v, r) -> fst v = 1 /\ 14 <= snd v <= 20.
Proof.
  destruct h as [x|ma mi|].
  - rewrite accept_connect. destruct (x =? 14); intros [= <- <- <-]; cbn; lia.
  - rewrite accept_connect2. destruct ((ma =? 1) && (14 <=? mi)) eqn:E; intros [= <- <- <-].
    apply andb_true_iff in E. destruct E as [_ E]. apply N.leb_le in E. cbn [fst snd]. lia.
  - rewrite accept_other. discriminate.
Qed.

(* both sides of a handshake with the crate's own client agree on the version *)
Lemma client_connect_agrees :
  let '(a, r) := accept (HConnect2 (fst CLIENT_VERSION) (snd CLIENT_VERSION)) in
  a = AAccepted true (1, 20) /\ client_connect r = KConnected (1, 20).
Proof. vm_compute. split; reflexivity. Qed.

Lemma client_connect1_agrees :
  let '(a, r) := accept (HConnect (snd CLIENT1_VERSION)) in
  a = AAccepted false (1, 14) /\ client_connect1 r = KConnected (1, 14).
Proof. vm_compute. split; reflexivity. Qed.

(* a client of ANY 1.x (x >= 14) that applies connect_with_data's acceptance test with its own
   version in place of 1.20 ends with the version the broker chose: min x 20 <= x *)
Lemma negotiated_le_client x : 14 <= x ->
  exists v, select 1 x true = Some (1, v) /\ v <= x /\ v <= 20 /\ 14 <= v.
Proof. intros H. exists (N.min x 20). rewrite select_connect2_min by assumption. repeat split; lia. Qed.

(* what the client does with each reply the broker can produce for Connect2(1, 20)/Connect(14),
   and with the incompatible replies *)
Lemma client_told_incompatible :
  client_connect RConnectReply2Incompatible = KIncompatible /\
  forall v, client_connect1 (RConnectReplyIncompatible v) = KIncompatible.
Proof. split; reflexivity. Qed.

(* "otherwise the client is told the version is incompatible": whenever the first message is a
   connect message and select refuses, the reply is the incompatible-version reply of the dialect
   the client spoke (legacy: with the number 14) *)
Lemma accept_incompatible h c2 ma mi :
  requested h = Some (c2, (ma, mi)) -> select ma mi c2 = None ->
  accept h = (AIncompatible (ma, mi),
              if c2 then RConnectReply2Incompatible else RConnectReplyIncompatible 14).
Proof. intros Hr Hs. unfold accept. rewrite Hr, Hs. reflexivity. Qed.

Lemma accept_accepted h c2 ma mi v :
  requested h = Some (c2, (ma, mi)) -> select ma mi c2 = Some v ->
  accept h = (AAccepted c2 v, if c2 then RConnectReply2Ok (snd v) else RConnectReplyOk).
Proof. intros Hr Hs. unfold accept. rewrite Hr, Hs. reflexivity. Qed.
