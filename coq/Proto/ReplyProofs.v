(* Proto/ReplyProofs.v — C06_reply_matching.  The 17 request kinds whose reply the broker emits in
   the very step in which it handles the request (create/destroy object, create/destroy service,
   query service info/version, subscribe event/service, (un)subscribe all events, create channel,
   close/claim channel end, sync, create/destroy/start/stop bus listener): when such a reply
   reaches Client::handle_message its serial is in the pending map of its kind.

   The composed system [rsys]: the FULL view with [sent_with]/[recv_with], the FIFO towards the
   broker and the FIFO from the broker.  The broker is any broker that keeps the reply contract:
   handling a request of one of these kinds appends exactly one reply of the same kind with the
   same serial to the client's stream, plus any number of messages that are not replies of these
   kinds; everything else it ever sends (other requests' consequences, other clients' activity)
   contains no reply of these kinds.  (Broker/Model.v: every such arm of [handle] does
   `send m c (…Reply serial …) None` exactly once on each path that does not fail, and the work
   loop [settle] only sends Shutdown, ChannelEndClosed, UnsubscribeEvent, UnsubscribeAllEvents,
   ServiceDestroyed, CallFunctionReply, EmitBusEvent and AbortFunctionCall.)  The client allocates
   serials like SerialMap::insert: a serial that is not in the map of that kind.

   Invariant: per kind, the pending serials are exactly the serials of the requests still
   travelling plus those of the replies still travelling, without repetition. *)
From stdpp Require Import gmap list.
From RecordUpdate Require Import RecordSet.
Import RecordSetNotations.
From Aldrin Require Import gen.ClientConsts Broker.Model Proto.ClientView.
Local Open Scope N_scope.

Inductive rkind :=
| KCreateObject | KDestroyObject | KCreateService | KDestroyService | KQueryInfo | KQueryVersion
| KSubscribeEvent | KSubscribeService | KSubAll | KUnsubAll | KCreateChannel | KClose | KClaim | KSync
| KCreateListener | KDestroyListener | KStartListener | KStopListener.

#[export] Instance rkind_eq_dec : EqDecision rkind.
Proof. solve_decision. Defined.

Definition rq (m : msg) : option (rkind * N) :=
  match m with
  | CreateObject s _ => Some (KCreateObject, s)
  | DestroyObject s _ => Some (KDestroyObject, s)
  | CreateService s _ _ _ | CreateService2 s _ _ _ => Some (KCreateService, s)
  | DestroyService s _ => Some (KDestroyService, s)
  | QueryServiceInfo s _ => Some (KQueryInfo, s)
  | QueryServiceVersion s _ => Some (KQueryVersion, s)
  | SubscribeEvent (Some s) _ _ => Some (KSubscribeEvent, s)
  | SubscribeService s _ => Some (KSubscribeService, s)
  | SubscribeAllEvents (Some s) _ => Some (KSubAll, s)
  | UnsubscribeAllEvents (Some s) _ => Some (KUnsubAll, s)
  | CreateChannel s _ => Some (KCreateChannel, s)
  | CloseChannelEnd s _ _ => Some (KClose, s)
  | ClaimChannelEnd s _ _ => Some (KClaim, s)
  | Sync s => Some (KSync, s)
  | CreateBusListener s => Some (KCreateListener, s)
  | DestroyBusListener s _ => Some (KDestroyListener, s)
  | StartBusListener s _ _ => Some (KStartListener, s)
  | StopBusListener s _ => Some (KStopListener, s)
  | _ => None
  end.

Definition rp (m : msg) : option (rkind * N) :=
  match m with
  | CreateObjectReply s _ => Some (KCreateObject, s)
  | DestroyObjectReply s _ => Some (KDestroyObject, s)
  | CreateServiceReply s _ => Some (KCreateService, s)
  | DestroyServiceReply s _ => Some (KDestroyService, s)
  | QueryServiceInfoReply s _ => Some (KQueryInfo, s)
  | QueryServiceVersionReply s _ => Some (KQueryVersion, s)
  | SubscribeEventReply s _ => Some (KSubscribeEvent, s)
  | SubscribeServiceReply s _ => Some (KSubscribeService, s)
  | SubscribeAllEventsReply s _ => Some (KSubAll, s)
  | UnsubscribeAllEventsReply s _ => Some (KUnsubAll, s)
  | CreateChannelReply s _ => Some (KCreateChannel, s)
  | CloseChannelEndReply s _ => Some (KClose, s)
  | ClaimChannelEndReply s _ => Some (KClaim, s)
  | SyncReply s => Some (KSync, s)
  | CreateBusListenerReply s _ => Some (KCreateListener, s)
  | DestroyBusListenerReply s _ => Some (KDestroyListener, s)
  | StartBusListenerReply s _ => Some (KStartListener, s)
  | StopBusListenerReply s _ => Some (KStopListener, s)
  | _ => None
  end.

Definition pend (v : view) (K : rkind) (s : N) : bool :=
  match K with
  | KCreateObject => bool_decide (s ∈ p_create_object v)
  | KDestroyObject => bool_decide (s ∈ p_destroy_object v)
  | KCreateService => bool_decide (s ∈ p_create_service v)
  | KDestroyService => bool_decide (is_Some (p_destroy_service v !! s))
  | KQueryInfo => bool_decide (s ∈ p_query_info v)
  | KQueryVersion => bool_decide (s ∈ p_query_version v)
  | KSubscribeEvent => bool_decide (s ∈ p_subscribe_event v)
  | KSubscribeService => bool_decide (s ∈ p_subscribe_service v)
  | KSubAll => bool_decide (s ∈ p_sub_all v)
  | KUnsubAll => bool_decide (s ∈ p_unsub_all v)
  | KCreateChannel => bool_decide (is_Some (p_create_channel v !! s))
  | KClose => bool_decide (is_Some (p_close v !! s))
  | KClaim => bool_decide (is_Some (p_claim v !! s))
  | KSync => bool_decide (s ∈ p_sync v)
  | KCreateListener => bool_decide (s ∈ p_create_bl v)
  | KDestroyListener => bool_decide (is_Some (p_destroy_bl v !! s))
  | KStartListener => bool_decide (is_Some (p_start_bl v !! s))
  | KStopListener => bool_decide (is_Some (p_stop_bl v !! s))
  end.

(* ---------------------------------------------------------------- the view side *)
Ltac bd := repeat first [rewrite bool_decide_eq_true_2 by set_solver | rewrite bool_decide_eq_true_2 by (rewrite lookup_insert; eauto)].

Ltac opt_serial := try match goal with serial : option N |- _ => destruct serial end.

Lemma sent_registers b v m K s : rq m = Some (K, s) -> pend (sent_with b v m) K s = true.
Proof.
  destruct m; opt_serial; cbn; intros H; try discriminate; inversion H; subst; cbn;
    apply bool_decide_eq_true_2; try set_solver; rewrite lookup_insert; eauto.
Qed.

Lemma sent_other b v m K s : rq m <> Some (K, s) -> pend (sent_with b v m) K s = pend v K s.
Proof.
  intros H. destruct m; opt_serial; cbn in *; try reflexivity; destruct K; cbn; try reflexivity;
    apply bool_decide_ext;
    first [ rewrite elem_of_union, elem_of_singleton; split; [intros [->|Hx]; [exfalso; apply H; reflexivity|exact Hx]|auto]
          | destruct (decide (s = serial)) as [->|Hne]; [exfalso; apply H; reflexivity|rewrite lookup_insert_ne by congruence; reflexivity]
          | destruct (decide (s = n)) as [->|Hne]; [exfalso; apply H; reflexivity|rewrite lookup_insert_ne by congruence; reflexivity] ].
Qed.

(* handling a message touches no pending serial except the one the message answers *)
Lemma side_pend v e f K s : pend (set_side v e f) K s = pend v K s.
Proof. destruct v, e, K; reflexivity. Qed.

Lemma recv_pend a al v m v' out K s :
  recv_with a al v m = Acc v' out -> rp m <> Some (K, s) -> pend v' K s = pend v K s.
Proof.
  intros H Hne. destruct m; cbn in H; unfold take, has_serial in H;
    repeat (case_match; try discriminate); simplify_eq; rewrite ?side_pend; try reflexivity;
    destruct K; cbn; try reflexivity; apply bool_decide_ext;
    first [ rewrite elem_of_difference, elem_of_singleton; split; [tauto|]; intros Hx; split; [exact Hx|]; intros ->; apply Hne; reflexivity
          | rewrite lookup_delete_ne; [reflexivity|]; intros <-; apply Hne; reflexivity ].
Qed.

Lemma recv_consumes a al v m v' out K s :
  recv_with a al v m = Acc v' out -> rp m = Some (K, s) -> pend v' K s = false.
Proof.
  intros H Hk. destruct m; cbn in Hk; try discriminate; inversion Hk; subst; cbn in H; unfold take, has_serial in H;
    repeat (case_match; try discriminate); simplify_eq; rewrite ?side_pend; cbn;
    apply bool_decide_eq_false_2;
    first [ set_solver | rewrite lookup_delete; intros [? ?]; discriminate | (intros [? Hx]; congruence) | idtac ].
Qed.

Lemma recv_out_no_request a al v m v' out : recv_with a al v m = Acc v' out -> omap rq out = [].
Proof.
  intros H. destruct m; cbn in H; unfold take, has_serial in H;
    repeat (case_match; try discriminate); simplify_eq; reflexivity.
Qed.

(* ---------------------------------------------------------------- the composed system *)
Record rsys := { r_v : view; r_up : list msg; r_down : list msg }.

Inductive rop :=
| RSend (m : msg) (claimed : bool)     (* the client sends m (req_* handlers) *)
| RBroker (outs : list msg)            (* the broker handles the next request and appends outs to the client's stream *)
| RNotify (outs : list msg)            (* consequences of other clients' activity *)
| RRecv (svc_alive : bool).            (* the client handles the next message *)

(* the reply contract of the broker *)
Definition contract (m : msg) (outs : list msg) : Prop :=
  omap rp outs = match rq m with Some key => [key] | None => [] end.

#[export] Instance contract_dec m outs : Decision (contract m outs).
Proof. unfold contract. apply _. Defined.

Inductive rres := ROk' (y : rsys) | RStop | RDisabled | RUnmatched (K : rkind) (s : N).

Definition rstep (asserts : bool) (y : rsys) (o : rop) : rres :=
  match o with
  | RSend m claimed =>
      match rq m with
      | Some (K, s) => if pend (r_v y) K s then RDisabled    (* SerialMap::insert: a serial not in the map *)
                       else ROk' {| r_v := sent_with claimed (r_v y) m; r_up := r_up y ++ [m]; r_down := r_down y |}
      | None => ROk' {| r_v := sent_with claimed (r_v y) m; r_up := r_up y ++ [m]; r_down := r_down y |}
      end
  | RBroker outs =>
      match r_up y with
      | m :: u => if bool_decide (contract m outs)
                  then ROk' {| r_v := r_v y; r_up := u; r_down := r_down y ++ outs |} else RDisabled
      | [] => RDisabled
      end
  | RNotify outs =>
      if bool_decide (omap rp outs = []) then ROk' {| r_v := r_v y; r_up := r_up y; r_down := r_down y ++ outs |} else RDisabled
  | RRecv alive =>
      match r_down y with
      | m :: d =>
          match rp m with
          | Some (K, s) => if pend (r_v y) K s then
                             match recv_with asserts alive (r_v y) m with
                             | Acc v' out => ROk' {| r_v := v'; r_up := r_up y ++ out; r_down := d |}
                             | _ => RStop     (* refused for another reason than its serial: other theorems *)
                             end
                           else RUnmatched K s
          | None => match recv_with asserts alive (r_v y) m with
                    | Acc v' out => ROk' {| r_v := v'; r_up := r_up y ++ out; r_down := d |}
                    | _ => RStop
                    end
          end
      | [] => RDisabled
      end
  end.

Fixpoint rrun (asserts : bool) (y : rsys) (l : list rop) : rres :=
  match l with
  | [] => ROk' y
  | o :: r => match rstep asserts y o with
              | ROk' y' => rrun asserts y' r
              | RDisabled => rrun asserts y r
              | bad => bad
              end
  end.

Definition keys (y : rsys) : list (rkind * N) := omap rq (r_up y) ++ omap rp (r_down y).

Record RInv (y : rsys) : Prop := {
  ri_pend : forall K s, pend (r_v y) K s = true <-> (K, s) ∈ keys y;
  ri_nodup : NoDup (keys y) }.

Lemma pend_view0 ver K s : pend (view0 ver) K s = false.
Proof. destruct K; cbn; apply bool_decide_eq_false_2; try set_solver; rewrite lookup_empty; intros [? ?]; discriminate. Qed.

Lemma rinv_init ver : RInv {| r_v := view0 ver; r_up := []; r_down := [] |}.
Proof.
  constructor; cbn.
  - intros K s. rewrite pend_view0. split; [discriminate|]. intros H. inversion H.
  - constructor.
Qed.

Lemma rinv_step asserts y o :
  RInv y ->
  match rstep asserts y o with
  | ROk' y' => RInv y'
  | RUnmatched _ _ => False
  | _ => True
  end.
Proof.
  intros [I1 I2]. destruct o as [m claimed|outs|outs|alive]; cbn [rstep].
  - (* RSend *)
    assert (Hsend : forall key, rq m = key ->
              (forall K s, key = Some (K, s) -> pend (r_v y) K s = false) ->
              RInv {| r_v := sent_with claimed (r_v y) m; r_up := r_up y ++ [m]; r_down := r_down y |}).
    { intros key Hkey Hfresh. unfold keys in *. constructor; cbn; unfold keys; cbn; rewrite omap_app; cbn; rewrite Hkey.
      - intros K s. destruct key as [[K0 s0]|].
        + destruct (decide ((K0, s0) = (K, s))) as [E|Hne].
          * inversion E; subst. rewrite (sent_registers claimed _ _ _ _ Hkey). split; [intros _|reflexivity].
            rewrite !elem_of_app, elem_of_list_singleton. auto.
          * rewrite sent_other by (rewrite Hkey; congruence). rewrite I1, !elem_of_app, elem_of_list_singleton.
            split; [intros [H|H]; auto|intros [[H|H]|H]; auto]. congruence.
        + rewrite sent_other by (rewrite Hkey; discriminate). rewrite app_nil_r. apply I1.
      - destruct key as [[K0 s0]|]; [|rewrite app_nil_r; exact I2].
        assert (Hnot : (K0, s0) ∉ omap rq (r_up y) ++ omap rp (r_down y)).
        { intros Hin. apply I1 in Hin. rewrite (Hfresh K0 s0 eq_refl) in Hin. discriminate. }
        rewrite <- app_assoc. apply NoDup_app in I2. destruct I2 as (N1 & N2 & N3).
        apply NoDup_app. split; [exact N1|]. split.
        + intros x Hx Hx'. apply elem_of_cons in Hx'. destruct Hx' as [->|Hx']; [apply Hnot; apply elem_of_app; auto|eapply N2; eassumption].
        + apply NoDup_cons. split; [|exact N3]. intros Hx. apply Hnot. apply elem_of_app. auto. }
    destruct (rq m) as [[K s]|] eqn:Erq.
    + destruct (pend (r_v y) K s) eqn:Ep; [exact Logic.I|]. apply (Hsend _ eq_refl). intros K' s' E. inversion E; subst. exact Ep.
    + apply (Hsend _ eq_refl). discriminate.
  - (* RBroker *)
    destruct (r_up y) as [|m u] eqn:Eu; [exact Logic.I|].
    destruct (bool_decide (contract m outs)) eqn:Ec; [|exact Logic.I]. apply bool_decide_eq_true in Ec. unfold contract in Ec.
    unfold keys in *. rewrite Eu in *. cbn in I1, I2.
    constructor; cbn; unfold keys; cbn; rewrite omap_app, Ec.
    + intros K s. rewrite I1. destruct (rq m) as [key|]; cbn.
      * set_solver.
      * rewrite app_nil_r. reflexivity.
    + destruct (rq m) as [key|]; cbn in *; [|rewrite app_nil_r; exact I2].
      apply NoDup_cons in I2. destruct I2 as [Hn Hd]. rewrite app_assoc. apply NoDup_app. split; [exact Hd|].
      split; [|apply NoDup_singleton]. intros x Hx Hx'. apply elem_of_list_singleton in Hx'. subst. contradiction.
  - (* RNotify *)
    destruct (bool_decide (omap rp outs = [])) eqn:Ec; [|exact Logic.I]. apply bool_decide_eq_true in Ec.
    unfold keys in *. constructor; cbn; unfold keys; cbn; rewrite omap_app, Ec, app_nil_r; assumption.
  - (* RRecv *)
    destruct (r_down y) as [|m d] eqn:Ed; [exact Logic.I|].
    assert (Hacc : forall v' out, recv_with asserts alive (r_v y) m = Acc v' out ->
                   RInv {| r_v := v'; r_up := r_up y ++ out; r_down := d |}).
    { intros v' out Hr. pose proof (recv_out_no_request _ _ _ _ _ _ Hr) as Hout.
      unfold keys in *. rewrite Ed in *. cbn in I1, I2.
      constructor; cbn; unfold keys; cbn; rewrite omap_app, Hout, app_nil_r.
      - intros K s. destruct (rp m) as [[K0 s0]|] eqn:Erp.
        + destruct (decide ((K0, s0) = (K, s))) as [E|Hne].
          * inversion E; subst. rewrite (recv_consumes _ _ _ _ _ _ _ _ Hr Erp). split; [discriminate|].
            intros Hin. exfalso. apply NoDup_app in I2. destruct I2 as (N1 & N2 & N3). apply NoDup_cons in N3.
            apply elem_of_app in Hin. destruct Hin as [Hin|Hin]; [eapply N2; [exact Hin|left]|apply N3; exact Hin].
          * rewrite (recv_pend _ _ _ _ _ _ _ _ Hr) by (rewrite Erp; congruence). rewrite I1, !elem_of_app, elem_of_cons.
            split; [intros [H|[H|H]]; auto; congruence|intros [H|H]; auto].
        + rewrite (recv_pend _ _ _ _ _ _ _ _ Hr) by (rewrite Erp; discriminate). apply I1.
      - destruct (rp m) as [key|]; [|exact I2].
        apply NoDup_app in I2. destruct I2 as (N1 & N2 & N3). apply NoDup_cons in N3. destruct N3 as [N3 N4].
        apply NoDup_app. split; [exact N1|]. split; [|exact N4]. intros x Hx Hx'. eapply N2; [exact Hx|right; exact Hx']. }
    destruct (rp m) as [[K s]|] eqn:Erp.
    + assert (Hp : pend (r_v y) K s = true).
      { apply I1. unfold keys. rewrite Ed. cbn. rewrite Erp. apply elem_of_app. right. left. }
      rewrite Hp. destruct (recv_with asserts alive (r_v y) m) eqn:Er; try exact Logic.I. eapply Hacc. reflexivity.
    + destruct (recv_with asserts alive (r_v y) m) eqn:Er; try exact Logic.I. eapply Hacc. reflexivity.
Qed.

Theorem reply_matching asserts ver ops :
  forall K s, rrun asserts {| r_v := view0 ver; r_up := []; r_down := [] |} ops <> RUnmatched K s.
Proof.
  assert (G : forall ops y, RInv y -> forall K s, rrun asserts y ops <> RUnmatched K s).
  { clear ops. induction ops as [|o ops IH]; intros y I K s; cbn [rrun]; [discriminate|].
    pose proof (rinv_step asserts y o I) as H. destruct (rstep asserts y o); try contradiction; try discriminate.
    - apply IH. exact H.
    - apply IH. exact I. }
  intros K s. apply G. apply rinv_init.
Qed.
