(* Proto/BusListenerProofs.v — C10_flags: after ANY sequence of add/remove/clear the cached flags
   of the broker's BusListener equal their defining predicates over the filter set, the filter
   set is the one the abstract machine keeps, the flag-using match functions equal the plain
   scans of Model.v, the unreachable!() arms of specific_objects/specific_services are not
   reachable, and the flag-selected enumeration of start_bus_listener reports the same entities
   (as a permutation: HashMap/HashSet iteration order) as the abstract machine's scan. *)
From stdpp Require Import gmap list.
From Aldrin Require Import gen.BrokerConsts Broker.Model Proto.BusListener.
Local Open Scope N_scope.

Lemma filter_eqb_eq a b : filter_eqb a b = true <-> a = b.
Proof.
  destruct a as [x|x1 x2], b as [y|y1 y2]; cbn; try (split; [discriminate|discriminate]).
  - rewrite bool_decide_eq_true. split; congruence.
  - rewrite andb_true_iff, !bool_decide_eq_true. split; [intros [-> ->]; reflexivity|intros [= -> ->]; auto].
Qed.

Lemma filter_eqb_refl a : filter_eqb a a = true.
Proof. apply filter_eqb_eq. reflexivity. Qed.

Lemma existsb_eqb_In f fs : existsb (filter_eqb f) fs = true <-> In f fs.
Proof.
  rewrite existsb_exists. split.
  - intros (g & Hg & He). apply filter_eqb_eq in He. subst. exact Hg.
  - intros H. exists f. split; [exact H|apply filter_eqb_refl].
Qed.

Lemma In_filters_insert f g fs : In g (filters_insert f fs) <-> g = f \/ In g fs.
Proof.
  unfold filters_insert. destruct (existsb (filter_eqb f) fs) eqn:E.
  - apply existsb_eqb_In in E. split; [auto|]. intros [->|H]; assumption.
  - rewrite in_app_iff. cbn. split; [intros [H|[H|[]]]; auto|intros [H|H]; auto].
Qed.

Lemma In_filters_remove f g fs : In g (filters_remove f fs) <-> g <> f /\ In g fs.
Proof.
  unfold filters_remove. rewrite filter_In. split.
  - intros [H Hn]. split; [|exact H]. intros ->. rewrite filter_eqb_refl in Hn. discriminate.
  - intros [Hne H]. split; [exact H|]. destruct (filter_eqb f g) eqn:E; [|reflexivity].
    apply filter_eqb_eq in E. congruence.
Qed.

Lemma NoDup_filters_insert f fs : NoDup fs -> NoDup (filters_insert f fs).
Proof.
  intros H. unfold filters_insert. destruct (existsb (filter_eqb f) fs) eqn:E; [exact H|].
  apply NoDup_app. split; [exact H|]. split; [|apply NoDup_singleton].
  intros g Hg Hs. apply elem_of_list_singleton in Hs. subst g.
  apply elem_of_list_In, existsb_eqb_In in Hg. congruence.
Qed.

Lemma NoDup_filters_remove f fs : NoDup fs -> NoDup (filters_remove f fs).
Proof.
  unfold filters_remove. induction 1 as [|a l Hn _ IH]; cbn; [constructor|].
  destruct (negb (filter_eqb f a)); [|exact IH]. constructor; [|exact IH].
  intros Hin. apply Hn. apply elem_of_list_In. apply elem_of_list_In, filter_In in Hin as [Hin _]. exact Hin.
Qed.

(* the invariant: flags = their defining predicates; the set has no duplicates *)
Record blis_ok (b : blis) : Prop := {
  ok_all : b_all_obj b = existsb is_all_objects (b_filters b);
  ok_spec : b_spec_svc b = forallb is_specific (b_filters b);
  ok_nodup : NoDup (b_filters b) }.

Lemma existsb_insert (p : bfilter -> bool) f fs :
  existsb p (filters_insert f fs) = existsb p fs || p f.
Proof.
  unfold filters_insert. destruct (existsb (filter_eqb f) fs) eqn:E.
  - apply existsb_eqb_In in E. destruct (p f) eqn:Ep; [|rewrite orb_false_r; reflexivity].
    rewrite orb_true_r. apply existsb_exists. eauto.
  - rewrite existsb_app. cbn. rewrite orb_false_r. reflexivity.
Qed.

Lemma forallb_insert (p : bfilter -> bool) f fs :
  forallb p (filters_insert f fs) = forallb p fs && p f.
Proof.
  unfold filters_insert. destruct (existsb (filter_eqb f) fs) eqn:E.
  - apply existsb_eqb_In in E. destruct (p f) eqn:Ep; [rewrite andb_true_r; reflexivity|].
    rewrite andb_false_r. apply not_true_is_false. intros H. rewrite forallb_forall in H.
    rewrite (H f E) in Ep. discriminate.
  - rewrite forallb_app. cbn. rewrite andb_true_r. reflexivity.
Qed.

Lemma blis_new_ok : blis_ok blis_new.
Proof. split; cbn; [reflexivity|reflexivity|constructor]. Qed.

Lemma blis_apply_ok b o : blis_ok b -> blis_ok (blis_apply b o).
Proof.
  intros [H1 H2 H3]. destruct o as [f|f|]; cbn.
  - split; cbn.
    + rewrite existsb_insert, H1. reflexivity.
    + rewrite forallb_insert, H2. reflexivity.
    + apply NoDup_filters_insert, H3.
  - split; cbn; [reflexivity|reflexivity|apply NoDup_filters_remove, H3].
  - split; cbn; [reflexivity|reflexivity|constructor].
Qed.

Lemma blis_apply_filters b o : b_filters (blis_apply b o) = abs_apply (b_filters b) o.
Proof. destruct o; reflexivity. Qed.

Lemma blis_apply_scope b o : b_scope (blis_apply b o) = b_scope b.
Proof. destruct o; reflexivity. Qed.

(* C10_flags, history form *)
Theorem flags_after_history ops b :
  blis_ok b ->
  let b' := fold_left blis_apply ops b in
  blis_ok b' /\ b_filters b' = fold_left abs_apply ops (b_filters b) /\ b_scope b' = b_scope b.
Proof.
  revert b. induction ops as [|o ops IH]; intros b Hb; cbn; [auto|].
  destruct (IH (blis_apply b o) (blis_apply_ok b o Hb)) as (H1 & H2 & H3).
  split; [exact H1|]. rewrite H2, H3, blis_apply_filters, blis_apply_scope. auto.
Qed.

(* start/stop do not touch filters or flags *)
Lemma blis_start_ok sc b : blis_ok b -> blis_ok (blis_start sc b).1.
Proof. intros [H1 H2 H3]. unfold blis_start. destruct (b_scope b); cbn; split; assumption. Qed.
Lemma blis_stop_ok b : blis_ok b -> blis_ok (blis_stop b).1.
Proof. intros [H1 H2 H3]. split; assumption. Qed.

(* ---------------------------------------------------------------- the match functions *)
Theorem matches_object_plain b u : blis_ok b ->
  blis_matches_object b u = existsb (fun f => matches_object f u) (b_filters b).
Proof.
  intros [H1 _ _]. unfold blis_matches_object. rewrite H1.
  destruct (existsb is_all_objects (b_filters b)) eqn:E; [|reflexivity].
  cbn. symmetry. apply existsb_exists in E as (f & Hf & Ha). apply existsb_exists. exists f. split; [exact Hf|].
  destruct f as [[?|]|]; try discriminate Ha. reflexivity.
Qed.

Theorem matches_service_plain b ou su :
  blis_matches_service b ou su = existsb (fun f => matches_service f ou su) (b_filters b).
Proof. reflexivity. Qed.

(* the abstract machine's test in Model.bus *)
Theorem matches_new_event_plain b ev :
  blis_matches_new_event b ev =
  match b_scope b with
  | Some sc => includes_new sc && existsb (fun f => matches_event f ev) (b_filters b)
  | None => false
  end.
Proof. unfold blis_matches_new_event. destruct (b_scope b); reflexivity. Qed.

(* ---------------------------------------------------------------- the enumeration paths *)
Lemma spec_objs_spec fs :
  existsb is_all_objects fs = false ->
  exists us, spec_objs fs = Some us /\ (forall u, In u us <-> In (FObject (Some u)) fs) /\
             (NoDup fs -> NoDup us).
Proof.
  induction fs as [|f fs IH]; cbn [existsb spec_objs]; intros H.
  - exists []. split; [reflexivity|]. split; [tauto|]. intros _. constructor.
  - apply orb_false_iff in H as [Hf H]. destruct (IH H) as (us & E & Hin & Hnd).
    destruct f as [[u|]|o s]; [| discriminate Hf |].
    + exists (u :: us). rewrite E. split; [reflexivity|]. split.
      * intros v. cbn. rewrite Hin. split; [intros [->|?]; auto|intros [[= ->]|?]; auto].
      * intros Hn. apply NoDup_cons in Hn as [Hn1 Hn2]. apply NoDup_cons. split; [|auto].
        intros Hu. apply Hn1. apply elem_of_list_In, Hin, elem_of_list_In. exact Hu.
    + exists us. split; [exact E|]. split.
      * intros v. cbn. rewrite Hin. split; [auto|intros [Heq|?]; [discriminate Heq|assumption]].
      * intros Hn. apply NoDup_cons in Hn as [_ Hn2]. auto.
Qed.

Lemma spec_svcs_spec fs :
  forallb is_specific fs = true ->
  exists ks, spec_svcs fs = Some ks /\ (forall o s, In (o, s) ks <-> In (FService (Some o) (Some s)) fs) /\
             (NoDup fs -> NoDup ks).
Proof.
  induction fs as [|f fs IH]; cbn [forallb spec_svcs]; intros H.
  - exists []. split; [reflexivity|]. split; [tauto|]. intros _. constructor.
  - apply andb_true_iff in H as [Hf H]. destruct (IH H) as (ks & E & Hin & Hnd).
    destruct f as [?|[o|] [s|]]; try discriminate Hf.
    exists ((o, s) :: ks). rewrite E. split; [reflexivity|]. split.
    + intros o' s'. cbn. rewrite Hin. split; [intros [[= -> ->]|?]; auto|intros [[= -> ->]|?]; auto].
    + intros Hn. apply NoDup_cons in Hn as [Hn1 Hn2]. apply NoDup_cons. split; [|auto].
      intros Hu. apply Hn1. apply elem_of_list_In, Hin, elem_of_list_In. exact Hu.
Qed.

Lemma NoDup_filter' {A} (f : A -> bool) l : NoDup l -> NoDup (List.filter f l).
Proof.
  induction 1 as [|a l Hn _ IH]; cbn; [constructor|]. destruct (f a); [|exact IH].
  constructor; [|exact IH]. intros Hin. apply Hn. apply elem_of_list_In. apply elem_of_list_In, filter_In in Hin as [Hin _]. exact Hin.
Qed.

Lemma NoDup_omap_lookup `{Countable K} {V} (m : gmap K V) (ks : list K) :
  NoDup ks -> NoDup (omap (fun k => (fun v => (k, v)) <$> m !! k) ks).
Proof.
  induction 1 as [|k ks Hn _ IH]; cbn; [constructor|].
  destruct (m !! k) as [v|]; cbn; [|exact IH]. constructor; [|exact IH].
  intros Hin. apply elem_of_list_omap in Hin as (k' & Hk' & Heq).
  destruct (m !! k'); cbn in Heq; [|discriminate]. injection Heq as -> _. contradiction.
Qed.

Lemma elem_of_omap_lookup `{Countable K} {V} (m : gmap K V) (ks : list K) k v :
  (k, v) ∈ omap (fun k => (fun v => (k, v)) <$> m !! k) ks <-> k ∈ ks /\ m !! k = Some v.
Proof.
  rewrite elem_of_list_omap. split.
  - intros (k' & Hk' & Heq). destruct (m !! k') as [v'|] eqn:E; cbn in Heq; [|discriminate].
    injection Heq as -> ->. auto.
  - intros [Hk Hv]. exists k. split; [exact Hk|]. rewrite Hv. reflexivity.
Qed.

(* objects: the flag-selected enumeration never panics and reports exactly the objects the
   abstract machine's scan reports *)
Theorem current_objects_scan b os : blis_ok b ->
  exists l, current_objects b os = Some l /\
    l ≡ₚ List.filter (fun p : uuid * obj => existsb (fun f => matches_object f p.1) (b_filters b)) (map_to_list os).
Proof.
  intros Hb. pose proof Hb as [H1 _ H3]. unfold current_objects, blis_specific_objects.
  destruct (b_all_obj b) eqn:Ea.
  - eexists. split; [reflexivity|]. erewrite filter_ext; [reflexivity|].
    intros p. apply matches_object_plain. exact Hb.
  - clear Ea. symmetry in H1. pose proof H1 as Ea. destruct (spec_objs_spec _ Ea) as (us & E & Hin & Hnd). rewrite E.
    eexists. split; [reflexivity|]. apply NoDup_Permutation.
    + apply NoDup_omap_lookup, Hnd, H3.
    + apply NoDup_filter', NoDup_map_to_list.
    + intros [u o]. rewrite elem_of_omap_lookup.
      rewrite (elem_of_list_In (List.filter _ _)), filter_In, <- elem_of_list_In, elem_of_map_to_list.
      rewrite elem_of_list_In, Hin. cbn [fst]. split.
      * intros [Hf Ho]. split; [exact Ho|]. apply existsb_exists. exists (FObject (Some u)). split; [exact Hf|].
        cbn. apply bool_decide_eq_true. reflexivity.
      * intros [Ho Hm]. split; [|exact Ho]. apply existsb_exists in Hm as (f & Hf & Hm).
        destruct f as [[v|]|]; cbn in Hm; try discriminate Hm.
        -- apply bool_decide_eq_true in Hm. subst v. exact Hf.
        -- exfalso. assert (existsb is_all_objects (b_filters b) = true) by (apply existsb_exists; eauto).
           congruence.
Qed.

Theorem current_services_scan b ss : blis_ok b ->
  exists l, current_services b ss = Some l /\
    l ≡ₚ List.filter (fun p : (uuid * uuid) * svc => existsb (fun f => matches_service f p.1.1 p.1.2) (b_filters b)) (map_to_list ss).
Proof.
  intros Hb. pose proof Hb as [_ H2 H3]. unfold current_services, blis_specific_services.
  destruct (b_spec_svc b) eqn:Ea.
  2:{ eexists. split; reflexivity. }
  clear Ea. symmetry in H2. pose proof H2 as Ea. destruct (spec_svcs_spec _ Ea) as (ks & E & Hin & Hnd). rewrite E.
  eexists. split; [reflexivity|]. apply NoDup_Permutation.
  - apply NoDup_omap_lookup, Hnd, H3.
  - apply NoDup_filter', NoDup_map_to_list.
  - intros [[o s] sv]. rewrite elem_of_omap_lookup.
    rewrite (elem_of_list_In (List.filter _ _)), filter_In, <- elem_of_list_In, elem_of_map_to_list.
    rewrite elem_of_list_In, Hin. cbn [fst snd]. split.
    + intros [Hf Ho]. split; [exact Ho|]. apply existsb_exists. exists (FService (Some o) (Some s)). split; [exact Hf|].
      cbn. rewrite !bool_decide_eq_true_2 by reflexivity. reflexivity.
    + intros [Ho Hm]. split; [|exact Ho]. apply existsb_exists in Hm as (f & Hf & Hm).
      rewrite forallb_forall in Ea. specialize (Ea f Hf).
      destruct f as [?|[o'|] [s'|]]; try discriminate Ea. cbn in Hm.
      apply andb_true_iff in Hm as [Hm1 Hm2]. apply bool_decide_eq_true in Hm1, Hm2. subst. exact Hf.
Qed.

(* the unreachable!() arms are unreachable *)
Corollary specific_no_panic b : blis_ok b ->
  blis_specific_objects b <> Some None /\ blis_specific_services b <> Some None.
Proof.
  intros Hb. split.
  - destruct (current_objects_scan b ∅ Hb) as (l & E & _). unfold current_objects in E.
    intros H. rewrite H in E. discriminate.
  - destruct (current_services_scan b ∅ Hb) as (l & E & _). unfold current_services in E.
    intros H. rewrite H in E. discriminate.
Qed.
