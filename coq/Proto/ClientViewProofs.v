(* Proto/ClientViewProofs.v — the slices used by the composed-system theorems are the acceptance
   automaton [recv] restricted to one cookie: on every channel message about cookie k, [crecv] on
   the projection of the view gives the verdict of [recv] and the projection of its result
   ([crecv_is_recv]); likewise [lrecv] for one bus listener ([lrecv_is_recv]).  (For replies the
   pending entry decides which cookie the message is about: a reply whose pending entry names
   another cookie is not a message of this slice.) *)
From stdpp Require Import gmap list.
From RecordUpdate Require Import RecordSet.
Import RecordSetNotations.
From Aldrin Require Import gen.ClientConsts Broker.Model Proto.ClientView.
Local Open Scope N_scope.

(* ---------------------------------------------------------------- channel ends *)
(* x is the slice of v for cookie k (handles are not part of the view: they only receive the
   outcome of a claim) *)
Record crel (k : uuid) (v : view) (x : ccore) : Prop := {
  cr_es : k_es x = v_senders v !! k;
  cr_er : k_er x = v_receivers v !! k;
  cr_close : forall s e b, k_pclose x !! s = Some (e, b) <->
                           p_close v !! s = Some {| cq_cookie := k; cq_end := e; cq_claimed := b |};
  cr_claim : forall s e, (exists hid, k_pclaim x !! s = Some (e, hid)) <-> p_claim v !! s = Some (k, e) }.

(* the cookie a message is about, given the view's pending maps *)
Definition about (k : uuid) (v : view) (m : msg) : Prop :=
  match m with
  | CloseChannelEndReply s _ => forall q, p_close v !! s = Some q -> cq_cookie q = k
  | ClaimChannelEndReply s _ => forall c e, p_claim v !! s = Some (c, e) -> c = k
  | ChannelEndClosed c _ | ChannelEndClaimed c _ | ItemReceived c _ | AddChannelCapacity c _ => c = k
  | _ => False
  end.

Lemma ent_side k v x e : crel k v x -> ent x e = side_of v e !! k.
Proof. intros R. destruct e; cbn; [apply (cr_es _ _ _ R)|apply (cr_er _ _ _ R)]. Qed.

Lemma crel_set_ent k v x e st :
  crel k v x -> crel k (set_side v e <[k := st]>) (set_ent x e (Some st)).
Proof.
  intros [R1 R2 R3 R4]. destruct v, x, e; cbn in *; constructor; cbn; try assumption;
    rewrite lookup_insert; reflexivity.
Qed.

Lemma crel_del_ent k v x e :
  crel k v x -> crel k (set_side v e (delete k)) (set_ent x e None).
Proof.
  intros [R1 R2 R3 R4]. destruct v, x, e; cbn in *; constructor; cbn; try assumption;
    rewrite lookup_delete; reflexivity.
Qed.

Lemma crel_deliver k v x hid ok : crel k v x -> crel k v (deliver x hid ok).
Proof.
  intros [R1 R2 R3 R4]. unfold deliver. destruct (k_handles x !! hid) as [[e [| | |]]|]; try (constructor; assumption);
  destruct x; constructor; cbn in *; assumption.
Qed.

Theorem crecv_is_recv fl k v x m :
  crel k v x -> about k v m ->
  match crecv fl x m, recv_with (fl_close_asserts fl) true v m with
  | ROk x', Acc v' [] => crel k v' x'
  | RRej, Rej => True
  | RPan s, Pan s' => s = s'
  | _, _ => False
  end.
Proof.
  intros R Hab. pose proof R as [R1 R2 R3 R4]. destruct m; cbn in Hab; try contradiction; cbn [crecv recv_with].
  - (* CloseChannelEndReply *)
    destruct (p_close v !! serial) as [[ck ce cb]|] eqn:E.
    + pose proof (Hab _ eq_refl) as Hk. cbn in Hk. subst ck.
      rewrite (proj2 (R3 serial ce cb) E). cbn.
      assert (Rdel : crel k (v <| p_close ::= delete serial |>) (x <| k_pclose ::= delete serial |>)).
      { destruct v, x; constructor; cbn in *; try assumption.
        intros s e b. destruct (decide (s = serial)) as [->|Hne].
        - rewrite !lookup_delete. split; discriminate.
        - rewrite !lookup_delete_ne by congruence. apply R3. }
      destruct cb; cbn.
      * rewrite (ent_side k v x ce R). destruct (side_of v ce !! k) eqn:Es; cbn.
        -- rewrite andb_false_r. cbn. apply crel_del_ent. exact Rdel.
        -- rewrite andb_true_r. destruct (fl_close_asserts fl); [reflexivity|].
           replace (set_side (v <| p_close ::= delete serial |>) ce (delete k)) with (v <| p_close ::= delete serial |>) in *.
           ++ exact Rdel.
           ++ destruct v, ce; cbn in *; unfold set; cbn; f_equal; symmetry; apply delete_notin; exact Es.
      * exact Rdel.
    + destruct (k_pclose x !! serial) as [[e b]|] eqn:Ex; [|exact Logic.I].
      apply R3 in Ex. congruence.
  - (* ChannelEndClosed *)
    subst c. rewrite (ent_side k v x (other_end e) R).
    destruct (side_of v (other_end e) !! k) as [[]|]; try exact Logic.I; apply crel_set_ent; exact R.
  - (* ClaimChannelEndReply *)
    destruct (p_claim v !! serial) as [[ck ce]|] eqn:E.
    + pose proof (Hab _ _ eq_refl) as Hk. subst ck.
      destruct (proj2 (R4 serial ce) E) as [hid Hx]. rewrite Hx. cbn.
      assert (Rdel : crel k (v <| p_claim ::= delete serial |>) (x <| k_pclaim ::= delete serial |>)).
      { destruct v, x; constructor; cbn in *; try assumption.
        intros s e. destruct (decide (s = serial)) as [->|Hne].
        - rewrite !lookup_delete. split; [intros [h H]; discriminate|discriminate].
        - rewrite !lookup_delete_ne by congruence. apply R4. }
      assert (Hent : ent x ce = side_of v ce !! k) by (apply ent_side; exact R).
      destruct ce, r; cbn; try exact Logic.I.
      * cbn in Hent. rewrite Hent. destruct (v_senders v !! k); cbn; [reflexivity|].
        apply crel_deliver. apply (crel_set_ent k _ _ ESender EEstablished). exact Rdel.
      * apply crel_deliver. exact Rdel.
      * apply crel_deliver. exact Rdel.
      * cbn in Hent. rewrite Hent. destruct (v_receivers v !! k); cbn; [reflexivity|].
        apply crel_deliver. apply (crel_set_ent k _ _ EReceiver EEstablished). exact Rdel.
      * apply crel_deliver. exact Rdel.
      * apply crel_deliver. exact Rdel.
    + destruct (k_pclaim x !! serial) as [[e hid]|] eqn:Ex; [|exact Logic.I].
      assert (p_claim v !! serial = Some (k, e)) by (apply R4; eauto). congruence.
  - (* ChannelEndClaimed *)
    subst c. rewrite (ent_side k v x (other_end (end_of_cap e)) R).
    destruct (side_of v (other_end (end_of_cap e)) !! k) as [[]|]; try exact Logic.I; apply crel_set_ent; exact R.
  - (* AddChannelCapacity *)
    subst c. rewrite R1. destruct (v_senders v !! k) as [[]|]; try exact Logic.I; exact R.
  - (* ItemReceived *)
    subst c. rewrite R2. destruct (v_receivers v !! k) as [[]|]; try exact Logic.I; exact R.
Qed.

(* ---------------------------------------------------------------- bus listeners *)
Record lrel (k : uuid) (v : view) (z : lcore) : Prop := {
  lr_v : lc_v z = v_listeners v !! k;
  lr_start : forall s sc, lc_pstart z !! s = Some sc <-> p_start_bl v !! s = Some (k, sc);
  lr_stop : forall s, s ∈ lc_pstop z <-> p_stop_bl v !! s = Some k;
  lr_destroy : forall s, s ∈ lc_pdestroy z <-> p_destroy_bl v !! s = Some k }.

Definition labout (k : uuid) (v : view) (m : msg) : Prop :=
  match m with
  | StartBusListenerReply s _ => forall c sc, p_start_bl v !! s = Some (c, sc) -> c = k
  | StopBusListenerReply s _ => forall c, p_stop_bl v !! s = Some c -> c = k
  | DestroyBusListenerReply s _ => forall c, p_destroy_bl v !! s = Some c -> c = k
  | EmitBusEvent (Some c) _ | BusListenerCurrentFinished c => c = k
  | EmitBusEvent None _ => True
  | _ => False
  end.

Theorem lrecv_is_recv asserts alive k v z m :
  lrel k v z -> labout k v m ->
  match lrecv z m, recv_with asserts alive v m with
  | LcOk z', Acc v' [] => lrel k v' z'
  | LcRej, Rej => True
  | LcPan s, Pan s' => s = s'
  | _, _ => False
  end.
Proof.
  intros R Hab. pose proof R as [R1 R2 R3 R4]. destruct m; cbn in Hab; try contradiction; cbn [lrecv recv_with].
  - (* DestroyBusListenerReply *)
    destruct (p_destroy_bl v !! serial) as [c|] eqn:E.
    + pose proof (Hab _ eq_refl). subst c.
      rewrite bool_decide_eq_true_2 by (apply R4; exact E). cbn.
      assert (Rdel : lrel k (v <| p_destroy_bl ::= delete serial |>) (z <| lc_pdestroy ::= fun x => x ∖ {[serial]} |>)).
      { destruct v, z; constructor; cbn in *; try assumption.
        intros s. rewrite elem_of_difference, elem_of_singleton. destruct (decide (s = serial)) as [->|Hne].
        - rewrite lookup_delete. split; [intros [_ H]; contradiction|discriminate].
        - rewrite lookup_delete_ne by congruence. rewrite R4. tauto. }
      destruct ok; cbn; [|exact Rdel].
      rewrite R1. destruct (v_listeners v !! k) eqn:El; cbn; [|reflexivity].
      destruct Rdel as [D1 D2 D3 D4]. destruct v, z; constructor; cbn in *; try assumption. rewrite lookup_delete. reflexivity.
    + rewrite bool_decide_eq_false_2; [exact Logic.I|]. intros H. apply R4 in H. congruence.
  - (* StartBusListenerReply *)
    destruct (p_start_bl v !! serial) as [[c sc]|] eqn:E.
    + pose proof (Hab _ _ eq_refl). subst c. rewrite (proj2 (R2 serial sc) E).
      assert (Rdel : lrel k (v <| p_start_bl ::= delete serial |>) (z <| lc_pstart ::= delete serial |>)).
      { destruct v, z; constructor; cbn in *; try assumption.
        intros s sc0. destruct (decide (s = serial)) as [->|Hne].
        - rewrite !lookup_delete. split; discriminate.
        - rewrite !lookup_delete_ne by congruence. apply R2. }
      destruct r; cbn; try exact Rdel.
      rewrite R1. destruct (v_listeners v !! k) as [l|] eqn:El; cbn; [|exact Logic.I].
      destruct (l_start l sc); [|exact Logic.I].
      destruct Rdel as [D1 D2 D3 D4]. destruct v, z; constructor; cbn in *; try assumption. rewrite lookup_insert. reflexivity.
    + destruct (lc_pstart z !! serial) eqn:Ez; [|exact Logic.I]. apply R2 in Ez. congruence.
  - (* StopBusListenerReply *)
    destruct (p_stop_bl v !! serial) as [c|] eqn:E.
    + pose proof (Hab _ eq_refl). subst c.
      rewrite bool_decide_eq_true_2 by (apply R3; exact E). cbn.
      assert (Rdel : lrel k (v <| p_stop_bl ::= delete serial |>) (z <| lc_pstop ::= fun x => x ∖ {[serial]} |>)).
      { destruct v, z; constructor; cbn in *; try assumption.
        intros s. rewrite elem_of_difference, elem_of_singleton. destruct (decide (s = serial)) as [->|Hne].
        - rewrite lookup_delete. split; [intros [_ H]; contradiction|discriminate].
        - rewrite lookup_delete_ne by congruence. rewrite R3. tauto. }
      destruct r; cbn; try exact Rdel.
      rewrite R1. destruct (v_listeners v !! k) as [l|] eqn:El; cbn; [|exact Logic.I].
      destruct (l_stop l); [|exact Logic.I].
      destruct Rdel as [D1 D2 D3 D4]. destruct v, z; constructor; cbn in *; try assumption. rewrite lookup_insert. reflexivity.
    + rewrite bool_decide_eq_false_2; [exact Logic.I|]. intros H. apply R3 in H. congruence.
  - (* EmitBusEvent *)
    destruct c as [c|]; cbn in Hab |- *; [|exact R]. subst c.
    rewrite R1. destruct (v_listeners v !! k) as [l|]; cbn; [|exact Logic.I].
    destruct (l_emit_current l); [exact R|exact Logic.I].
  - (* BusListenerCurrentFinished *)
    subst c. rewrite R1. destruct (v_listeners v !! k) as [l|] eqn:El; cbn; [|exact Logic.I].
    destruct (l_current_finished l); [|exact Logic.I].
    destruct v, z; constructor; cbn in *; try assumption. rewrite lookup_insert. reflexivity.
Qed.

(* ---------------------------------------------------------------- one service *)
(* (abort handles are keyed by the broker's call serial, one set for all services of the client) *)
Record wrel (sc : uuid) (v : view) (z : wcore) : Prop := {
  wr_in : wc_in z = bool_decide (sc ∈ v_services v);
  wr_destroy : forall s, s ∈ wc_pdestroy z <-> p_destroy_service v !! s = Some sc;
  wr_aborts : wc_aborts z = v_aborts v }.

Definition wabout (sc : uuid) (v : view) (m : msg) : Prop :=
  match m with
  | DestroyServiceReply s _ => forall c, p_destroy_service v !! s = Some c -> c = sc
  | CallFunction _ c _ _ | CallFunction2 _ c _ _ _ => c = sc
  | AbortFunctionCall _ => CMIN_ABORT_FUNCTION_CALL <= v_ver v     (* the broker sends it to 1.16+ clients only *)
  | _ => False
  end.

Theorem wrecv_is_recv asserts alive sc v z m :
  wrel sc v z -> wabout sc v m ->
  match wrecv alive z m, recv_with asserts alive v m with
  | WcOk z', Acc v' _ => wrel sc v' z'
  | WcRej, Rej => True
  | WcPan s, Pan s' => s = s'
  | _, _ => False
  end.
Proof.
  intros R Hab. pose proof R as [R1 R2 R3]. destruct m; cbn in Hab; try contradiction; cbn [wrecv recv_with].
  - (* DestroyServiceReply *)
    destruct (p_destroy_service v !! serial) as [c|] eqn:E.
    + pose proof (Hab _ eq_refl). subst c. rewrite bool_decide_eq_true_2 by (apply R2; exact E). cbn.
      assert (Rdel : wrel sc (v <| p_destroy_service ::= delete serial |>) (z <| wc_pdestroy ::= fun x => x ∖ {[serial]} |>)).
      { destruct v, z; constructor; cbn in *; try assumption.
        intros s. rewrite elem_of_difference, elem_of_singleton. destruct (decide (s = serial)) as [->|Hne].
        - rewrite lookup_delete. split; [intros [_ H]; contradiction|discriminate].
        - rewrite lookup_delete_ne by congruence. rewrite R2. tauto. }
      destruct r; cbn; try exact Rdel; [|reflexivity].
      rewrite R1. destruct (bool_decide (sc ∈ v_services v)) eqn:Es; cbn; [|reflexivity].
      destruct Rdel as [D1 D2 D3]. destruct v, z; constructor; cbn in *; try assumption.
      symmetry. apply bool_decide_eq_false_2. set_solver.
    + rewrite bool_decide_eq_false_2; [exact R|]. intros H. apply R2 in H. congruence.
  - (* CallFunction *)
    subst sc0. rewrite R1. destruct (bool_decide (sc ∈ v_services v)) eqn:Es; cbn; [|reflexivity].
    destruct alive; [|exact R]. rewrite R3. destruct (bool_decide (serial ∈ v_aborts v)); [reflexivity|].
    destruct v, z; constructor; cbn in *; [rewrite Es; assumption|assumption|congruence].
  - (* CallFunction2 *)
    subst sc0. rewrite R1. destruct (bool_decide (sc ∈ v_services v)) eqn:Es; cbn; [|reflexivity].
    destruct alive; [|exact R]. rewrite R3. destruct (bool_decide (serial ∈ v_aborts v)); [reflexivity|].
    destruct v, z; constructor; cbn in *; [rewrite Es; assumption|assumption|congruence].
  - (* AbortFunctionCall *)
    rewrite (proj2 (N.leb_le _ _) Hab).
    destruct v, z; constructor; cbn in *; [assumption|assumption|congruence].
Qed.
