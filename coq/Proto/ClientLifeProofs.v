(* Proto/ClientLifeProofs.v — proofs about the automaton of Proto/ClientLife.v.

   1. ownership: every waiter ever created (id < nextw) occurs exactly once in
      queue ++ maps ++ resolved, for every state and every input ([bal_step], [partition_run]);
      when the phase is Done the queue and the maps are empty ([wf_run]).
   2. termination: a transport fault takes every non-Done phase to Done(Transport e) in one step
      ([fault_done]); Done is stable ([done_stable_run]); the clean causes lead to Draining and
      Draining ends with Ok as soon as the peer's Shutdown (if awaited) and the flush result have
      arrived ([drain_ok], [returns_clean]).
   3. Select: a source that stays ready is selected within four calls ([select_fair]). *)
From Coq Require Import NArith ZArith List Bool Lia.
From Aldrin Require Import Proto.ClientLife.
Import ListNotations.
Open Scope N_scope.

(* ------------------------------------------------------------------ counting *)
Definition cnt (w : waiter) (l : list waiter) : nat := count_occ N.eq_dec l w.
Definition ind (o : option waiter) (w : waiter) : nat := cnt w (ows o).
Definition rws (s : cstate) : list waiter := map fst (resolved s).
Definition below (w n : N) : nat := if w <? n then 1%nat else 0%nat.

Lemma cnt_app w a b : cnt w (a ++ b) = (cnt w a + cnt w b)%nat.
Proof. apply count_occ_app. Qed.
Lemma cnt_nil w : cnt w [] = 0%nat.
Proof. reflexivity. Qed.
Lemma ind_None w : ind None w = 0%nat.
Proof. reflexivity. Qed.
Lemma cnt_cons_ows w o l : cnt w (ows o ++ l) = (ind o w + cnt w l)%nat.
Proof. apply cnt_app. Qed.

Lemma mws_cons e l : mws (e :: l) = ows (ew e) ++ mws l.
Proof. reflexivity. Qed.
Lemma qws_app a b : qws (a ++ b) = qws a ++ qws b.
Proof. unfold qws. apply flat_map_app. Qed.
Lemma mws_app a b : mws (a ++ b) = mws a ++ mws b.
Proof. unfold mws. apply flat_map_app. Qed.

Lemma below_succ w n : below w (n + 1) = (below w n + ind (Some n) w)%nat.
Proof.
  unfold below, ind, cnt, ows. cbn [count_occ].
  destruct (N.eq_dec n w) as [->|Hne].
  - rewrite N.ltb_irrefl. replace (w <? w + 1) with true by (symmetry; apply N.ltb_lt; lia). reflexivity.
  - destruct (w <? n) eqn:A; destruct (w <? n + 1) eqn:B; try reflexivity.
    + apply N.ltb_lt in A. apply N.ltb_ge in B. lia.
    + apply N.ltb_ge in A. apply N.ltb_lt in B. lia.
Qed.

Lemma take_cnt w m k l x l' :
  take m k l = (x, l') ->
  cnt w (mws l) = (cnt w (mws l') + ind (ewo x) w)%nat.
Proof.
  revert x l'. induction l as [|e r IH]; intros x l' H; cbn [take] in H.
  - inversion H; subst. reflexivity.
  - destruct (same m k e).
    + inversion H; subst. rewrite mws_cons, cnt_cons_ows. cbn [ewo]. lia.
    + destruct (take m k r) as [y r'] eqn:E. inversion H; subst.
      rewrite !mws_cons, !cnt_cons_ows, (IH _ _ eq_refl). lia.
Qed.

Lemma filter_cnt w p l :
  cnt w (mws l) = (cnt w (mws (filter p l)) + cnt w (mws (filter (fun e => negb (p e)) l)))%nat.
Proof.
  induction l as [|e r IH]; [reflexivity|].
  cbn [filter]. destruct (p e); cbn [negb]; rewrite !mws_cons, !cnt_cons_ows, IH; lia.
Qed.

Lemma map_fst_dropped l : map fst (map (fun w : waiter => (w, Dropped)) l) = l.
Proof. induction l; [reflexivity|]. cbn. now f_equal. Qed.

(* ------------------------------------------------------------------ the balance of one waiter *)
Section Bal.
Variable w : waiter.

Definition tot (s : cstate) : nat :=
  (cnt w (qws (queue s)) + cnt w (mws (maps s)) + cnt w (rws s))%nat.
(* 0 iff w occurs exactly once among queue, maps and resolved when it has been created, never otherwise *)
Definition bal (s : cstate) : Z := (Z.of_nat (tot s) - Z.of_nat (below w (nextw s)))%Z.
Definition i (o : option waiter) : Z := Z.of_nat (ind o w).

Lemma i_None : i None = 0%Z.
Proof. reflexivity. Qed.

Lemma bal_send k x s : bal (send k x s) = bal s.
Proof. reflexivity. Qed.
Lemma bal_send_n n k s : bal (send_n n k s) = bal s.
Proof. revert s. induction n; intro s; [reflexivity|]. cbn [send_n]. now rewrite IHn, bal_send. Qed.
Lemma bal_set_phase p s : bal (set_phase p s) = bal s.
Proof. reflexivity. Qed.
Lemma bal_set_flush b s : bal (set_flush b s) = bal s.
Proof. reflexivity. Qed.
Lemma bal_set_nh n s : bal (set_nh n s) = bal s.
Proof. reflexivity. Qed.
Lemma bal_set_nexts f s : bal (set_nexts f s) = bal s.
Proof. reflexivity. Qed.

Lemma bal_resolve o out s : bal (resolve o out s) = (bal s + i o)%Z.
Proof.
  destruct o as [x|]; [|rewrite i_None; cbn [resolve]; lia].
  unfold bal, tot, i, rws, resolve, set_resolved. cbn [resolved queue maps nextw map fst].
  change (x :: map fst (resolved s)) with (ows (Some x) ++ map fst (resolved s)).
  rewrite cnt_cons_ows. lia.
Qed.

Lemma bal_cons e s : bal (set_maps (e :: maps s) s) = (bal s + i (ew e))%Z.
Proof.
  unfold bal, tot, i, rws, set_maps. cbn [resolved queue maps nextw].
  rewrite mws_cons, cnt_cons_ows. lia.
Qed.

Lemma bal_takem m k s x s' :
  takem m k s = (x, s') -> bal s = (bal s' + i (ewo x))%Z.
Proof.
  unfold takem. destruct (take m k (maps s)) as [y l] eqn:E. intro H. inversion H; subst.
  unfold bal, tot, i, rws, set_maps. cbn [resolved queue maps nextw].
  rewrite (take_cnt w _ _ _ _ _ E). lia.
Qed.

Lemma bal_put e s : bal (put e s) = (bal s + i (ew e))%Z.
Proof.
  unfold put. destruct (take (ek e) (ekey e) (maps s)) as [old l] eqn:E.
  rewrite bal_resolve.
  unfold bal, tot, i, rws, set_maps. cbn [resolved queue maps nextw].
  rewrite mws_cons, cnt_cons_ows, (take_cnt w _ _ _ _ _ E). lia.
Qed.

Lemma bal_alloc s x s' : alloc s = (x, s') -> bal s' = (bal s - i (Some x))%Z.
Proof.
  unfold alloc. intro H. inversion H; subst.
  unfold bal, tot, i, rws, set_nextw. cbn [resolved queue maps nextw].
  rewrite below_succ. lia.
Qed.

Lemma bal_ins_serial m ow st aux en cl s serial s' :
  ins_serial m ow st aux en cl s = (serial, s') -> bal s' = (bal s + i ow)%Z.
Proof.
  unfold ins_serial. destruct (alloc_serial _ _ _ _) as [sr nx]. intro H. inversion H; subst.
  rewrite bal_put, bal_set_nexts. reflexivity.
Qed.

Lemma bal_clone_handle s : bal (clone_handle s) = bal s.
Proof.
  unfold bal, tot, rws, clone_handle, set_queue. cbn [resolved queue maps nextw].
  rewrite qws_app, cnt_app. cbn. lia.
Qed.

Lemma bal_drop_where p s : bal (drop_where p s) = bal s.
Proof.
  unfold bal, tot, rws, drop_where, set_resolved, set_maps. cbn [resolved queue maps nextw].
  rewrite map_app, map_fst_dropped, cnt_app, (filter_cnt w p (maps s)). lia.
Qed.

Lemma bal_finish r s : bal (finish r s) = bal s.
Proof.
  unfold bal, tot, rws, finish, pend, set_phase, set_resolved, set_maps, set_queue.
  cbn [resolved queue maps nextw].
  rewrite map_app, map_fst_dropped, !cnt_app. cbn [qws mws flat_map]. rewrite cnt_nil. lia.
Qed.

Lemma bal_pop q ow r s : queue s = (q, ow) :: r -> bal s = (bal (set_queue r s) + i ow)%Z.
Proof.
  intro H. unfold bal, tot, i, rws, set_queue. cbn [resolved queue maps nextw]. rewrite H.
  change (qws ((q, ow) :: r)) with (ows ow ++ qws r). rewrite cnt_cons_ows. lia.
Qed.

Lemma bal_enqueue q s : bal (enqueue q s) = bal s.
Proof.
  unfold enqueue. destruct (has_reply q).
  - unfold bal, tot, rws, set_queue, set_nextw. cbn [resolved queue maps nextw].
    rewrite qws_app, cnt_app, below_succ. cbn [qws flat_map snd]. rewrite app_nil_r.
    fold (ind (Some (nextw s)) w). lia.
  - unfold bal, tot, rws, set_queue. cbn [resolved queue maps nextw].
    rewrite qws_app, cnt_app. cbn. lia.
Qed.

Lemma bal_reject q s : bal (reject q s) = bal s.
Proof.
  unfold reject. destruct (has_reply q); [|reflexivity].
  rewrite bal_resolve. unfold bal, tot, i, rws, set_nextw. cbn [resolved queue maps nextw].
  rewrite below_succ. lia.
Qed.

Lemma bal_drain_head s : bal (drain_head s) = bal s.
Proof. unfold drain_head. destruct (phase s); try reflexivity. destruct (_ || _); [reflexivity|apply bal_finish]. Qed.

Lemma bal_begin_shutdown b s : bal (begin_shutdown b s) = bal s.
Proof. unfold begin_shutdown. now rewrite bal_drain_head, bal_set_phase, bal_send. Qed.

Lemma bal_after_iter s r : bal (after_iter (s, r)) = bal s.
Proof.
  unfold after_iter. destruct r; [apply bal_finish|].
  destruct (phase s); try reflexivity. destruct (nh s =? 1); [apply bal_begin_shutdown|reflexivity].
Qed.

(* case analysis over a handler body: name the results of the state-passing primitives, record
   what they do to the balance, split every remaining match *)
Ltac prim :=
  match goal with
  | |- context [takem ?m ?k ?s] =>
      let E := fresh "E" in
      destruct (takem m k s) as [? ?] eqn:E; apply bal_takem in E
  | |- context [ins_serial ?m ?ow ?st ?aux ?en ?cl ?s] =>
      let E := fresh "E" in
      destruct (ins_serial m ow st aux en cl s) as [? ?] eqn:E; apply bal_ins_serial in E
  | |- context [alloc ?s] =>
      let E := fresh "E" in
      destruct (alloc s) as [? ?] eqn:E; apply bal_alloc in E
  end.
Ltac split_match :=
  match goal with
  | |- context [match ?x with _ => _ end] => destruct x
  end.
Ltac norm1 :=
  cbn [fst snd ok fail ewo ew] in *;
  rewrite ?bal_resolve, ?bal_send, ?bal_send_n, ?bal_set_phase, ?bal_set_flush, ?bal_set_nh, ?bal_put,
    ?bal_cons, ?bal_clone_handle, ?bal_drop_where, ?i_None in *.
Ltac norm := repeat (progress norm1).
Ltac crush := repeat (first [prim | split_match]); norm; try lia.

Lemma bal_req_simple m k ow aux en cl st s : bal (fst (req_simple m k ow aux en cl st s)) = (bal s + i ow)%Z.
Proof. unfold req_simple. crush. Qed.

Lemma bal_send_conv c k x s : bal (fst (send_conv c k x s)) = bal s.
Proof. unfold send_conv. destruct c; reflexivity. Qed.

Lemma bal_handle_request q ow s : bal (fst (handle_request q ow s)) = (bal s + i ow)%Z.
Proof.
  unfold handle_request.
  destruct q; cbn [has_reply handle_request_body]; rewrite ?bal_req_simple;
    try (unfold ok, fail; cbn [fst]; norm; lia);
    unfold send_conv; crush; rewrite ?bal_req_simple; norm; try lia.
Qed.

Lemma bal_abort_function_call n s : bal (fst (abort_function_call n s)) = bal s.
Proof. unfold abort_function_call, mark_aborted. crush. Qed.

Lemma bal_mark_aborted n s : bal (mark_aborted n s) = bal s.
Proof. unfold mark_aborted. crush. Qed.

Lemma bal_reply_or_unexpected m n s : bal (fst (reply_or_unexpected m n s)) = bal s.
Proof. unfold reply_or_unexpected. crush. Qed.

Lemma bal_finish_create_proxy e b p s : bal (fst (finish_create_proxy e b p s)) = (bal s + i (ew e))%Z.
Proof. unfold finish_create_proxy. crush. Qed.

Lemma bal_handle_message m s : bal (fst (handle_message m s)) = bal s.
Proof.
  destruct m; cbn [handle_message]; rewrite ?bal_reply_or_unexpected;
    try (unfold ok, fail; cbn [fst]; norm; lia);
    unfold send_conv; crush; rewrite ?bal_finish_create_proxy, ?bal_reply_or_unexpected; norm; try lia.
Qed.

Theorem bal_step s inp : bal (step s inp) = bal s.
Proof.
  unfold step. destruct inp as [q| [m|e] | | n | [e|] ].
  - destruct (phase s); auto using bal_enqueue, bal_reject.
  - destruct (phase s); try reflexivity.
    + destruct m; try (rewrite (surjective_pairing (handle_message _ s)), bal_after_iter; apply bal_handle_message).
      apply bal_begin_shutdown.
    + destruct m; try reflexivity. now rewrite bal_drain_head, bal_set_phase.
  - destruct (phase s); try reflexivity; apply bal_finish.
  - destruct (phase s); try reflexivity.
    + destruct (queue s) as [|[q ow] r] eqn:Q; [reflexivity|].
      rewrite (bal_pop _ _ _ _ Q).
      destruct q; try (rewrite (surjective_pairing (handle_request _ ow _)), bal_after_iter; apply bal_handle_request).
      rewrite bal_begin_shutdown, bal_resolve. reflexivity.
    + destruct (queue s) as [|[q ow] r] eqn:Q; [reflexivity|].
      rewrite (bal_pop _ _ _ _ Q), bal_resolve. reflexivity.
  - destruct (phase s); try reflexivity.
    + rewrite (surjective_pairing (abort_function_call n s)), bal_after_iter. apply bal_abort_function_call.
    + apply bal_mark_aborted.
  - destruct (phase s); try reflexivity; apply bal_finish.
  - destruct (phase s); try reflexivity.
    + unfold ok. rewrite bal_after_iter. reflexivity.
    + unfold ok. rewrite bal_after_iter. reflexivity.
    + now rewrite bal_drain_head, bal_set_flush.
Qed.

Lemma bal_run ins s : bal (run s ins) = bal s.
Proof. revert s. induction ins as [|x r IH]; intro s; [reflexivity|]. cbn [run fold_left]. fold (run (step s x) r). now rewrite IH, bal_step. Qed.

Lemma bal_init v : bal (init v) = 0%Z.
Proof.
  unfold bal, tot, below, init. cbn.
  destruct (w <? 0) eqn:A; [apply N.ltb_lt in A; lia|reflexivity].
Qed.
End Bal.

(* every created waiter sits in exactly one place: the request queue, one entry of one map, or the
   log of completed waiters; a waiter that was never created sits nowhere *)
Theorem partition_run : forall v ins w,
  let s := run (init v) ins in
  count_occ N.eq_dec (qws (queue s) ++ mws (maps s) ++ map fst (resolved s)) w
  = if w <? nextw s then 1%nat else 0%nat.
Proof.
  intros v ins w s.
  pose proof (bal_run w ins (init v)) as H. rewrite bal_init in H. fold s in H.
  unfold bal, tot, rws, below in H.
  rewrite !count_occ_app. fold (cnt w (qws (queue s))) (cnt w (mws (maps s))) (cnt w (map fst (resolved s))).
  destruct (w <? nextw s); lia.
Qed.

(* ------------------------------------------------------------------ phases *)
Definition is_done (s : cstate) : bool := match phase s with Done _ => true | _ => false end.

(* Done: queue and maps are gone; Draining: the loop condition holds *)
Definition wf (s : cstate) : Prop :=
  match phase s with
  | Done _ => maps s = [] /\ queue s = []
  | Draining w => w || flush s = true
  | _ => True
  end.

Lemma phase_resolve o out s : phase (resolve o out s) = phase s.
Proof. destruct o; reflexivity. Qed.
Lemma phase_takem m k s x s' : takem m k s = (x, s') -> phase s' = phase s.
Proof. unfold takem. destruct (take _ _ _). intro H. inversion H. reflexivity. Qed.
Lemma phase_put e s : phase (put e s) = phase s.
Proof. unfold put. destruct (take _ _ _). now rewrite phase_resolve. Qed.
Lemma phase_alloc s x s' : alloc s = (x, s') -> phase s' = phase s.
Proof. unfold alloc. intro H. inversion H. reflexivity. Qed.
Lemma phase_ins_serial m ow st aux en cl s n s' : ins_serial m ow st aux en cl s = (n, s') -> phase s' = phase s.
Proof. unfold ins_serial. destruct (alloc_serial _ _ _ _). intro H. inversion H. now rewrite phase_put. Qed.
Lemma phase_send_n n k s : phase (send_n n k s) = phase s.
Proof. revert s. induction n; intro s; [reflexivity|]. cbn [send_n]. now rewrite IHn. Qed.

Ltac split_match :=
  match goal with
  | |- context [match ?x with _ => _ end] => destruct x
  end.
Ltac pprim :=
  match goal with
  | |- context [takem ?m ?k ?s] =>
      let E := fresh "E" in destruct (takem m k s) as [? ?] eqn:E; apply phase_takem in E
  | |- context [ins_serial ?m ?ow ?st ?aux ?en ?cl ?s] =>
      let E := fresh "E" in destruct (ins_serial m ow st aux en cl s) as [? ?] eqn:E; apply phase_ins_serial in E
  | |- context [alloc ?s] =>
      let E := fresh "E" in destruct (alloc s) as [? ?] eqn:E; apply phase_alloc in E
  end.
Ltac pnorm :=
  cbn [fst snd ok fail] in *;
  rewrite ?phase_resolve, ?phase_put, ?phase_send_n in *;
  cbn [phase send set_phase set_flush set_nh set_maps set_queue set_outlog set_resolved clone_handle drop_where] in *.
Ltac pcrush := repeat (first [pprim | split_match]); repeat pnorm; try congruence; auto.

(* a request handler leaves the phase alone or is suspended in its inline flush;
   a message handler leaves it alone *)
Lemma phase_req_simple m k ow aux en cl st s : phase (fst (req_simple m k ow aux en cl st s)) = phase s.
Proof. unfold req_simple. pcrush. Qed.

Lemma phase_handle_request q ow s :
  phase (fst (handle_request q ow s)) = phase s \/
  (phase (fst (handle_request q ow s)) = InlineFlush /\ snd (handle_request q ow s) = None).
Proof.
  unfold handle_request.
  destruct q; cbn [has_reply handle_request_body]; rewrite ?phase_req_simple, ?phase_resolve; auto;
    unfold send_conv, req_simple; pcrush.
Qed.

Lemma phase_abort_function_call n s : phase (fst (abort_function_call n s)) = phase s.
Proof. unfold abort_function_call, mark_aborted. pcrush. Qed.

Lemma phase_mark_aborted n s : phase (mark_aborted n s) = phase s.
Proof. unfold mark_aborted. pcrush. Qed.

Lemma flush_mark_aborted n s : flush (mark_aborted n s) = flush s.
Proof.
  unfold mark_aborted, takem. destruct (lookup _ _ _); [|reflexivity].
  destruct (take _ _ _) as [x l]. destruct (ewo x); reflexivity.
Qed.

Lemma phase_handle_message m s : phase (fst (handle_message m s)) = phase s.
Proof.
  destruct m; cbn [handle_message]; auto;
    unfold reply_or_unexpected, finish_create_proxy, send_conv; pcrush.
Qed.

Lemma wf_finish r s : wf (finish r s).
Proof. unfold wf, finish. cbn. auto. Qed.
Lemma wf_drain_head s w : phase s = Draining w -> wf (drain_head s).
Proof.
  intro P. unfold drain_head. rewrite P.
  destruct (w || flush s) eqn:B; [|apply wf_finish].
  unfold wf. now rewrite P.
Qed.
Lemma wf_begin_shutdown b s : wf (begin_shutdown b s).
Proof.
  unfold begin_shutdown, drain_head. cbn [phase set_phase send flush set_flush].
  rewrite orb_true_r. unfold wf. cbn. apply orb_true_r.
Qed.
Lemma wf_after_iter s r : (phase s = Running \/ (phase s = InlineFlush /\ r = None)) -> wf (after_iter (s, r)).
Proof.
  intros H. unfold after_iter. destruct r; [apply wf_finish|].
  destruct H as [H|[H _]]; rewrite H.
  - destruct (nh s =? 1); [apply wf_begin_shutdown|]. unfold wf. now rewrite H.
  - unfold wf. now rewrite H.
Qed.

Theorem wf_step s inp : wf s -> wf (step s inp).
Proof.
  intro W. unfold step. destruct inp as [q| [m|e] | | n | [e|] ].
  - unfold wf in *. destruct (phase s) eqn:P.
    + unfold enqueue. destruct (has_reply q); cbn; rewrite P; auto.
    + unfold enqueue. destruct (has_reply q); cbn; rewrite P; auto.
    + unfold enqueue. destruct (has_reply q); cbn; rewrite P; auto.
    + unfold reject. destruct (has_reply q); cbn; rewrite ?P; auto.
  - destruct (phase s) eqn:P; auto.
    + destruct m; try (rewrite (surjective_pairing (handle_message _ s)); apply wf_after_iter; left;
                       now rewrite phase_handle_message).
      apply wf_begin_shutdown.
    + destruct m; auto. now apply (wf_drain_head _ false).
  - destruct (phase s) eqn:P; auto using wf_finish.
  - destruct (phase s) eqn:P; auto.
    + destruct (queue s) as [|[q ow] r] eqn:Q; auto.
      destruct q;
        try (match goal with |- context [handle_request ?q0 _ _] =>
               rewrite (surjective_pairing (handle_request q0 ow (set_queue r s))); apply wf_after_iter;
               destruct (phase_handle_request q0 ow (set_queue r s)) as [H|H]; [left; rewrite H; exact P|right; exact H]
             end).
      apply wf_begin_shutdown.
    + destruct (queue s) as [|[q ow] r] eqn:Q; auto.
      unfold wf in *. rewrite phase_resolve. cbn [phase set_queue]. rewrite P in *. destruct ow; exact W.
  - destruct (phase s) eqn:P; auto.
    + rewrite (surjective_pairing (abort_function_call n s)). apply wf_after_iter. left.
      now rewrite phase_abort_function_call.
    + unfold wf in *. rewrite phase_mark_aborted, P, flush_mark_aborted. rewrite P in W. exact W.
  - destruct (phase s) eqn:P; auto using wf_finish.
  - destruct (phase s) eqn:P; auto.
    + apply wf_after_iter. left. exact P.
    + apply wf_after_iter. left. reflexivity.
    + now apply (wf_drain_head _ wait).
Qed.

Lemma wf_init v : wf (init v).
Proof. exact I. Qed.
Lemma wf_run ins s : wf s -> wf (run s ins).
Proof.
  revert s. induction ins as [|x r IH]; intros s W; [exact W|].
  cbn [run fold_left]. fold (run (step s x) r). apply IH, wf_step, W.
Qed.

(* ------------------------------------------------------------------ Done is final *)
Lemma done_stable s inp r : phase s = Done r -> phase (step s inp) = Done r.
Proof.
  intro P. unfold step. destruct inp; rewrite P; try exact P.
  unfold reject. destruct (has_reply q); [|exact P]. cbn. exact P.
Qed.
Lemma done_stable_run ins s r : phase s = Done r -> phase (run s ins) = Done r.
Proof.
  revert s. induction ins as [|x l IH]; intros s P; [exact P|].
  cbn [run fold_left]. fold (run (step s x) l). apply IH, done_stable, P.
Qed.

(* after Done: a request carrying a reply sender is refused, the sender is dropped at once;
   nothing is ever queued or stored again; every select input is ignored *)
Theorem after_stop s r q :
  phase s = Done r -> wf s ->
  let s' := step s (IEnqueue q) in
  phase s' = Done r /\ maps s' = [] /\ queue s' = [] /\
  (if has_reply q
   then resolved s' = (nextw s, Dropped) :: resolved s /\ nextw s' = nextw s + 1
   else s' = s).
Proof.
  intros P W. unfold wf in W. rewrite P in W. destruct W as [M Q].
  cbn. unfold step. rewrite P. unfold reject. destruct (has_reply q); cbn; auto.
Qed.
Lemma after_stop_select s r inp :
  phase s = Done r -> (forall q, inp <> IEnqueue q) -> step s inp = s.
Proof.
  intros P H. unfold step. destruct inp; rewrite ?P; try reflexivity. now destruct (H q).
Qed.

(* ------------------------------------------------------------------ faults *)
Theorem fault_done s inp e :
  is_done s = false -> enabled s inp = true -> fault_of inp = Some e ->
  step s inp = finish (Some (ETransport e)) s.
Proof.
  unfold is_done, enabled, fault_of, step.
  destruct inp as [q| [m|e'] | | n | [e'|] ]; try discriminate; intros D En F; inversion F; subst;
    destruct (phase s); try discriminate; reflexivity.
Qed.

Lemma finish_phase r s : phase (finish r s) = Done r.
Proof. reflexivity. Qed.
Lemma finish_resolved r s : resolved (finish r s) = map (fun w => (w, Dropped)) (pend s) ++ resolved s.
Proof. reflexivity. Qed.

(* a fault is always possible: in every phase but Done some fault input is enabled *)
Lemma fault_enabled s e :
  is_done s = false ->
  enabled s (match phase s with InlineFlush => ISelFlushed (Some e) | _ => ISelTransport (TErr e) end) = true.
Proof. unfold is_done, enabled. destruct (phase s); intro H; try discriminate; reflexivity. Qed.

(* ------------------------------------------------------------------ draining *)
Definition is_shutdown_msg (a : input) : bool :=
  match a with ISelTransport (TMsg MsgShutdown) => true | _ => false end.
Definition is_flushed_ok (a : input) : bool :=
  match a with ISelFlushed None => true | _ => false end.
Definition no_fault (ins : list input) : Prop := forall a, In a ins -> fault_of a = None.

Lemma enqueue_frame q s : phase (enqueue q s) = phase s /\ flush (enqueue q s) = flush s.
Proof. unfold enqueue. destruct (has_reply q); auto. Qed.

Lemma drain_step s w a :
  phase s = Draining w -> w || flush s = true -> fault_of a = None ->
  let w' := if is_shutdown_msg a then false else w in
  let f' := if is_flushed_ok a then false else flush s in
  if w' || f' then phase (step s a) = Draining w' /\ flush (step s a) = f'
  else phase (step s a) = Done None.
Proof.
  intros P W F. unfold step.
  destruct a as [q| [m|e'] | | n | [e'|] ]; try discriminate F; rewrite P; cbn [is_shutdown_msg is_flushed_ok].
  - rewrite W. destruct (enqueue_frame q s) as [A B]. now rewrite A, B.
  - destruct m; cbn [is_shutdown_msg]; rewrite ?W; auto.
    unfold drain_head. cbn [phase set_phase flush orb].
    destruct (flush s) eqn:Fl; cbn; rewrite ?Fl; auto.
  - rewrite W. destruct (queue s) as [|[q ow] r]; auto.
    rewrite phase_resolve. destruct ow; auto.
  - rewrite W, phase_mark_aborted, flush_mark_aborted. auto.
  - unfold drain_head. cbn [phase set_flush flush]. rewrite P, !orb_false_r.
    destruct w; cbn; auto.
Qed.

Theorem drain_ok : forall ins s w,
  phase s = Draining w -> w || flush s = true -> no_fault ins ->
  (w = true -> existsb is_shutdown_msg ins = true) ->
  (flush s = true -> existsb is_flushed_ok ins = true) ->
  phase (run s ins) = Done None.
Proof.
  induction ins as [|a l IH]; intros s w P W NF HS HF.
  - cbn in HS, HF. destruct w; [now discriminate HS|]. destruct (flush s); [now discriminate HF|discriminate W].
  - cbn [run fold_left]. fold (run (step s a) l).
    assert (Fa : fault_of a = None) by (apply NF; now left).
    assert (NF' : no_fault l) by (intros b Hb; apply NF; now right).
    pose proof (drain_step s w a P W Fa) as D. cbn zeta in D.
    cbn [existsb] in HS, HF.
    destruct ((if is_shutdown_msg a then false else w) || (if is_flushed_ok a then false else flush s)) eqn:B.
    + destruct D as [P' F']. apply (IH _ _ P'); auto.
      * now rewrite F'.
      * intro Hw. destruct (is_shutdown_msg a); [discriminate Hw|]. subst w. now apply HS.
      * rewrite F'. intro Hf. destruct (is_flushed_ok a); [discriminate Hf|]. now apply HF.
    + now apply done_stable_run.
Qed.

(* while something is still awaited the client keeps draining *)
Theorem drain_waits : forall ins s w,
  phase s = Draining w -> w || flush s = true -> no_fault ins ->
  (w && negb (existsb is_shutdown_msg ins)) || (flush s && negb (existsb is_flushed_ok ins)) = true ->
  exists w', phase (run s ins) = Draining w'.
Proof.
  induction ins as [|a l IH]; intros s w P W NF H.
  - exists w. exact P.
  - cbn [run fold_left]. fold (run (step s a) l).
    assert (Fa : fault_of a = None) by (apply NF; now left).
    assert (NF' : no_fault l) by (intros b Hb; apply NF; now right).
    pose proof (drain_step s w a P W Fa) as D. cbn zeta in D. cbn [existsb] in H.
    destruct (is_shutdown_msg a), (is_flushed_ok a), w, (flush s); cbn in *; try discriminate;
      destruct D as [P' F']; apply (IH _ _ P'); auto; rewrite ?F'; cbn; auto;
      try (now rewrite orb_true_r); now rewrite ?orb_false_r in *.
Qed.

(* ------------------------------------------------------------------ the clean causes *)
Lemma begin_shutdown_spec b s :
  phase (begin_shutdown b s) = Draining b /\ flush (begin_shutdown b s) = true.
Proof.
  unfold begin_shutdown, drain_head. cbn [phase set_phase send flush set_flush].
  rewrite orb_true_r. auto.
Qed.

(* Some wait: the input is one of the three causes after which run leaves its loop with
   `break wait`: the peer's Shutdown (wait = false), Handle::shutdown, the last handle dropped *)
Definition clean_cause (s : cstate) (a : input) : option bool :=
  match a with
  | ISelTransport (TMsg MsgShutdown) => Some false
  | ISelHandle =>
      match queue s with
      | (QShutdown, _) :: _ => Some true
      | (QHandleDropped, _) :: _ => if nh s =? 2 then Some true else None
      | _ => None
      end
  | _ => None
  end.

Lemma clean_cause_step s a w :
  phase s = Running -> clean_cause s a = Some w ->
  phase (step s a) = Draining w /\ flush (step s a) = true.
Proof.
  intros P C. unfold step.
  destruct a as [q| [m|e'] | | n | [e'|] ]; try discriminate C; rewrite P.
  - destruct m; try discriminate C. inversion C; subst. apply begin_shutdown_spec.
  - cbn [clean_cause] in C. destruct (queue s) as [|[q ow] r]; [discriminate|].
    destruct q; try discriminate C.
    + destruct (nh s =? 2) eqn:N; [|discriminate]. inversion C; subst. apply N.eqb_eq in N.
      unfold handle_request. cbn [has_reply handle_request_body ok after_iter].
      destruct ow; cbn [resolve set_resolved set_queue set_nh phase nh]; rewrite P, N;
        replace (2 - 1 =? 1) with true by reflexivity; apply begin_shutdown_spec.
    + inversion C; subst. apply begin_shutdown_spec.
Qed.

Theorem returns_clean s a w post :
  phase s = Running -> wf s -> clean_cause s a = Some w -> no_fault post ->
  (w = true -> existsb is_shutdown_msg post = true) ->
  existsb is_flushed_ok post = true ->
  phase (run s (a :: post)) = Done None.
Proof.
  intros P W C NF HS HF. cbn [run fold_left]. fold (run (step s a) post).
  destruct (clean_cause_step s a w P C) as [P' F'].
  apply (drain_ok post _ w P'); auto.
  - rewrite F'. apply orb_true_r.
Qed.

(* the general form of "last handle dropped": any iteration of the loop that ends without error
   and with num_handles = 1 leaves the loop *)
Lemma last_handle_general s : phase s = Running -> nh s = 1 ->
  phase (after_iter (ok s)) = Draining true /\ flush (after_iter (ok s)) = true.
Proof.
  intros P N. unfold after_iter, ok. rewrite P, N. cbn [N.eqb Pos.eqb]. apply begin_shutdown_spec.
Qed.

(* after a clean cause the result is Ok or the transport error of the first fault: no other error *)
Theorem draining_result : forall ins s w r,
  phase s = Draining w -> phase (run s ins) = Done r ->
  r = None \/ exists e, r = Some (ETransport e).
Proof.
  induction ins as [|a l IH]; intros s w r P H.
  - cbn in H. congruence.
  - cbn [run fold_left] in H. fold (run (step s a) l) in H.
    assert (D : (exists w', phase (step s a) = Draining w') \/ phase (step s a) = Done None \/
                exists e, phase (step s a) = Done (Some (ETransport e))).
    { unfold step. destruct a as [q| [m|e'] | | n | [e'|] ]; rewrite P.
      - left. exists w. now rewrite (proj1 (enqueue_frame q s)).
      - destruct m; try (left; now exists w).
        unfold drain_head. cbn [phase set_phase flush orb]. destruct (flush s); [left; now exists false|right; now left].
      - right. right. now exists e'.
      - left. exists w. destruct (queue s) as [|[q ow] r0]; auto. now rewrite phase_resolve.
      - left. exists w. now rewrite phase_mark_aborted.
      - right. right. now exists e'.
      - unfold drain_head. cbn [phase set_flush flush]. rewrite P, orb_false_r.
        destruct w; [left; now exists true|right; now left]. }
    destruct D as [[w' D]|[D|[e D]]].
    + apply (IH _ _ _ D H).
    + rewrite (done_stable_run l _ _ D) in H. inversion H. now left.
    + rewrite (done_stable_run l _ _ D) in H. inversion H. right. now exists e.
Qed.

(* ------------------------------------------------------------------ Select *)
Definition src_idx (p : src) : nat :=
  match p with SrcTransport => 0 | SrcHandle => 1 | SrcAbort => 2 | SrcFlushed => 3 end.
(* number of probes from position p until source x is reached *)
Definition dist (p x : src) : nat := ((4 + src_idx x - src_idx p) mod 4)%nat.

Lemma select_progress p x ready :
  ready x = true ->
  exists y, select_once p ready = (Some y, src_next y) /\ (y = x \/ (dist (src_next y) x < dist p x)%nat).
Proof.
  intro R. unfold select_once.
  destruct (ready SrcTransport) eqn:A, (ready SrcHandle) eqn:B, (ready SrcAbort) eqn:C, (ready SrcFlushed) eqn:D;
    destruct p, x; cbn [poll_select src_next]; rewrite ?A, ?B, ?C, ?D; try congruence;
    match goal with |- context [(Some ?a, _) = _] => exists a end;
    (split; [reflexivity|]); cbn; auto; right; lia.
Qed.

(* the results of consecutive select calls under the readiness functions rs *)
Fixpoint selects (p : src) (rs : list (src -> bool)) : list (option src) :=
  match rs with
  | [] => []
  | r :: rest => let (y, p') := select_once p r in y :: selects p' rest
  end.

Lemma select_fair_n x : forall n p rs,
  (dist p x < n)%nat -> (n <= length rs)%nat -> Forall (fun r => r x = true) rs ->
  In (Some x) (selects p rs).
Proof.
  induction n as [|n IH]; intros p rs Hd Hl Hr; [lia|].
  destruct rs as [|r rest]; [cbn in Hl; lia|].
  inversion Hr as [|? ? R Rest]; subst.
  destruct (select_progress p x r R) as [y [E [->|Lt]]]; cbn [selects]; rewrite E.
  - now left.
  - right. apply IH; auto; cbn in Hl; lia.
Qed.

(* a source that is ready at four consecutive calls of Select::select is selected by one of them *)
Theorem select_fair p x rs :
  length rs = 4%nat -> Forall (fun r => r x = true) rs -> In (Some x) (selects p rs).
Proof.
  intros L R. apply (select_fair_n x 4); auto; [|lia].
  unfold dist. apply Nat.mod_upper_bound. lia.
Qed.

(* ------------------------------------------------------------------ waiter ids only grow *)
Lemma nextw_resolve o out s : nextw (resolve o out s) = nextw s.
Proof. destruct o; reflexivity. Qed.
Lemma nextw_takem m k s x s' : takem m k s = (x, s') -> nextw s' = nextw s.
Proof. unfold takem. destruct (take _ _ _). intro H. inversion H. reflexivity. Qed.
Lemma nextw_put e s : nextw (put e s) = nextw s.
Proof. unfold put. destruct (take _ _ _). now rewrite nextw_resolve. Qed.
Lemma nextw_alloc s x s' : alloc s = (x, s') -> nextw s' = nextw s + 1.
Proof. unfold alloc. intro H. inversion H. reflexivity. Qed.
Lemma nextw_ins_serial m ow st aux en cl s n s' : ins_serial m ow st aux en cl s = (n, s') -> nextw s' = nextw s.
Proof. unfold ins_serial. destruct (alloc_serial _ _ _ _). intro H. inversion H. now rewrite nextw_put. Qed.
Lemma nextw_send_n n k s : nextw (send_n n k s) = nextw s.
Proof. revert s. induction n; intro s; [reflexivity|]. cbn [send_n]. now rewrite IHn. Qed.

Ltac nprim :=
  match goal with
  | |- context [takem ?m ?k ?s] =>
      let E := fresh "E" in destruct (takem m k s) as [? ?] eqn:E; apply nextw_takem in E
  | |- context [ins_serial ?m ?ow ?st ?aux ?en ?cl ?s] =>
      let E := fresh "E" in destruct (ins_serial m ow st aux en cl s) as [? ?] eqn:E; apply nextw_ins_serial in E
  | |- context [alloc ?s] =>
      let E := fresh "E" in destruct (alloc s) as [? ?] eqn:E; apply nextw_alloc in E
  end.
Ltac nnorm :=
  cbn [fst snd ok fail] in *;
  rewrite ?nextw_resolve, ?nextw_put, ?nextw_send_n in *;
  cbn [nextw send set_phase set_flush set_nh set_maps set_queue set_outlog set_resolved clone_handle drop_where] in *.
Ltac ncrush := repeat (first [nprim | split_match]); repeat (progress nnorm); try lia.

Lemma nextw_req_simple m k ow aux en cl st s : nextw (fst (req_simple m k ow aux en cl st s)) = nextw s.
Proof. unfold req_simple. ncrush. Qed.
Lemma nextw_handle_request q ow s : nextw s <= nextw (fst (handle_request q ow s)).
Proof.
  unfold handle_request.
  destruct q; cbn [has_reply handle_request_body]; rewrite ?nextw_req_simple, ?nextw_resolve; try lia;
    unfold send_conv, req_simple; ncrush.
Qed.
Lemma nextw_abort_function_call n s : nextw s <= nextw (fst (abort_function_call n s)).
Proof. unfold abort_function_call, mark_aborted. ncrush. Qed.

Lemma nextw_mark_aborted n s : nextw s <= nextw (mark_aborted n s).
Proof. unfold mark_aborted. ncrush. Qed.
Lemma nextw_handle_message m s : nextw s <= nextw (fst (handle_message m s)).
Proof.
  destruct m; cbn [handle_message]; try (cbn; lia);
    unfold reply_or_unexpected, finish_create_proxy, send_conv; ncrush.
Qed.
Lemma nextw_drain_head s : nextw (drain_head s) = nextw s.
Proof. unfold drain_head. destruct (phase s); try reflexivity. destruct (_ || _); reflexivity. Qed.
Lemma nextw_begin_shutdown b s : nextw (begin_shutdown b s) = nextw s.
Proof. unfold begin_shutdown. now rewrite nextw_drain_head. Qed.
Lemma nextw_after_iter s r : nextw (after_iter (s, r)) = nextw s.
Proof.
  unfold after_iter. destruct r; [reflexivity|]. destruct (phase s); try reflexivity.
  destruct (nh s =? 1); [apply nextw_begin_shutdown|reflexivity].
Qed.

Theorem nextw_step s inp : nextw s <= nextw (step s inp).
Proof.
  unfold step. destruct inp as [q| [m|e] | | n | [e|] ].
  - destruct (phase s); unfold enqueue, reject; destruct (has_reply q); cbn; lia.
  - destruct (phase s); try (cbn; lia).
    + destruct m; try (rewrite (surjective_pairing (handle_message _ s)), nextw_after_iter; apply nextw_handle_message).
      rewrite nextw_begin_shutdown. lia.
    + destruct m; try lia. rewrite nextw_drain_head. cbn. lia.
  - destruct (phase s); cbn; lia.
  - destruct (phase s); try lia.
    + destruct (queue s) as [|[q ow] r] eqn:Q; [lia|].
      destruct q;
        try (match goal with |- context [handle_request ?q0 _ _] =>
               rewrite (surjective_pairing (handle_request q0 ow (set_queue r s))), nextw_after_iter;
               apply (nextw_handle_request q0 ow (set_queue r s)) end).
      rewrite nextw_begin_shutdown, nextw_resolve. cbn. lia.
    + destruct (queue s) as [|[q ow] r] eqn:Q; [lia|]. rewrite nextw_resolve. cbn. lia.
  - destruct (phase s); try lia.
    + rewrite (surjective_pairing (abort_function_call n s)), nextw_after_iter. apply nextw_abort_function_call.
    + apply nextw_mark_aborted.
  - destruct (phase s); cbn; lia.
  - destruct (phase s); try lia.
    + unfold ok. rewrite nextw_after_iter. cbn. lia.
    + unfold ok. rewrite nextw_after_iter. cbn. lia.
    + rewrite nextw_drain_head. cbn. lia.
Qed.
Lemma nextw_run ins s : nextw s <= nextw (run s ins).
Proof.
  revert s. induction ins as [|x r IH]; intro s; [cbn; lia|].
  cbn [run fold_left]. fold (run (step s x) r). pose proof (nextw_step s x). pose proof (IH (step s x)). lia.
Qed.
