(* Proto/Credit.v — ONE established channel end to end (C05, client side):

     sender application + `Sender`            aldrin/src/low_level/channel/established.rs
        --(handle queue, client, transport: one FIFO [q_sb])-->  broker
     broker's channel entry                   broker/src/broker/channel.rs = chan_* of Broker/Model.v,
                                              driven as broker.rs send_item / add_channel_capacity /
                                              close_channel_end / remove_channel_end drive them
        --(FIFO [q_br])--> receiver's client  aldrin/src/client.rs msg_item_received,
                                              msg_channel_end_closed, msg_close_channel_end_reply
     `Receiver` + receiver application        established.rs Receiver::poll_next_serialized
        --(FIFO [q_rb]: AddChannelCapacity, CloseChannelEnd)--> broker
        --(FIFO [q_bs]: AddChannelCapacity, ChannelEndClosed, CloseChannelEndReply)--> sender's client
                                              client.rs msg_add_channel_capacity, ...

   What is merged: the handle's request queue, the client's Buffered and the transport form one
   FIFO per direction (a composition of FIFOs); on the way back the client forwards
   AddChannelCapacity into the `capacity_added` mpsc ([sd_added]), which BOTH `poll_send_ready` and
   `poll_receiver_closed` drain completely into `capacity` ([absorb]) before they look at anything
   else: an announcement consumed by either poll must end up in the sender's capacity.
   Items are opaque ids.  Arithmetic is that of a debug build (overflow checks and debug_assert!
   on, as the harness profile): every such site is a [f_panic] site.  The two owners [cS], [cR]
   are parameters: they may be the same connection (both ends on one client). *)
From stdpp Require Import list.
From RecordUpdate Require Import RecordSet.
Import RecordSetNotations.
From Aldrin Require Import gen.BrokerConsts gen.ClientConsts Broker.Model.
Local Open Scope N_scope.

(* the receiver's low-water mark: `const LOW_CAPACITY: u32 = 4` of established.rs *)
Definition CLIENT_LOW : N := CLIENT_LOW_CAPACITY.

(* ---------------------------------------------------------------- messages on the four links *)
Inductive smsg := SItem (v : N) | SClose.                 (* SendItem, CloseChannelEnd(Sender) *)
Inductive rmsg := RAdd (n : N) | RClose.                  (* AddChannelCapacity, CloseChannelEnd(Receiver) *)
Inductive bsmsg := BSAdd (n : N) | BSPeerClosed | BSCloseReply (r : res3).
                                     (* AddChannelCapacity, ChannelEndClosed(Receiver), CloseChannelEndReply *)
Inductive brmsg := BRItem (v : N) | BRPeerClosed | BRCloseReply (r : res3).
                                     (* ItemReceived, ChannelEndClosed(Sender), CloseChannelEndReply *)

(* the entry of this channel in the client's `senders` / `receivers` map:
   Established(mpsc sender) | ReceiverClosed / SenderClosed | absent *)
Inductive cend := CEst | CPeer | CGone.

(* the end's RawChannel close request: none sent | CloseChannelEnd sent, reply outstanding | reply *)
Inductive close_st := KNone | KPending | KDone (r : res3).

Record world := {
  (* `Sender` *)
  sd_cap : N;             (* Sender.capacity *)
  sd_added : list N;      (* the `capacity_added` mpsc: announcements not yet polled *)
  sd_open : bool;         (* RawChannel state is Open *)
  sd_res : close_st;
  sd_sent : list N;       (* ghost: items accepted by start_send, in order *)
  sd_cl : cend;           (* client.senders[cookie] *)
  (* `Receiver` *)
  rv_max : N;             (* max_capacity *)
  rv_cur : N;             (* cur_capacity *)
  rv_open : bool;
  rv_res : close_st;
  rv_queue : list N;      (* the `items` mpsc *)
  rv_got : list N;        (* ghost: items returned by poll_next, in order *)
  rv_cl : cend;           (* client.receivers[cookie] *)
  (* links *)
  q_sb : list smsg;
  q_rb : list rmsg;
  q_bs : list bsmsg;
  q_br : list brmsg;
  (* broker *)
  br_ch : option chan;
  (* what must never happen *)
  f_cut : bool;           (* Channel::send_item returned CapacityExhausted *)
  f_ovf : bool;           (* Channel::add_capacity returned AddCapacityError *)
  f_panic : option N;     (* a debug_assert!/unreachable!/overflow site was reached *)
  f_unexp : bool }.       (* a client got a message it answers with UnexpectedMessageReceived *)

#[export] Instance eta_world : Settable _ :=
  settable! Build_world <sd_cap; sd_added; sd_open; sd_res; sd_sent; sd_cl; rv_max; rv_cur; rv_open; rv_res;
                         rv_queue; rv_got; rv_cl; q_sb; q_rb; q_bs; q_br; br_ch; f_cut; f_ovf;
                         f_panic; f_unexp>.

(* the steps of a schedule *)
Inductive act :=
| ASend (v : N)   (* sender application: send_item(v) = poll_send_ready, then start_send *)
| APollReady      (* sender application: poll_send_ready alone *)
| APollClosed     (* sender application: poll_receiver_closed (the usual select! companion of send) *)
| ARecv           (* receiver application: poll_next_serialized *)
| ACloseS         (* sender application: poll_close / drop *)
| ACloseR         (* receiver application: poll_close / drop *)
| BrokerS         (* the broker handles the next message of the sender's connection *)
| BrokerR         (* the broker handles the next message of the receiver's connection *)
| ClientS         (* the sender's client handles the next message from the broker *)
| ClientR.        (* the receiver's client handles the next message from the broker *)

(* panic sites: 10 30..34 are the broker's (Model.v); client side: *)
Definition SITE_CAP_ADD : N := 50.       (* poll_send_ready: self.capacity += added_capacity *)
Definition SITE_CLOSE_REPLY : N := 51.   (* msg_close_channel_end_reply: debug_assert!(contained.is_some()) *)
Definition SITE_RECV_PRE : N := 52.      (* poll_next_serialized: the two debug_assert!s on entry *)
Definition SITE_RECV_DIFF : N := 53.     (* max - cur underflow / debug_assert!(diff >= 1) *)
Definition SITE_RECV_ADD : N := 54.      (* self.cur_capacity += diff *)
Definition SITE_RECV_POST : N := 55.     (* the two debug_assert!s on exit *)
Definition SITE_SEND_PRE : N := 56.      (* start_send_serialized: debug_assert!(self.capacity > 0) *)

(* ---------------------------------------------------------------- observations *)
Inductive ready := RdOk | RdPending | RdErr.

Definition panic (w : world) (site : N) : world :=
  match f_panic w with Some _ => w | None => w <| f_panic := Some site |> end.

Fixpoint added_sum (l : list N) : N := match l with [] => 0 | n :: l => n + added_sum l end.

(* `self.capacity += added_capacity` for every queued announcement, in order (u32, checked) *)
Fixpoint drain_added (l : list N) (cap : N) : option N :=
  match l with
  | [] => Some cap
  | n :: l => if cap + n <=? u32_max then drain_added l (cap + n) else None
  end.

(* the loop shared by Sender::poll_send_ready and Sender::poll_receiver_closed: every
   Poll::Ready(Some(added_capacity)) of capacity_added goes into self.capacity *)
Definition absorb (w : world) : world :=
  match drain_added (sd_added w) (sd_cap w) with
  | Some c => w <| sd_cap := c |> <| sd_added := [] |>
  | None => panic w SITE_CAP_ADD
  end.

(* has the capacity_added stream ended (Poll::Ready(None) once it is empty)?  The client dropped
   the mpsc sender, or poll_close closed the receiving half *)
Definition added_ended (w : world) : bool :=
  negb (sd_open w) || match sd_cl w with CEst => false | _ => true end.

(* what poll_send_ready answers once the stream is drained: its end is Err(InvalidChannel) whatever
   the capacity *)
Definition ready_of (w : world) : ready :=
  if added_ended w then RdErr else if 0 <? sd_cap w then RdOk else RdPending.

(* Sender::poll_send_ready as an observation of the state before the poll *)
Definition send_ready (w : world) : ready := ready_of (absorb w).

(* Sender::poll_receiver_closed: true = Poll::Ready(()) *)
Definition receiver_closed (w : world) : bool := added_ended w.

Inductive recv_obs := GotItem (v : N) | GotEnd | GotPending.

(* what poll_next_serialized returns: the mpsc yields queued items even after it was closed, then
   None once the client dropped its sender or the receiving half was closed *)
Definition recv_result (w : world) : recv_obs :=
  match rv_queue w with
  | v :: _ => GotItem v
  | [] => if rv_open w && match rv_cl w with CEst => true | _ => false end then GotPending else GotEnd
  end.

Section Owners.
Variable cS cR : conn.     (* the connections that own the sender / the receiver *)

Definition winit (cap : N) : world :=
  {| sd_cap := cap; sd_added := []; sd_open := true; sd_res := KNone; sd_sent := []; sd_cl := CEst;
     rv_max := cap; rv_cur := cap; rv_open := true; rv_res := KNone; rv_queue := []; rv_got := [];
     rv_cl := CEst;
     q_sb := []; q_rb := []; q_bs := []; q_br := [];
     br_ch := Some {| ch_s := Claimed cS cap; ch_r := Claimed cR cap |};
     f_cut := false; f_ovf := false; f_panic := None; f_unexp := false |}.

(* ---------------------------------------------------------------- broker *)
(* Broker::remove_channel_end for this channel: the owner of the other end is told *)
Definition b_remove_end (w : world) (e : chan_end) : world :=
  match br_ch w with
  | None => w
  | Some ch =>
      match chan_close ch e with
      | CloseDrop => w <| br_ch := None |>
      | CloseNotify ch' _ =>
          let w1 := w <| br_ch := Some ch' |> in
          match e with
          | ESender => w1 <| q_br ::= fun q => q ++ [BRPeerClosed] |>
          | EReceiver => w1 <| q_bs ::= fun q => q ++ [BSPeerClosed] |>
          end
      | ClosePanic site => panic w site
      end
  end.

(* Broker::close_channel_end for a request of connection c about end e *)
Definition b_close (w : world) (c : conn) (e : chan_end) : world :=
  let reply r w :=
    match e with
    | ESender => w <| q_bs ::= fun q => q ++ [BSCloseReply r] |>
    | EReceiver => w <| q_br ::= fun q => q ++ [BRCloseReply r] |>
    end in
  match br_ch w with
  | None => reply R3Invalid w
  | Some ch =>
      let r := chan_close_result ch c e in
      let w1 := reply r w in
      match r with R3Ok => b_remove_end w1 e | _ => w1 end
  end.

(* Broker::send_item *)
Definition b_send_item (w : world) (v : N) : world :=
  match br_ch w with
  | None => w
  | Some ch =>
      match chan_send_item ch cS with
      | ItemIgnore => w
      | ItemPanic site => panic w site
      | ItemReceiverUnclaimed => b_remove_end (b_remove_end w EReceiver) ESender
      | ItemExhausted => b_remove_end (w <| f_cut := true |>) ESender
      | ItemForward ch' _ add =>
          let w1 := w <| br_ch := Some ch' |> <| q_br ::= fun q => q ++ [BRItem v] |> in
          match add with
          | Some a => w1 <| q_bs ::= fun q => q ++ [BSAdd a] |>
          | None => w1
          end
      end
  end.

(* Broker::add_channel_capacity *)
Definition b_add_capacity (w : world) (n : N) : world :=
  match br_ch w with
  | None => w
  | Some ch =>
      match chan_add_capacity ch cR n with
      | AddIgnore => w
      | AddOverflow => b_remove_end (w <| f_ovf := true |>) EReceiver
      | AddPanic site => panic w site
      | AddUpdate ch' notify =>
          let w1 := w <| br_ch := Some ch' |> in
          match notify with
          | Some (_, k) => w1 <| q_bs ::= fun q => q ++ [BSAdd k] |>
          | None => w1
          end
      end
  end.

Definition broker_s (w : world) : world :=
  match q_sb w with
  | [] => w
  | m :: q =>
      let w1 := w <| q_sb := q |> in
      match m with SItem v => b_send_item w1 v | SClose => b_close w1 cS ESender end
  end.

Definition broker_r (w : world) : world :=
  match q_rb w with
  | [] => w
  | m :: q =>
      let w1 := w <| q_rb := q |> in
      match m with RAdd n => b_add_capacity w1 n | RClose => b_close w1 cR EReceiver end
  end.

(* ---------------------------------------------------------------- the clients (client.rs) *)
Definition unexpected (w : world) : world := w <| f_unexp := true |>.

Definition client_s (w : world) : world :=
  match q_bs w with
  | [] => w
  | m :: q =>
      let w1 := w <| q_bs := q |> in
      match m with
      | BSAdd n =>                       (* msg_add_channel_capacity *)
          match sd_cl w1 with
          | CEst =>
              (* unbounded_send fails silently once poll_close closed the receiving half *)
              if sd_open w1 then w1 <| sd_added ::= fun l => l ++ [n] |> else w1
          | _ => unexpected w1
          end
      | BSPeerClosed =>                  (* msg_channel_end_closed, end = Receiver *)
          match sd_cl w1 with CEst => w1 <| sd_cl := CPeer |> | _ => unexpected w1 end
      | BSCloseReply r =>                (* msg_close_channel_end_reply *)
          match sd_res w1 with
          | KPending =>
              match sd_cl w1 with
              | CGone => panic w1 SITE_CLOSE_REPLY
              | _ => w1 <| sd_cl := CGone |> <| sd_res := KDone r |>
              end
          | _ => unexpected w1
          end
      end
  end.

Definition client_r (w : world) : world :=
  match q_br w with
  | [] => w
  | m :: q =>
      let w1 := w <| q_br := q |> in
      match m with
      | BRItem v =>                      (* msg_item_received *)
          match rv_cl w1 with
          | CEst => if rv_open w1 then w1 <| rv_queue ::= fun l => l ++ [v] |> else w1
          | _ => unexpected w1
          end
      | BRPeerClosed =>                  (* msg_channel_end_closed, end = Sender *)
          match rv_cl w1 with CEst => w1 <| rv_cl := CPeer |> | _ => unexpected w1 end
      | BRCloseReply r =>
          match rv_res w1 with
          | KPending =>
              match rv_cl w1 with
              | CGone => panic w1 SITE_CLOSE_REPLY
              | _ => w1 <| rv_cl := CGone |> <| rv_res := KDone r |>
              end
          | _ => unexpected w1
          end
      end
  end.

(* ---------------------------------------------------------------- the applications *)
(* Sender::send_item: send_ready().await, then start_send_serialized *)
Definition app_send (w : world) (v : N) : world :=
  let w := absorb w in
  match ready_of w with
  | RdOk =>
      if sd_cap w =? 0 then panic w SITE_SEND_PRE else
      w <| q_sb ::= fun q => q ++ [SItem v] |> <| sd_cap ::= fun c => c - 1 |>
        <| sd_sent ::= fun l => l ++ [v] |>
  | _ => w
  end.

(* Receiver::poll_next_serialized *)
Definition app_recv (w : world) : world :=
  if (rv_cur w =? 0) || (rv_max w <? rv_cur w) then panic w SITE_RECV_PRE else
  match rv_queue w with
  | [] => w
  | v :: l =>
      let w1 := w <| rv_queue := l |> <| rv_got ::= fun g => g ++ [v] |> in
      let cur1 := rv_cur w - 1 in
      if cur1 <=? CLIENT_LOW then
        if rv_max w <=? cur1 then panic w1 SITE_RECV_DIFF else
        let diff := rv_max w - cur1 in
        (* RawChannel::add_channel_capacity: only while the end is open *)
        let w2 := if rv_open w1 then w1 <| q_rb ::= fun q => q ++ [RAdd diff] |> else w1 in
        if u32_max <? cur1 + diff then panic w2 SITE_RECV_ADD else
        let w3 := w2 <| rv_cur := cur1 + diff |> in
        if (rv_cur w3 =? 0) || (rv_max w3 <? rv_cur w3) then panic w3 SITE_RECV_POST else w3
      else
        let w3 := w1 <| rv_cur := cur1 |> in
        if (rv_cur w3 =? 0) || (rv_max w3 <? rv_cur w3) then panic w3 SITE_RECV_POST else w3
  end.

(* Sender::poll_close (first call) or drop: capacity_added.close(), CloseChannelEnd is sent *)
Definition app_close_s (w : world) : world :=
  if sd_open w then
    w <| sd_open := false |> <| sd_res := KPending |> <| q_sb ::= fun q => q ++ [SClose] |>
  else w.

Definition app_close_r (w : world) : world :=
  if rv_open w then
    w <| rv_open := false |> <| rv_res := KPending |> <| q_rb ::= fun q => q ++ [RClose] |>
  else w.

Definition wstep (w : world) (a : act) : world :=
  match a with
  | ASend v => app_send w v
  | APollReady => absorb w
  | APollClosed => absorb w
  | ARecv => app_recv w
  | ACloseS => app_close_s w
  | ACloseR => app_close_r w
  | BrokerS => broker_s w
  | BrokerR => broker_r w
  | ClientS => client_s w
  | ClientR => client_r w
  end.

Definition wrun (w : world) (sch : list act) : world := fold_left wstep sch w.

(* states reachable from an established channel whose receiver was claimed with capacity [cap] *)
Inductive reachable (cap : N) : world -> Prop :=
| reach_init : reachable cap (winit cap)
| reach_step w a : reachable cap w -> reachable cap (wstep w a).

End Owners.

(* ---------------------------------------------------------------- projections used by the statements *)
Fixpoint sb_items (q : list smsg) : list N :=
  match q with [] => [] | SItem v :: q => v :: sb_items q | SClose :: q => sb_items q end.
Fixpoint br_items (q : list brmsg) : list N :=
  match q with [] => [] | BRItem v :: q => v :: br_items q | _ :: q => br_items q end.
Fixpoint bs_adds (q : list bsmsg) : N :=
  match q with [] => 0 | BSAdd n :: q => n + bs_adds q | _ :: q => bs_adds q end.
Fixpoint rb_adds (q : list rmsg) : N :=
  match q with [] => 0 | RAdd n :: q => n + rb_adds q | _ :: q => rb_adds q end.

Definition len {A} (l : list A) : N := N.of_nat (length l).

(* the broker's recorded capacities *)
Definition scap_of (b : option chan) : option N :=
  match b with Some ch => match ch_s ch with Claimed _ c => Some c | _ => None end | None => None end.
Definition rcap_of (b : option chan) : option N :=
  match b with Some ch => match ch_r ch with Claimed _ c => Some c | _ => None end | None => None end.
Definition b_scap (w : world) : option N := scap_of (br_ch w).
Definition b_rcap (w : world) : option N := rcap_of (br_ch w).

(* nothing in flight *)
Definition quiet (w : world) : Prop :=
  q_sb w = [] /\ q_rb w = [] /\ q_bs w = [] /\ q_br w = [] /\ rv_queue w = [] /\ sd_added w = [].
