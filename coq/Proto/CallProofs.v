(* Proto/CallProofs.v — C06_calls: in the composed system of one service of a client ([wsys],
   Proto/ClientView.v: the client's slice, the FIFOs, the broker's "service exists" bit) no schedule
   of destroy requests (any number, never awaited), broker steps, calls reaching the broker while
   the service exists, abort notices, silent removal by object destruction, answered calls and
   receive steps makes the client panic or refuse a message: a CallFunction only ever arrives for
   a cookie in `services` (expect("inconsistent state") of msg_call_function2 is unreachable),
   DestroyServiceReply(Ok) finds the entry (debug_assert of msg_destroy_service_reply), the abort
   handle of a new call is new (assert!(dup.is_none()); call serials of the broker are distinct).

   The `services`/destroy part uses the drained-view invariant (the slice without abort handles
   after consuming everything in flight equals the broker's bit); the abort handles are bounded by
   the broker's serial counter and disjoint from the calls in flight. *)
From stdpp Require Import gmap list.
From RecordUpdate Require Import RecordSet.
Import RecordSetNotations.
From Aldrin Require Import gen.ClientConsts Broker.Model Proto.ClientView.
Local Open Scope N_scope.

(* the part of the slice that does not depend on abort handles *)
Definition w2 : Type := bool * gset N.
Definition wproj (z : wcore) : w2 := (wc_in z, wc_pdestroy z).

Definition wrecv2 (p : w2) (m : msg) : option w2 :=
  match m with
  | DestroyServiceReply s r =>
      if negb (bool_decide (s ∈ p.2)) then Some p else
      match r with
      | R3Ok => if p.1 then Some (false, p.2 ∖ {[s]}) else None
      | R3Invalid => Some (p.1, p.2 ∖ {[s]})
      | R3Foreign => None
      end
  | CallFunction _ _ _ _ | CallFunction2 _ _ _ _ _ => if p.1 then Some p else None
  | AbortFunctionCall _ => Some p
  | _ => None
  end.

Fixpoint wdrain (p : w2) (d : list msg) : option w2 :=
  match d with
  | [] => Some p
  | m :: r => match wrecv2 p m with Some p' => wdrain p' r | None => None end
  end.

Lemma wdrain_app p d1 d2 : wdrain p (d1 ++ d2) = match wdrain p d1 with Some p1 => wdrain p1 d2 | None => None end.
Proof. revert p. induction d1 as [|m d1 IH]; intros p; cbn; [reflexivity|]. destruct (wrecv2 p m); [apply IH|reflexivity]. Qed.

Definition call_serial (m : msg) : option N :=
  match m with CallFunction b _ _ _ | CallFunction2 b _ _ _ _ => Some b | _ => None end.

(* the real handler agrees with the abstraction as long as a new call's abort handle is new *)
Lemma wrecv_proj alive z m p' :
  wrecv2 (wproj z) m = Some p' ->
  (forall b, call_serial m = Some b -> b ∉ wc_aborts z) ->
  exists z', wrecv alive z m = WcOk z' /\ wproj z' = p' /\
    (forall b, b ∈ wc_aborts z' -> b ∈ wc_aborts z \/ call_serial m = Some b).
Proof.
  intros H Hb. destruct z as [zin zpd zab]. unfold wproj in H. cbn in H.
  destruct m; cbn in H; try discriminate; cbn [wrecv].
  - (* DestroyServiceReply *)
    cbn. destruct (negb (bool_decide (serial ∈ zpd))); cbn.
    + inversion H; subst. eexists; split; [reflexivity|]. split; [reflexivity|auto].
    + destruct r; cbn in *.
      * destruct zin; [|discriminate]. inversion H; subst. eexists; split; [reflexivity|]. split; [reflexivity|auto].
      * inversion H; subst. eexists; split; [reflexivity|]. split; [reflexivity|auto].
      * discriminate.
  - (* CallFunction *)
    cbn. destruct zin; cbn in *; [|discriminate]. inversion H; subst. destruct alive; cbn.
    + rewrite bool_decide_eq_false_2 by (apply Hb; reflexivity). eexists; split; [reflexivity|]. split; [reflexivity|].
      intros b Hin. apply elem_of_union in Hin. destruct Hin as [Hin|Hin]; [right; apply elem_of_singleton in Hin; subst; reflexivity|left; exact Hin].
    + eexists; split; [reflexivity|]. split; [reflexivity|auto].
  - (* CallFunction2 *)
    cbn. destruct zin; cbn in *; [|discriminate]. inversion H; subst. destruct alive; cbn.
    + rewrite bool_decide_eq_false_2 by (apply Hb; reflexivity). eexists; split; [reflexivity|]. split; [reflexivity|].
      intros b Hin. apply elem_of_union in Hin. destruct Hin as [Hin|Hin]; [right; apply elem_of_singleton in Hin; subst; reflexivity|left; exact Hin].
    + eexists; split; [reflexivity|]. split; [reflexivity|auto].
  - (* AbortFunctionCall *)
    inversion H; subst. cbn. eexists; split; [reflexivity|]. split; [reflexivity|].
    intros b Hin. left. cbn in Hin. set_solver.
Qed.

Definition destroy_serial (m : msg) : option N := match m with DestroyService s _ => Some s | _ => None end.

Section Calls.
Variable sc : uuid.

Definition reply_serial (m : msg) : option N := match m with DestroyServiceReply s _ => Some s | _ => None end.

Record WInv (z : wsys) (p' : w2) : Prop := {
  wi_drain : wdrain (wproj (w_c z)) (w_down z) = Some p';
  wi_link : w_b z = true -> p'.1 = true;
  wi_pend : forall s, s ∈ p'.2 <-> DestroyService s sc ∈ w_up z;
  wi_nodup : NoDup (omap destroy_serial (w_up z));
  wi_fresh_up : forall s, s ∈ omap destroy_serial (w_up z) -> s < w_next z;
  wi_fresh_down : forall s, s ∈ omap reply_serial (w_down z) -> s < w_next z;
  wi_fresh_pend : forall s, s ∈ wc_pdestroy (w_c z) -> s < w_next z;
  wi_only : forall m, m ∈ w_up z -> exists s, m = DestroyService s sc;
  (* abort handles and the calls in flight *)
  wi_ab_bound : forall b, b ∈ wc_aborts (w_c z) -> b < w_bnext z;
  wi_calls_bound : forall b, b ∈ omap call_serial (w_down z) -> b < w_bnext z;
  wi_calls_nodup : NoDup (omap call_serial (w_down z));
  wi_calls_new : forall b, b ∈ omap call_serial (w_down z) -> b ∉ wc_aborts (w_c z) }.

Lemma winv_created : WInv wcreated (true, ∅).
Proof.
  constructor; cbn.
  - reflexivity.
  - reflexivity.
  - intros s. split; intros H; [set_solver|inversion H].
  - constructor.
  - intros s H. inversion H.
  - intros s H. inversion H.
  - intros s H. set_solver.
  - intros m H. inversion H.
  - intros b H. set_solver.
  - intros b H. inversion H.
  - constructor.
  - intros b H. inversion H.
Qed.

(* draining with one more pending destroy whose serial no reply in flight carries *)
Lemma wdrain_ins d : forall p p' s,
  wdrain p d = Some p' -> s ∉ p.2 -> s ∉ omap reply_serial d ->
  wdrain (p.1, {[s]} ∪ p.2) d = Some (p'.1, {[s]} ∪ p'.2) /\ s ∉ p'.2.
Proof.
  induction d as [|m d IH]; intros [pin ppd] p' s H Hs Hd; cbn in *.
  - inversion H; subst. split; [reflexivity|exact Hs].
  - destruct m; cbn in H, Hd |- *; try discriminate.
    + (* DestroyServiceReply *)
      assert (serial <> s) by (intros ->; apply Hd; left).
      assert (Hd' : s ∉ omap reply_serial d) by (intros Hin; apply Hd; right; exact Hin).
      destruct (bool_decide (serial ∈ ppd)) eqn:E; cbn in H |- *.
      * apply bool_decide_eq_true in E.
        rewrite bool_decide_eq_true_2 by set_solver. cbn.
        assert (Heq : ({[s]} ∪ ppd) ∖ {[serial]} = {[s]} ∪ (ppd ∖ {[serial]})) by set_solver.
        destruct r; cbn in H |- *; try discriminate.
        -- destruct pin; [|discriminate]. rewrite Heq. apply (IH (false, ppd ∖ {[serial]}) p' s H); [cbn; set_solver|exact Hd'].
        -- rewrite Heq. apply (IH (pin, ppd ∖ {[serial]}) p' s H); [cbn; set_solver|exact Hd'].
      * apply bool_decide_eq_false in E.
        rewrite bool_decide_eq_false_2 by set_solver. cbn. apply (IH (pin, ppd) p' s H); [exact Hs|exact Hd'].
    + destruct pin; cbn in H |- *; [|discriminate]. apply (IH (true, ppd) p' s H); assumption.
    + destruct pin; cbn in H |- *; [|discriminate]. apply (IH (true, ppd) p' s H); assumption.
    + apply (IH (pin, ppd) p' s H); assumption.
Qed.

Lemma wrecv2_sub p m p1 : wrecv2 p m = Some p1 -> p1.2 ⊆ p.2.
Proof.
  destruct p as [pin ppd]. destruct m; cbn; try discriminate.
  - destruct (negb (bool_decide (serial ∈ ppd))); [intros H; inversion H; reflexivity|].
    destruct r; [destruct pin| |]; intros H; inversion H; cbn; set_solver.
  - destruct pin; intros H; inversion H; reflexivity.
  - destruct pin; intros H; inversion H; reflexivity.
  - intros H; inversion H; reflexivity.
Qed.

Lemma omap_app_single {A B} (f : A -> option B) l x :
  omap f (l ++ [x]) = omap f l ++ match f x with Some y => [y] | None => [] end.
Proof. rewrite omap_app. cbn. destruct (f x); reflexivity. Qed.

Lemma winv_step z p' o :
  WInv z p' ->
  match wstep sc z o with
  | WOk z1 => exists p1, WInv z1 p1
  | WDisabled => True
  | WRej | WPan _ => False
  end.
Proof.
  intros I. destruct o as [| |f v|b| |b|alive]; cbn [wstep].
  - (* WoDestroy *)
    destruct I as [I1 I2 I3 I4 I5 I6 I7 I8 I9 I10 I11 I12].
    destruct z as [b c nx bn up dn]. destruct c as [cin cpd cab]. cbn in *.
    assert (Hn1 : nx ∉ cpd) by (intros H; apply I7 in H; lia).
    assert (Hn2 : nx ∉ omap reply_serial dn) by (intros H; apply I6 in H; lia).
    assert (Hn3 : nx ∉ omap destroy_serial up) by (intros H; apply I5 in H; lia).
    destruct (wdrain_ins dn (cin, cpd) p' nx I1 Hn1 Hn2) as [Hd Hn4]. cbn in Hd.
    exists (p'.1, {[nx]} ∪ p'.2). constructor; cbn; try assumption.
    + intros s. rewrite elem_of_union, elem_of_singleton, elem_of_app, elem_of_list_singleton, I3. split.
      * intros [->|H]; [right; reflexivity|left; exact H].
      * intros [H|H]; [right; exact H|left; inversion H; reflexivity].
    + rewrite omap_app_single. cbn. apply NoDup_app. split; [exact I4|]. split; [|apply NoDup_singleton].
      intros x Hx Hx'. apply elem_of_list_singleton in Hx'. subst. contradiction.
    + intros s. rewrite omap_app_single. cbn. rewrite elem_of_app, elem_of_list_singleton. intros [H | ->]; [apply I5 in H|]; lia.
    + intros s H. apply I6 in H. lia.
    + intros s. rewrite elem_of_union, elem_of_singleton. intros [->|H]; [lia|]. apply I7 in H. lia.
    + intros m. rewrite elem_of_app, elem_of_list_singleton. intros [H | ->]; [apply I8; exact H|eauto].
  - (* WoBroker *)
    destruct (w_up z) as [|m u] eqn:Eu; [exact Logic.I|].
    destruct I as [I1 I2 I3 I4 I5 I6 I7 I8 I9 I10 I11 I12]. rewrite Eu in *.
    destruct (I8 m ltac:(left)) as [s ->].
    assert (Hs : s ∈ p'.2) by (apply I3; left).
    set (r := if w_b z then R3Ok else R3Invalid).
    assert (Hdr : exists p1, wrecv2 p' (DestroyServiceReply s r) = Some p1 /\ p1.2 = p'.2 ∖ {[s]}).
    { destruct p' as [pin ppd]. cbn in *. rewrite bool_decide_eq_true_2 by exact Hs. cbn. unfold r.
      destruct (w_b z) eqn:Eb; cbn; [rewrite (I2 eq_refl)|]; eexists; split; reflexivity. }
    destruct Hdr as (p1 & Hp1 & Hp1'). exists p1.
    cbn in I4. apply NoDup_cons in I4. destruct I4 as [Hnotin I4].
    destruct z as [b c nx bn up dn]. cbn in *. subst up. fold r. constructor; cbn.
    + rewrite wdrain_app, I1. cbn. rewrite Hp1. reflexivity.
    + discriminate.
    + intros s0. rewrite Hp1', elem_of_difference, elem_of_singleton, I3, elem_of_cons. split.
      * intros [[H|H] Hne]; [inversion H; congruence|exact H].
      * intros H. split; [right; exact H|]. intros ->. apply Hnotin. apply elem_of_list_omap. eexists. split; [exact H|reflexivity].
    + exact I4.
    + intros s0 H. apply I5. right. exact H.
    + intros s0. rewrite omap_app_single. cbn. rewrite elem_of_app, elem_of_list_singleton. intros [H | ->]; [apply I6; exact H|apply I5; left].
    + exact I7.
    + intros m H. apply I8. right. exact H.
    + exact I9.
    + rewrite omap_app_single. cbn. rewrite app_nil_r. exact I10.
    + rewrite omap_app_single. cbn. rewrite app_nil_r. exact I11.
    + rewrite omap_app_single. cbn. rewrite app_nil_r. exact I12.
  - (* WoCall *)
    destruct (w_b z) eqn:Eb; [|exact Logic.I].
    destruct I as [I1 I2 I3 I4 I5 I6 I7 I8 I9 I10 I11 I12]. exists p'.
    destruct z as [b c nx bn up dn]. cbn in *. subst b. constructor; cbn; try assumption.
    + rewrite wdrain_app, I1. cbn. destruct p' as [pin ppd]. cbn in *. rewrite (I2 eq_refl). reflexivity.
    + rewrite omap_app_single. cbn. rewrite app_nil_r. exact I6.
    + intros b H. apply I9 in H. lia.
    + intros b. rewrite omap_app_single. cbn. rewrite elem_of_app, elem_of_list_singleton. intros [H | ->]; [apply I10 in H|]; lia.
    + rewrite omap_app_single. cbn. apply NoDup_app. split; [exact I11|]. split; [|apply NoDup_singleton].
      intros x Hx Hx'. apply elem_of_list_singleton in Hx'. subst. apply I10 in Hx. lia.
    + intros b. rewrite omap_app_single. cbn. rewrite elem_of_app, elem_of_list_singleton. intros [H | ->]; [apply I12; exact H|].
      intros H. apply I9 in H. lia.
  - (* WoAbort *)
    destruct I as [I1 I2 I3 I4 I5 I6 I7 I8 I9 I10 I11 I12]. exists p'.
    destruct z as [b0 c nx bn up dn]. cbn in *. constructor; cbn; try assumption.
    + rewrite wdrain_app, I1. reflexivity.
    + rewrite omap_app_single. cbn. rewrite app_nil_r. exact I6.
    + rewrite omap_app_single. cbn. rewrite app_nil_r. exact I10.
    + rewrite omap_app_single. cbn. rewrite app_nil_r. exact I11.
    + rewrite omap_app_single. cbn. rewrite app_nil_r. exact I12.
  - (* WoObjectGone *)
    destruct I as [I1 I2 I3 I4 I5 I6 I7 I8 I9 I10 I11 I12]. exists p'.
    destruct z as [b0 c nx bn up dn]. cbn in *. constructor; cbn; try assumption. discriminate.
  - (* WoFinish *)
    destruct I as [I1 I2 I3 I4 I5 I6 I7 I8 I9 I10 I11 I12]. exists p'.
    destruct z as [b0 c nx bn up dn]. destruct c as [cin cpd cab]. cbn in *. constructor; cbn; try assumption.
    + intros b1 H. apply I9. set_solver.
    + intros b1 H H'. eapply I12; [exact H|]. set_solver.
  - (* WoRecv *)
    destruct (w_down z) as [|m d] eqn:Ed; [exact Logic.I|].
    destruct I as [I1 I2 I3 I4 I5 I6 I7 I8 I9 I10 I11 I12]. rewrite Ed in *. cbn in I1.
    destruct (wrecv2 (wproj (w_c z)) m) as [p1|] eqn:E2; [|discriminate].
    assert (Hnew : forall b, call_serial m = Some b -> b ∉ wc_aborts (w_c z)).
    { intros b Hb. apply I12. cbn. rewrite Hb. left. }
    destruct (wrecv_proj alive (w_c z) m p1 E2 Hnew) as (c' & Hr & Hproj & Hab). rewrite Hr.
    exists p'. pose proof (wrecv2_sub _ _ _ E2) as Hsub.
    destruct z as [b0 c nx bn up dn]. cbn in *. subst dn. constructor; cbn; try assumption.
    + rewrite Hproj. exact I1.
    + intros s H. apply I6. destruct (reply_serial m); [right|]; exact H.
    + intros s H. apply I7. assert (Hpd : wc_pdestroy c' = p1.2) by (rewrite <- Hproj; reflexivity). rewrite Hpd in H. set_solver.
    + intros b H. destruct (Hab b H) as [H'|H']; [apply I9; exact H'|]. apply I10. rewrite H'. left.
    + intros b H. apply I10. destruct (call_serial m); [right|]; exact H.
    + destruct (call_serial m); [apply NoDup_cons in I11; tauto|exact I11].
    + intros b H Hin. destruct (Hab b Hin) as [H'|H'].
      * eapply (I12 b); [|exact H']. destruct (call_serial m); [right|]; exact H.
      * rewrite H' in I11. apply NoDup_cons in I11. destruct I11 as [Hn _]. contradiction.
Qed.

Theorem calls_never_rejected ops :
  match wrun sc wcreated ops with WOk _ => True | _ => False end.
Proof.
  assert (G : forall ops z p', WInv z p' -> match wrun sc z ops with WOk _ => True | _ => False end).
  { clear ops. induction ops as [|o ops IH]; intros z p' I; cbn [wrun]; [exact Logic.I|].
    pose proof (winv_step z p' o I) as H.
    destruct (wstep sc z o) as [z1| | |]; try contradiction.
    - destruct H as [p1 H]. exact (IH _ _ H).
    - exact (IH _ _ I). }
  exact (G ops _ _ winv_created).
Qed.

End Calls.
