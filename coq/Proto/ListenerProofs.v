(* Proto/ListenerProofs.v — C06_listeners: in the composed system client slice <-> FIFOs <-> broker
   listener entry ([lsys], Proto/ClientView.v) no schedule of application operations (start, stop,
   destroy, in any number and order, not awaiting anything), broker steps, client receive steps and
   untagged new-object events makes the client reject a message or trip an assertion.

   Invariant: "the client's view equals the broker's view as of the last message consumed" — with
   [ldrain] = the client slice after it will have consumed everything in flight towards it:
   draining succeeds, the drained listener state is the broker's, and the drained pending maps
   are exactly the requests still travelling towards the broker. *)
From stdpp Require Import gmap list.
From RecordUpdate Require Import RecordSet.
Import RecordSetNotations.
From Aldrin Require Import gen.ClientConsts Broker.Model Proto.ClientView.
Local Open Scope N_scope.
Local Arguments includes_current : simpl never.

Fixpoint ldrain (z : lcore) (d : list msg) : lcres :=
  match d with
  | [] => LcOk z
  | m :: r => match lrecv z m with LcOk z' => ldrain z' r | bad => bad end
  end.

Lemma ldrain_app z d1 d2 :
  ldrain z (d1 ++ d2) = match ldrain z d1 with LcOk z1 => ldrain z1 d2 | bad => bad end.
Proof.
  revert z. induction d1 as [|m d1 IH]; intros z; cbn [ldrain app]; [reflexivity|].
  destruct (lrecv z m); [apply IH|reflexivity|reflexivity].
Qed.

Definition req_serial (m : msg) : option N :=
  match m with
  | StartBusListener s _ _ | StopBusListener s _ | DestroyBusListener s _ => Some s
  | _ => None
  end.
Definition up_serials (up : list msg) : list N := omap req_serial up.

Lemma elem_up_serials m up s : m ∈ up -> req_serial m = Some s -> s ∈ up_serials up.
Proof. intros Hm Hs. unfold up_serials. apply elem_of_list_omap. exists m. split; assumption. Qed.

Definition link (b : option (option scope)) (v : option lst) : Prop :=
  match b, v with
  | None, None => True
  | Some sc, Some l => ls_scope l = sc /\ (sc <> None -> ls_fin l = true)
  | _, _ => False
  end.

Section Listener.
Variable k : uuid.

(* the requests of this listener: nothing else travels in this slice's queue *)
Definition is_lreq (m : msg) : Prop :=
  match m with
  | StartBusListener _ c _ | StopBusListener _ c | DestroyBusListener _ c => c = k
  | _ => False
  end.

Record LInv (z : lsys) (c' : lcore) : Prop := {
  li_drain : ldrain (z_c z) (z_down z) = LcOk c';
  li_link : link (z_b z) (lc_v c');
  li_start : forall s sc, lc_pstart c' !! s = Some sc <-> StartBusListener s k sc ∈ z_up z;
  li_stop : forall s, s ∈ lc_pstop c' <-> StopBusListener s k ∈ z_up z;
  li_destroy : forall s, s ∈ lc_pdestroy c' <-> DestroyBusListener s k ∈ z_up z;
  li_nodup : NoDup (up_serials (z_up z));
  li_fresh_up : forall s, s ∈ up_serials (z_up z) -> s < z_next z;
  li_fresh_start : forall s, is_Some (lc_pstart (z_c z) !! s) -> s < z_next z;
  li_fresh_stop : forall s, s ∈ lc_pstop (z_c z) -> s < z_next z;
  li_fresh_destroy : forall s, s ∈ lc_pdestroy (z_c z) -> s < z_next z;
  li_only : forall m, m ∈ z_up z -> is_lreq m }.

(* ---------------------------------------------------------------- draining with one more pending request *)
Lemma drain_ins_start d : forall c c' s sc,
  ldrain c d = LcOk c' -> lc_pstart c !! s = None ->
  ldrain (c <| lc_pstart ::= <[s := sc]> |>) d = LcOk (c' <| lc_pstart ::= <[s := sc]> |>) /\ lc_pstart c' !! s = None.
Proof.
  induction d as [|m d IH]; intros c c' s sc Hd Hs; cbn [ldrain] in *.
  { inversion Hd; subst. split; [reflexivity|exact Hs]. }
  destruct c as [v ps pt pd]. cbn in Hs.
  destruct m; cbn in Hd |- *; try discriminate.
  - (* DestroyBusListenerReply *)
    destruct (negb (bool_decide (serial ∈ pd))); cbn in Hd |- *; [discriminate|].
    destruct ok; cbn in Hd |- *.
    + destruct v as [l|]; cbn in Hd |- *; [|discriminate]. apply (IH _ _ s sc Hd). exact Hs.
    + apply (IH _ _ s sc Hd). exact Hs.
  - (* StartBusListenerReply *)
    destruct (ps !! serial) as [sc0|] eqn:E; cbn in Hd |- *; [|discriminate].
    assert (serial <> s) by (intros ->; congruence).
    rewrite lookup_insert_ne by congruence. rewrite E.
    destruct r; cbn in Hd |- *.
    + destruct v as [l|]; cbn in Hd |- *; [|discriminate]. destruct (l_start l sc0); cbn in Hd |- *; [|discriminate].
      unfold set in *; cbn in *. rewrite delete_insert_ne by congruence.
      apply (IH _ _ s sc Hd). cbn. rewrite lookup_delete_ne by congruence. exact Hs.
    + unfold set in *; cbn in *. rewrite delete_insert_ne by congruence.
      apply (IH _ _ s sc Hd). cbn. rewrite lookup_delete_ne by congruence. exact Hs.
    + unfold set in *; cbn in *. rewrite delete_insert_ne by congruence.
      apply (IH _ _ s sc Hd). cbn. rewrite lookup_delete_ne by congruence. exact Hs.
  - (* StopBusListenerReply *)
    destruct (negb (bool_decide (serial ∈ pt))); cbn in Hd |- *; [discriminate|].
    destruct r; cbn in Hd |- *.
    + destruct v as [l|]; cbn in Hd |- *; [|discriminate]. destruct (l_stop l); cbn in Hd |- *; [|discriminate].
      apply (IH _ _ s sc Hd). exact Hs.
    + apply (IH _ _ s sc Hd). exact Hs.
    + apply (IH _ _ s sc Hd). exact Hs.
  - (* EmitBusEvent *)
    destruct c as [c0|]; cbn in Hd |- *.
    + destruct v as [l|]; cbn in Hd |- *; [|discriminate]. destruct (l_emit_current l); cbn in Hd |- *; [|discriminate].
      apply (IH _ _ s sc Hd). exact Hs.
    + apply (IH _ _ s sc Hd). exact Hs.
  - (* BusListenerCurrentFinished *)
    destruct v as [l|]; cbn in Hd |- *; [|discriminate]. destruct (l_current_finished l); cbn in Hd |- *; [|discriminate].
    apply (IH _ _ s sc Hd). exact Hs.
Qed.

Lemma drain_ins_stop d : forall c c' s,
  ldrain c d = LcOk c' -> s ∉ lc_pstop c ->
  ldrain (c <| lc_pstop ::= fun x => {[s]} ∪ x |>) d = LcOk (c' <| lc_pstop ::= fun x => {[s]} ∪ x |>) /\ s ∉ lc_pstop c'.
Proof.
  induction d as [|m d IH]; intros c c' s Hd Hs; cbn [ldrain] in *.
  { inversion Hd; subst. split; [reflexivity|exact Hs]. }
  destruct c as [v ps pt pd]. cbn in Hs.
  destruct m; cbn in Hd |- *; try discriminate.
  - destruct (negb (bool_decide (serial ∈ pd))); cbn in Hd |- *; [discriminate|].
    destruct ok; cbn in Hd |- *.
    + destruct v as [l|]; cbn in Hd |- *; [|discriminate]. apply (IH _ _ s Hd). exact Hs.
    + apply (IH _ _ s Hd). exact Hs.
  - destruct (ps !! serial) as [sc0|] eqn:E; cbn in Hd |- *; [|discriminate].
    destruct r; cbn in Hd |- *.
    + destruct v as [l|]; cbn in Hd |- *; [|discriminate]. destruct (l_start l sc0); cbn in Hd |- *; [|discriminate].
      apply (IH _ _ s Hd). exact Hs.
    + apply (IH _ _ s Hd). exact Hs.
    + apply (IH _ _ s Hd). exact Hs.
  - destruct (bool_decide (serial ∈ pt)) eqn:E; cbn in Hd; cbn in Hd |- *; [|discriminate].
    apply bool_decide_eq_true in E.
    assert (serial <> s) by (intros ->; contradiction).
    rewrite bool_decide_eq_true_2 by set_solver. cbn.
    assert (Heq : ({[s]} ∪ pt) ∖ {[serial]} = {[s]} ∪ (pt ∖ {[serial]})) by set_solver.
    destruct r; cbn in Hd |- *.
    + destruct v as [l|]; cbn in Hd |- *; [|discriminate]. destruct (l_stop l); cbn in Hd |- *; [|discriminate].
      unfold set in *; cbn in *. rewrite Heq. apply (IH _ _ s Hd). cbn. set_solver.
    + unfold set in *; cbn in *. rewrite Heq. apply (IH _ _ s Hd). cbn. set_solver.
    + unfold set in *; cbn in *. rewrite Heq. apply (IH _ _ s Hd). cbn. set_solver.
  - destruct c as [c0|]; cbn in Hd |- *.
    + destruct v as [l|]; cbn in Hd |- *; [|discriminate]. destruct (l_emit_current l); cbn in Hd |- *; [|discriminate].
      apply (IH _ _ s Hd). exact Hs.
    + apply (IH _ _ s Hd). exact Hs.
  - destruct v as [l|]; cbn in Hd |- *; [|discriminate]. destruct (l_current_finished l); cbn in Hd |- *; [|discriminate].
    apply (IH _ _ s Hd). exact Hs.
Qed.

Lemma drain_ins_destroy d : forall c c' s,
  ldrain c d = LcOk c' -> s ∉ lc_pdestroy c ->
  ldrain (c <| lc_pdestroy ::= fun x => {[s]} ∪ x |>) d = LcOk (c' <| lc_pdestroy ::= fun x => {[s]} ∪ x |>) /\ s ∉ lc_pdestroy c'.
Proof.
  induction d as [|m d IH]; intros c c' s Hd Hs; cbn [ldrain] in *.
  { inversion Hd; subst. split; [reflexivity|exact Hs]. }
  destruct c as [v ps pt pd]. cbn in Hs.
  destruct m; cbn in Hd |- *; try discriminate.
  - destruct (bool_decide (serial ∈ pd)) eqn:E; cbn in Hd; cbn in Hd |- *; [|discriminate].
    apply bool_decide_eq_true in E.
    assert (serial <> s) by (intros ->; contradiction).
    rewrite bool_decide_eq_true_2 by set_solver. cbn.
    assert (Heq : ({[s]} ∪ pd) ∖ {[serial]} = {[s]} ∪ (pd ∖ {[serial]})) by set_solver.
    destruct ok; cbn in Hd |- *.
    + destruct v as [l|]; cbn in Hd |- *; [|discriminate].
      unfold set in *; cbn in *. rewrite Heq. apply (IH _ _ s Hd). cbn. set_solver.
    + unfold set in *; cbn in *. rewrite Heq. apply (IH _ _ s Hd). cbn. set_solver.
  - destruct (ps !! serial) as [sc0|] eqn:E; cbn in Hd |- *; [|discriminate].
    destruct r; cbn in Hd |- *.
    + destruct v as [l|]; cbn in Hd |- *; [|discriminate]. destruct (l_start l sc0); cbn in Hd |- *; [|discriminate].
      apply (IH _ _ s Hd). exact Hs.
    + apply (IH _ _ s Hd). exact Hs.
    + apply (IH _ _ s Hd). exact Hs.
  - destruct (negb (bool_decide (serial ∈ pt))); cbn in Hd |- *; [discriminate|].
    destruct r; cbn in Hd |- *.
    + destruct v as [l|]; cbn in Hd |- *; [|discriminate]. destruct (l_stop l); cbn in Hd |- *; [|discriminate].
      apply (IH _ _ s Hd). exact Hs.
    + apply (IH _ _ s Hd). exact Hs.
    + apply (IH _ _ s Hd). exact Hs.
  - destruct c as [c0|]; cbn in Hd |- *.
    + destruct v as [l|]; cbn in Hd |- *; [|discriminate]. destruct (l_emit_current l); cbn in Hd |- *; [|discriminate].
      apply (IH _ _ s Hd). exact Hs.
    + apply (IH _ _ s Hd). exact Hs.
  - destruct v as [l|]; cbn in Hd |- *; [|discriminate]. destruct (l_current_finished l); cbn in Hd |- *; [|discriminate].
    apply (IH _ _ s Hd). exact Hs.
Qed.

(* draining only removes pending entries *)
Lemma drain_pending_sub d : forall c c',
  ldrain c d = LcOk c' ->
  (forall s, is_Some (lc_pstart c' !! s) -> is_Some (lc_pstart c !! s)) /\
  lc_pstop c' ⊆ lc_pstop c /\ lc_pdestroy c' ⊆ lc_pdestroy c.
Proof.
  induction d as [|m d IH]; intros c c' Hd; cbn [ldrain] in *.
  { inversion Hd; subst. split; [auto|split; reflexivity]. }
  destruct (lrecv c m) as [c1| |] eqn:E; try discriminate.
  destruct (IH _ _ Hd) as (H1 & H2 & H3).
  assert (Hstep : (forall s, is_Some (lc_pstart c1 !! s) -> is_Some (lc_pstart c !! s)) /\
                  lc_pstop c1 ⊆ lc_pstop c /\ lc_pdestroy c1 ⊆ lc_pdestroy c).
  { destruct c as [v ps pt pd]. destruct m; cbn in E; try discriminate.
    - destruct (negb (bool_decide (serial ∈ pd))); cbn in E; [discriminate|].
      destruct ok; cbn in E.
      + destruct v as [l|]; cbn in E; [|discriminate]. inversion E; subst; cbn. split; [auto|split; set_solver].
      + inversion E; subst; cbn. split; [auto|split; set_solver].
    - destruct (ps !! serial) as [sc0|] eqn:E1; cbn in E; [|discriminate].
      assert (forall s, is_Some (delete serial ps !! s) -> is_Some (ps !! s)).
      { intros s [x Hx]. apply lookup_delete_Some in Hx. destruct Hx as [_ Hx]. eauto. }
      destruct r; cbn in E.
      + destruct v as [l|]; cbn in E; [|discriminate]. destruct (l_start l sc0); cbn in E; [|discriminate].
        inversion E; subst; cbn. split; [assumption|split; reflexivity].
      + inversion E; subst; cbn. split; [assumption|split; reflexivity].
      + inversion E; subst; cbn. split; [assumption|split; reflexivity].
    - destruct (negb (bool_decide (serial ∈ pt))); cbn in E; [discriminate|].
      destruct r; cbn in E.
      + destruct v as [l|]; cbn in E; [|discriminate]. destruct (l_stop l); cbn in E; [|discriminate].
        inversion E; subst; cbn. split; [auto|split; set_solver].
      + inversion E; subst; cbn. split; [auto|split; set_solver].
      + inversion E; subst; cbn. split; [auto|split; set_solver].
    - destruct c as [c0|]; cbn in E.
      + destruct v as [l|]; cbn in E; [|discriminate]. destruct (l_emit_current l); cbn in E; [|discriminate].
        inversion E; subst; cbn. split; [auto|split; reflexivity].
      + inversion E; subst; cbn. split; [auto|split; reflexivity].
    - destruct v as [l|]; cbn in E; [|discriminate]. destruct (l_current_finished l); cbn in E; [|discriminate].
      inversion E; subst; cbn. split; [auto|split; reflexivity]. }
  destruct Hstep as (G1 & G2 & G3). split; [auto|split; set_solver].
Qed.

(* ---------------------------------------------------------------- the initial state *)
Lemma linv_created : LInv lcreated (z_c lcreated).
Proof.
  constructor; cbn.
  - reflexivity.
  - split; [reflexivity|]. intros H; congruence.
  - intros s sc. rewrite lookup_empty. split; [discriminate|]. intros H. inversion H.
  - intros s. split; intros H; [set_solver|inversion H].
  - intros s. split; intros H; [set_solver|inversion H].
  - constructor.
  - intros s H. inversion H.
  - intros s [x Hx]. rewrite lookup_empty in Hx. discriminate.
  - intros s H. set_solver.
  - intros s H. set_solver.
  - intros m H. inversion H.
Qed.

(* ---------------------------------------------------------------- the application sends a request *)
Lemma up_serials_app u m : up_serials (u ++ [m]) = up_serials u ++ match req_serial m with Some s => [s] | None => [] end.
Proof. unfold up_serials. rewrite omap_app. cbn. destruct (req_serial m); reflexivity. Qed.

Lemma nodup_snoc (l : list N) s : NoDup l -> s ∉ l -> NoDup (l ++ [s]).
Proof.
  intros Hl Hs. apply NoDup_app. split; [exact Hl|]. split; [|apply NoDup_singleton].
  intros x Hx Hx'. apply elem_of_list_singleton in Hx'. subst. contradiction.
Qed.

Lemma fresh_not_up z c' : LInv z c' -> z_next z ∉ up_serials (z_up z).
Proof. intros I Hin. apply (li_fresh_up _ _ I) in Hin. lia. Qed.

Lemma linv_start z c' sc :
  LInv z c' ->
  LInv (z <| z_c; lc_pstart ::= <[z_next z := sc]> |> <| z_next ::= N.succ |>
          <| z_up ::= fun l => l ++ [StartBusListener (z_next z) k sc] |>)
       (c' <| lc_pstart ::= <[z_next z := sc]> |>).
Proof.
  intros I. pose proof (fresh_not_up _ _ I) as Hfr.
  assert (Hnone : lc_pstart (z_c z) !! z_next z = None).
  { destruct (lc_pstart (z_c z) !! z_next z) eqn:E; [|reflexivity].
    assert (z_next z < z_next z) by (apply (li_fresh_start _ _ I); eauto). lia. }
  destruct (drain_ins_start _ _ _ _ sc (li_drain _ _ I) Hnone) as [Hd Hn'].
  destruct z as [b c nx up dn]. destruct I as [I1 I2 I3 I4 I5 I6 I7 I8 I9 I10 I11]. cbn in *.
  constructor; cbn.
  - exact Hd.
  - destruct c'; exact I2.
  - intros s sc1. destruct c' as [v' ps' pt' pd']; cbn in *.
    rewrite elem_of_app, elem_of_list_singleton. destruct (decide (s = nx)) as [->|Hne].
    + rewrite lookup_insert. split.
      * intros H; inversion H; subst. right. reflexivity.
      * intros [H|H]; [|inversion H; reflexivity].
        exfalso. apply Hfr. eapply elem_up_serials; [exact H|reflexivity].
    + rewrite lookup_insert_ne by congruence. rewrite I3. split; [auto|].
      intros [H|H]; [exact H|]. inversion H; congruence.
  - intros s. destruct c'; cbn. rewrite I4, elem_of_app, elem_of_list_singleton. split; [auto|].
    intros [H|H]; [exact H|discriminate].
  - intros s. destruct c'; cbn. rewrite I5, elem_of_app, elem_of_list_singleton. split; [auto|].
    intros [H|H]; [exact H|discriminate].
  - rewrite up_serials_app. cbn. apply nodup_snoc; assumption.
  - intros s. rewrite up_serials_app. cbn. rewrite elem_of_app, elem_of_list_singleton.
    intros [H | ->]; [apply I7 in H|]; lia.
  - intros s. destruct c as [v ps pt pd]; cbn in *. destruct (decide (s = nx)) as [->|Hne]; [lia|].
    rewrite lookup_insert_ne by congruence. intros H. apply I8 in H. lia.
  - intros s Hs. destruct c; cbn in *. apply I9 in Hs. lia.
  - intros s Hs. destruct c; cbn in *. apply I10 in Hs. lia.
  - intros m. rewrite elem_of_app, elem_of_list_singleton. intros [H | ->]; [apply I11; exact H|reflexivity].
Qed.

Lemma linv_stop z c' :
  LInv z c' ->
  LInv (z <| z_c; lc_pstop ::= fun x => {[z_next z]} ∪ x |> <| z_next ::= N.succ |>
          <| z_up ::= fun l => l ++ [StopBusListener (z_next z) k] |>)
       (c' <| lc_pstop ::= fun x => {[z_next z]} ∪ x |>).
Proof.
  intros I. pose proof (fresh_not_up _ _ I) as Hfr.
  assert (Hnone : z_next z ∉ lc_pstop (z_c z)).
  { intros Hin. apply (li_fresh_stop _ _ I) in Hin. lia. }
  destruct (drain_ins_stop _ _ _ _ (li_drain _ _ I) Hnone) as [Hd Hn'].
  destruct z as [b c nx up dn]. destruct I as [I1 I2 I3 I4 I5 I6 I7 I8 I9 I10 I11]. cbn in *.
  constructor; cbn.
  - exact Hd.
  - destruct c'; exact I2.
  - intros s sc1. destruct c'; cbn. rewrite I3, elem_of_app, elem_of_list_singleton. split; [auto|].
    intros [H|H]; [exact H|discriminate].
  - intros s. destruct c' as [v' ps' pt' pd']; cbn in *.
    rewrite elem_of_app, elem_of_list_singleton, elem_of_union, elem_of_singleton, I4.
    split.
    + intros [->|H]; [right; reflexivity|left; exact H].
    + intros [H|H]; [right; exact H|left; inversion H; reflexivity].
  - intros s. destruct c'; cbn. rewrite I5, elem_of_app, elem_of_list_singleton. split; [auto|].
    intros [H|H]; [exact H|discriminate].
  - rewrite up_serials_app. cbn. apply nodup_snoc; assumption.
  - intros s. rewrite up_serials_app. cbn. rewrite elem_of_app, elem_of_list_singleton.
    intros [H | ->]; [apply I7 in H|]; lia.
  - intros s Hs. destruct c; cbn in *. apply I8 in Hs. lia.
  - intros s. destruct c as [v ps pt pd]; cbn in *. rewrite elem_of_union, elem_of_singleton.
    intros [->|H]; [lia|]. apply I9 in H. lia.
  - intros s Hs. destruct c; cbn in *. apply I10 in Hs. lia.
  - intros m. rewrite elem_of_app, elem_of_list_singleton. intros [H | ->]; [apply I11; exact H|reflexivity].
Qed.

Lemma linv_destroy z c' :
  LInv z c' ->
  LInv (z <| z_c; lc_pdestroy ::= fun x => {[z_next z]} ∪ x |> <| z_next ::= N.succ |>
          <| z_up ::= fun l => l ++ [DestroyBusListener (z_next z) k] |>)
       (c' <| lc_pdestroy ::= fun x => {[z_next z]} ∪ x |>).
Proof.
  intros I. pose proof (fresh_not_up _ _ I) as Hfr.
  assert (Hnone : z_next z ∉ lc_pdestroy (z_c z)).
  { intros Hin. apply (li_fresh_destroy _ _ I) in Hin. lia. }
  destruct (drain_ins_destroy _ _ _ _ (li_drain _ _ I) Hnone) as [Hd Hn'].
  destruct z as [b c nx up dn]. destruct I as [I1 I2 I3 I4 I5 I6 I7 I8 I9 I10 I11]. cbn in *.
  constructor; cbn.
  - exact Hd.
  - destruct c'; exact I2.
  - intros s sc1. destruct c'; cbn. rewrite I3, elem_of_app, elem_of_list_singleton. split; [auto|].
    intros [H|H]; [exact H|discriminate].
  - intros s. destruct c'; cbn. rewrite I4, elem_of_app, elem_of_list_singleton. split; [auto|].
    intros [H|H]; [exact H|discriminate].
  - intros s. destruct c' as [v' ps' pt' pd']; cbn in *.
    rewrite elem_of_app, elem_of_list_singleton, elem_of_union, elem_of_singleton, I5.
    split.
    + intros [->|H]; [right; reflexivity|left; exact H].
    + intros [H|H]; [right; exact H|left; inversion H; reflexivity].
  - rewrite up_serials_app. cbn. apply nodup_snoc; assumption.
  - intros s. rewrite up_serials_app. cbn. rewrite elem_of_app, elem_of_list_singleton.
    intros [H | ->]; [apply I7 in H|]; lia.
  - intros s Hs. destruct c; cbn in *. apply I8 in Hs. lia.
  - intros s Hs. destruct c; cbn in *. apply I9 in Hs. lia.
  - intros s. destruct c as [v ps pt pd]; cbn in *. rewrite elem_of_union, elem_of_singleton.
    intros [->|H]; [lia|]. apply I10 in H. lia.
  - intros m. rewrite elem_of_app, elem_of_list_singleton. intros [H | ->]; [apply I11; exact H|reflexivity].
Qed.

(* ---------------------------------------------------------------- the client consumes a message *)
Lemma linv_recv z c' m d :
  LInv z c' -> z_down z = m :: d ->
  exists c1, lrecv (z_c z) m = LcOk c1 /\ LInv (z <| z_down := d |> <| z_c := c1 |>) c'.
Proof.
  intros I Hd. pose proof (li_drain _ _ I) as Hdr. rewrite Hd in Hdr. cbn [ldrain] in Hdr.
  destruct (lrecv (z_c z) m) as [c1| |] eqn:E; try discriminate.
  exists c1. split; [reflexivity|].
  assert (Hsub : (forall s, is_Some (lc_pstart c1 !! s) -> is_Some (lc_pstart (z_c z) !! s)) /\
                 lc_pstop c1 ⊆ lc_pstop (z_c z) /\ lc_pdestroy c1 ⊆ lc_pdestroy (z_c z)).
  { apply (drain_pending_sub [m]). cbn. rewrite E. reflexivity. }
  destruct Hsub as (G1 & G2 & G3).
  destruct z as [b c nx up dn]. destruct I as [I1 I2 I3 I4 I5 I6 I7 I8 I9 I10 I11]. cbn in *.
  constructor; cbn; try assumption.
  - intros s Hs. apply I8. apply G1. exact Hs.
  - intros s Hs. apply I9. set_solver.
  - intros s Hs. apply I10. set_solver.
Qed.

(* ---------------------------------------------------------------- an untagged event arrives *)
Lemma linv_new_event z c' ev :
  LInv z c' -> LInv (z <| z_down ::= fun l => l ++ [EmitBusEvent None ev] |>) c'.
Proof.
  intros I. destruct z as [b c nx up dn]. destruct I as [I1 I2 I3 I4 I5 I6 I7 I8 I9 I10 I11]. cbn in *.
  constructor; cbn; try assumption.
  rewrite ldrain_app, I1. reflexivity.
Qed.

(* ---------------------------------------------------------------- the broker answers a request *)
Lemma drain_events c n :
  (exists l, lc_v c = Some l /\ l_emit_current l = true) ->
  ldrain c (repeat (EmitBusEvent (Some k) (EvObjectCreated 0 0)) n) = LcOk c.
Proof.
  intros (l & Hl & He). induction n as [|n IH]; cbn; [reflexivity|].
  rewrite Hl, He. exact IH.
Qed.

Lemma in_tail_ne (m : msg) u s m' :
  NoDup (up_serials (m :: u)) -> req_serial m = Some s -> m' ∈ u -> req_serial m' = Some s -> False.
Proof.
  intros Hnd Hs Hin Hs'. unfold up_serials in Hnd. cbn in Hnd. rewrite Hs in Hnd.
  apply NoDup_cons in Hnd. destruct Hnd as [Hn _]. apply Hn. eapply elem_up_serials; eassumption.
Qed.

(* what remains pending once the head request has been answered *)
Lemma tail_other {A} (P : A -> Prop) (X : A -> msg) (m : msg) u :
  (forall x, P x <-> X x ∈ m :: u) -> (forall x, X x <> m) -> forall x, P x <-> X x ∈ u.
Proof.
  intros H Hne x. rewrite H, elem_of_cons. split; [|auto]. intros [E|E]; [exfalso; eapply Hne; exact E|exact E].
Qed.

Lemma tail_start (ps : gmap N scope) s sc u :
  (forall s' sc', ps !! s' = Some sc' <-> StartBusListener s' k sc' ∈ StartBusListener s k sc :: u) ->
  NoDup (up_serials (StartBusListener s k sc :: u)) ->
  forall s' sc', delete s ps !! s' = Some sc' <-> StartBusListener s' k sc' ∈ u.
Proof.
  intros H Hnd s' sc'. rewrite lookup_delete_Some, H, elem_of_cons. split.
  - intros [Hne [E|E]]; [inversion E; congruence|exact E].
  - intros Hin. split; [|right; exact Hin]. intros ->.
    eapply (in_tail_ne _ _ s' _ Hnd); [reflexivity|exact Hin|reflexivity].
Qed.

Lemma tail_set (pt : gset N) (X : N -> msg) s u :
  (forall s', req_serial (X s') = Some s') -> (forall a b, X a = X b -> a = b) ->
  (forall s', s' ∈ pt <-> X s' ∈ X s :: u) ->
  NoDup (up_serials (X s :: u)) ->
  forall s', s' ∈ pt ∖ {[s]} <-> X s' ∈ u.
Proof.
  intros HX Hinj H Hnd s'. rewrite elem_of_difference, elem_of_singleton, H, elem_of_cons. split.
  - intros [[E|E] Hne]; [apply Hinj in E; congruence|exact E].
  - intros Hin. split; [right; exact Hin|]. intros ->.
    eapply (in_tail_ne _ _ s _ Hnd); [apply HX|exact Hin|apply HX].
Qed.

Lemma linv_broker z c' m u n :
  LInv z c' -> z_up z = m :: u ->
  exists c'', LInv (z <| z_up := u |> <| z_b := (lbroker k (z_b z) n m).1 |>
                      <| z_down ::= fun l => l ++ (lbroker k (z_b z) n m).2 |>) c''.
Proof.
  intros I Hu.
  destruct z as [b c nx up dn]. destruct I as [I1 I2 I3 I4 I5 I6 I7 I8 I9 I10 I11]. cbn in *. subst up.
  assert (Hnd' : NoDup (up_serials u)).
  { unfold up_serials in *. cbn in I6. destruct (req_serial m); [apply NoDup_cons in I6; tauto|exact I6]. }
  assert (Hfr' : forall s, s ∈ up_serials u -> s < nx).
  { intros s Hs. apply I7. unfold up_serials in *. cbn. destruct (req_serial m); [right|]; exact Hs. }
  assert (Hon' : forall m', m' ∈ u -> is_lreq m') by (intros m' H; apply I11; right; exact H).
  (* every conclusion has this shape: drain the new outputs from c', then the bookkeeping *)
  assert (Hmk : forall b' outs c'',
             ldrain c' outs = LcOk c'' -> link b' (lc_v c'') ->
             (forall s sc, lc_pstart c'' !! s = Some sc <-> StartBusListener s k sc ∈ u) ->
             (forall s, s ∈ lc_pstop c'' <-> StopBusListener s k ∈ u) ->
             (forall s, s ∈ lc_pdestroy c'' <-> DestroyBusListener s k ∈ u) ->
             LInv {| z_b := b'; z_c := c; z_next := nx; z_up := u; z_down := dn ++ outs |} c'').
  { intros b' outs c'' Hd Hl H3 H4 H5. constructor; cbn; try assumption.
    rewrite ldrain_app, I1. exact Hd. }
  pose proof (I11 m (elem_of_list_here _ _)) as Hm.
  destruct c' as [v' ps' pt' pd']. cbn in *.
  destruct m; cbn in Hm; try contradiction; subst.
  - (* DestroyBusListener *)
    assert (Hs : serial ∈ pd') by (apply I5; left).
    assert (T3 := tail_other _ (fun p => StartBusListener p.1 k p.2) _ u
                    (fun p => I3 p.1 p.2) ltac:(intros p; discriminate)).
    assert (T4 := tail_other _ (fun s => StopBusListener s k) _ u I4 ltac:(intros p; discriminate)).
    assert (T5 := tail_set pd' (fun s => DestroyBusListener s k) serial u ltac:(reflexivity)
                    ltac:(intros a b0 E; inversion E; reflexivity) I5 I6).
    destruct b as [sc0|]; cbn.
    + destruct v' as [l|]; [|destruct sc0; contradiction].
      eexists. apply Hmk; cbn.
      * rewrite bool_decide_eq_true_2 by exact Hs. cbn. reflexivity.
      * exact I.
      * intros s sc. apply (T3 (s, sc)).
      * exact T4.
      * exact T5.
    + destruct v' as [l|]; [contradiction|].
      eexists. apply Hmk; cbn.
      * rewrite bool_decide_eq_true_2 by exact Hs. cbn. reflexivity.
      * exact I.
      * intros s sc. apply (T3 (s, sc)).
      * exact T4.
      * exact T5.
  - (* StartBusListener *)
    assert (Hs : ps' !! serial = Some s) by (apply I3; left).
    assert (T3 := tail_start ps' serial s u I3 I6).
    assert (T4 := tail_other _ (fun s => StopBusListener s k) _ u I4 ltac:(intros p; discriminate)).
    assert (T5 := tail_other _ (fun s => DestroyBusListener s k) _ u I5 ltac:(intros p; discriminate)).
    destruct b as [[sc0|]|]; cbn.
    + (* already started *)
      eexists. apply Hmk; cbn.
      * rewrite Hs. reflexivity.
      * exact I2.
      * exact T3.
      * exact T4.
      * exact T5.
    + (* started now *)
      destruct v' as [l|]; [|contradiction]. destruct I2 as [Hsc _]. destruct l as [lsc lfin]. cbn in Hsc. subst lsc.
      destruct (includes_current s) eqn:Hinc.
      * eexists. apply Hmk; cbn.
        -- rewrite Hs. cbn. rewrite Hinc. cbn.
           rewrite ldrain_app, drain_events.
           2:{ eexists. split; [reflexivity|]. cbn. rewrite Hinc. reflexivity. }
           cbn. reflexivity.
        -- cbn. split; [reflexivity|]. intros _. reflexivity.
        -- exact T3.
        -- exact T4.
        -- exact T5.
      * eexists. apply Hmk; cbn.
        -- rewrite Hs. cbn. rewrite Hinc. cbn. reflexivity.
        -- cbn. split; [reflexivity|]. intros _. reflexivity.
        -- exact T3.
        -- exact T4.
        -- exact T5.
    + (* destroyed *)
      eexists. apply Hmk; cbn.
      * rewrite Hs. reflexivity.
      * exact I2.
      * exact T3.
      * exact T4.
      * exact T5.
  - (* StopBusListener *)
    assert (Hs : serial ∈ pt') by (apply I4; left).
    assert (T3 := tail_other _ (fun p => StartBusListener p.1 k p.2) _ u
                    (fun p => I3 p.1 p.2) ltac:(intros p; discriminate)).
    assert (T4 := tail_set pt' (fun s => StopBusListener s k) serial u ltac:(reflexivity)
                    ltac:(intros a b0 E; inversion E; reflexivity) I4 I6).
    assert (T5 := tail_other _ (fun s => DestroyBusListener s k) _ u I5 ltac:(intros p; discriminate)).
    destruct b as [[sc0|]|]; cbn.
    + destruct v' as [l|]; [|contradiction]. destruct I2 as [Hsc _]. destruct l as [lsc lfin]. cbn in Hsc. subst lsc.
      eexists. apply Hmk; cbn.
      * rewrite bool_decide_eq_true_2 by exact Hs. cbn. reflexivity.
      * cbn. split; [reflexivity|]. intros H; congruence.
      * intros s sc. apply (T3 (s, sc)).
      * exact T4.
      * exact T5.
    + eexists. apply Hmk; cbn.
      * rewrite bool_decide_eq_true_2 by exact Hs. cbn. reflexivity.
      * exact I2.
      * intros s sc. apply (T3 (s, sc)).
      * exact T4.
      * exact T5.
    + eexists. apply Hmk; cbn.
      * rewrite bool_decide_eq_true_2 by exact Hs. cbn. reflexivity.
      * exact I2.
      * intros s sc. apply (T3 (s, sc)).
      * exact T4.
      * exact T5.
Qed.

(* ---------------------------------------------------------------- every schedule *)
Lemma linv_step z c' o :
  LInv z c' ->
  match lstep k z o with
  | LOk z1 => exists c1, LInv z1 c1
  | LDisabled => True
  | LRej | LPan _ => False
  end.
Proof.
  intros I. destruct o; cbn [lstep].
  - eexists. apply linv_start. exact I.
  - eexists. apply linv_stop. exact I.
  - eexists. apply linv_destroy. exact I.
  - destruct (z_up z) as [|m u] eqn:Hu; [exact Logic.I|].
    destruct (linv_broker z c' m u n_current I Hu) as [c'' H].
    destruct (lbroker k (z_b z) n_current m) as [b' outs]. exists c''. exact H.
  - destruct (z_down z) as [|m d] eqn:Hd; [exact Logic.I|].
    destruct (linv_recv z c' m d I Hd) as (c1 & E & H). rewrite E. exists c'. exact H.
  - eexists. apply linv_new_event. exact I.
Qed.

Theorem listeners_never_rejected ops :
  match lrun k lcreated ops with LOk _ => True | _ => False end.
Proof.
  assert (G : forall ops z c', LInv z c' -> match lrun k z ops with LOk _ => True | _ => False end).
  { clear ops. induction ops as [|o ops IH]; intros z c' I; cbn [lrun]; [exact Logic.I|].
    pose proof (linv_step z c' o I) as H.
    destruct (lstep k z o) as [z1| | |]; try contradiction.
    - destruct H as [c1 H]. exact (IH _ _ H).
    - exact (IH _ _ I). }
  exact (G ops _ _ linv_created).
Qed.

End Listener.
