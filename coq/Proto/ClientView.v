(* Proto/ClientView.v — what a client accepts (aldrin/src/client.rs Client::handle_message and every
   msg_* handler) and what its handles make it send (aldrin/src/low_level/channel/{raw,unclaimed,
   pending,established}.rs), as executable functions.

   [recv v m]: the acceptance automaton.  [view] keeps exactly the state handle_message consults:
   the pending-serial maps of every request kind, [services], [senders]/[receivers] with
   Pending | Established | PeerClosed, [bus_listeners] (scope, current_finished),
   [abort_call_handles], the negotiated version.  Results: [Acc] (new view, messages sent in
   response), [Rej] = Err(RunError::UnexpectedMessageReceived) — Client::run returns an error —,
   [Pan site] = an unreachable!()/expect/assert!/debug_assert! fires inside Client::run.
   [sent v m] registers what sending a request does to the pending maps (req_* handlers).

   Channel ends, one cookie at a time ([csys]): the HANDLE-side typestate (RawChannel{claimed,
   state} with its drop-driven close, unbind, claim incl. the error path and cancellation), the
   handle->client request queue, the client's slice of the view for that cookie, the two FIFOs of
   the connection and the broker's channel entry, driven by the broker's own pure channel
   functions (Broker/Model.v chan_claim, chan_close_result, chan_close, chan_send_item,
   chan_add_capacity).  Two booleans describe the source shape read by the translator:
   [fl_refused_closed] (unclaimed.rs: the Err path of claim marks the raw channel closed) and
   [fl_close_asserts] (client.rs: msg_close_channel_end_reply asserts the end was in the map).

   Payload contents, the proxies' internal tables (client/proxies.rs) and broker_subscriptions are
   not modelled: EmitEvent, ServiceDestroyed, SubscribeEvent, UnsubscribeEvent are accepted
   unconditionally, exactly as the Rust does. *)
From stdpp Require Import gmap list.
From RecordUpdate Require Import RecordSet.
Import RecordSetNotations.
From Aldrin Require Import gen.ClientConsts Broker.Model.
Local Open Scope N_scope.

(* ---------------------------------------------------------------- the view *)
Inductive est := EPending | EEstablished | EPeerClosed.
Record lst := { ls_scope : option scope; ls_fin : bool }.
Record close_req := { cq_cookie : uuid; cq_end : chan_end; cq_claimed : bool }.

#[export] Instance est_eq_dec : EqDecision est.
Proof. solve_decision. Defined.
#[export] Instance chan_end_eq_dec : EqDecision chan_end.
Proof. solve_decision. Defined.

Record view := {
  v_ver : N;
  p_create_object : gset N;
  p_destroy_object : gset N;
  p_create_service : gset N;
  p_destroy_service : gmap N uuid;          (* serial -> service cookie *)
  p_calls : gset N;                         (* function_calls *)
  v_services : gset uuid;
  v_aborts : gset N;                        (* abort_call_handles *)
  p_create_channel : gmap N chan_end;       (* serial -> the end claimed at creation *)
  p_close : gmap N close_req;
  p_claim : gmap N (uuid * chan_end);
  v_senders : gmap uuid est;
  v_receivers : gmap uuid est;
  p_sync : gset N;
  p_create_bl : gset N;
  p_destroy_bl : gmap N uuid;
  p_start_bl : gmap N (uuid * scope);
  p_stop_bl : gmap N uuid;
  v_listeners : gmap uuid lst;
  p_query_info : gset N;
  p_query_version : gset N;
  p_subscribe_event : gset N;
  p_subscribe_service : gset N;
  p_sub_all : gset N;
  p_unsub_all : gset N;
  p_query_introspection : gset N }.

#[export] Instance eta_lst : Settable _ := settable! Build_lst <ls_scope; ls_fin>.
#[export] Instance eta_view : Settable _ :=
  settable! Build_view <v_ver; p_create_object; p_destroy_object; p_create_service; p_destroy_service;
    p_calls; v_services; v_aborts; p_create_channel; p_close; p_claim; v_senders; v_receivers; p_sync;
    p_create_bl; p_destroy_bl; p_start_bl; p_stop_bl; v_listeners; p_query_info; p_query_version;
    p_subscribe_event; p_subscribe_service; p_sub_all; p_unsub_all; p_query_introspection>.

Definition view0 (ver : N) : view :=
  {| v_ver := ver; p_create_object := ∅; p_destroy_object := ∅; p_create_service := ∅;
     p_destroy_service := ∅; p_calls := ∅; v_services := ∅; v_aborts := ∅; p_create_channel := ∅;
     p_close := ∅; p_claim := ∅; v_senders := ∅; v_receivers := ∅; p_sync := ∅; p_create_bl := ∅;
     p_destroy_bl := ∅; p_start_bl := ∅; p_stop_bl := ∅; v_listeners := ∅; p_query_info := ∅;
     p_query_version := ∅; p_subscribe_event := ∅; p_subscribe_service := ∅; p_sub_all := ∅;
     p_unsub_all := ∅; p_query_introspection := ∅ |}.

Inductive rout := Acc (v : view) (out : list msg) | Rej | Pan (site : N).

(* panic sites of client.rs (the numbers are only names) *)
Definition S_CREATE_SERVICE_FOREIGN : N := 101.   (* msg_create_service_reply: unreachable!() *)
Definition S_CREATE_SERVICE_DUP : N := 102.       (* debug_assert!(dup.is_none()) *)
Definition S_DESTROY_SERVICE_ABSENT : N := 103.   (* debug_assert!(contained.is_some()) *)
Definition S_DESTROY_SERVICE_FOREIGN : N := 104.  (* unreachable!() *)
Definition S_CALL_NO_SERVICE : N := 105.          (* expect("inconsistent state") *)
Definition S_CALL_DUP_ABORT : N := 106.           (* assert!(dup.is_none()) *)
Definition S_CREATE_CHANNEL_DUP : N := 107.       (* debug_assert!(dup.is_none()) *)
Definition S_CLOSE_ABSENT : N := 109.             (* msg_close_channel_end_reply: debug_assert!(contained.is_some()) *)
Definition S_CLAIM_DUP : N := 111.                (* msg_claim_channel_end_reply: debug_assert!(dup.is_none()) *)
Definition S_CREATE_LISTENER_DUP : N := 113.      (* assert!(dup.is_none()) *)
Definition S_DESTROY_LISTENER_ABSENT : N := 114.  (* debug_assert!(contained.is_some()) *)
Definition S_QUERY_INFO_VERSION : N := 115.       (* debug_assert!(self.version >= V1_17) *)
Definition S_QUERY_VERSION_VERSION : N := 116.    (* debug_assert!(self.version < V1_17) *)
Definition S_SUBSCRIBE_SERVICE_VERSION : N := 117. (* debug_assert!(self.version >= V1_18) *)
Definition S_SEND_ITEM_ABSENT : N := 120.         (* req_send_item: debug_assert!(senders.contains_key) *)
Definition S_ADD_CAPACITY_ABSENT : N := 121.      (* req_add_channel_capacity: debug_assert!(receivers.contains_key) *)
Definition S_SHUTDOWN_UNREACHABLE : N := 122.     (* handle_message: Message::Shutdown => unreachable!() (run() handles it) *)

Definition has_serial (s : gset N) (x : N) : bool := bool_decide (x ∈ s).

(* a reply of a kind that only carries a serial: accepted iff the serial is pending *)
Definition take (v : view) (s : gset N) (x : N) (k : rout) : rout := if has_serial s x then k else Rej.

(* BusListenerHandle::start / stop / current_finished / emit_current *)
Definition l_start (l : lst) (sc : scope) : option lst :=
  match ls_scope l with
  | None => Some {| ls_scope := Some sc; ls_fin := negb (includes_current sc) |}
  | Some _ => None
  end.
Definition l_stop (l : lst) : option lst :=
  match ls_scope l with Some _ => Some (l <| ls_scope := None |>) | None => None end.
Definition l_current_finished (l : lst) : option lst :=
  if ls_fin l then None else Some (l <| ls_fin := true |>).
Definition l_emit_current (l : lst) : bool :=
  match ls_scope l with Some sc => includes_current sc && negb (ls_fin l) | None => false end.

Definition side_of (v : view) (e : chan_end) : gmap uuid est :=
  match e with ESender => v_senders v | EReceiver => v_receivers v end.
Definition set_side (v : view) (e : chan_end) (f : gmap uuid est -> gmap uuid est) : view :=
  match e with ESender => v <| v_senders ::= f |> | EReceiver => v <| v_receivers ::= f |> end.
Definition other_end (e : chan_end) : chan_end := match e with ESender => EReceiver | EReceiver => ESender end.
Definition end_of_cap (e : chan_end_cap) : chan_end := match e with CSender => ESender | CReceiver _ => EReceiver end.

(* [asserts]: does msg_close_channel_end_reply assert that the removed end was present
   (gen.ClientConsts.CLOSE_REPLY_ASSERTS); [svc_alive]: ghost input of CallFunction — is the
   Service's call stream still open (mpsc send succeeds) *)
Definition recv_with (asserts : bool) (svc_alive : bool) (v : view) (m : msg) : rout :=
  match m with
  | CreateObjectReply s _ => take v (p_create_object v) s (Acc (v <| p_create_object ::= fun x => x ∖ {[s]} |>) [])
  | DestroyObjectReply s _ => Acc (v <| p_destroy_object ::= fun x => x ∖ {[s]} |>) []
  | CreateServiceReply s r =>
      take v (p_create_service v) s
        (let v1 := v <| p_create_service ::= fun x => x ∖ {[s]} |> in
         match r with
         | CSOk c => if bool_decide (c ∈ v_services v) then Pan S_CREATE_SERVICE_DUP
                     else Acc (v1 <| v_services ::= fun x => {[c]} ∪ x |>) []
         | CSDuplicate | CSInvalidObject => Acc v1 []
         | CSForeign => Pan S_CREATE_SERVICE_FOREIGN
         end)
  | DestroyServiceReply s r =>
      match p_destroy_service v !! s with
      | None => Acc v []
      | Some c =>
          let v1 := v <| p_destroy_service ::= delete s |> in
          match r with
          | R3Ok => if bool_decide (c ∈ v_services v) then Acc (v1 <| v_services ::= fun x => x ∖ {[c]} |>) []
                    else Pan S_DESTROY_SERVICE_ABSENT
          | R3Invalid => Acc v1 []
          | R3Foreign => Pan S_DESTROY_SERVICE_FOREIGN
          end
      end
  | CallFunction s sc _ _ | CallFunction2 s sc _ _ _ =>
      if negb (bool_decide (sc ∈ v_services v)) then Pan S_CALL_NO_SERVICE else
      if svc_alive then
        if bool_decide (s ∈ v_aborts v) then Pan S_CALL_DUP_ABORT
        else Acc (v <| v_aborts ::= fun x => {[s]} ∪ x |>) []
      else Acc v [CallFunctionReply s CRInvalidService]
  | CallFunctionReply s _ => Acc (v <| p_calls ::= fun x => x ∖ {[s]} |>) []
  | SubscribeEvent _ _ _ | UnsubscribeEvent _ _ | EmitEvent _ _ _ | ServiceDestroyed _ => Acc v []
  | CreateChannelReply s c =>
      match p_create_channel v !! s with
      | None => Rej
      | Some e =>
          if bool_decide (is_Some (side_of v e !! c)) then Pan S_CREATE_CHANNEL_DUP
          else Acc (set_side (v <| p_create_channel ::= delete s |>) e <[c := EPending]>) []
      end
  | CloseChannelEndReply s _ =>
      match p_close v !! s with
      | None => Rej
      | Some q =>
          let v1 := v <| p_close ::= delete s |> in
          if cq_claimed q then
            if asserts && negb (bool_decide (is_Some (side_of v (cq_end q) !! cq_cookie q))) then Pan S_CLOSE_ABSENT
            else Acc (set_side v1 (cq_end q) (delete (cq_cookie q))) []
          else Acc v1 []
      end
  | ChannelEndClosed c e =>
      (* msg.end names the end that was closed; the state of the OTHER end's entry changes *)
      let mine := other_end e in
      match side_of v mine !! c with
      | Some EPending | Some EEstablished => Acc (set_side v mine <[c := EPeerClosed]>) []
      | Some EPeerClosed => (* the Rust has already overwritten the entry with PeerClosed when it rejects *)
          Rej
      | None => Rej
      end
  | ClaimChannelEndReply s r =>
      match p_claim v !! s with
      | None => Rej
      | Some (c, e) =>
          let v1 := v <| p_claim ::= delete s |> in
          match e, r with
          | ESender, CLSenderClaimed _ | EReceiver, CLReceiverClaimed =>
              if bool_decide (is_Some (side_of v e !! c)) then Pan S_CLAIM_DUP
              else Acc (set_side v1 e <[c := EEstablished]>) []
          | ESender, CLReceiverClaimed | EReceiver, CLSenderClaimed _ => Rej
          | _, CLInvalid | _, CLAlready => Acc v1 []
          end
      end
  | ChannelEndClaimed c e =>
      let mine := other_end (end_of_cap e) in
      match side_of v mine !! c with
      | Some EPending => Acc (set_side v mine <[c := EEstablished]>) []
      | Some EEstablished | Some EPeerClosed => Rej   (* entry overwritten with Established before the error *)
      | None => Rej
      end
  | ItemReceived c _ =>
      match v_receivers v !! c with Some EEstablished => Acc v [] | _ => Rej end
  | AddChannelCapacity c _ =>
      match v_senders v !! c with Some EEstablished => Acc v [] | _ => Rej end
  | SyncReply s => take v (p_sync v) s (Acc (v <| p_sync ::= fun x => x ∖ {[s]} |>) [])
  | CreateBusListenerReply s c =>
      take v (p_create_bl v) s
        (if bool_decide (is_Some (v_listeners v !! c)) then Pan S_CREATE_LISTENER_DUP
         else Acc (v <| p_create_bl ::= fun x => x ∖ {[s]} |>
                     <| v_listeners ::= <[c := {| ls_scope := None; ls_fin := false |}]> |>) [])
  | DestroyBusListenerReply s ok =>
      match p_destroy_bl v !! s with
      | None => Rej
      | Some c =>
          let v1 := v <| p_destroy_bl ::= delete s |> in
          if ok then
            if bool_decide (is_Some (v_listeners v !! c)) then Acc (v1 <| v_listeners ::= delete c |>) []
            else Pan S_DESTROY_LISTENER_ABSENT
          else Acc v1 []
      end
  | StartBusListenerReply s r =>
      match p_start_bl v !! s with
      | None => Rej
      | Some (c, sc) =>
          let v1 := v <| p_start_bl ::= delete s |> in
          match r with
          | STOk =>
              match v_listeners v !! c with
              | None => Rej
              | Some l => match l_start l sc with
                          | Some l' => Acc (v1 <| v_listeners ::= <[c := l']> |>) []
                          | None => Rej
                          end
              end
          | _ => Acc v1 []
          end
      end
  | StopBusListenerReply s r =>
      match p_stop_bl v !! s with
      | None => Rej
      | Some c =>
          let v1 := v <| p_stop_bl ::= delete s |> in
          match r with
          | SPOk =>
              match v_listeners v !! c with
              | None => Rej
              | Some l => match l_stop l with
                          | Some l' => Acc (v1 <| v_listeners ::= <[c := l']> |>) []
                          | None => Rej
                          end
              end
          | _ => Acc v1 []
          end
      end
  | EmitBusEvent (Some c) _ =>
      match v_listeners v !! c with
      | Some l => if l_emit_current l then Acc v [] else Rej
      | None => Rej
      end
  | EmitBusEvent None _ => Acc v []
  | BusListenerCurrentFinished c =>
      match v_listeners v !! c with
      | Some l => match l_current_finished l with
                  | Some l' => Acc (v <| v_listeners ::= <[c := l']> |>) []
                  | None => Rej
                  end
      | None => Rej
      end
  | AbortFunctionCall s =>
      if CMIN_ABORT_FUNCTION_CALL <=? v_ver v then Acc (v <| v_aborts ::= fun x => x ∖ {[s]} |>) [] else Rej
  | QueryIntrospection s =>
      if CMIN_QUERY_INTROSPECTION <=? v_ver v then Acc v [QueryIntrospectionReply s] else Rej
  | QueryIntrospectionReply s =>
      if v_ver v <? CMIN_QUERY_INTROSPECTION_REPLY then Rej else
      take v (p_query_introspection v) s (Acc (v <| p_query_introspection ::= fun x => x ∖ {[s]} |>) [])
  | QueryServiceInfoReply s _ =>
      take v (p_query_info v) s
        (if v_ver v <? CMIN_QUERY_SERVICE_INFO_REPLY then Pan S_QUERY_INFO_VERSION
         else Acc (v <| p_query_info ::= fun x => x ∖ {[s]} |>) [])
  | QueryServiceVersionReply s _ =>
      take v (p_query_version v) s
        (if negb (v_ver v <? CMAX_QUERY_SERVICE_VERSION_REPLY) then Pan S_QUERY_VERSION_VERSION
         else Acc (v <| p_query_version ::= fun x => x ∖ {[s]} |>) [])
  | SubscribeEventReply s _ =>
      take v (p_subscribe_event v) s (Acc (v <| p_subscribe_event ::= fun x => x ∖ {[s]} |>) [])
  | SubscribeServiceReply s _ =>
      take v (p_subscribe_service v) s
        (if v_ver v <? CMIN_SUBSCRIBE_SERVICE_REPLY then Pan S_SUBSCRIBE_SERVICE_VERSION
         else Acc (v <| p_subscribe_service ::= fun x => x ∖ {[s]} |>) [])
  | SubscribeAllEvents serial _ =>
      if (CMIN_SUBSCRIBE_ALL_EVENTS_IN <=? v_ver v) && bool_decide (serial = None) then Acc v [] else Rej
  | UnsubscribeAllEvents serial _ =>
      if (CMIN_UNSUBSCRIBE_ALL_EVENTS_IN <=? v_ver v) && bool_decide (serial = None) then Acc v [] else Rej
  | SubscribeAllEventsReply s r =>
      take v (p_sub_all v) s
        (match r with
         | SANotSupported => Rej
         | _ => Acc (v <| p_sub_all ::= fun x => x ∖ {[s]} |>) []
         end)
  | UnsubscribeAllEventsReply s r =>
      take v (p_unsub_all v) s
        (match r with
         | SANotSupported => Rej
         | _ => Acc (v <| p_unsub_all ::= fun x => x ∖ {[s]} |>) []
         end)
  | Shutdown => Pan S_SHUTDOWN_UNREACHABLE
  (* everything only a client sends *)
  | CreateObject _ _ | DestroyObject _ _ | CreateService _ _ _ _ | CreateService2 _ _ _ _
  | DestroyService _ _ | QueryServiceVersion _ _ | CreateChannel _ _ | CloseChannelEnd _ _ _
  | ClaimChannelEnd _ _ _ | SendItem _ _ | Sync _ | CreateBusListener _ | DestroyBusListener _ _
  | AddBusListenerFilter _ _ | RemoveBusListenerFilter _ _ | ClearBusListenerFilters _
  | StartBusListener _ _ _ | StopBusListener _ _ | RegisterIntrospection | QueryServiceInfo _ _
  | SubscribeService _ _ | UnsubscribeService _ | OtherToBroker => Rej
  end.

Definition recv : view -> msg -> rout := recv_with CLOSE_REPLY_ASSERTS true.

(* req_*: what sending request [m] registers.  [claimed] is the flag a CloseChannelEnd request
   carries from the handle (RawChannel::begin_close passes self.claimed). *)
Definition sent_with (claimed : bool) (v : view) (m : msg) : view :=
  match m with
  | CreateObject s _ => v <| p_create_object ::= fun x => {[s]} ∪ x |>
  | DestroyObject s _ => v <| p_destroy_object ::= fun x => {[s]} ∪ x |>
  | CreateService s _ _ _ | CreateService2 s _ _ _ => v <| p_create_service ::= fun x => {[s]} ∪ x |>
  | DestroyService s c => v <| p_destroy_service ::= <[s := c]> |>
  | CallFunction s _ _ _ | CallFunction2 s _ _ _ _ => v <| p_calls ::= fun x => {[s]} ∪ x |>
  | CallFunctionReply s _ => v <| v_aborts ::= fun x => x ∖ {[s]} |>     (* req_call_function_reply *)
  | CreateChannel s e => v <| p_create_channel ::= <[s := end_of_cap e]> |>
  | CloseChannelEnd s c e => v <| p_close ::= <[s := {| cq_cookie := c; cq_end := e; cq_claimed := claimed |}]> |>
  | ClaimChannelEnd s c e => v <| p_claim ::= <[s := (c, end_of_cap e)]> |>
  | Sync s => v <| p_sync ::= fun x => {[s]} ∪ x |>
  | CreateBusListener s => v <| p_create_bl ::= fun x => {[s]} ∪ x |>
  | DestroyBusListener s c => v <| p_destroy_bl ::= <[s := c]> |>
  | StartBusListener s c sc => v <| p_start_bl ::= <[s := (c, sc)]> |>
  | StopBusListener s c => v <| p_stop_bl ::= <[s := c]> |>
  | QueryServiceInfo s _ => v <| p_query_info ::= fun x => {[s]} ∪ x |>
  | QueryServiceVersion s _ => v <| p_query_version ::= fun x => {[s]} ∪ x |>
  | SubscribeEvent (Some s) _ _ => v <| p_subscribe_event ::= fun x => {[s]} ∪ x |>
  | SubscribeService s _ => v <| p_subscribe_service ::= fun x => {[s]} ∪ x |>
  | SubscribeAllEvents (Some s) _ => v <| p_sub_all ::= fun x => {[s]} ∪ x |>
  | UnsubscribeAllEvents (Some s) _ => v <| p_unsub_all ::= fun x => {[s]} ∪ x |>
  | QueryIntrospection s => v <| p_query_introspection ::= fun x => {[s]} ∪ x |>
  | _ => v
  end.

(* ---------------------------------------------------------------- replaying an observed session *)
(* The wire does not show the [claimed] flag of a close request.  For replaying what the harness
   observed at a client's transport the flag is reconstructed when the reply arrives: claimed iff
   the end is in the map then (so the replay never trips S_CLOSE_ABSENT; the handle-side typestate
   that decides the real flag is the subject of [csys] below, not of the replay). *)
Inductive wire := WSent (m : msg) | WRecv (m : msg).

Definition patch_close (v : view) (m : msg) : view :=
  match m with
  | CloseChannelEndReply s _ =>
      match p_close v !! s with
      | Some q => v <| p_close ::= <[s := {| cq_cookie := cq_cookie q; cq_end := cq_end q;
                                              cq_claimed := bool_decide (is_Some (side_of v (cq_end q) !! cq_cookie q)) |}]> |>
      | None => v
      end
  | _ => v
  end.

(* 0 = accepted, 1 = rejected, 2 + site = panic *)
Definition replay_step (v : view) (w : wire) : view * N :=
  match w with
  | WSent m => (sent_with false v m, 0)
  | WRecv m =>
      match recv (patch_close v m) m with
      | Acc v' _ => (v', 0)
      | Rej => (v, 1)
      | Pan s => (v, 2 + s)
      end
  end.

(* ---------------------------------------------------------------- channel ends of one cookie *)
(* [fl_cancel]: may the application drop a claim() future while it is running (true = the whole
   public API; false = every claim is awaited to completion) *)
Record flags := { fl_refused_closed : bool; fl_close_asserts : bool; fl_cancel : bool }.
Definition this_flags : flags :=
  {| fl_refused_closed := CLAIM_REFUSED_MARKS_CLOSED; fl_close_asserts := CLOSE_REPLY_ASSERTS; fl_cancel := true |}.

(* the typestate of one handle: RawChannel{claimed, state = Open}; handles in state Closing/Closed
   send nothing any more and are dropped from the model.
   HUnclaimed  = UnclaimedSender/UnclaimedReceiver               (claimed = false)
   HClaiming   = the same object inside a running claim() future  (claimed = true, set_claimed() came first)
   HResult ok  = the claim was answered, the future has not been polled since
   HClaimed    = PendingSender/PendingReceiver/Sender/Receiver    (claimed = true); [est] = it is a
                 Sender/Receiver (the application holds an established end and may send/add capacity) *)
Inductive hkind := HUnclaimed | HClaiming | HResult (ok : bool) | HClaimed (established : bool).
Record handle := { h_end : chan_end; h_kind : hkind }.

(* requests on the unbounded handle->client queue *)
Inductive hreq :=
| QClose (e : chan_end) (claimed : bool)
| QClaim (e : chan_end) (cap : N) (hid : N)
| QSend (v : payload)
| QAddCap (n : N).

(* the part of a client that handling a message from the broker reads or writes *)
Record ccore := {
  k_es : option est;                        (* senders[k] *)
  k_er : option est;                        (* receivers[k] *)
  k_pclose : gmap N (chan_end * bool);      (* close_channel_end: serial -> (end, claimed) *)
  k_pclaim : gmap N (chan_end * N);         (* claim_channel_end: serial -> (end, waiting handle) *)
  k_handles : gmap N handle }.

Record cl := {
  c_core : ccore;
  c_next : N;                               (* SerialMap::next (one counter per map in the Rust; serials only need to be fresh) *)
  c_nexth : N;
  c_q : list hreq;
  c_up : list msg;                          (* client -> broker, in flight *)
  c_down : list msg }.                      (* broker -> client, in flight *)

#[export] Instance eta_ccore : Settable _ := settable! Build_ccore <k_es; k_er; k_pclose; k_pclaim; k_handles>.
#[export] Instance eta_cl : Settable _ := settable! Build_cl <c_core; c_next; c_nexth; c_q; c_up; c_down>.

Definition core0 : ccore := {| k_es := None; k_er := None; k_pclose := ∅; k_pclaim := ∅; k_handles := ∅ |}.
Definition cl0 : cl := {| c_core := core0; c_next := 0; c_nexth := 0; c_q := []; c_up := []; c_down := [] |}.

Definition ent (c : ccore) (e : chan_end) : option est := match e with ESender => k_es c | EReceiver => k_er c end.
Definition set_ent (c : ccore) (e : chan_end) (x : option est) : ccore :=
  match e with ESender => c <| k_es := x |> | EReceiver => c <| k_er := x |> end.

Record csys := {
  y_k : uuid;                               (* the cookie *)
  y_ch : option chan;                       (* the broker's entry; None = removed *)
  y_cl : gmap conn cl }.

#[export] Instance eta_csys : Settable _ := settable! Build_csys <y_k; y_ch; y_cl>.

Inductive cres := COk (y : csys) | CReject (c : conn) | CPanic (c : conn) (site : N)
                | CDisabled                  (* the step is not enabled in this state *)
                | CBrokerPanic (site : N).   (* an unreachable!() of broker/channel.rs: outside this property (C05/C11) *)

Definition put (y : csys) (c : conn) (x : cl) : csys := y <| y_cl ::= <[c := x]> |>.
(* a message for a connection that is gone is not sent *)
Definition push_down (y : csys) (c : conn) (m : msg) : csys :=
  match y_cl y !! c with
  | Some x => put y c (x <| c_down ::= fun l => l ++ [m] |>)
  | None => y
  end.

(* --- application steps (public API on handles) *)
Inductive aop :=
| ABind (e : chan_end)                 (* UnboundX::new(cookie).bind(client) *)
| AClaim (hid : N) (cap : N)           (* first poll of UnclaimedX::claim *)
| AFinish (hid : N)                    (* the claim future is polled after its answer arrived *)
| ADrop (hid : N)                      (* drop or close() of any handle, incl. a running claim future *)
| AUnbind (hid : N)
| AEstablish (hid : N)                 (* PendingX::establish() succeeded *)
| ASend (hid : N) (v : payload)        (* Sender::start_send_item *)
| AAddCap (hid : N) (n : N).           (* Receiver: items consumed, capacity returned *)

Definition set_handle (x : cl) (hid : N) (h : option handle) : cl :=
  x <| c_core; k_handles ::= match h with Some h => <[hid := h]> | None => delete hid end |>.
Definition enq (x : cl) (r : hreq) : cl := x <| c_q ::= fun q => q ++ [r] |>.

Definition app_step (fl : flags) (x : cl) (o : aop) : option cl :=
  let hs := k_handles (c_core x) in
  match o with
  | ABind e =>
      Some (set_handle x (c_nexth x) (Some {| h_end := e; h_kind := HUnclaimed |}) <| c_nexth ::= N.succ |>)
  | AClaim hid cap =>
      match hs !! hid with
      | Some {| h_end := e; h_kind := HUnclaimed |} =>
          Some (enq (set_handle x hid (Some {| h_end := e; h_kind := HClaiming |})) (QClaim e cap hid))
      | _ => None
      end
  | AFinish hid =>
      match hs !! hid with
      | Some {| h_end := e; h_kind := HResult true |} =>
          Some (set_handle x hid (Some {| h_end := e; h_kind := HClaimed true |}))
      | Some {| h_end := e; h_kind := HResult false |} =>
          (* Err path of claim(): `?` drops the end claimed and Open; the repaired shape marks it closed *)
          let x1 := set_handle x hid None in
          Some (if fl_refused_closed fl then x1 else enq x1 (QClose e true))
      | _ => None
      end
  | ADrop hid =>
      match hs !! hid with
      | Some h =>
          let claimed := match h_kind h with HUnclaimed => false | _ => true end in
          let running := match h_kind h with HClaiming | HResult _ => true | _ => false end in
          if running && negb (fl_cancel fl) then None else
          Some (enq (set_handle x hid None) (QClose (h_end h) claimed))
      | None => None
      end
  | AUnbind hid =>
      match hs !! hid with
      | Some {| h_end := _; h_kind := HUnclaimed |} => Some (set_handle x hid None)
      | _ => None
      end
  | AEstablish hid =>
      match hs !! hid with
      | Some {| h_end := e; h_kind := HClaimed false |} =>
          (* the oneshot of the pending end was resolved with Ok: ChannelEndClaimed has been handled *)
          match ent (c_core x) e with
          | Some EEstablished | Some EPeerClosed => Some (set_handle x hid (Some {| h_end := e; h_kind := HClaimed true |}))
          | _ => None
          end
      | _ => None
      end
  | ASend hid v =>
      match hs !! hid with
      | Some {| h_end := ESender; h_kind := HClaimed true |} => Some (enq x (QSend v))
      | _ => None
      end
  | AAddCap hid n =>
      match hs !! hid with
      | Some {| h_end := EReceiver; h_kind := HClaimed true |} => Some (enq x (QAddCap n))
      | _ => None
      end
  end.

(* --- the client takes the next handle request (req_* handlers) *)
Inductive pres := POk (x : cl) | PPanic (site : N) | PNone.

Definition cap_end (e : chan_end) (cap : N) : chan_end_cap := match e with ESender => CSender | EReceiver => CReceiver cap end.

Definition proc_step (k : uuid) (x : cl) : pres :=
  match c_q x with
  | [] => PNone
  | r :: q =>
      let x := x <| c_q := q |> in
      match r with
      | QClose e claimed =>
          POk (x <| c_core; k_pclose ::= <[c_next x := (e, claimed)]> |> <| c_next ::= N.succ |>
                 <| c_up ::= fun l => l ++ [CloseChannelEnd (c_next x) k e] |>)
      | QClaim e cap hid =>
          POk (x <| c_core; k_pclaim ::= <[c_next x := (e, hid)]> |> <| c_next ::= N.succ |>
                 <| c_up ::= fun l => l ++ [ClaimChannelEnd (c_next x) k (cap_end e cap)] |>)
      | QSend v =>
          match k_es (c_core x) with
          | Some _ => POk (x <| c_up ::= fun l => l ++ [SendItem k v] |>)
          | None => PPanic S_SEND_ITEM_ABSENT
          end
      | QAddCap n =>
          match k_er (c_core x) with
          | Some _ => POk (x <| c_up ::= fun l => l ++ [AddChannelCapacity k n] |>)
          | None => PPanic S_ADD_CAPACITY_ABSENT
          end
      end
  end.

(* --- the client handles the next message from the broker: the slice of [recv] for cookie k *)
Inductive rres := ROk (x : ccore) | RRej | RPan (site : N).

Definition deliver (x : ccore) (hid : N) (ok : bool) : ccore :=
  match k_handles x !! hid with
  | Some {| h_end := e; h_kind := HClaiming |} => x <| k_handles ::= <[hid := {| h_end := e; h_kind := HResult ok |}]> |>
  | _ => x      (* the future was dropped: `let _ = req.reply.send(..)` *)
  end.

Definition crecv (fl : flags) (x : ccore) (m : msg) : rres :=
  match m with
  | CloseChannelEndReply s _ =>
      match (k_pclose x !! s : option (chan_end * bool)) with
      | None => RRej
      | Some (e, claimed) =>
          let x1 := x <| k_pclose ::= delete s |> in
          if claimed then
            match ent x e with
            | None => if fl_close_asserts fl then RPan S_CLOSE_ABSENT else ROk x1
            | Some _ => ROk (set_ent x1 e None)
            end
          else ROk x1
      end
  | ChannelEndClosed _ e =>
      let mine := other_end e in
      match ent x mine with
      | Some EPending | Some EEstablished => ROk (set_ent x mine (Some EPeerClosed))
      | _ => RRej
      end
  | ClaimChannelEndReply s r =>
      match (k_pclaim x !! s : option (chan_end * N)) with
      | None => RRej
      | Some (e, hid) =>
          let x1 := x <| k_pclaim ::= delete s |> in
          match e, r with
          | ESender, CLSenderClaimed _ | EReceiver, CLReceiverClaimed =>
              match ent x e with
              | Some _ => RPan S_CLAIM_DUP
              | None => ROk (deliver (set_ent x1 e (Some EEstablished)) hid true)
              end
          | ESender, CLReceiverClaimed | EReceiver, CLSenderClaimed _ => RRej
          | _, CLInvalid | _, CLAlready => ROk (deliver x1 hid false)
          end
      end
  | ChannelEndClaimed _ e =>
      let mine := other_end (end_of_cap e) in
      match ent x mine with
      | Some EPending => ROk (set_ent x mine (Some EEstablished))
      | _ => RRej
      end
  | ItemReceived _ _ => match k_er x with Some EEstablished => ROk x | _ => RRej end
  | AddChannelCapacity _ _ => match k_es x with Some EEstablished => ROk x | _ => RRej end
  | _ => RRej
  end.

(* --- the broker takes the next message of connection c: the channel arms of Model.handle for
   cookie k with every connection alive, written with Model's own channel functions *)
Definition b_remove_end (y : csys) (e : chan_end) : cres :=
  match y_ch y with
  | None => COk y
  | Some ch =>
      match chan_close ch e with
      | CloseDrop => COk (y <| y_ch := None |>)
      | CloseNotify ch' o =>
          (* Broker::remove_channel_end: `if has o then notify else the channel is dropped` *)
          match y_cl y !! o with
          | Some _ => COk (push_down (y <| y_ch := Some ch' |>) o (ChannelEndClosed (y_k y) e))
          | None => COk (y <| y_ch := None |>)
          end
      | ClosePanic site => CBrokerPanic site
      end
  end.

Definition cbind (r : cres) (f : csys -> cres) : cres := match r with COk y => f y | x => x end.

Definition broker_msg (y : csys) (c : conn) (m : msg) : cres :=
  let k := y_k y in
  match m with
  | CloseChannelEnd s _ e =>
      match y_ch y with
      | None => COk (push_down y c (CloseChannelEndReply s R3Invalid))
      | Some ch =>
          let r := chan_close_result ch c e in
          let y1 := push_down y c (CloseChannelEndReply s r) in
          match r with R3Ok => b_remove_end y1 e | _ => COk y1 end
      end
  | ClaimChannelEnd s _ e =>
      match y_ch y with
      | None => COk (push_down y c (ClaimChannelEndReply s CLInvalid))
      | Some ch =>
          match chan_claim ch c e with
          | ClaimErr r => COk (push_down y c (ClaimChannelEndReply s r))
          | ClaimPanic site => CBrokerPanic site
          | ClaimOk ch' other r =>
              COk (push_down (push_down (y <| y_ch := Some ch' |>) c (ClaimChannelEndReply s r)) other (ChannelEndClaimed k e))
          end
      end
  | SendItem _ v =>
      match y_ch y with
      | None => COk y
      | Some ch =>
          match chan_send_item ch c with
          | ItemIgnore => COk y
          | ItemPanic site => CBrokerPanic site
          | ItemReceiverUnclaimed => cbind (b_remove_end y EReceiver) (fun y1 => b_remove_end y1 ESender)
          | ItemExhausted => b_remove_end y ESender
          | ItemForward ch' ro add =>
              let y1 := push_down (y <| y_ch := Some ch' |>) ro (ItemReceived k v) in
              COk (match add with Some a => push_down y1 c (AddChannelCapacity k a) | None => y1 end)
          end
      end
  | AddChannelCapacity _ cap =>
      match y_ch y with
      | None => COk y
      | Some ch =>
          match chan_add_capacity ch c cap with
          | AddIgnore => COk y
          | AddOverflow => b_remove_end y EReceiver
          | AddPanic site => CBrokerPanic site
          | AddUpdate ch' notify =>
              let y1 := y <| y_ch := Some ch' |> in
              COk (match notify with Some (so, n) => push_down y1 so (AddChannelCapacity k n) | None => y1 end)
          end
      end
  | _ => COk y
  end.

(* Broker::shutdown_connection, channel part: the ends owned by c are removed, sender first *)
Definition owned_by (c : conn) (e : end_state) : bool :=
  match e with Claimed o _ => bool_decide (o = c) | _ => false end.

Definition broker_disconnect (y : csys) (c : conn) : cres :=
  let y0 := y <| y_cl ::= delete c |> in
  cbind (match y_ch y0 with
         | Some ch => if owned_by c (ch_s ch) then b_remove_end y0 ESender else COk y0
         | None => COk y0 end)
    (fun y1 => match y_ch y1 with
               | Some ch => if owned_by c (ch_r ch) then b_remove_end y1 EReceiver else COk y1
               | None => COk y1 end).

(* --- the composed system: who moves is the schedule *)
Inductive cstep :=
| SApp (c : conn) (o : aop)
| SProc (c : conn)            (* client: next handle request *)
| SRecv (c : conn)            (* client: next message from the broker *)
| SBroker (c : conn)          (* broker: next message of connection c *)
| SDisconnect (c : conn).     (* the client went away (clean shutdown or not); its handles die with it *)

Definition step (fl : flags) (y : csys) (s : cstep) : cres :=
  match s with
  | SApp c o =>
      match y_cl y !! c with
      | Some x => match app_step fl x o with Some x' => COk (put y c x') | None => CDisabled end
      | None => CDisabled
      end
  | SProc c =>
      match y_cl y !! c with
      | Some x => match proc_step (y_k y) x with
                  | POk x' => COk (put y c x') | PPanic site => CPanic c site | PNone => CDisabled end
      | None => CDisabled
      end
  | SRecv c =>
      match y_cl y !! c with
      | Some x => match c_down x with
                  | [] => CDisabled
                  | m :: d => match crecv fl (c_core x) m with
                              | ROk k' => COk (put y c (x <| c_down := d |> <| c_core := k' |>))
                              | RRej => CReject c
                              | RPan site => CPanic c site
                              end
                  end
      | None => CDisabled
      end
  | SBroker c =>
      match y_cl y !! c with
      | Some x => match c_up x with
                  | m :: u => broker_msg (put y c (x <| c_up := u |>)) c m
                  | [] => CDisabled
                  end
      | None => CDisabled
      end
  | SDisconnect c =>
      match y_cl y !! c with Some _ => broker_disconnect y c | None => CDisabled end
  end.

(* a schedule is run to its end; a disabled step is skipped (so every list is a schedule) *)
Fixpoint run (fl : flags) (y : csys) (l : list cstep) : cres :=
  match l with
  | [] => COk y
  | s :: r => match step fl y s with
              | COk y' => run fl y' r
              | CDisabled => run fl y r
              | bad => bad
              end
  end.

(* the state right after client [c0] handled the CreateChannelReply for cookie k: its claimed end
   is Pending in its map, it holds the pending end and the unclaimed other end; [others] are the
   other connections *)
Definition created (k : uuid) (c0 : conn) (e : chan_end_cap) (others : list conn) : csys :=
  let mine := end_of_cap e in
  let x0 := cl0 <| c_core := set_ent core0 mine (Some EPending)
                               <| k_handles := {[ 0 := {| h_end := mine; h_kind := HClaimed false |};
                                                  1 := {| h_end := other_end mine; h_kind := HUnclaimed |} ]} |> |>
                <| c_nexth := 2 |> in
  {| y_k := k;
     y_ch := Some (match e with
                   | CSender => {| ch_s := Claimed c0 0; ch_r := Unclaimed |}
                   | CReceiver cap => {| ch_s := Unclaimed; ch_r := Claimed c0 cap |}
                   end);
     y_cl := <[c0 := x0]> (list_to_map ((fun c => (c, cl0)) <$> others)) |}.

(* ---------------------------------------------------------------- bus listeners, one cookie *)
(* the broker side is the listener arms of Model.handle: Start answers Ok only when the listener
   is not started, followed — in the same step — by the current events and CurrentFinished when
   the scope includes Current; Stop answers Ok only when started; Destroy removes. *)
Record lcore := {
  lc_v : option lst;                (* client: bus_listeners[k] *)
  lc_pstart : gmap N scope;         (* start_bus_listener: serial -> requested scope *)
  lc_pstop : gset N;
  lc_pdestroy : gset N }.

Record lsys := {
  z_b : option (option scope);     (* broker: None = destroyed, Some sc = l_scope *)
  z_c : lcore;
  z_next : N;
  z_up : list msg;
  z_down : list msg }.

#[export] Instance eta_lcore : Settable _ := settable! Build_lcore <lc_v; lc_pstart; lc_pstop; lc_pdestroy>.
#[export] Instance eta_lsys : Settable _ := settable! Build_lsys <z_b; z_c; z_next; z_up; z_down>.

Inductive lop :=
| LStart (sc : scope) | LStop | LDestroy      (* BusListener::start/stop/destroy or drop *)
| LBroker (n_current : nat)                   (* the broker takes the next request; n_current = how many current objects/services match *)
| LRecv
| LNewEvent.                                  (* an untagged EmitBusEvent (scope New) arrives in the stream *)

Inductive lcres := LcOk (z : lcore) | LcRej | LcPan (site : N).
Inductive lres := LOk (z : lsys) | LRej | LPan (site : N) | LDisabled.

(* the slice of [recv] for listener cookie k *)
Definition lrecv (z : lcore) (m : msg) : lcres :=
  match m with
  | StartBusListenerReply s r =>
      match lc_pstart z !! s with
      | None => LcRej
      | Some sc =>
          let z1 := z <| lc_pstart ::= delete s |> in
          match r with
          | STOk => match lc_v z with
                    | None => LcRej
                    | Some l => match l_start l sc with Some l' => LcOk (z1 <| lc_v := Some l' |>) | None => LcRej end
                    end
          | _ => LcOk z1
          end
      end
  | StopBusListenerReply s r =>
      if negb (bool_decide (s ∈ lc_pstop z)) then LcRej else
      let z1 := z <| lc_pstop ::= fun x => x ∖ {[s]} |> in
      match r with
      | SPOk => match lc_v z with
                | None => LcRej
                | Some l => match l_stop l with Some l' => LcOk (z1 <| lc_v := Some l' |>) | None => LcRej end
                end
      | _ => LcOk z1
      end
  | DestroyBusListenerReply s ok =>
      if negb (bool_decide (s ∈ lc_pdestroy z)) then LcRej else
      let z1 := z <| lc_pdestroy ::= fun x => x ∖ {[s]} |> in
      if ok then match lc_v z with Some _ => LcOk (z1 <| lc_v := None |>) | None => LcPan S_DESTROY_LISTENER_ABSENT end
      else LcOk z1
  | EmitBusEvent (Some _) _ =>
      match lc_v z with Some l => if l_emit_current l then LcOk z else LcRej | None => LcRej end
  | EmitBusEvent None _ => LcOk z
  | BusListenerCurrentFinished _ =>
      match lc_v z with
      | Some l => match l_current_finished l with Some l' => LcOk (z <| lc_v := Some l' |>) | None => LcRej end
      | None => LcRej
      end
  | _ => LcRej
  end.

(* what the broker appends to the client's stream, and its new listener state *)
Definition lbroker (k : uuid) (b : option (option scope)) (n_current : nat) (m : msg)
  : option (option scope) * list msg :=
  match m with
  | StartBusListener s _ sc =>
      match b with
      | None => (b, [StartBusListenerReply s STInvalid])
      | Some (Some _) => (b, [StartBusListenerReply s STAlready])
      | Some None =>
          (Some (Some sc),
           [StartBusListenerReply s STOk] ++
           (if includes_current sc
            then repeat (EmitBusEvent (Some k) (EvObjectCreated 0 0)) n_current ++ [BusListenerCurrentFinished k]
            else []))
      end
  | StopBusListener s _ =>
      match b with
      | None => (b, [StopBusListenerReply s SPInvalid])
      | Some sc => (Some None, [StopBusListenerReply s (match sc with Some _ => SPOk | None => SPNotStarted end)])
      end
  | DestroyBusListener s _ =>
      match b with
      | None => (b, [DestroyBusListenerReply s false])
      | Some _ => (None, [DestroyBusListenerReply s true])
      end
  | _ => (b, [])
  end.

Definition lstep (k : uuid) (z : lsys) (o : lop) : lres :=
  match o with
  | LStart sc =>
      LOk (z <| z_c; lc_pstart ::= <[z_next z := sc]> |> <| z_next ::= N.succ |>
             <| z_up ::= fun l => l ++ [StartBusListener (z_next z) k sc] |>)
  | LStop =>
      LOk (z <| z_c; lc_pstop ::= fun x => {[z_next z]} ∪ x |> <| z_next ::= N.succ |>
             <| z_up ::= fun l => l ++ [StopBusListener (z_next z) k] |>)
  | LDestroy =>
      LOk (z <| z_c; lc_pdestroy ::= fun x => {[z_next z]} ∪ x |> <| z_next ::= N.succ |>
             <| z_up ::= fun l => l ++ [DestroyBusListener (z_next z) k] |>)
  | LBroker n =>
      match z_up z with
      | m :: u => let '(b', outs) := lbroker k (z_b z) n m in
                  LOk (z <| z_up := u |> <| z_b := b' |> <| z_down ::= fun l => l ++ outs |>)
      | [] => LDisabled
      end
  | LRecv =>
      match z_down z with
      | m :: d => match lrecv (z_c z) m with
                  | LcOk c' => LOk (z <| z_down := d |> <| z_c := c' |>)
                  | LcRej => LRej
                  | LcPan site => LPan site
                  end
      | [] => LDisabled
      end
  | LNewEvent => LOk (z <| z_down ::= fun l => l ++ [EmitBusEvent None (EvObjectCreated 0 0)] |>)
  end.

Fixpoint lrun (k : uuid) (z : lsys) (l : list lop) : lres :=
  match l with
  | [] => LOk z
  | o :: r => match lstep k z o with
              | LOk z' => lrun k z' r
              | LDisabled => lrun k z r
              | bad => bad
              end
  end.

(* right after the client handled CreateBusListenerReply *)
Definition lcreated : lsys :=
  {| z_b := Some None;
     z_c := {| lc_v := Some {| ls_scope := None; ls_fin := false |}; lc_pstart := ∅; lc_pstop := ∅; lc_pdestroy := ∅ |};
     z_next := 0; z_up := []; z_down := [] |}.

(* ---------------------------------------------------------------- one service of this client *)
(* the slice of [recv] for service cookie sc: `services` membership, pending destroy_service
   requests, abort handles; the broker side is the DestroyService / CallFunction arms of
   Model.handle for a service whose object this client owns.  Call serials are chosen by the
   broker; [w_bnext] makes them distinct (SerialMap of the broker: no reuse below 2^32 calls). *)
Record wcore := {
  wc_in : bool;               (* services.contains_key(sc) *)
  wc_pdestroy : gset N;       (* destroy_service: serial -> this cookie *)
  wc_aborts : gset N }.       (* abort_call_handles *)

Record wsys := {
  w_b : bool;                 (* broker: the service exists *)
  w_c : wcore;
  w_next : N;
  w_bnext : N;
  w_up : list msg;
  w_down : list msg }.

#[export] Instance eta_wcore : Settable _ := settable! Build_wcore <wc_in; wc_pdestroy; wc_aborts>.
#[export] Instance eta_wsys : Settable _ := settable! Build_wsys <w_b; w_c; w_next; w_bnext; w_up; w_down>.

Inductive wcres := WcOk (z : wcore) | WcRej | WcPan (site : N).
Inductive wres := WOk (z : wsys) | WRej | WPan (site : N) | WDisabled.

Definition wrecv (alive : bool) (z : wcore) (m : msg) : wcres :=
  match m with
  | DestroyServiceReply s r =>
      if negb (bool_decide (s ∈ wc_pdestroy z)) then WcOk z else   (* `let Some(req) = .. else return` *)
      let z1 := z <| wc_pdestroy ::= fun x => x ∖ {[s]} |> in
      match r with
      | R3Ok => if wc_in z then WcOk (z1 <| wc_in := false |>) else WcPan S_DESTROY_SERVICE_ABSENT
      | R3Invalid => WcOk z1
      | R3Foreign => WcPan S_DESTROY_SERVICE_FOREIGN
      end
  | CallFunction b _ _ _ | CallFunction2 b _ _ _ _ =>
      if negb (wc_in z) then WcPan S_CALL_NO_SERVICE else
      if alive then
        if bool_decide (b ∈ wc_aborts z) then WcPan S_CALL_DUP_ABORT
        else WcOk (z <| wc_aborts ::= fun x => {[b]} ∪ x |>)
      else WcOk z
  | AbortFunctionCall b => WcOk (z <| wc_aborts ::= fun x => x ∖ {[b]} |>)
  | _ => WcRej
  end.

Inductive wop :=
| WoDestroy                       (* Service::destroy() or drop of the Service: any number of times *)
| WoBroker                        (* the broker handles the next DestroyService *)
| WoCall (f : N) (v : payload)    (* some caller's call reaches the broker while the service exists *)
| WoAbort (b : N)                 (* the broker tells the callee that a call was aborted *)
| WoObjectGone                    (* the owner destroyed the object: the broker drops the service silently *)
| WoFinish (b : N)                (* the client answered call b (req_call_function_reply removes the abort handle) *)
| WoRecv (alive : bool).

Definition wstep (sc : uuid) (z : wsys) (o : wop) : wres :=
  match o with
  | WoDestroy =>
      WOk (z <| w_c; wc_pdestroy ::= fun x => {[w_next z]} ∪ x |> <| w_next ::= N.succ |>
             <| w_up ::= fun l => l ++ [DestroyService (w_next z) sc] |>)
  | WoBroker =>
      match w_up z with
      | DestroyService s _ :: u =>
          WOk (z <| w_up := u |> <| w_b := false |>
                 <| w_down ::= fun l => l ++ [DestroyServiceReply s (if w_b z then R3Ok else R3Invalid)] |>)
      | _ :: u => WOk (z <| w_up := u |>)
      | [] => WDisabled
      end
  | WoCall f v =>
      if w_b z then WOk (z <| w_bnext ::= N.succ |> <| w_down ::= fun l => l ++ [CallFunction2 (w_bnext z) sc f None v] |>)
      else WDisabled
  | WoAbort b => WOk (z <| w_down ::= fun l => l ++ [AbortFunctionCall b] |>)
  | WoObjectGone => WOk (z <| w_b := false |>)
  | WoFinish b => WOk (z <| w_c; wc_aborts ::= fun x => x ∖ {[b]} |>)
  | WoRecv alive =>
      match w_down z with
      | m :: d => match wrecv alive (w_c z) m with
                  | WcOk c' => WOk (z <| w_down := d |> <| w_c := c' |>)
                  | WcRej => WRej
                  | WcPan site => WPan site
                  end
      | [] => WDisabled
      end
  end.

Fixpoint wrun (sc : uuid) (z : wsys) (l : list wop) : wres :=
  match l with
  | [] => WOk z
  | o :: r => match wstep sc z o with
              | WOk z' => wrun sc z' r
              | WDisabled => wrun sc z r
              | bad => bad
              end
  end.

(* right after the client handled CreateServiceReply(Ok sc) *)
Definition wcreated : wsys :=
  {| w_b := true; w_c := {| wc_in := true; wc_pdestroy := ∅; wc_aborts := ∅ |}; w_next := 0; w_bnext := 0;
     w_up := []; w_down := [] |}.
